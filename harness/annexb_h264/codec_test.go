//go:build verif && !js

package h264reader

// Codec-specific half of the C34 driver: H.264 (1 header byte; SEI = type 6).

import "math/rand"

const vaCodec = "h264"

// vaHeader expands the first symbol of a unit to a first header byte.
func vaHeader(sym string, rnd *rand.Rand) byte {
	switch sym {
	case "Z":
		return 0x00
	case "O":
		return 0x01
	case "S": // SEI: type 6, any nal_ref_idc
		return byte(rnd.Intn(4)<<5) | 6
	default: // any type but 6, byte neither 0x00 nor 0x01
		for {
			b := byte(rnd.Intn(256))
			if rnd.Intn(4) != 0 {
				b &= 0x7f // forbidden_zero_bit mostly 0
			}
			if b > 1 && b&0x1f != 6 {
				return b
			}
		}
	}
}

func vaIsSeiHeader(b byte) bool { return b&0x1f == 6 }

// vaSeiName names the kind of a unit by its first header byte for the line signature.
func vaSeiName(b byte) string {
	if vaIsSeiHeader(b) {
		return "sei"
	}
	return "other"
}

// vaProject records the fields the reader parsed for one returned unit.
func vaProject(nal *NAL) vkM {
	fz := 0
	if nal.ForbiddenZeroBit {
		fz = 1
	}
	return vkM{"d": vaDigest(nal.Data), "n": len(nal.Data), "h0": vaByteAt(nal.Data, 0), "h1": vaByteAt(nal.Data, 1),
		"fz": fz, "ty": int(nal.UnitType), "ref": int(nal.RefIdc), "lay": 0, "tid": 0}
}
