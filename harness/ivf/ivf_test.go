//go:build verif && !js

package ivfwriter

// Driver for C32: replays TLC-generated stream vectors (spec/Ivf.tla, simulation mode) on the real
// IVFWriter and IVFReader. Frames are packetised with pion/rtp's payloaders, written through every
// constructor / option of IVFWriter, read back with IVFReader and, independently, with a byte-level
// parse of the produced file. The driver records facts; the verdict is TLC's (spec/Ivf_Trace.tla).

import (
	"bytes"
	"crypto/sha1" //nolint:gosec
	"encoding/binary"
	"encoding/hex"
	"errors"
	"fmt"
	"io"
	"math"
	"os"
	"path/filepath"
	"testing"

	"github.com/pion/rtp"
	"github.com/pion/rtp/codecs"
	"github.com/pion/webrtc/v4/pkg/media/ivfreader"
)

type vfFrame struct {
	Key  bool `json:"key"`
	Size int  `json:"size"`
	Tsh  int  `json:"tsh"`
	Tsl  int  `json:"tsl"`
	Pad  bool `json:"pad"`
	Lost bool `json:"lost"`
}

type vfVec struct {
	ID          int       `json:"id"`
	Codec       string    `json:"codec"` // VP8 | VP9f | VP9n | AV1
	Mtu         int       `json:"mtu"`
	Num         uint32    `json:"num"`
	Den         uint32    `json:"den"`
	Direct      bool      `json:"direct"`
	Ctor        string    `json:"ctor"` // buf | memseek | file | filewith
	W           int       `json:"w"`
	H           int       `json:"h"`
	Frames      []vfFrame `json:"frames"`
	ModelFrames int       `json:"model_frames"`
}

// vfMemSeeker is an in-memory io.WriteSeeker (not an io.Closer).
type vfMemSeeker struct {
	buf []byte
	pos int64
}

func (m *vfMemSeeker) Write(p []byte) (int, error) {
	end := m.pos + int64(len(p))
	if end > int64(len(m.buf)) {
		m.buf = append(m.buf, make([]byte, end-int64(len(m.buf)))...)
	}
	copy(m.buf[m.pos:], p)
	m.pos = end

	return len(p), nil
}

func (m *vfMemSeeker) Seek(off int64, whence int) (int64, error) {
	switch whence {
	case io.SeekStart:
		m.pos = off
	case io.SeekCurrent:
		m.pos += off
	case io.SeekEnd:
		m.pos = int64(len(m.buf)) + off
	}
	if m.pos < 0 {
		return 0, errors.New("negative position")
	}

	return m.pos, nil
}

func vfHash(b []byte) string {
	s := sha1.Sum(b) //nolint:gosec

	return hex.EncodeToString(s[:8])
}

// vfInt projects an unsigned value to a TLC-representable integer (-1: does not fit in 31 bits).
func vfInt(u uint64) int {
	if u > math.MaxInt32 {
		return -1
	}

	return int(u)
}

func vfRandBytes(r interface{ Intn(int) int }, n int) []byte {
	b := make([]byte, n)
	if n > 1<<16 { // large frames: a cheap deterministic pattern with a random phase
		a, c := r.Intn(256), 1+2*r.Intn(100)
		for i := range b {
			b[i] = byte(i*c + i>>8 + i>>16 + a)
		}

		return b
	}
	for i := range b {
		b[i] = byte(r.Intn(256))
	}

	return b
}

func vfObu(typ byte, body []byte) []byte {
	out := []byte{typ<<3 | 0x02}
	n := uint(len(body))
	for {
		c := byte(n & 0x7f)
		n >>= 7
		if n != 0 {
			out = append(out, c|0x80)
		} else {
			out = append(out, c)

			break
		}
	}

	return append(out, body...)
}

// vfMakeFrame builds the bytes of one encoded frame of the given size class.
func vfMakeFrame(r interface{ Intn(int) int }, codec string, f vfFrame, withTD bool) []byte {
	size := f.Size
	if size < 1 {
		size = 1
	}
	switch codec {
	case "VP8":
		b := vfRandBytes(r, size)
		if f.Key {
			b[0] &^= 0x01 // frame tag: key frame
		} else {
			b[0] |= 0x01
		}

		return b
	case "VP9f":
		return vfRandBytes(r, size)
	case "VP9n":
		if f.Key {
			if size < 9 {
				size = 9
			}
			b := vfRandBytes(r, size)
			// frame marker 2, profile 0, show_existing 0, key frame, show_frame 1; sync code; color config; size
			copy(b, []byte{0x82, 0x49, 0x83, 0x42, 0x00})
			w, h := uint16(r.Intn(4000)), uint16(r.Intn(4000))
			// 4 bits of color config, then 16 bits width-1, 16 bits height-1 (bit aligned at +4)
			b[4] = byte(w >> 12)
			b[5] = byte(w >> 4)
			b[6] = byte(w<<4) | byte(h>>12)
			b[7] = byte(h >> 4)
			b[8] = byte(h<<4) | (b[8] & 0x0f)

			return b
		}
		b := vfRandBytes(r, size)
		b[0] = 0x86 // frame marker 2, profile 0, show_existing 0, non-key frame, show_frame 1

		return b
	default: // AV1: low-overhead OBU stream with size fields
		var out []byte
		if withTD {
			out = append(out, 0x12, 0x00)
		}
		if f.Key {
			out = append(out, vfObu(1, vfRandBytes(r, 8))...) // sequence header
		}
		if size > 40 && r.Intn(3) == 0 { // frame header + tile group instead of one frame OBU
			out = append(out, vfObu(3, vfRandBytes(r, 10))...)
			out = append(out, vfObu(4, vfRandBytes(r, size-10))...)
		} else {
			out = append(out, vfObu(6, vfRandBytes(r, size))...)
		}

		return out
	}
}

type vfExp struct {
	data []byte
	ts   uint32
}

func TestVerifIvf(t *testing.T) {
	vkSkipUnlessDriven(t)
	var vecs []vfVec
	vkLoadInput(t, &vecs)
	tr := vkOpenTrace(t)
	defer tr.Close()
	dir := t.TempDir()
	for _, v := range vecs {
		vfStream(t, tr, dir, v)
	}
}

func vfMime(codec string) string {
	switch codec {
	case "VP8":
		return mimeTypeVP8
	case "VP9f", "VP9n":
		return mimeTypeVP9
	default:
		return mimeTypeAV1
	}
}

func vfCodecName(codec string) string {
	if codec == "VP9f" || codec == "VP9n" {
		return "VP9"
	}

	return codec
}

//nolint:gocyclo,cyclop,gocognit,maintidx
func vfStream(t *testing.T, tr *vkTrace, dir string, v vfVec) {
	t.Helper()
	tr.Reset(v.ID)
	r := vkRand(int64(v.ID))
	picID := r.Intn(2) == 0
	withTD := r.Intn(2) == 0
	explicitCodec := v.Codec != "VP8" || r.Intn(2) == 0 // VP8 is also the default codec
	defRate := v.Num == 1 && v.Den == 30 && r.Intn(2) == 0
	defDim := v.W == 640 && v.H == 480 && r.Intn(2) == 0

	// ---- options
	var opts []Option
	if explicitCodec {
		opts = append(opts, WithCodec(vfMime(v.Codec)))
	}
	if !defDim {
		opts = append(opts, WithWidthAndHeight(uint16(v.W), uint16(v.H))) //nolint:gosec
	}
	if !defRate {
		opts = append(opts, WithFrameRate(v.Num, v.Den))
	}
	if v.Direct {
		opts = append(opts, WithDirectPTS())
	}

	// ---- constructor
	var (
		w        *IVFWriter
		err      error
		buf      *bytes.Buffer
		mem      *vfMemSeeker
		path     string
		seekable = true
	)
	switch v.Ctor {
	case "buf":
		buf = &bytes.Buffer{}
		seekable = false
		w, err = NewWith(buf, opts...)
	case "memseek":
		mem = &vfMemSeeker{}
		w, err = NewWith(mem, opts...)
	case "file":
		path = filepath.Join(dir, fmt.Sprintf("v%d.ivf", v.ID))
		w, err = New(path, opts...)
	default: // filewith
		path = filepath.Join(dir, fmt.Sprintf("w%d.ivf", v.ID))
		var f *os.File
		if f, err = os.Create(path); err == nil { //nolint:gosec
			w, err = NewWith(f, opts...)
		}
	}
	sigCfg := fmt.Sprintf("%s,%s,direct=%v,tb=%d/%d", v.Codec, v.Ctor, v.Direct, v.Num, v.Den)
	if err != nil {
		tr.Emit(vkM{"ev": "ctor_err", "t": v.ID, "sig": "ctor(" + sigCfg + ")", "err": err.Error()})

		return
	}

	// ---- packetise, write, compute what the writer is expected to assemble
	var payloader rtp.Payloader
	switch v.Codec {
	case "VP8":
		payloader = &codecs.VP8Payloader{EnablePictureID: picID}
	case "VP9f":
		payloader = &codecs.VP9Payloader{FlexibleMode: true, InitialPictureIDFn: func() uint16 { return uint16(r.Intn(0x7fff)) }} //nolint:gosec
	case "VP9n":
		payloader = &codecs.VP9Payloader{InitialPictureIDFn: func() uint16 { return uint16(r.Intn(0x7fff)) }} //nolint:gosec
	default:
		payloader = &codecs.AV1Payloader{}
	}
	premise := len(v.Frames) > 0 && v.Frames[0].Key
	seq := uint16(r.Intn(65536)) //nolint:gosec
	av1 := &codecs.AV1Depacketizer{}
	var exp []vfExp
	gateOpen := false
	werrs, npk, origSame := 0, 0, 0
	for _, f := range v.Frames {
		if f.Lost {
			premise = false
		}
		frame := vfMakeFrame(r, v.Codec, f, withTD)
		ts := uint32(f.Tsh)<<16 | uint32(f.Tsl)             //nolint:gosec
		payloads := payloader.Payload(uint16(v.Mtu), frame) //nolint:gosec
		if len(payloads) == 0 {
			premise = false // the payloader refused the frame: nothing is sent for it
		}
		var asm []byte
		if v.Codec == "AV1" {
			asm = []byte{0x12, 0x00}
		}
		for i, pl := range payloads {
			// trusted depacketisation of what was produced (the AV1 depacketiser is stateful: feed it everything)
			switch v.Codec {
			case "VP8":
				p := codecs.VP8Packet{}
				if _, e := p.Unmarshal(pl); e == nil {
					asm = append(asm, p.Payload...)
				}
			case "VP9f", "VP9n":
				p := codecs.VP9Packet{}
				if _, e := p.Unmarshal(pl); e == nil {
					asm = append(asm, p.Payload...)
				}
			default:
				if out, e := av1.Unmarshal(pl); e == nil {
					asm = append(asm, out...)
				}
			}
			if f.Lost && i == 0 {
				seq++

				continue
			}
			pkt := &rtp.Packet{Header: rtp.Header{Version: 2, PayloadType: 96, SequenceNumber: seq, Timestamp: ts,
				SSRC: 0x1234, Marker: i == len(payloads)-1}, Payload: pl}
			seq++
			npk++
			if e := w.WriteRTP(pkt); e != nil {
				werrs++
			}
			if f.Pad && i == 0 {
				pad := &rtp.Packet{Header: rtp.Header{Version: 2, PayloadType: 96, SequenceNumber: seq, Timestamp: ts,
					SSRC: 0x1234}, Payload: []byte{}}
				seq++
				if e := w.WriteRTP(pad); e != nil {
					werrs++
				}
			}
		}
		if len(payloads) == 0 {
			continue
		}
		// the model's key-frame gate (only matters outside the premise, where nothing is judged)
		if f.Key || v.Codec == "VP9f" {
			gateOpen = true
		}
		if gateOpen && !f.Lost {
			exp = append(exp, vfExp{data: asm, ts: ts})
			switch {
			case v.Codec == "AV1":
				// informational: does depacketise(payload(frame)) give the frame back (TD first, size fields kept)?
				if withTD && bytes.Equal(asm, frame) {
					origSame++
				}
			case bytes.Equal(asm, frame):
				origSame++
			}
		}
	}
	cerr := ""
	if e := w.Close(); e != nil {
		cerr = e.Error()
	}

	// ---- what was written
	var data []byte
	switch v.Ctor {
	case "buf":
		data = buf.Bytes()
	case "memseek":
		data = mem.buf
	default:
		data, err = os.ReadFile(path) //nolint:gosec
		if err != nil {
			t.Fatalf("read back %s: %v", path, err)
		}
		_ = os.Remove(path)
	}

	// independent byte-level parse (projector)
	raw := vkM{"ok": false, "sig": "", "version": -1, "hsize": -1, "fourcc": "", "w": -1, "h": -1, "den": -1, "num": -1,
		"nframes": -1}
	type rawFrame struct {
		n   int
		pts uint64
		h   string
	}
	var rawFrames []rawFrame
	trailing := 0
	if len(data) >= 32 {
		raw = vkM{"ok": true, "sig": string(data[0:4]), "version": int(binary.LittleEndian.Uint16(data[4:])),
			"hsize": int(binary.LittleEndian.Uint16(data[6:])), "fourcc": string(data[8:12]),
			"w": int(binary.LittleEndian.Uint16(data[12:])), "h": int(binary.LittleEndian.Uint16(data[14:])),
			"den": vfInt(uint64(binary.LittleEndian.Uint32(data[16:]))), "num": vfInt(uint64(binary.LittleEndian.Uint32(data[20:]))),
			"nframes": vfInt(uint64(binary.LittleEndian.Uint32(data[24:])))}
		pos := 32
		for pos+12 <= len(data) {
			n := int(binary.LittleEndian.Uint32(data[pos:]))
			if pos+12+n > len(data) {
				break
			}
			rawFrames = append(rawFrames, rawFrame{n: n, pts: binary.LittleEndian.Uint64(data[pos+4:]),
				h: vfHash(data[pos+12 : pos+12+n])})
			pos += 12 + n
		}
		trailing = len(data) - pos
	} else {
		trailing = len(data)
	}

	// IVFReader
	rd := vkM{"ok": false, "err": "", "fourcc": "", "w": -1, "h": -1, "den": -1, "num": -1, "nframes": -1}
	type gotFrame struct {
		n   int
		h   string
		rts uint64
		hn  int
	}
	var got []gotFrame
	var kept [][]byte
	rdEnd := "none"
	reader, hdr, rerr := ivfreader.NewWith(bytes.NewReader(data))
	if rerr != nil {
		rd["err"] = rerr.Error()
	} else {
		rd = vkM{"ok": true, "err": "", "fourcc": hdr.FourCC, "w": int(hdr.Width), "h": int(hdr.Height),
			"den": vfInt(uint64(hdr.TimebaseDenominator)), "num": vfInt(uint64(hdr.TimebaseNumerator)),
			"nframes": vfInt(uint64(hdr.NumFrames))}
		for len(got) < len(v.Frames)+len(rawFrames)+4 {
			payload, fh, e := reader.ParseNextFrame()
			if e != nil {
				if errors.Is(e, io.EOF) {
					rdEnd = "eof"
				} else {
					rdEnd = "err"
				}

				break
			}
			// the application keeps the frames it was given and looks at them when the file is read
			kept = append(kept, payload)
			got = append(got, gotFrame{n: len(payload), rts: fh.Timestamp, hn: vfInt(uint64(fh.FrameSize))})
		}
	}
	for i := range got {
		got[i].h = vfHash(kept[i])
	}

	tr.Emit(vkM{"ev": "hdr", "t": v.ID, "sig": "hdr(" + sigCfg + ")",
		"cfg": vkM{"codec": vfCodecName(v.Codec), "w": v.W, "h": v.H, "num": vfInt(uint64(v.Num)), "den": vfInt(uint64(v.Den))},
		"rd":  rd, "raw": raw, "seekable": seekable, "nfile": len(rawFrames), "premise": premise,
		"defaults": vkM{"codec": !explicitCodec, "rate": defRate, "dim": defDim}, "cerr": cerr})

	n := len(exp)
	if len(got) > n {
		n = len(got)
	}
	var first uint32
	if len(exp) > 0 {
		first = exp[0].ts
	}
	for k := 0; k < n; k++ {
		line := vkM{"ev": "frame", "t": v.ID, "k": k + 1, "premise": premise, "he": k < len(exp), "hg": k < len(got),
			"hf": k < len(rawFrames), "direct": v.Direct, "num": vfInt(uint64(v.Num)), "den": vfInt(uint64(v.Den)),
			"exp": vkM{"n": -1, "h": ""}, "got": vkM{"n": -1, "h": ""}, "hn": -1, "pts": -1, "rts": -1, "filen": -1,
			"fileh": "", "tsh": 0, "tsl": 0, "fh": int(first >> 16), "fl": int(first & 0xffff)}
		wrap := false
		if k < len(exp) {
			line["exp"] = vkM{"n": len(exp[k].data), "h": vfHash(exp[k].data)}
			line["tsh"], line["tsl"] = int(exp[k].ts>>16), int(exp[k].ts&0xffff)
			wrap = exp[k].ts < first
		}
		if k < len(got) {
			line["got"] = vkM{"n": got[k].n, "h": got[k].h}
			line["rts"] = vfInt(got[k].rts)
			line["hn"] = got[k].hn
		}
		if k < len(rawFrames) {
			line["pts"] = vfInt(rawFrames[k].pts)
			line["filen"], line["fileh"] = rawFrames[k].n, rawFrames[k].h
		}
		line["sig"] = fmt.Sprintf("frame(%s,wrap=%v)", sigCfg, wrap)
		tr.Emit(line)
	}
	tr.Emit(vkM{"ev": "end", "t": v.ID, "sig": "end(" + sigCfg + ")", "premise": premise, "nexp": len(exp),
		"ngot": len(got), "nfile": len(rawFrames), "rdend": rdEnd, "werrs": werrs, "trailing": trailing,
		"packets": npk, "model_frames": v.ModelFrames, "orig_same": origSame, "bytes": len(data)})
}
