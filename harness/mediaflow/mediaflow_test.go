//go:build verif && !js

package webrtc

// Driver for C23: every vector of spec/Media.tla on a real connected pair over loopback: RTP packets
// with seeded payloads are written to a TrackLocalStaticRTP; the receiving side records what
// TrackRemote.ReadRTP returns; the sender side records what it announced and negotiated.

import (
	"crypto/sha256"
	"encoding/hex"
	"fmt"
	"regexp"
	"strings"
	"sync"
	"testing"
	"time"

	"github.com/pion/rtp"
)

type vmVec struct {
	Codec   string `json:"codec"`
	Rtx     bool   `json:"rtx"`
	Bundle  string `json:"bundle"`
	Offerer string `json:"offerer"`
}

func vmMime(c string) string {
	switch c {
	case "opus":
		return MimeTypeOpus
	case "vp9":
		return MimeTypeVP9
	case "h264":
		return MimeTypeH264
	}
	return MimeTypeVP8
}

func vmAPI(t *testing.T, rtx bool) *API {
	t.Helper()
	me := &MediaEngine{}
	if rtx {
		if err := me.RegisterDefaultCodecs(); err != nil {
			t.Fatal(err)
		}
	} else {
		for _, c := range []RTPCodecParameters{
			{RTPCodecCapability: RTPCodecCapability{MimeType: MimeTypeOpus, ClockRate: 48000, Channels: 2, SDPFmtpLine: "minptime=10;useinbandfec=1"}, PayloadType: 111},
		} {
			if err := me.RegisterCodec(c, RTPCodecTypeAudio); err != nil {
				t.Fatal(err)
			}
		}
		for _, c := range []RTPCodecParameters{
			{RTPCodecCapability: RTPCodecCapability{MimeType: MimeTypeVP8, ClockRate: 90000}, PayloadType: 96},
			{RTPCodecCapability: RTPCodecCapability{MimeType: MimeTypeVP9, ClockRate: 90000, SDPFmtpLine: "profile-id=0"}, PayloadType: 98},
			{RTPCodecCapability: RTPCodecCapability{MimeType: MimeTypeH264, ClockRate: 90000,
				SDPFmtpLine: "level-asymmetry-allowed=1;packetization-mode=1;profile-level-id=42e01f"}, PayloadType: 102},
		} {
			if err := me.RegisterCodec(c, RTPCodecTypeVideo); err != nil {
				t.Fatal(err)
			}
		}
	}
	return NewAPI(WithMediaEngine(me))
}

func vmHash(b []byte) string { h := sha256.Sum256(b); return hex.EncodeToString(h[:8]) }

func TestVerifMediaFlow(t *testing.T) {
	vkSkipUnlessDriven(t)
	var vecs []vmVec
	vkLoadInput(t, &vecs)
	tr := vkOpenTrace(t)
	defer tr.Close()
	for id, v := range vecs {
		vmRun(t, tr, id, v)
	}
}

func vmRun(t *testing.T, tr *vkTrace, id int, v vmVec) { //nolint:cyclop
	t.Helper()
	tr.Reset(id)
	sender, err := vmAPI(t, v.Rtx).NewPeerConnection(Configuration{})
	if err != nil {
		t.Fatal(err)
	}
	receiver, err := vmAPI(t, v.Rtx).NewPeerConnection(Configuration{})
	if err != nil {
		t.Fatal(err)
	}
	defer closePairNow(t, sender, receiver)
	kind := RTPCodecTypeVideo
	if v.Codec == "opus" {
		kind = RTPCodecTypeAudio
	}
	trackID, streamID := fmt.Sprintf("track-%d", id), fmt.Sprintf("stream-%d", id)
	track, err := NewTrackLocalStaticRTP(RTPCodecCapability{MimeType: vmMime(v.Codec)}, trackID, streamID)
	if err != nil {
		t.Fatal(err)
	}
	rtpSender, err := sender.AddTrack(track)
	if err != nil {
		t.Fatal(err)
	}
	if v.Bundle != "single" {
		other := MimeTypeOpus
		if kind == RTPCodecTypeAudio {
			other = MimeTypeVP8
		}
		extra, err := NewTrackLocalStaticRTP(RTPCodecCapability{MimeType: other}, "extra-track", "extra-stream")
		if err != nil {
			t.Fatal(err)
		}
		if _, err = sender.AddTrack(extra); err != nil {
			t.Fatal(err)
		}
		if _, err = sender.CreateDataChannel("data", nil); err != nil {
			t.Fatal(err)
		}
	}
	var mu sync.Mutex
	got := 0
	var kept []*rtp.Packet
	remoteInfo := make(chan vkM, 4)
	receiver.OnTrack(func(tk *TrackRemote, _ *RTPReceiver) {
		if tk.ID() != trackID {
			return
		}
		remoteInfo <- vkM{"mime": strings.ToLower(tk.Codec().MimeType), "stream": tk.StreamID(), "track": tk.ID(),
			"pt": int(tk.PayloadType()), "ssrc": fmt.Sprint(uint32(tk.SSRC()))}
		for {
			p, _, err := tk.ReadRTP()
			if err != nil {
				return
			}
			// the application keeps what it was given (a jitter buffer does) and looks at it later
			mu.Lock()
			got++
			kept = append(kept, p)
			mu.Unlock()
		}
	})
	// signalling in the requested direction
	if v.Offerer == "receiver" {
		if _, err = receiver.AddTransceiverFromKind(kind, RTPTransceiverInit{Direction: RTPTransceiverDirectionRecvonly}); err != nil {
			t.Fatal(err)
		}
		if v.Bundle != "single" {
			k2 := RTPCodecTypeAudio
			if kind == RTPCodecTypeAudio {
				k2 = RTPCodecTypeVideo
			}
			_, _ = receiver.AddTransceiverFromKind(k2, RTPTransceiverInit{Direction: RTPTransceiverDirectionRecvonly})
			_, _ = receiver.CreateDataChannel("data-r", nil)
		}
		err = signalPairWithOptions(receiver, sender, withDisableInitialDataChannel(true))
	} else {
		err = signalPairWithOptions(sender, receiver, withDisableInitialDataChannel(true))
	}
	if err != nil {
		tr.Emit(vkM{"ev": "end", "t": id, "connected": false, "got": 0, "written": 0, "announced": []string{}, "pt": -1, "mime": "", "stream": "", "track": "",
			"rmime": "", "rstream": "", "rtrack": "", "rpt": -1, "haveRemote": false, "sig": "signal-failed"})
		return
	}
	connected := false
	for i := 0; i < 5000; i++ {
		if sender.ConnectionState() == PeerConnectionStateConnected && receiver.ConnectionState() == PeerConnectionStateConnected {
			connected = true
			break
		}
		time.Sleep(time.Millisecond)
	}
	// what the sender announced: the ssrc lines of the section that carries the track's msid
	announced := []string{}
	if ld := sender.LocalDescription(); ld != nil {
		for _, sec := range strings.Split(ld.SDP, "\r\nm=")[1:] {
			if strings.Contains(sec, "a=msid:"+streamID+" "+trackID) {
				for _, m := range regexp.MustCompile(`(?m)^a=ssrc:(\d+) `).FindAllStringSubmatch(sec, -1) {
					announced = append(announced, m[1])
				}
			}
		}
	}
	params := rtpSender.GetParameters()
	pt := -1
	for _, c := range params.Codecs { // the payload type negotiated for the codec of this track
		if strings.EqualFold(c.MimeType, vmMime(v.Codec)) {
			pt = int(c.PayloadType)

			break
		}
	}
	rng := vkRand(int64(id))
	written := 0
	for seq := 1; seq <= 400 && connected; seq++ {
		payload := make([]byte, 20+rng.Intn(900))
		_, _ = rng.Read(payload)
		if v.Codec == "vp8" { // a VP8 payload descriptor that depacketizers accept
			payload[0] = 0x10
		}
		if err := track.WriteRTP(&rtp.Packet{
			Header:  rtp.Header{Version: 2, SequenceNumber: uint16(seq), Timestamp: uint32(seq * 3000), Marker: seq%3 == 0}, //nolint:gosec
			Payload: payload,
		}); err == nil {
			written++
			tr.Emit(vkM{"ev": "write", "t": id, "rseq": seq, "pt": 0, "ssrc": "", "hash": vmHash(payload), "len": len(payload), "sig": "write"})
		}
		mu.Lock()
		n := got
		mu.Unlock()
		if n >= 30 {
			break
		}
		time.Sleep(5 * time.Millisecond)
	}
	time.Sleep(30 * time.Millisecond)
	mu.Lock()
	for _, p := range kept {
		tr.Emit(vkM{"ev": "rtp", "t": id, "rseq": int(p.SequenceNumber), "pt": int(p.PayloadType), "ssrc": fmt.Sprint(p.SSRC),
			"hash": vmHash(p.Payload), "len": len(p.Payload), "sig": "rtp(" + v.Codec + ")"})
	}
	kept = nil
	mu.Unlock()
	ri := vkM{"mime": "", "stream": "", "track": "", "pt": -1}
	haveRemote := false
	select {
	case ri = <-remoteInfo:
		haveRemote = true
	default:
	}
	mu.Lock()
	n := got
	mu.Unlock()
	tr.Emit(vkM{"ev": "end", "t": id, "connected": connected, "got": n, "written": written, "announced": announced, "pt": pt,
		"mime": strings.ToLower(vmMime(v.Codec)), "stream": streamID, "track": trackID,
		"rmime": ri["mime"], "rstream": ri["stream"], "rtrack": ri["track"], "rpt": ri["pt"], "haveRemote": haveRemote,
		"sig": fmt.Sprintf("end(codec=%s,rtx=%v,bundle=%s,offerer=%s)", v.Codec, v.Rtx, v.Bundle, v.Offerer)})
}
