//go:build verif && !js

package webrtc

// Driver for C23: every vector of spec/Media.tla on a real connected pair over loopback: RTP packets
// with seeded payloads are written to a TrackLocalStaticRTP; the receiving side records what
// TrackRemote.ReadRTP returns; the sender side records what it announced and negotiated.

import (
	"crypto/sha256"
	"encoding/hex"
	"errors"
	"fmt"
	"io"
	"regexp"
	"strings"
	"sync"
	"sync/atomic"
	"testing"
	"time"

	"github.com/pion/interceptor"
	"github.com/pion/rtcp"
	"github.com/pion/rtp"
)

type vmVec struct {
	Codec   string `json:"codec"`
	Rtx     bool   `json:"rtx"`
	Bundle  string `json:"bundle"`
	Offerer string `json:"offerer"`
}

func vmMime(c string) string {
	switch c {
	case "opus":
		return MimeTypeOpus
	case "vp9", "vp9p2":
		return MimeTypeVP9
	case "h264", "h264pm0", "h264high":
		return MimeTypeH264
	case "av1":
		return MimeTypeAV1
	}
	return MimeTypeVP8
}

// vmFmtp is the format of the variant the track asks for ("" = the codec's first registered form)
func vmFmtp(c string) string {
	switch c {
	case "vp9p2":
		return "profile-id=2"
	case "h264pm0":
		return "level-asymmetry-allowed=1;packetization-mode=0;profile-level-id=42001f"
	case "h264high":
		return "level-asymmetry-allowed=1;packetization-mode=1;profile-level-id=64001f"
	}
	return ""
}

// vmHeader gives packet seq one of the four header forms of spec/Media.tla (Hdr)
func vmHeader(seq int, h *rtp.Header) string {
	form := []string{"plain", "csrc", "ext", "csrc+ext"}[seq%4]
	if strings.Contains(form, "csrc") {
		// contributing sources of every shape: zero, small, one bit, ordinary, all ones; one or two of them
		h.CSRC = []uint32{[]uint32{0, 1, 0x00010000, 0xCAFE0000, 0x11111111, 0xFFFFFFFF}[(seq/4)%6]}
		if seq%8 >= 4 {
			h.CSRC = append(h.CSRC, 0xCAFE0000+uint32(seq)) //nolint:gosec
		}
	}
	if strings.Contains(form, "ext") {
		h.Extension = true
		h.ExtensionProfile = 0xBEDE
		_ = h.SetExtension(1+uint8(seq%3), []byte{byte(seq), byte(seq >> 3), byte(seq >> 5)}[:1+seq%3]) //nolint:gosec
	}
	return form
}

func vmAPI(t *testing.T, rtx bool) *API {
	t.Helper()
	me := &MediaEngine{}
	if rtx {
		if err := me.RegisterDefaultCodecs(); err != nil {
			t.Fatal(err)
		}
	} else {
		for _, c := range []RTPCodecParameters{
			{RTPCodecCapability: RTPCodecCapability{MimeType: MimeTypeOpus, ClockRate: 48000, Channels: 2, SDPFmtpLine: "minptime=10;useinbandfec=1"}, PayloadType: 111},
		} {
			if err := me.RegisterCodec(c, RTPCodecTypeAudio); err != nil {
				t.Fatal(err)
			}
		}
		for _, c := range []RTPCodecParameters{
			{RTPCodecCapability: RTPCodecCapability{MimeType: MimeTypeVP8, ClockRate: 90000}, PayloadType: 96},
			{RTPCodecCapability: RTPCodecCapability{MimeType: MimeTypeVP9, ClockRate: 90000, SDPFmtpLine: "profile-id=0"}, PayloadType: 98},
			{RTPCodecCapability: RTPCodecCapability{MimeType: MimeTypeH264, ClockRate: 90000,
				SDPFmtpLine: "level-asymmetry-allowed=1;packetization-mode=1;profile-level-id=42e01f"}, PayloadType: 102},
			{RTPCodecCapability: RTPCodecCapability{MimeType: MimeTypeVP9, ClockRate: 90000, SDPFmtpLine: vmFmtp("vp9p2")}, PayloadType: 100},
			{RTPCodecCapability: RTPCodecCapability{MimeType: MimeTypeH264, ClockRate: 90000, SDPFmtpLine: vmFmtp("h264pm0")}, PayloadType: 104},
			{RTPCodecCapability: RTPCodecCapability{MimeType: MimeTypeH264, ClockRate: 90000, SDPFmtpLine: vmFmtp("h264high")}, PayloadType: 112},
			{RTPCodecCapability: RTPCodecCapability{MimeType: MimeTypeAV1, ClockRate: 90000}, PayloadType: 45},
		} {
			if err := me.RegisterCodec(c, RTPCodecTypeVideo); err != nil {
				t.Fatal(err)
			}
		}
	}
	// the NACK generator/responder pair of the default configuration: with RTX negotiated the responder
	// answers a NACK on the repair stream
	ir := &interceptor.Registry{}
	if err := ConfigureNack(me, ir); err != nil {
		t.Fatal(err)
	}
	return NewAPI(WithMediaEngine(me), WithInterceptorRegistry(ir))
}

func vmHash(b []byte) string { h := sha256.Sum256(b); return hex.EncodeToString(h[:8]) }

func TestVerifMediaFlow(t *testing.T) {
	vkSkipUnlessDriven(t)
	var vecs []vmVec
	vkLoadInput(t, &vecs)
	tr := vkOpenTrace(t)
	defer tr.Close()
	for id, v := range vecs {
		vmRun(t, tr, id, v)
	}
}

func vmRun(t *testing.T, tr *vkTrace, id int, v vmVec) { //nolint:cyclop
	t.Helper()
	tr.Reset(id)
	sender, err := vmAPI(t, v.Rtx).NewPeerConnection(Configuration{})
	if err != nil {
		t.Fatal(err)
	}
	receiver, err := vmAPI(t, v.Rtx).NewPeerConnection(Configuration{})
	if err != nil {
		t.Fatal(err)
	}
	defer closePairNow(t, sender, receiver)
	kind := RTPCodecTypeVideo
	if v.Codec == "opus" {
		kind = RTPCodecTypeAudio
	}
	trackID, streamID := fmt.Sprintf("track-%d", id), fmt.Sprintf("stream-%d", id)
	track, err := NewTrackLocalStaticRTP(RTPCodecCapability{MimeType: vmMime(v.Codec), SDPFmtpLine: vmFmtp(v.Codec)}, trackID, streamID)
	if err != nil {
		t.Fatal(err)
	}
	rtpSender, err := sender.AddTrack(track)
	if err != nil {
		t.Fatal(err)
	}
	if v.Bundle != "single" {
		other := MimeTypeOpus
		if kind == RTPCodecTypeAudio {
			other = MimeTypeVP8
		}
		extra, err := NewTrackLocalStaticRTP(RTPCodecCapability{MimeType: other}, "extra-track", "extra-stream")
		if err != nil {
			t.Fatal(err)
		}
		if _, err = sender.AddTrack(extra); err != nil {
			t.Fatal(err)
		}
		if _, err = sender.CreateDataChannel("data", nil); err != nil {
			t.Fatal(err)
		}
	}
	go func() { // the application's RTCP read loop on the sender (what lets the NACK responder see requests)
		b := make([]byte, 1500)
		for {
			if _, _, e := rtpSender.Read(b); e != nil {
				return
			}
		}
	}()
	var mu sync.Mutex
	got, viaRtx := 0, 0
	var kept []*rtp.Packet
	var keptRtx []bool
	var readErrs []string
	var stopping atomic.Bool
	defer stopping.Store(true)
	remoteInfo := make(chan vkM, 4)
	receiver.OnTrack(func(tk *TrackRemote, _ *RTPReceiver) {
		if tk.ID() != trackID {
			return
		}
		remoteInfo <- vkM{"mime": strings.ToLower(tk.Codec().MimeType), "stream": tk.StreamID(), "track": tk.ID(),
			"pt": int(tk.PayloadType()), "ssrc": fmt.Sprint(uint32(tk.SSRC()))}
		for {
			p, attrs, err := tk.ReadRTP()
			if err != nil {
				if stopping.Load() || errors.Is(err, io.EOF) || errors.Is(err, io.ErrClosedPipe) {
					return
				}
				// something arrived on this track that is not an RTP packet: the sender wrote none such
				mu.Lock()
				readErrs = append(readErrs, err.Error())
				n := len(readErrs)
				mu.Unlock()
				if n > 50 {
					return
				}

				continue
			}
			isRtx := attrs != nil && attrs.Get(AttributeRtxSsrc) != nil
			// the application keeps what it was given (a jitter buffer does) and looks at it later
			mu.Lock()
			got++
			if isRtx {
				viaRtx++
			}
			kept = append(kept, p)
			keptRtx = append(keptRtx, isRtx)
			mu.Unlock()
		}
	})
	// signalling in the requested direction
	if v.Offerer == "receiver" {
		if _, err = receiver.AddTransceiverFromKind(kind, RTPTransceiverInit{Direction: RTPTransceiverDirectionRecvonly}); err != nil {
			t.Fatal(err)
		}
		if v.Bundle != "single" {
			k2 := RTPCodecTypeAudio
			if kind == RTPCodecTypeAudio {
				k2 = RTPCodecTypeVideo
			}
			_, _ = receiver.AddTransceiverFromKind(k2, RTPTransceiverInit{Direction: RTPTransceiverDirectionRecvonly})
			_, _ = receiver.CreateDataChannel("data-r", nil)
		}
		err = signalPairWithOptions(receiver, sender, withDisableInitialDataChannel(true))
	} else {
		err = signalPairWithOptions(sender, receiver, withDisableInitialDataChannel(true))
	}
	if err != nil {
		tr.Emit(vkM{"ev": "end", "t": id, "connected": false, "got": 0, "written": 0, "asked": 0, "askedForms": 0, "resent": 0, "rtxOn": v.Rtx, "announced": []string{}, "pt": -1, "mime": "", "stream": "", "track": "",
			"rmime": "", "rstream": "", "rtrack": "", "rpt": -1, "haveRemote": false, "sig": "signal-failed"})
		return
	}
	connected := false
	for i := 0; i < 5000; i++ {
		if sender.ConnectionState() == PeerConnectionStateConnected && receiver.ConnectionState() == PeerConnectionStateConnected {
			connected = true
			break
		}
		time.Sleep(time.Millisecond)
	}
	// what the sender announced: the ssrc lines of the section that carries the track's msid
	announced := []string{}
	if ld := sender.LocalDescription(); ld != nil {
		for _, sec := range strings.Split(ld.SDP, "\r\nm=")[1:] {
			if strings.Contains(sec, "a=msid:"+streamID+" "+trackID) {
				for _, m := range regexp.MustCompile(`(?m)^a=ssrc:(\d+) `).FindAllStringSubmatch(sec, -1) {
					announced = append(announced, m[1])
				}
			}
		}
	}
	params := rtpSender.GetParameters()
	pt := -1
	for _, c := range params.Codecs { // the payload type negotiated for the codec (and format) of this track
		if strings.EqualFold(c.MimeType, vmMime(v.Codec)) && (vmFmtp(v.Codec) == "" || strings.EqualFold(c.SDPFmtpLine, vmFmtp(v.Codec))) {
			pt = int(c.PayloadType)

			break
		}
	}
	rng := vkRand(int64(id))
	written := 0
	for seq := 1; seq <= 400 && connected; seq++ {
		payload := make([]byte, 20+rng.Intn(900))
		_, _ = rng.Read(payload)
		if v.Codec == "vp8" { // a VP8 payload descriptor that depacketizers accept
			payload[0] = 0x10
		}
		hdr := rtp.Header{Version: 2, SequenceNumber: uint16(seq), Timestamp: uint32(seq * 3000), Marker: seq%3 == 0} //nolint:gosec
		form := vmHeader(seq, &hdr)
		if err := track.WriteRTP(&rtp.Packet{Header: hdr, Payload: payload}); err == nil {
			written++
			tr.Emit(vkM{"ev": "write", "t": id, "rseq": seq, "pt": 0, "ssrc": "", "hash": vmHash(payload), "len": len(payload), "rtx": false,
				"sig": "write(" + form + ")"})
		}
		mu.Lock()
		n := got
		mu.Unlock()
		if n >= 30 {
			break
		}
		time.Sleep(5 * time.Millisecond)
	}
	time.Sleep(30 * time.Millisecond)
	// Retransmit: the receiver asks again for packets it already has (one of each header form at least); with
	// RTX negotiated the copies come over the repair stream and out of the same TrackRemote
	asked, askedForms := 0, 0
	if v.Rtx && connected {
		mu.Lock()
		var nacks []rtcp.NackPair
		var media uint32
		for _, p := range kept {
			if len(nacks) < 16 {
				nacks = append(nacks, rtcp.NackPair{PacketID: p.SequenceNumber})
				askedForms |= 1 << (p.SequenceNumber % 4)
				media = p.SSRC
			}
		}
		before := got
		mu.Unlock()
		asked = len(nacks)
		if asked > 0 {
			_ = receiver.WriteRTCP([]rtcp.Packet{&rtcp.TransportLayerNack{SenderSSRC: 1, MediaSSRC: media, Nacks: nacks}})
			// TrackRemote.Read looks at the repair stream when it is called, so the reader has to be woken by
			// further primary packets: the sender keeps writing
			for i := 0; i < 40; i++ {
				mu.Lock()
				n := viaRtx
				mu.Unlock()
				if n >= asked {
					break
				}
				seq := 1000 + i
				payload := make([]byte, 20+rng.Intn(900))
				_, _ = rng.Read(payload)
				if v.Codec == "vp8" {
					payload[0] = 0x10
				}
				hdr := rtp.Header{Version: 2, SequenceNumber: uint16(seq), Timestamp: uint32(seq * 3000)} //nolint:gosec
				form := vmHeader(seq, &hdr)
				if err := track.WriteRTP(&rtp.Packet{Header: hdr, Payload: payload}); err == nil {
					written++
					tr.Emit(vkM{"ev": "write", "t": id, "rseq": seq, "pt": 0, "ssrc": "", "hash": vmHash(payload), "len": len(payload), "rtx": false,
						"sig": "write(" + form + ")"})
				}
				time.Sleep(5 * time.Millisecond)
			}
			time.Sleep(30 * time.Millisecond)
			_ = before
		}
	}
	mu.Lock()
	for i, p := range kept {
		tr.Emit(vkM{"ev": "rtp", "t": id, "rseq": int(p.SequenceNumber), "pt": int(p.PayloadType), "ssrc": fmt.Sprint(p.SSRC),
			"hash": vmHash(p.Payload), "len": len(p.Payload), "rtx": keptRtx[i],
			"sig": fmt.Sprintf("rtp(%s,%s,rtx=%v)", v.Codec, []string{"plain", "csrc", "ext", "csrc+ext"}[int(p.SequenceNumber)%4], keptRtx[i])})
	}
	kept = nil
	resent := viaRtx
	for _, e := range readErrs {
		tr.Emit(vkM{"ev": "readerr", "t": id, "rseq": -1, "pt": -1, "ssrc": "", "hash": "", "len": 0, "rtx": false, "err": e,
			"sig": "readerr(" + v.Codec + ")"})
	}
	readErrs = nil
	stopping.Store(true)
	mu.Unlock()
	ri := vkM{"mime": "", "stream": "", "track": "", "pt": -1}
	haveRemote := false
	select {
	case ri = <-remoteInfo:
		haveRemote = true
	default:
	}
	mu.Lock()
	n := got
	mu.Unlock()
	tr.Emit(vkM{"ev": "end", "t": id, "connected": connected, "got": n, "written": written, "asked": asked, "askedForms": askedForms, "resent": resent, "rtxOn": v.Rtx, "announced": announced, "pt": pt,
		"mime": strings.ToLower(vmMime(v.Codec)), "stream": streamID, "track": trackID,
		"rmime": ri["mime"], "rstream": ri["stream"], "rtrack": ri["track"], "rpt": ri["pt"], "haveRemote": haveRemote,
		"sig": fmt.Sprintf("end(codec=%s,rtx=%v,bundle=%s,offerer=%s)", v.Codec, v.Rtx, v.Bundle, v.Offerer)})
}
