//go:build verif && !js

package ivfreader

// C37 adapter: IVF reader (NewWith, ParseNextFrame). The reader reads straight from the stream.

func vrParser(string) (bool, func([]byte) error) { return false, nil }

func vrFixChecksums(string, []byte) {}

func vrOpenReader(_ string, s *vrStream) (*vrReaderOps, error) {
	r, _, err := NewWith(s)
	if err != nil {
		return nil, err
	}

	return &vrReaderOps{
		next: func() error {
			_, _, e := r.ParseNextFrame()

			return e
		},
		buffered: func() int { return 0 },
	}, nil
}
