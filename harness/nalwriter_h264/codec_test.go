//go:build verif && !js

package h264writer

// Codec-specific half of the C35 driver: H.264.

import (
	"bytes"
	"encoding/binary"

	"github.com/pion/rtp/codecs"
	"github.com/pion/webrtc/v4/pkg/media/h264reader"
)

const vwCodec = "h264"

func vwType(nal []byte) int { return int(nal[0] & 0x1f) }

// vwKeyClass names the key-unit class of a type for the line signature ("" = not a key unit).
func vwKeyClass(ty int) string {
	switch ty {
	case 5:
		return "idr"
	case 7:
		return "sps"
	}
	return ""
}

func vwMakeUnit(u vwUnit, c vwCase, idx int) []byte {
	n := u.Len
	if n < 5 {
		n = 5
	}
	b := make([]byte, n)
	nri := 3
	if u.Ty == 1 || u.Ty == 6 {
		nri = idx % 4
	}
	b[0] = byte(nri<<5) | byte(u.Ty&0x1f)
	vwBody(b, 1, c.ID, idx, int64(c.ID)*131+int64(idx))
	return b
}

type vwPayloader interface {
	Payload(mtu uint16, payload []byte) [][]byte
}

func vwNewPayloader(agg bool) vwPayloader { return &codecs.H264Payloader{DisableStapA: !agg} }

// vwParsePackets lists the units the payloads carry (RFC 6184: single NAL unit, STAP-A, FU-A).
func vwParsePackets(payloads [][]byte) (out []vwCarried, perr string) {
	var fu []byte
	for _, p := range payloads {
		if len(p) == 0 {
			perr = "empty payload"
			continue
		}
		switch t := p[0] & 0x1f; {
		case t >= 1 && t <= 23:
			out = append(out, vwCarried{data: p, kind: "single"})
		case t == 24:
			off, i := 1, 0
			for off+2 <= len(p) {
				n := int(binary.BigEndian.Uint16(p[off:]))
				off += 2
				if off+n > len(p) {
					perr = "short STAP-A"
					break
				}
				kind := "aggN"
				if i == 0 {
					kind = "agg0"
				}
				out = append(out, vwCarried{data: p[off : off+n], kind: kind})
				off += n
				i++
			}
		case t == 28:
			if len(p) < 2 {
				perr = "short FU-A"
				continue
			}
			if p[1]&0x80 != 0 {
				fu = []byte{p[0]&0xe0 | p[1]&0x1f}
			}
			if fu == nil {
				perr = "FU-A without start"
				continue
			}
			fu = append(fu, p[2:]...)
			if p[1]&0x40 != 0 {
				out = append(out, vwCarried{data: fu, kind: "fu"})
				fu = nil
			}
		default:
			perr = "unexpected payload type"
		}
	}
	if fu != nil {
		perr = "unfinished FU-A"
	}
	return out, perr
}

func vwReadBack(data []byte, maxCalls int) (out []vkM, rerr string) {
	out = []vkM{}
	rd, err := h264reader.NewReaderWithOptions(bytes.NewReader(data), h264reader.WithIncludeSEI(true))
	if err != nil {
		return out, "new: " + err.Error()
	}
	for i := 0; i < maxCalls; i++ {
		nal, err := rd.NextNAL()
		if err != nil {
			return out, vwEOF(err)
		}
		out = append(out, vkM{"d": vwDigest(nal.Data), "ty": int(nal.UnitType)})
	}
	return out, "no-eof"
}
