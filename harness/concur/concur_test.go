//go:build verif && !js

package webrtc

// Driver for C40: runs the concurrent programs of spec/ConcProg.tla on real pairs, built with the race
// detector: worker goroutines issue track / transceiver / data-channel calls, getters, GetStats and
// local-track writes while one goroutine performs a serialized signaling exchange. Records whether
// every call returned; the race detector's reports are collected by the orchestrator from its log.

import (
	"fmt"
	"sync"
	"testing"
	"time"

	"github.com/pion/webrtc/v4/pkg/media"
)

type vxProg struct {
	W1, W2, W3, W4 []string
	NWorkers       int    `json:"nworkers"`
	Phase          string `json:"phase"`
	CloseAtEnd     bool   `json:"closeAtEnd"`
	Reps           int    `json:"reps"`
}

func TestVerifConcur(t *testing.T) {
	vkSkipUnlessDriven(t)
	var progs []vxProg
	vkLoadInput(t, &progs)
	tr := vkOpenTrace(t)
	defer tr.Close()
	for id, p := range progs {
		vxRun(t, tr, id, p)
		tr.Flush()
	}
}

func vxRun(t *testing.T, tr *vkTrace, id int, p vxProg) { //nolint:cyclop
	t.Helper()
	tr.Reset(id)
	a, b, err := newPair()
	if err != nil {
		t.Fatal(err)
	}
	track, err := NewTrackLocalStaticSample(RTPCodecCapability{MimeType: MimeTypeVP8}, "video", "pion")
	if err != nil {
		t.Fatal(err)
	}
	if _, err = a.AddTrack(track); err != nil {
		t.Fatal(err)
	}
	if _, err = a.CreateDataChannel("boot", nil); err != nil {
		t.Fatal(err)
	}
	release := make(chan struct{})
	var once sync.Once
	at := func(phase string) {
		if phase == p.Phase {
			once.Do(func() { close(release) })
		}
	}
	var n int
	var mu sync.Mutex
	do := func(call string) {
		mu.Lock()
		n++
		k := n
		mu.Unlock()
		switch call {
		case "AddTrack":
			tk, err := NewTrackLocalStaticSample(RTPCodecCapability{MimeType: MimeTypeOpus}, fmt.Sprintf("t%d", k), "s")
			if err == nil {
				_, _ = a.AddTrack(tk)
			}
		case "RemoveTrack":
			if s := a.GetSenders(); len(s) > 0 {
				_ = a.RemoveTrack(s[k%len(s)])
			}
		case "AddTransceiverFromKind":
			_, _ = a.AddTransceiverFromKind(RTPCodecTypeAudio)
		case "AddTransceiverFromTrack":
			tk, err := NewTrackLocalStaticSample(RTPCodecCapability{MimeType: MimeTypeVP8}, fmt.Sprintf("v%d", k), "s")
			if err == nil {
				_, _ = a.AddTransceiverFromTrack(tk)
			}
		case "CreateDataChannel":
			_, _ = a.CreateDataChannel(fmt.Sprintf("d%d", k), nil)
		case "GetTransceivers":
			for _, tr := range a.GetTransceivers() {
				_ = tr.Direction()
				_ = tr.Mid()
			}
		case "GetSenders":
			_ = a.GetSenders()
		case "GetReceivers":
			_ = a.GetReceivers()
		case "SignalingState":
			_ = a.SignalingState()
		case "ConnectionState":
			_ = a.ConnectionState()
		case "ICEConnectionState":
			_ = a.ICEConnectionState()
		case "ICEGatheringState":
			_ = a.ICEGatheringState()
		case "GetStats":
			_ = a.GetStats()
		case "WriteSample":
			_ = track.WriteSample(media.Sample{Data: []byte{0x10, 1, 2, 3}, Duration: time.Millisecond})
		}
	}
	var wg sync.WaitGroup
	workers := [][]string{p.W1, p.W2, p.W3, p.W4}
	for i := 0; i < p.NWorkers && i < len(workers); i++ {
		w := workers[i]
		wg.Add(1)
		go func() {
			defer wg.Done()
			<-release
			for r := 0; r < p.Reps; r++ {
				for _, c := range w {
					do(c)
				}
			}
		}()
	}
	wg.Add(1)
	go func() { // the serialized signaling exchange
		defer wg.Done()
		at("before-offer")
		offer, err := a.CreateOffer(nil)
		if err != nil {
			at("after-local-offer")
			at("after-remote-answer")
			at("connected")
			return
		}
		g := GatheringCompletePromise(a)
		_ = a.SetLocalDescription(offer)
		at("after-local-offer")
		<-g
		if err = b.SetRemoteDescription(*a.LocalDescription()); err == nil {
			if ans, err := b.CreateAnswer(nil); err == nil {
				g2 := GatheringCompletePromise(b)
				_ = b.SetLocalDescription(ans)
				<-g2
				_ = a.SetRemoteDescription(*b.LocalDescription())
			}
		}
		at("after-remote-answer")
		for i := 0; i < 3000 && a.ConnectionState() != PeerConnectionStateConnected; i++ {
			time.Sleep(time.Millisecond)
		}
		at("connected")
	}()
	returned := vkWithDeadline(60*time.Second, wg.Wait)
	closed := true
	if p.CloseAtEnd {
		closed = vkWithDeadline(30*time.Second, func() { _ = a.Close() })
	}
	tr.Emit(vkM{"ev": "prog", "t": id, "returned": returned, "closeReturned": closed, "workers": p.NWorkers, "phase": p.Phase,
		"sig": fmt.Sprintf("prog(workers=%d,phase=%s,close=%v)", p.NWorkers, p.Phase, p.CloseAtEnd)})
	done := vkWithDeadline(30*time.Second, func() {
		_ = a.Close()
		_ = b.Close()
	})
	_ = done
}
