//go:build verif && !js

package webrtc

// Driver for C04: replays TLC-simulated histories of spec/NegNeeded.tla on a real pair whose queued
// work is drained after every call, and records every invocation of OnNegotiationNeeded with the
// signaling state and closed flag read inside the handler.

import (
	"fmt"
	"strings"
	"testing"
	"time"
)

type vnStep struct {
	Op   string `json:"op"`
	Who  string `json:"who"`
	Kind string `json:"kind"`
}

type vnBehaviour struct {
	ID    int      `json:"id"`
	Steps []vnStep `json:"steps"`
}

func TestVerifNegNeeded(t *testing.T) {
	vkSkipUnlessDriven(t)
	var behaviours []vnBehaviour
	vkLoadInput(t, &behaviours)
	tr := vkOpenTrace(t)
	defer tr.Close()
	for _, bh := range behaviours {
		vnRun(t, tr, bh)
	}
}

func vnRun(t *testing.T, tr *vkTrace, bh vnBehaviour) { //nolint:cyclop
	t.Helper()
	tr.Reset(bh.ID)
	apc, bpc, err := newPair()
	if err != nil {
		t.Fatal(err)
	}
	defer closePairNow(t, apc, bpc)
	pcs := map[string]*PeerConnection{"A": apc, "B": bpc}
	other := map[string]string{"A": "B", "B": "A"}
	tracks := 0
	for name, pc := range pcs {
		name, pc := name, pc
		pc.OnNegotiationNeeded(func() {
			tr.Emit(vkM{"ev": "fire", "t": bh.ID, "who": name, "st": pc.SignalingState().String(), "closed": pc.isClosed.Load(),
				"needs": false, "drained": true, "sig": "fire(" + pc.SignalingState().String() + ")"})
		})
	}
	// the premise of the property: queued work of a call finishes before the next call. One Done() is
	// not enough: the worker re-runs the negotiation-needed check when the chain empties, which queues
	// a further operation after Done's own waiter ran. Drain until nothing is queued, running or pending.
	idle := func(pc *PeerConnection) bool {
		pc.ops.mu.Lock()
		defer pc.ops.mu.Unlock()
		return pc.ops.ops.Len() == 0 && pc.ops.busyCh == nil && !pc.updateNegotiationNeededFlagOnEmptyChain.Load()
	}
	drain := func() bool {
		ok := true
		for _, pc := range pcs {
			pc := pc
			quiet := false
			// in the middle of the first exchange the queued transport start waits for the answer: it cannot
			// finish before the next call, so do not wait long for it (the drained line then says so)
			limit := 8 * time.Second
			if apc.SignalingState() != SignalingStateStable || bpc.SignalingState() != SignalingStateStable {
				limit = 150 * time.Millisecond
			}
			for i := 0; i < 50 && !quiet; i++ {
				if !vkWithDeadline(limit, pc.ops.Done) {
					break
				}
				quiet = idle(pc)
				if !quiet {
					time.Sleep(200 * time.Microsecond)
					quiet = idle(pc)
				}
			}
			if !quiet {
				ok = false
			}
		}
		return ok
	}
	emitState := func(step string, drained bool) {
		for _, name := range []string{"A", "B"} {
			pc := pcs[name]
			tr.Emit(vkM{"ev": "drained", "t": bh.ID, "who": name, "st": pc.SignalingState().String(), "closed": pc.isClosed.Load(),
				"needs": false, "drained": drained, "sig": "drained(after=" + step + ")"})
		}
	}
	// a data channel needs a negotiation only if no application section is negotiated or being negotiated:
	// an offer or answer under way that has the section already covers it
	hasApp := func(pc *PeerConnection) bool {
		for _, d := range []*SessionDescription{pc.CurrentLocalDescription(), pc.PendingLocalDescription(),
			pc.CurrentRemoteDescription(), pc.PendingRemoteDescription()} {
			if d != nil && strings.Contains(d.SDP, "m=application") {
				return true
			}
		}
		return false
	}
	for _, st := range bh.Steps {
		pc := pcs[st.Who]
		step := st.Op
		switch st.Op {
		case "change":
			needs := true
			switch st.Kind {
			case "addTrack":
				tracks++
				trk, err := NewTrackLocalStaticSample(RTPCodecCapability{MimeType: MimeTypeOpus}, fmt.Sprintf("t%d", tracks), fmt.Sprintf("s%d", tracks))
				if err != nil {
					t.Fatal(err)
				}
				_, err = pc.AddTrack(trk)
				needs = err == nil
			case "addTransceiver":
				_, err := pc.AddTransceiverFromKind(RTPCodecTypeVideo)
				needs = err == nil
			case "createDC":
				needs = !hasApp(pc)
				tracks++
				_, err := pc.CreateDataChannel(fmt.Sprintf("d%d", tracks), nil)
				needs = needs && err == nil
			}
			step = "change:" + st.Kind
			tr.Emit(vkM{"ev": "change", "t": bh.ID, "who": st.Who, "st": pc.SignalingState().String(), "closed": pc.isClosed.Load(),
				"needs": needs, "drained": true, "sig": step})
		case "offer":
			q := pcs[other[st.Who]]
			offer, err := pc.CreateOffer(nil)
			if err != nil {
				break
			}
			tr.Emit(vkM{"ev": "offered", "t": bh.ID, "who": st.Who, "st": pc.SignalingState().String(), "closed": false,
				"needs": false, "drained": true, "sig": "offer"})
			done := GatheringCompletePromise(pc)
			if err = pc.SetLocalDescription(offer); err != nil {
				break
			}
			select {
			case <-done:
			case <-time.After(5 * time.Second):
			}
			_ = q.SetRemoteDescription(*pc.LocalDescription())
		case "pranswer": // the peer answers provisionally: have-local-pranswer there, have-remote-pranswer here
			q := pcs[other[st.Who]]
			pr, err := q.CreateAnswer(nil)
			if err != nil {
				break
			}
			pr.Type = SDPTypePranswer
			done := GatheringCompletePromise(q)
			if err = q.SetLocalDescription(pr); err != nil {
				break
			}
			select {
			case <-done:
			case <-time.After(5 * time.Second):
			}
			_ = pc.SetRemoteDescription(*q.LocalDescription())
		case "answer":
			q := pcs[other[st.Who]]
			answer, err := q.CreateAnswer(nil)
			if err != nil {
				break
			}
			tr.Emit(vkM{"ev": "completing", "t": bh.ID, "who": other[st.Who], "st": q.SignalingState().String(), "closed": false,
				"needs": false, "drained": true, "sig": "answer"})
			done := GatheringCompletePromise(q)
			if err = q.SetLocalDescription(answer); err != nil {
				break
			}
			select {
			case <-done:
			case <-time.After(5 * time.Second):
			}
			tr.Emit(vkM{"ev": "completing", "t": bh.ID, "who": st.Who, "st": pc.SignalingState().String(), "closed": false,
				"needs": false, "drained": true, "sig": "answer"})
			_ = pc.SetRemoteDescription(*q.LocalDescription())
		case "close":
			_ = pc.Close()
			tr.Emit(vkM{"ev": "closed", "t": bh.ID, "who": st.Who, "st": pc.SignalingState().String(), "closed": true,
				"needs": false, "drained": true, "sig": "close"})
		default:
			t.Fatalf("unknown op %q", st.Op)
		}
		emitState(step, drain())
	}
}
