//go:build verif && !js

package webrtc

// Driver for C13: runs every configuration vector of spec/Roles.tla (ICE-lite on each side, the
// answerer's configured DTLS role, the offer's a=setup) on a real pair and records the answer's
// a=setup values and the ICE and DTLS roles the two endpoints took.

import (
	"fmt"
	"regexp"
	"strings"
	"testing"
	"time"
)

type vrVec struct {
	V struct {
		OffLite  bool   `json:"offLite"`
		AnsLite  bool   `json:"ansLite"`
		AnsRole  string `json:"ansRole"`
		OffSetup string `json:"offSetup"`
	} `json:"v"`
}

var vrSetupRe = regexp.MustCompile(`(?m)^a=setup:(\S+)\r?$`)

func vrNewPC(t *testing.T, lite bool, role string) *PeerConnection {
	t.Helper()
	se := SettingEngine{}
	se.SetLite(lite)
	if lite {
		se.SetNetworkTypes([]NetworkType{NetworkTypeUDP4})
	}
	switch role {
	case "client":
		_ = se.SetAnsweringDTLSRole(DTLSRoleClient)
	case "server":
		_ = se.SetAnsweringDTLSRole(DTLSRoleServer)
	}
	pc, err := NewAPI(WithSettingEngine(se)).NewPeerConnection(Configuration{})
	if err != nil {
		t.Fatal(err)
	}
	return pc
}

func TestVerifRoles(t *testing.T) {
	vkSkipUnlessDriven(t)
	var vecs []vrVec
	vkLoadInput(t, &vecs)
	tr := vkOpenTrace(t)
	defer tr.Close()
	reps := vkEnvInt("VERIF_REPS", 1)
	id := 0
	for rep := 0; rep < reps; rep++ {
		for _, vec := range vecs {
			vrRun(t, tr, id, vec)
			id++
		}
	}
}

func vrRun(t *testing.T, tr *vkTrace, id int, vec vrVec) {
	t.Helper()
	tr.Reset(id)
	v := vec.V
	off := vrNewPC(t, v.OffLite, "")
	ans := vrNewPC(t, v.AnsLite, v.AnsRole)
	defer func() {
		_ = off.Close()
		_ = ans.Close()
	}()
	var answerSDP string
	err := signalPairWithModification(off, ans, func(s string) string {
		return strings.ReplaceAll(s, "a=setup:actpass", "a=setup:"+v.OffSetup)
	})
	if ld := ans.LocalDescription(); ld != nil {
		answerSDP = ld.SDP
	}
	setups := []string{}
	for _, m := range vrSetupRe.FindAllStringSubmatch(answerSDP, -1) {
		setups = append(setups, m[1])
	}
	// the queued startTransports fixes the ICE role at once and the DTLS role when ICE connected
	iceKnown, dtlsKnown := false, false
	deadline := time.Now().Add(time.Duration(vkEnvInt("VERIF_ROLE_WAIT_MS", 4000)) * time.Millisecond)
	if v.OffLite && v.AnsLite {
		deadline = time.Now().Add(300 * time.Millisecond) // two lite agents never connect
	}
	started := func(pc *PeerConnection) bool {
		st := pc.dtlsTransport.State()
		return st != DTLSTransportStateNew
	}
	for time.Now().Before(deadline) && err == nil {
		iceKnown = off.iceTransport.Role() != ICERole(0) && ans.iceTransport.Role() != ICERole(0)
		dtlsKnown = started(off) && started(ans)
		if iceKnown && dtlsKnown {
			break
		}
		time.Sleep(2 * time.Millisecond)
	}
	role := func(pc *PeerConnection) string {
		pc.dtlsTransport.lock.RLock()
		defer pc.dtlsTransport.lock.RUnlock()
		return pc.dtlsTransport.role().String()
	}
	line := vkM{
		"ev": "roles", "t": id, "offLite": v.OffLite, "ansLite": v.AnsLite, "ansRole": v.AnsRole, "offSetup": v.OffSetup,
		"signalErr": err != nil, "setups": setups, "iceKnown": iceKnown, "dtlsKnown": dtlsKnown,
		"offIce": off.iceTransport.Role().String(), "ansIce": ans.iceTransport.Role().String(),
		"offDtls": "", "ansDtls": "",
		"sig": fmt.Sprintf("roles(offLite=%v,ansLite=%v,ansRole=%s,offSetup=%s)", v.OffLite, v.AnsLite, v.AnsRole, v.OffSetup),
	}
	if dtlsKnown {
		line["offDtls"], line["ansDtls"] = role(off), role(ans)
	}
	tr.Emit(line)
}
