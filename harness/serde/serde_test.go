//go:build verif && !js

package webrtc

// Driver for C38: for every abstract vector of spec/Serde.tla build a concrete value of the named
// type, encode it (JSON / text / String() / PEM), decode the encoding, and record the same
// field-by-field projection of the original and of the decoded value. The driver does not judge;
// spec/Serde_Trace.tla does.

import (
	"crypto"
	"crypto/ecdsa"
	"crypto/elliptic"
	"crypto/rand"
	"crypto/rsa"
	"crypto/sha1" //nolint:gosec
	"crypto/x509"
	"crypto/x509/pkix"
	"encoding"
	"encoding/hex"
	"encoding/json"
	"fmt"
	"math"
	"math/big"
	mrand "math/rand"
	"reflect"
	"sort"
	"strconv"
	"strings"
	"testing"
	"time"
	"unicode/utf8"
)

type vsdVec struct {
	Fam string `json:"fam"`
	// iceserver
	Urls  string `json:"urls"`
	User  string `json:"user"`
	Cred  string `json:"cred"`
	Ctype string `json:"ctype"`
	// enum
	Enum     string `json:"enum"`
	Codec    string `json:"codec"`
	I        int    `json:"i"`
	Go       int    `json:"go"`
	Sentinel bool   `json:"sentinel"`
	Text     string `json:"text"`
	// stats
	GoType string `json:"gotype"`
	Tag    string `json:"tag"`
	Kind   string `json:"kind"`
	Fill   string `json:"fill"`
	// sdesc
	Type int    `json:"type"`
	SDP  string `json:"sdp"`
	// candinit
	Cand  string `json:"cand"`
	Mid   string `json:"mid"`
	MLine string `json:"mline"`
	Ufrag string `json:"ufrag"`
	// cert
	Key string `json:"key"`
	Tpl string `json:"tpl"`
}

type vsdCase struct {
	ID  int    `json:"id"`
	V   vsdVec `json:"v"`
	Exp bool   `json:"exp"`
	Rep int    `json:"rep"`
}

// ---- concrete representatives of the abstract classes -------------------------------------------

var vsdUnusual = []string{
	"é世界 Ж", "a\"b\\c/d", "<script>&amp;</script>", "line\nbreak\ttab\r", "  ",
	"\x00nul\x01", " leading and trailing ", "\U0001F642\U0001F643", "null", "{}", "[\"x\"]", "0", "�",
	"unknown", strings.Repeat("long-", 900), "‮right-to-left", "'single' `back`", "%s %d \\u0041",
}

const vsdSDPText = "v=0\r\no=- 4596489990601351948 2 IN IP4 127.0.0.1\r\ns=-\r\nt=0 0\r\na=group:BUNDLE 0\r\n" +
	"m=application 9 UDP/DTLS/SCTP webrtc-datachannel\r\nc=IN IP4 0.0.0.0\r\na=mid:0\r\na=sctp-port:5000\r\n"

// runes the seeded unusual strings are drawn from: controls, JSON and HTML metacharacters, combining
// marks, line/paragraph separators, BOM, replacement character, astral-plane characters (all valid UTF-8)
var vsdRunes = []rune{
	0, 1, 7, 8, 9, 10, 12, 13, 27, 31, 32, '"', '\\', '/', '<', '>', '&', '\'', '`', '%', '{', '}', '[', ']', ':', ',',
	'a', 'Z', '0', 0x7f, 0x80, 0xa0, 0xe9, 0x301, 0x200b, 0x2028, 0x2029, 0xfeff, 0xfffd, 0xffff, 0x4e16, 0x1f642,
	0x10ffff,
}

func vsdPick(r *mrand.Rand, rep int) string {
	if rep == 0 {
		return vsdUnusual[0]
	}
	if r.Intn(2) == 0 {
		return vsdUnusual[r.Intn(len(vsdUnusual))]
	}
	n := 1 + r.Intn(24)
	out := make([]rune, n)
	for i := range out {
		out[i] = vsdRunes[r.Intn(len(vsdRunes))]
	}

	return string(out)
}

func vsdStr(class, typ string, r *mrand.Rand, rep int) string {
	switch class {
	case "typ", "str", "one":
		if rep > 0 {
			return fmt.Sprintf("%s-%d", typ, r.Intn(1000))
		}

		return typ
	case "unusual", "unusualstr":
		return vsdPick(r, rep)
	default: // empty, emptystr, zero
		return ""
	}
}

// ---- projection: one token per value --------------------------------------------------------------

func vsdTokStr(s string) string {
	printable := len(s) <= 40 && utf8.ValidString(s)
	for _, c := range s {
		if c < 0x21 || c > 0x7e || c == '"' || c == '\\' {
			printable = false
		}
	}
	if printable {
		return "s:" + s
	}
	h := sha1.Sum([]byte(s)) //nolint:gosec

	return fmt.Sprintf("s#%s/%d", hex.EncodeToString(h[:6]), len(s))
}

// vsdTok renders a value so that two values are semantically equal iff their tokens are equal:
// nil and empty slices/maps coincide, a nil pointer differs from a pointer to a zero value,
// interface values carry their dynamic type, times are their instant.
func vsdTok(v reflect.Value) string {
	if !v.IsValid() {
		return "nil"
	}
	if t, ok := v.Interface().(time.Time); ok {
		return "t:" + strconv.FormatInt(t.UnixNano(), 10)
	}
	switch v.Kind() {
	case reflect.String:
		return vsdTokStr(v.String())
	case reflect.Bool:
		return strconv.FormatBool(v.Bool())
	case reflect.Int, reflect.Int8, reflect.Int16, reflect.Int32, reflect.Int64:
		return strconv.FormatInt(v.Int(), 10)
	case reflect.Uint, reflect.Uint8, reflect.Uint16, reflect.Uint32, reflect.Uint64:
		return strconv.FormatUint(v.Uint(), 10)
	case reflect.Float32, reflect.Float64:
		return "f:" + strconv.FormatFloat(v.Float(), 'g', -1, 64)
	case reflect.Ptr:
		if v.IsNil() {
			return "nil"
		}

		return "&" + vsdTok(v.Elem())
	case reflect.Interface:
		if v.IsNil() {
			return "nil"
		}

		return strings.ReplaceAll(v.Elem().Type().String(), " ", "") + ":" + vsdTok(v.Elem())
	case reflect.Slice, reflect.Array:
		parts := []string{}
		for i := 0; i < v.Len(); i++ {
			parts = append(parts, vsdTok(v.Index(i)))
		}

		return "[" + strings.Join(parts, ",") + "]"
	case reflect.Map:
		parts := []string{}
		for _, k := range v.MapKeys() {
			parts = append(parts, vsdTok(k)+"=>"+vsdTok(v.MapIndex(k)))
		}
		sort.Strings(parts)

		return "[" + strings.Join(parts, ",") + "]"
	case reflect.Struct:
		return "{" + strings.Join(vsdFields(v), ",") + "}"
	default:
		return "?" + v.Kind().String()
	}
}

// vsdFields projects a struct onto "Field=token" entries (exported fields only).
func vsdFields(v reflect.Value) []string {
	out := []string{}
	for i := 0; i < v.NumField(); i++ {
		f := v.Type().Field(i)
		if !f.IsExported() {
			continue
		}
		out = append(out, f.Name+"="+vsdTok(v.Field(i)))
	}

	return out
}

func vsdProj(x any) (string, []string) {
	v := reflect.ValueOf(x)
	if !v.IsValid() {
		return "", []string{}
	}
	if v.Kind() == reflect.Struct {
		return v.Type().Name(), vsdFields(v)
	}

	return v.Type().Name(), []string{vsdTok(v)}
}

// ---- enums ----------------------------------------------------------------------------------------

type vsdInt interface {
	~int | ~int32 | ~uint32 | ~uint8
}

type vsdEnum struct {
	enc func(int) (string, error)
	dec func(string) (int, error)
}

func vsdEJSON[T vsdInt]() vsdEnum {
	return vsdEnum{
		enc: func(k int) (string, error) { b, err := json.Marshal(T(k)); return string(b), err },
		dec: func(s string) (int, error) { var t T; err := json.Unmarshal([]byte(s), &t); return int(t), err },
	}
}

func vsdEText[T vsdInt]() vsdEnum {
	return vsdEnum{
		enc: func(k int) (string, error) {
			b, err := any(T(k)).(encoding.TextMarshaler).MarshalText()

			return string(b), err
		},
		dec: func(s string) (int, error) {
			var t T
			err := any(&t).(encoding.TextUnmarshaler).UnmarshalText([]byte(s))

			return int(t), err
		},
	}
}

func vsdEStr[T vsdInt](parse func(string) (T, error)) vsdEnum {
	return vsdEnum{
		enc: func(k int) (string, error) { return any(T(k)).(fmt.Stringer).String(), nil },
		dec: func(s string) (int, error) { t, err := parse(s); return int(t), err },
	}
}

func vsdNoErr[T any](f func(string) T) func(string) (T, error) {
	return func(s string) (T, error) { return f(s), nil }
}

var vsdEnums = map[string]vsdEnum{
	"SDPType":                 vsdEJSON[SDPType](),
	"SignalingState":          vsdEStr(vsdNoErr(newSignalingState)),
	"ICEConnectionState":      vsdEStr(vsdNoErr(NewICEConnectionState)),
	"ICEGatheringState":       vsdEStr(vsdNoErr(NewICEGatheringState)),
	"ICETransportState":       vsdEText[ICETransportState](),
	"ICERole":                 vsdEText[ICERole](),
	"ICECandidateType":        vsdEText[ICECandidateType](),
	"ICEProtocol":             vsdEStr(NewICEProtocol),
	"ICEComponent":            vsdEStr(vsdNoErr(newICEComponent)),
	"ICECredentialType":       vsdEJSON[ICECredentialType](),
	"ICETransportPolicy":      vsdEJSON[ICETransportPolicy](),
	"DTLSTransportState":      vsdEText[DTLSTransportState](),
	"SCTPTransportState":      vsdEStr(vsdNoErr(newSCTPTransportState)),
	"DataChannelState":        vsdEText[DataChannelState](),
	"PeerConnectionState":     vsdEStr(vsdNoErr(newPeerConnectionState)),
	"BundlePolicy":            vsdEJSON[BundlePolicy](),
	"RTCPMuxPolicy":           vsdEJSON[RTCPMuxPolicy](),
	"SDPSemantics":            vsdEJSON[SDPSemantics](),
	"NetworkType":             vsdEStr(NewNetworkType),
	"RTPTransceiverDirection": vsdEStr(vsdNoErr(NewRTPTransceiverDirection)),
}

// number of named values of the enum-typed fields of the Stats types (text codecs)
var vsdEnumMax = map[reflect.Type]int{
	reflect.TypeOf(ICERole(0)):            2,
	reflect.TypeOf(DTLSTransportState(0)): 5,
	reflect.TypeOf(ICETransportState(0)):  7,
	reflect.TypeOf(DataChannelState(0)):   4,
	reflect.TypeOf(ICECandidateType(0)):   4,
}

// ---- Stats ------------------------------------------------------------------------------------------

var vsdStats = map[string]reflect.Type{
	"CodecStats":                      reflect.TypeOf(CodecStats{}),
	"InboundRTPStreamStats":           reflect.TypeOf(InboundRTPStreamStats{}),
	"OutboundRTPStreamStats":          reflect.TypeOf(OutboundRTPStreamStats{}),
	"RemoteInboundRTPStreamStats":     reflect.TypeOf(RemoteInboundRTPStreamStats{}),
	"RemoteOutboundRTPStreamStats":    reflect.TypeOf(RemoteOutboundRTPStreamStats{}),
	"RTPContributingSourceStats":      reflect.TypeOf(RTPContributingSourceStats{}),
	"AudioSourceStats":                reflect.TypeOf(AudioSourceStats{}),
	"VideoSourceStats":                reflect.TypeOf(VideoSourceStats{}),
	"AudioPlayoutStats":               reflect.TypeOf(AudioPlayoutStats{}),
	"PeerConnectionStats":             reflect.TypeOf(PeerConnectionStats{}),
	"DataChannelStats":                reflect.TypeOf(DataChannelStats{}),
	"MediaStreamStats":                reflect.TypeOf(MediaStreamStats{}),
	"SenderAudioTrackAttachmentStats": reflect.TypeOf(SenderAudioTrackAttachmentStats{}),
	"SenderVideoTrackAttachmentStats": reflect.TypeOf(SenderVideoTrackAttachmentStats{}),
	"AudioSenderStats":                reflect.TypeOf(AudioSenderStats{}),
	"VideoSenderStats":                reflect.TypeOf(VideoSenderStats{}),
	"AudioReceiverStats":              reflect.TypeOf(AudioReceiverStats{}),
	"VideoReceiverStats":              reflect.TypeOf(VideoReceiverStats{}),
	"TransportStats":                  reflect.TypeOf(TransportStats{}),
	"ICECandidatePairStats":           reflect.TypeOf(ICECandidatePairStats{}),
	"ICECandidateStats":               reflect.TypeOf(ICECandidateStats{}),
	"CertificateStats":                reflect.TypeOf(CertificateStats{}),
	"SCTPTransportStats":              reflect.TypeOf(SCTPTransportStats{}),
}

var vsdFloats = []float64{
	math.MaxFloat64, math.SmallestNonzeroFloat64, math.Copysign(0, -1), 1e21, 0.1 + 0.2, -1.5e-7,
	float64(1<<53) + 2,
}

// vsdSet gives one field a value of the class "typ" or "ext" ("zero" leaves it alone).
func vsdSet(f reflect.Value, name, class string, r *mrand.Rand, rep int) {
	if class == "zero" {
		return
	}
	ext := class == "ext"
	if n, ok := vsdEnumMax[f.Type()]; ok {
		k := 1
		if ext {
			k = n
		} else if rep > 0 {
			k = 1 + r.Intn(n)
		}
		f.SetInt(int64(k))

		return
	}
	switch f.Kind() {
	case reflect.String:
		if ext {
			f.SetString(vsdPick(r, rep))
		} else {
			f.SetString(vsdStr("typ", "v-"+name, r, rep))
		}
	case reflect.Bool:
		f.SetBool(true)
	case reflect.Int, reflect.Int8, reflect.Int16, reflect.Int32, reflect.Int64:
		if ext {
			f.SetInt(-1 << (f.Type().Bits() - 1))
		} else {
			f.SetInt(-7 - int64(rep%5))
		}
	case reflect.Uint, reflect.Uint8, reflect.Uint16, reflect.Uint32, reflect.Uint64:
		if ext {
			f.SetUint(^uint64(0) >> (64 - f.Type().Bits()))
		} else {
			f.SetUint(42 + uint64(rep%7))
		}
	case reflect.Float32, reflect.Float64:
		if ext {
			f.SetFloat(vsdFloats[(rep+r.Intn(len(vsdFloats)))%len(vsdFloats)])
		} else {
			f.SetFloat(1234.5678 + float64(rep))
		}
	case reflect.Slice:
		n := 2
		if ext {
			n = rep % 2 // an empty non-nil slice, or one unusual element
		}
		s := reflect.MakeSlice(f.Type(), n, n)
		for i := 0; i < n; i++ {
			vsdSet(s.Index(i), name, class, r, rep)
		}
		f.Set(s)
	case reflect.Map:
		m := reflect.MakeMap(f.Type())
		if !ext || rep%2 == 1 {
			k := reflect.New(f.Type().Key()).Elem()
			vsdSet(k, name, class, r, rep)
			e := reflect.New(f.Type().Elem()).Elem()
			vsdSet(e, name, class, r, rep)
			m.SetMapIndex(k, e)
		}
		f.Set(m)
	case reflect.Ptr:
		p := reflect.New(f.Type().Elem())
		if !ext { // ext: a pointer to the zero value
			vsdSet(p.Elem(), name, class, r, rep)
		}
		f.Set(p)
	case reflect.Struct:
		for i := 0; i < f.NumField(); i++ {
			if f.Type().Field(i).IsExported() {
				vsdSet(f.Field(i), f.Type().Field(i).Name, class, r, rep)
			}
		}
	}
}

func vsdFillStats(rv reflect.Value, v vsdVec, r *mrand.Rand, rep int) []string {
	zeroEnums := []string{}
	for i := 0; i < rv.NumField(); i++ {
		sf := rv.Type().Field(i)
		f := rv.Field(i)
		switch {
		case sf.Name == "Type" && f.Kind() == reflect.String:
			f.SetString(v.Tag)

			continue
		case sf.Name == "Kind" && v.Kind != "":
			f.SetString(v.Kind)

			continue
		}
		class := map[string]string{"zero": "zero", "typ": "typ", "extreme": "ext"}[v.Fill]
		if v.Fill == "mix" {
			class = []string{"zero", "typ", "ext"}[r.Intn(3)]
		}
		vsdSet(f, sf.Name, class, r, rep)
		if _, ok := vsdEnumMax[f.Type()]; ok && f.Int() == 0 {
			zeroEnums = append(zeroEnums, sf.Name)
		}
	}

	return zeroEnums
}

// ---- certificates -------------------------------------------------------------------------------------

func vsdKey(kind string) (crypto.PrivateKey, error) {
	switch kind {
	case "ecdsa-p384":
		return ecdsa.GenerateKey(elliptic.P384(), rand.Reader)
	case "rsa-2048":
		return rsa.GenerateKey(rand.Reader, 2048)
	default:
		return ecdsa.GenerateKey(elliptic.P256(), rand.Reader)
	}
}

func vsdCertProj(c *Certificate) []string {
	fp, err := c.GetFingerprints()
	val := "err"
	if err == nil && len(fp) > 0 {
		val = fp[0].Algorithm + ":" + fp[0].Value
	}

	return []string{"fp=" + val, "exp=" + strconv.FormatInt(c.Expires().UnixNano(), 10)}
}

// ---- the driver ---------------------------------------------------------------------------------------

func vsdErr(err error) string {
	if err == nil {
		return ""
	}
	s := err.Error()
	if len(s) > 160 {
		s = s[:160]
	}

	return s
}

func vsdShort(s string) string {
	if len(s) > 160 {
		return s[:160] + "..."
	}

	return s
}

func TestVerifSerde(t *testing.T) {
	vkSkipUnlessDriven(t)
	var cases []vsdCase
	vkLoadInput(t, &cases)
	tr := vkOpenTrace(t)
	defer tr.Close()
	for i, c := range cases {
		if i%2000 == 0 {
			tr.Reset(c.ID)
		}
		vsdRun(t, tr, c)
	}
}

//nolint:gocyclo,cyclop,maintidx
func vsdRun(t *testing.T, tr *vkTrace, c vsdCase) {
	t.Helper()
	v := c.V
	r := vkRand(int64(c.ID)*31 + int64(c.Rep))
	line := vkM{
		"ev": "rt", "t": c.ID, "rep": c.Rep, "fam": v.Fam, "codec": "json", "sentinel": false, "exp": c.Exp,
		"encOk": false, "decOk": false, "encErr": "", "decErr": "", "enc": "",
		"otype": "", "dtype": "", "orig": []string{}, "dec": []string{}, "equals": true,
	}
	// record fills in the encode/decode outcome; dec is projected only when decoding succeeded
	record := func(orig any, enc []byte, encErr error, decode func() (any, error)) {
		line["otype"], line["orig"] = vsdProj(orig)
		line["encOk"], line["encErr"], line["enc"] = encErr == nil, vsdErr(encErr), vsdShort(string(enc))
		if encErr != nil {
			return
		}
		dec, decErr := decode()
		line["decOk"], line["decErr"] = decErr == nil, vsdErr(decErr)
		if decErr == nil {
			line["dtype"], line["dec"] = vsdProj(dec)
		}
	}

	switch v.Fam {
	case "iceserver":
		s := ICEServer{Username: vsdStr(v.User, "user", r, c.Rep)}
		switch v.Urls {
		case "empty":
			s.URLs = []string{}
		case "one":
			s.URLs = []string{"stun:stun.example.org:3478"}
		case "many":
			s.URLs = []string{"stun:stun.example.org", "turn:turn.example.org:3478?transport=tcp", "turns:[::1]:5349"}
		case "unusual":
			s.URLs = []string{vsdPick(r, c.Rep), "", vsdPick(r, c.Rep+1)}
		}
		switch v.Cred {
		case "str", "emptystr", "unusualstr":
			s.Credential = vsdStr(v.Cred, "secret", r, c.Rep)
		case "oauth":
			s.Credential = OAuthCredential{MACKey: vsdStr("typ", "mac", r, c.Rep), AccessToken: vsdStr("typ", "token", r, c.Rep)}
			if c.Rep > 1 {
				s.Credential = OAuthCredential{MACKey: vsdPick(r, c.Rep), AccessToken: vsdPick(r, c.Rep)}
			}
		case "oauthzero":
			s.Credential = OAuthCredential{}
		}
		if v.Ctype == "oauth" {
			s.CredentialType = ICECredentialTypeOauth
		}
		b, err := json.Marshal(s)
		record(s, b, err, func() (any, error) {
			var d ICEServer
			e := json.Unmarshal(b, &d)

			return d, e
		})
		line["sig"] = fmt.Sprintf("urls=%s,user=%s,cred=%s,ctype=%s", v.Urls, v.User, v.Cred, v.Ctype)

	case "enum":
		e, ok := vsdEnums[v.Enum]
		if !ok {
			t.Fatalf("enum %q is not registered in the driver", v.Enum)
		}
		line["codec"], line["sentinel"] = v.Codec, v.Sentinel
		enc, err := e.enc(v.Go)
		line["otype"], line["orig"] = v.Enum, []string{strconv.Itoa(v.Go)}
		line["encOk"], line["encErr"], line["enc"] = err == nil, vsdErr(err), enc
		if err == nil {
			// the value a decoder hands back is recorded whether or not it also reports an error
			k, derr := e.dec(enc)
			line["decOk"], line["decErr"] = derr == nil, vsdErr(derr)
			line["dtype"], line["dec"] = v.Enum, []string{strconv.Itoa(k)}
		}
		line["textAsModel"] = strings.Trim(enc, "\"") == v.Text
		line["sig"] = fmt.Sprintf("%s=%d(%s)", v.Enum, v.Go, v.Codec)

	case "stats":
		ty, ok := vsdStats[v.GoType]
		if !ok {
			t.Fatalf("stats type %q is not registered in the driver", v.GoType)
		}
		rv := reflect.New(ty).Elem()
		zeroEnums := vsdFillStats(rv, v, r, c.Rep)
		orig := rv.Interface()
		b, err := json.Marshal(orig)
		record(orig, b, err, func() (any, error) {
			d, e := UnmarshalStatsJSON(b)
			if e != nil {
				return nil, e
			}

			return d, nil
		})
		line["sig"] = fmt.Sprintf("%s/%s/zeroenums=[%s]", v.GoType, v.Tag, strings.Join(zeroEnums, ","))

	case "sdesc":
		sd := SessionDescription{Type: SDPType(v.Type)}
		switch v.SDP {
		case "typ":
			sd.SDP = vsdSDPText
			if c.Rep%2 == 1 {
				_, _ = sd.Unmarshal() // fills the unexported cache, which the encoding must ignore
			}
		case "unusual":
			sd.SDP = vsdPick(r, c.Rep)
		}
		b, err := json.Marshal(sd)
		record(struct {
			Type SDPType
			SDP  string
		}{sd.Type, sd.SDP}, b, err, func() (any, error) {
			var d SessionDescription
			e := json.Unmarshal(b, &d)

			return struct {
				Type SDPType
				SDP  string
			}{d.Type, d.SDP}, e
		})
		line["otype"] = "SessionDescription"
		if line["decOk"] == true {
			line["dtype"] = "SessionDescription"
		}
		line["sig"] = fmt.Sprintf("type=%d,sdp=%s", v.Type, v.SDP)

	case "candinit":
		ci := ICECandidateInit{Candidate: vsdStr(v.Cand, "candidate:1 1 udp 2130706431 192.0.2.1 5000 typ host", r, c.Rep)}
		if v.Mid != "nil" {
			s := vsdStr(v.Mid, "0", r, c.Rep)
			ci.SDPMid = &s
		}
		if v.MLine != "nil" {
			n := map[string]uint16{"zero": 0, "typ": 1, "max": math.MaxUint16}[v.MLine]
			ci.SDPMLineIndex = &n
		}
		if v.Ufrag != "nil" {
			s := vsdStr(v.Ufrag, "ufrag", r, c.Rep)
			ci.UsernameFragment = &s
		}
		b, err := json.Marshal(ci)
		record(ci, b, err, func() (any, error) {
			var d ICECandidateInit
			e := json.Unmarshal(b, &d)

			return d, e
		})
		line["sig"] = fmt.Sprintf("cand=%s,mid=%s,mline=%s,ufrag=%s", v.Cand, v.Mid, v.MLine, v.Ufrag)

	case "cert":
		line["codec"] = "pem"
		line["sig"] = fmt.Sprintf("%s,%s", v.Key, v.Tpl)
		key, err := vsdKey(v.Key)
		if err != nil {
			t.Fatalf("key generation: %v", err)
		}
		var cert *Certificate
		if v.Tpl == "generated" {
			cert, err = GenerateCertificate(key)
		} else {
			serial, _ := rand.Int(rand.Reader, new(big.Int).Lsh(big.NewInt(1), 100))
			cert, err = NewCertificate(key, x509.Certificate{
				SerialNumber: serial, Version: 2,
				Subject:   pkix.Name{CommonName: vsdPick(r, c.Rep), Organization: []string{"verif"}},
				Issuer:    pkix.Name{CommonName: "issuer"},
				NotBefore: time.Now().Add(-time.Duration(1+c.Rep) * time.Hour),
				NotAfter:  time.Date(2090+c.Rep%9, 12, 31, 23, 59, 59, 0, time.UTC),
			})
		}
		if err != nil {
			t.Fatalf("certificate construction: %v", err)
		}
		line["otype"], line["orig"] = "Certificate", vsdCertProj(cert)
		pem, err := cert.PEM()
		line["encOk"], line["encErr"], line["enc"] = err == nil, vsdErr(err), vsdShort(pem)
		if err == nil {
			back, derr := CertificateFromPEM(pem)
			line["decOk"], line["decErr"] = derr == nil, vsdErr(derr)
			if derr == nil {
				line["dtype"], line["dec"] = "Certificate", vsdCertProj(back)
				line["equals"] = cert.Equals(*back) && back.Equals(*cert)
			}
		}

	default:
		t.Fatalf("unknown family %q", v.Fam)
	}
	tr.Emit(line)
}
