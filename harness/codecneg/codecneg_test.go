//go:build verif && !js

package webrtc

// Driver for C15: replays TLC-generated negotiation vectors (spec/CodecNeg.tla): local codec
// registrations and a remote codec list. For each vector it
//   (1) registers the local codecs in a MediaEngine, builds the remote SDP, calls
//       updateFromRemoteDescription and records getCodecsByKind / getCodecByPayload(0..127);
//   (2) does the same through the public API: a real PeerConnection with that MediaEngine,
//       SetRemoteDescription(offer), then RTPReceiver/RTPSender.GetParameters().Codecs of every
//       transceiver.
// It records facts only; spec/CodecNeg_Trace.tla judges them.

import (
	"fmt"
	"strings"
	"testing"

	"github.com/pion/sdp/v3"
)

type vnCodec struct {
	Mime  string   `json:"mime"`
	Clock uint32   `json:"clock"`
	Ch    uint16   `json:"ch"`
	Line  string   `json:"line"`
	PT    uint8    `json:"pt"`
	FB    []string `json:"fb"`
}

type vnVector struct {
	ID     int       `json:"id"`
	Local  []vnCodec `json:"local"`
	Remote []vnCodec `json:"remote"`
	Pre    bool      `json:"pre"` // public-API run: local transceivers exist before the offer is applied
	API    bool      `json:"api"` // also run the public-API path
}

func vnKind(mime string) RTPCodecType {
	i := strings.IndexByte(mime, '/')
	if i < 0 {
		return RTPCodecTypeUnknown
	}

	return NewRTPCodecType(mime[:i])
}

func vnName(mime string) string { return mime[strings.IndexByte(mime, '/')+1:] }

func vnParams(c vnCodec) RTPCodecParameters {
	fb := []RTCPFeedback{}
	for _, s := range c.FB {
		f := RTCPFeedback{Type: s}
		if i := strings.IndexByte(s, ' '); i >= 0 {
			f = RTCPFeedback{Type: s[:i], Parameter: s[i+1:]}
		}
		fb = append(fb, f)
	}

	return RTPCodecParameters{
		RTPCodecCapability: RTPCodecCapability{
			MimeType: c.Mime, ClockRate: c.Clock, Channels: c.Ch, SDPFmtpLine: c.Line, RTCPFeedback: fb,
		},
		PayloadType: PayloadType(c.PT),
	}
}

func vnFromParams(c RTPCodecParameters) vkM {
	fb := []string{}
	for _, f := range c.RTCPFeedback {
		s := f.Type
		if f.Parameter != "" {
			s += " " + f.Parameter
		}
		fb = append(fb, s)
	}

	return vkM{"mime": c.MimeType, "clock": int(c.ClockRate), "ch": int(c.Channels), "line": c.SDPFmtpLine,
		"pt": int(c.PayloadType), "fb": fb}
}

func vnList(cs []RTPCodecParameters) []vkM {
	out := []vkM{}
	for _, c := range cs {
		out = append(out, vnFromParams(c))
	}

	return out
}

var vnKinds = []RTPCodecType{RTPCodecTypeAudio, RTPCodecTypeVideo}

// vnRemoteByKind: what the remote offers per kind, as it is written into the SDP (the mime type
// of an offered codec is <media>/<encoding name>).
func vnRemoteByKind(v vnVector) map[RTPCodecType][]vnCodec {
	out := map[RTPCodecType][]vnCodec{}
	for _, c := range v.Remote {
		k := vnKind(c.Mime)
		c.Mime = k.String() + "/" + vnName(c.Mime)
		if c.FB == nil {
			c.FB = []string{}
		}
		out[k] = append(out[k], c)
	}

	return out
}

const vnFingerprint = "a=fingerprint:sha-256 0F:74:31:25:CB:A2:13:EC:28:6F:6D:2C:61:FF:5D:C2:BC:B9:DB:3D:98:14:8D:1A:BB:EA:33:0C:A4:60:A8:8E\r\n"

// vnSDP builds the remote offer: one audio and/or one video section (audio first).
func vnSDP(remote map[RTPCodecType][]vnCodec) string {
	var mids []string
	var body strings.Builder
	mid := 0
	for _, k := range vnKinds {
		cs := remote[k]
		if len(cs) == 0 {
			continue
		}
		pts := []string{}
		for _, c := range cs {
			pts = append(pts, fmt.Sprint(c.PT))
		}
		fmt.Fprintf(&body, "m=%s 9 UDP/TLS/RTP/SAVPF %s\r\nc=IN IP4 0.0.0.0\r\n", k.String(), strings.Join(pts, " "))
		fmt.Fprintf(&body, "a=mid:%d\r\na=ice-ufrag:verifufrag\r\na=ice-pwd:verifpasswordverifpassword\r\n", mid)
		body.WriteString("a=setup:actpass\r\na=sendrecv\r\na=rtcp-mux\r\n")
		for _, c := range cs {
			if c.Ch != 0 {
				fmt.Fprintf(&body, "a=rtpmap:%d %s/%d/%d\r\n", c.PT, vnName(c.Mime), c.Clock, c.Ch)
			} else {
				fmt.Fprintf(&body, "a=rtpmap:%d %s/%d\r\n", c.PT, vnName(c.Mime), c.Clock)
			}
			if c.Line != "" {
				fmt.Fprintf(&body, "a=fmtp:%d %s\r\n", c.PT, c.Line)
			}
			for _, f := range c.FB {
				fmt.Fprintf(&body, "a=rtcp-fb:%d %s\r\n", c.PT, f)
			}
		}
		mids = append(mids, fmt.Sprint(mid))
		mid++
	}

	return "v=0\r\no=- 4596489990601351948 2 IN IP4 127.0.0.1\r\ns=-\r\nt=0 0\r\n" +
		"a=group:BUNDLE " + strings.Join(mids, " ") + "\r\n" + vnFingerprint + body.String()
}

func vnRegister(v vnVector) *MediaEngine {
	me := &MediaEngine{}
	for _, c := range v.Local {
		// an error (payload type already taken by a different codec) leaves the codec unregistered
		_ = me.RegisterCodec(vnParams(c), vnKind(c.Mime))
	}

	return me
}

func vnEsc(s string) string { return strings.ReplaceAll(s, " ", "_") }

func vnSigList(cs []vnCodec) string {
	parts := []string{}
	for _, c := range cs {
		parts = append(parts, fmt.Sprintf("%s:%d:%d:%s:%d:%s", c.Mime, c.Clock, c.Ch, vnEsc(c.Line), c.PT,
			vnEsc(strings.Join(c.FB, ","))))
	}

	return strings.Join(parts, "+")
}

func vnCodecsToM(cs []vnCodec) []vkM {
	out := []vkM{}
	for _, c := range cs {
		out = append(out, vnFromParams(vnParams(c)))
	}

	return out
}

func TestVerifCodecNeg(t *testing.T) {
	vkSkipUnlessDriven(t)
	var vectors []vnVector
	vkLoadInput(t, &vectors)
	tr := vkOpenTrace(t)
	defer tr.Close()

	for _, v := range vectors {
		tr.Reset(v.ID)
		remote := vnRemoteByKind(v)
		text := vnSDP(remote)
		sig := "L[" + vnSigList(v.Local) + "]R[" + vnSigList(v.Remote) + "]"

		// ---- (1) in-package: MediaEngine.updateFromRemoteDescription
		me := vnRegister(v)
		local := map[RTPCodecType][]RTPCodecParameters{
			RTPCodecTypeAudio: append([]RTPCodecParameters{}, me.audioCodecs...),
			RTPCodecTypeVideo: append([]RTPCodecParameters{}, me.videoCodecs...),
		}
		parsed := sdp.SessionDescription{}
		errText := ""
		if err := parsed.UnmarshalString(text); err != nil {
			errText = "sdp: " + err.Error()
		} else if err := me.updateFromRemoteDescription(parsed); err != nil {
			errText = err.Error()
		}
		kinds := []vkM{}
		for _, k := range []RTPCodecType{RTPCodecTypeVideo, RTPCodecTypeAudio} {
			kinds = append(kinds, vkM{
				"kind":    k.String(),
				"present": len(remote[k]) > 0,
				"local":   vnList(local[k]),
				"remote":  vnCodecsToM(remote[k]),
				"neg":     vnList(append([]RTPCodecParameters{}, me.getCodecsByKind(k)...)),
			})
		}
		lookup := []vkM{}
		for pt := 0; pt < 128; pt++ {
			if c, k, err := me.getCodecByPayload(PayloadType(pt)); err == nil { //nolint:gosec
				lookup = append(lookup, vkM{"pt": pt, "kind": k.String(), "c": vnFromParams(c)})
			}
		}
		tr.Emit(vkM{"ev": "neg", "t": v.ID, "sig": "neg:" + sig, "err": errText, "kinds": kinds, "lookup": lookup})

		// ---- (2) public API: SetRemoteDescription on a real PeerConnection
		if v.API {
			vnPublic(t, tr, v, remote, text, sig)
		}
	}
}

func vnPublic(t *testing.T, tr *vkTrace, v vnVector, remote map[RTPCodecType][]vnCodec, text, sig string) {
	t.Helper()
	pc, err := NewAPI(WithMediaEngine(vnRegister(v))).NewPeerConnection(Configuration{})
	if err != nil {
		t.Fatalf("NewPeerConnection: %v", err)
	}
	defer func() { _ = pc.Close() }()
	// the codecs this PeerConnection has registered: NewAPI's default interceptors add feedback
	// (nack, nack pli, transport-cc) to the registered codecs, so they are read back
	local := map[RTPCodecType][]RTPCodecParameters{
		RTPCodecTypeAudio: append([]RTPCodecParameters{}, pc.api.mediaEngine.audioCodecs...),
		RTPCodecTypeVideo: append([]RTPCodecParameters{}, pc.api.mediaEngine.videoCodecs...),
	}
	pre := []string{}
	if v.Pre {
		for _, k := range vnKinds {
			if len(local[k]) == 0 {
				continue
			}
			if _, err := pc.AddTransceiverFromKind(k,
				RTPTransceiverInit{Direction: RTPTransceiverDirectionSendrecv}); err == nil {
				pre = append(pre, k.String())
			}
		}
	}
	errText := ""
	if err := pc.SetRemoteDescription(SessionDescription{Type: SDPTypeOffer, SDP: text}); err != nil {
		errText = err.Error()
	}
	kinds := []vkM{}
	for _, k := range []RTPCodecType{RTPCodecTypeVideo, RTPCodecTypeAudio} {
		kinds = append(kinds, vkM{"kind": k.String(), "present": len(remote[k]) > 0, "local": vnList(local[k]),
			"remote": vnCodecsToM(remote[k]), "neg": []vkM{}})
	}
	uses := []vkM{}
	for _, tv := range pc.GetTransceivers() {
		k := tv.Kind()
		if r := tv.Receiver(); r != nil {
			uses = append(uses, vkM{"kind": k.String(), "mid": tv.Mid(), "src": "receiver",
				"codecs": vnList(r.GetParameters().Codecs)})
		}
		if s := tv.Sender(); s != nil {
			uses = append(uses, vkM{"kind": k.String(), "mid": tv.Mid(), "src": "sender",
				"codecs": vnList(s.GetParameters().Codecs)})
		}
	}
	mode := "fromoffer"
	if v.Pre {
		mode = "pre"
	}
	tr.Emit(vkM{"ev": "api", "t": v.ID, "sig": "api(" + mode + "):" + sig, "err": errText, "pre": pre,
		"kinds": kinds, "uses": uses})
}
