//go:build verif && !js

package h265reader

// Driver for C34 (the codec-specific half is codec_test.go): expands abstract framed streams (TLC vectors
// of spec/AnnexBVec.tla, optionally stretched to long units) to real bytes, delivers them to the real
// reader through an io.Reader with a given chunk-size pattern, and records what NextNAL returned.
// It does not judge.

import (
	"bytes"
	"crypto/sha256"
	"encoding/hex"
	"errors"
	"fmt"
	"io"
	"math/rand"
	"strings"
	"testing"
)

type vaUnit struct {
	W   int      `json:"w"`   // start code width 3 | 4
	Sy  []string `json:"sy"`  // abstract symbols Z O S H F
	Len int      `json:"len"` // if > len(sy): total length, extra adversarial bytes are inserted after the 1st symbol
}

type vaCase struct {
	ID    int      `json:"id"`
	Units []vaUnit `json:"units"`
}

type vaInput struct {
	Cases   []vaCase `json:"cases"`
	Chunks  []string `json:"chunks"`  // chunk patterns: "1","2","3","5","4096","rnd","cyc"
	EofData int      `json:"eofdata"` // n > 0: every n-th case is also delivered with the final chunk together with io.EOF
}

// vaBody expands a non-header symbol.
func vaBody(sym string, rnd *rand.Rand) byte {
	switch sym {
	case "Z":
		return 0
	case "O":
		return 1
	case "S": // a body byte that would be an SEI header if the reader mis-framed
		return vaHeader("S", rnd)
	default:
		for {
			b := byte(2 + rnd.Intn(254))
			if !vaIsSeiHeader(b) {
				return b
			}
		}
	}
}

// vaFiller returns n bytes full of zeros, ones and 0x03 but without 00 00 01, starting and ending with a
// byte > 1 (so that it cannot complete a start code with its neighbours).
func vaFiller(n int, rnd *rand.Rand) []byte {
	out := make([]byte, n)
	for i := range out {
		switch k := rnd.Intn(10); {
		case k < 3:
			out[i] = 0
		case k < 5:
			out[i] = 1
		case k < 6:
			out[i] = 3
		default:
			out[i] = byte(rnd.Intn(256))
		}
		if i >= 2 && out[i] == 1 && out[i-1] == 0 && out[i-2] == 0 {
			out[i] = 3
		}
	}
	if n > 0 {
		if out[0] < 2 {
			out[0] = 0x80
		}
		if out[n-1] < 2 {
			out[n-1] = 0x81
		}
	}
	return out
}

func vaExpand(u vaUnit, rnd *rand.Rand) []byte {
	var nal []byte
	for i, s := range u.Sy {
		if i == 0 {
			nal = append(nal, vaHeader(s, rnd))
		} else {
			nal = append(nal, vaBody(s, rnd))
		}
		if i == 0 && u.Len > len(u.Sy) {
			nal = append(nal, vaFiller(u.Len-len(u.Sy), rnd)...)
		}
	}
	return nal
}

func vaDigest(b []byte) string {
	if len(b) <= 6 {
		return hex.EncodeToString(b)
	}
	h := sha256.Sum256(b)
	return fmt.Sprintf("%d:%s", len(b), hex.EncodeToString(h[:6]))
}

func vaByteAt(b []byte, i int) int {
	if i < len(b) {
		return int(b[i])
	}
	return -1
}

// vaChunked delivers data in chunks whose sizes follow a pattern.
type vaChunked struct {
	data    []byte
	pat     string
	rnd     *rand.Rand
	i       int
	withEOF bool // return the final chunk together with io.EOF
}

func (c *vaChunked) size() int {
	c.i++
	switch c.pat {
	case "rnd":
		if c.rnd.Intn(8) == 0 {
			return 1 + c.rnd.Intn(5000)
		}
		return 1 + c.rnd.Intn(7)
	case "cyc":
		return []int{1, 2, 3, 5}[c.i%4]
	default:
		n := 0
		_, _ = fmt.Sscanf(c.pat, "%d", &n)
		if n < 1 {
			n = 1
		}
		return n
	}
}

func (c *vaChunked) Read(p []byte) (int, error) {
	if len(c.data) == 0 {
		return 0, io.EOF
	}
	n := c.size()
	if n > len(p) {
		n = len(p)
	}
	if n > len(c.data) {
		n = len(c.data)
	}
	copy(p, c.data[:n])
	c.data = c.data[n:]
	if c.withEOF && len(c.data) == 0 {
		return n, io.EOF
	}
	return n, nil
}

// vaRead runs the real reader to its end and projects what it returned.
func vaRead(stream io.Reader, includeSEI bool, maxCalls int) (out []vkM, errs string) {
	defer func() {
		if r := recover(); r != nil {
			errs = fmt.Sprintf("panic: %v", r)
		}
	}()
	out = []vkM{}
	// the application keeps the units it was given and looks at them when the stream has ended
	var kept []*NAL
	defer func() {
		for _, nal := range kept {
			out = append(out, vaProject(nal))
		}
	}()
	rd, err := NewReaderWithOptions(stream, WithIncludeSEI(includeSEI))
	if err != nil {
		return out, "new: " + err.Error()
	}
	for i := 0; i < maxCalls; i++ {
		nal, err := rd.NextNAL()
		if err != nil {
			if errors.Is(err, io.EOF) {
				return out, "EOF"
			}
			return out, err.Error()
		}
		kept = append(kept, nal)
	}
	return out, "no-eof"
}

func vaKey(out []vkM, errs string) string {
	var sb strings.Builder
	sb.WriteString(errs)
	for _, o := range out {
		fmt.Fprintf(&sb, "|%v,%v,%v,%v,%v,%v", o["d"], o["fz"], o["ty"], o["ref"], o["lay"], o["tid"])
	}
	return sb.String()
}

func TestVerifAnnexB(t *testing.T) {
	vkSkipUnlessDriven(t)
	var in vaInput
	vkLoadInput(t, &in)
	tr := vkOpenTrace(t)
	defer tr.Close()

	for _, c := range in.Cases {
		rnd := vkRand(int64(c.ID)*7919 + 264)
		tr.Reset(c.ID)
		var stream []byte
		nals := []vkM{}
		emul, tz := false, false
		last := "other"
		for _, u := range c.Units {
			nal := vaExpand(u, rnd)
			if u.W == 3 {
				stream = append(stream, 0, 0, 1)
			} else {
				stream = append(stream, 0, 0, 0, 1)
			}
			stream = append(stream, nal...)
			nals = append(nals, vkM{"d": vaDigest(nal), "n": len(nal), "h0": vaByteAt(nal, 0), "h1": vaByteAt(nal, 1)})
			emul = emul || bytes.Contains(nal, []byte{0, 0, 1})
			tz = tz || nal[len(nal)-1] == 0
			last = vaSeiName(nal[0])
		}
		for _, sei := range []bool{false, true} {
			for _, withEOF := range []bool{false, true} {
				if withEOF && (in.EofData <= 0 || c.ID%in.EofData != 0) {
					continue
				}
				// one run per chunk pattern; identical observations are merged
				runs := []vkM{}
				idx := map[string]int{}
				for k, pat := range in.Chunks {
					st := &vaChunked{data: stream, pat: pat, rnd: vkRand(int64(c.ID)*31 + int64(k)), withEOF: withEOF}
					out, errs := vaRead(st, sei, len(c.Units)+4)
					key := vaKey(out, errs)
					if j, ok := idx[key]; ok {
						runs[j]["ck"] = append(runs[j]["ck"].([]string), pat)
						continue
					}
					idx[key] = len(runs)
					runs = append(runs, vkM{"ck": []string{pat}, "err": errs, "out": out})
				}
				ev, seis := "rd", "off"
				if withEOF {
					ev = "rdeof"
				}
				if sei {
					seis = "on"
				}
				tr.Emit(vkM{"ev": ev, "t": c.ID, "codec": vaCodec, "sei": sei, "nals": nals, "runs": runs,
					"emul": emul, "tz": tz, "bytes": len(stream),
					"sig": fmt.Sprintf("%s:sei=%s:last=%s", vaCodec, seis, last)})
			}
		}
	}
}
