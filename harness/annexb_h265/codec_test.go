//go:build verif && !js

package h265reader

// Codec-specific half of the C34 driver: H.265 (2 header bytes; SEI = type 39 prefix / 40 suffix,
// the type is bits 6..1 of the first byte).

import "math/rand"

const vaCodec = "h265"

// vaHeader expands the first symbol of a unit to a first header byte.
func vaHeader(sym string, rnd *rand.Rand) byte {
	switch sym {
	case "Z":
		return 0x00 // TRAIL_N, layer id < 32
	case "O":
		return 0x01 // TRAIL_N, layer id >= 32
	case "S": // prefix or suffix SEI, either value of the layer-id high bit
		return byte((39+rnd.Intn(2))<<1) | byte(rnd.Intn(2))
	default: // any type but 39/40, byte neither 0x00 nor 0x01
		for {
			b := byte(rnd.Intn(256))
			if rnd.Intn(4) != 0 {
				b &= 0x7f // forbidden_zero_bit mostly 0
			}
			if b > 1 && !vaIsSeiHeader(b) {
				return b
			}
		}
	}
}

func vaIsSeiHeader(b byte) bool { ty := (b & 0x7e) >> 1; return ty == 39 || ty == 40 }

// vaSeiName names the kind of a unit by its first header byte for the line signature.
func vaSeiName(b byte) string {
	switch (b & 0x7e) >> 1 {
	case 39:
		return "psei"
	case 40:
		return "ssei"
	}
	return "other"
}

// vaProject records the fields the reader parsed for one returned unit.
func vaProject(nal *NAL) vkM {
	fz := 0
	if nal.ForbiddenZeroBit {
		fz = 1
	}
	return vkM{"d": vaDigest(nal.Data), "n": len(nal.Data), "h0": vaByteAt(nal.Data, 0), "h1": vaByteAt(nal.Data, 1),
		"fz": fz, "ty": int(nal.NalUnitType), "ref": 0, "lay": int(nal.LayerID), "tid": int(nal.TemporalIDPlus1)}
}
