//go:build verif && !js

package fmtp

// Driver for C17: replays TLC-generated pairs of codec descriptors (spec/CodecMatch.tla) into
// fmtp.Parse(...).Match(...), in both orders and for the case-changed mime types of both sides,
// and records the eight results of each pair as a code. It does not judge.

import (
	"fmt"
	"strconv"
	"strings"
	"testing"
)

type vfDesc struct {
	Mime  string `json:"mime"`
	Clock uint32 `json:"clock"`
	Ch    uint16 `json:"ch"`
	Line  string `json:"line"`
}

type vfRow struct {
	A  int   `json:"a"`
	Bs []int `json:"bs"`
}

type vfInput struct {
	Domain   []vfDesc `json:"domain"` // index i (1-based in rows) -> Domain[i-1]
	Rows     []vfRow  `json:"rows"`
	Defaults []vfDesc `json:"defaults"` // RegisterDefaultCodecs, read at run time by TestVerifCodecDefaults
}

// vfReal turns the model's spelling into the real string: "$" stands for U+017F (long s).
func vfReal(s string) string { return strings.ReplaceAll(s, "$", "ſ") }

// vfSwap changes the case of every ASCII letter.
func vfSwap(s string) string {
	b := []byte(s)
	for i, c := range b {
		switch {
		case c >= 'a' && c <= 'z':
			b[i] = c - 'a' + 'A'
		case c >= 'A' && c <= 'Z':
			b[i] = c - 'A' + 'a'
		}
	}

	return string(b)
}

// vfEsc makes a string usable inside a signature (no spaces, ASCII only).
func vfEsc(s string) string {
	var sb strings.Builder
	for _, c := range []byte(s) {
		if c <= ' ' || c >= 0x7f || c == '%' || c == '~' || c == '|' {
			fmt.Fprintf(&sb, "%%%02X", c)
		} else {
			sb.WriteByte(c)
		}
	}

	return sb.String()
}

func vfSig(d vfDesc) string {
	return vfEsc(vfReal(d.Mime)) + "|" + strconv.Itoa(int(d.Clock)) + "|" + strconv.Itoa(int(d.Ch)) + "|" + vfEsc(d.Line)
}

// vfCls is the class of a descriptor used in violation signatures: mime type in lower-case ASCII,
// clock rate, channels (the fmtp line is left to the detail).
func vfCls(d vfDesc) string {
	return vfEsc(strings.ToLower(vfReal(d.Mime))) + "|" + strconv.Itoa(int(d.Clock)) + "|" + strconv.Itoa(int(d.Ch))
}

func vfMatch(a, b vfDesc, swapA, swapB bool) bool {
	ma, mb := vfReal(a.Mime), vfReal(b.Mime)
	if swapA {
		ma = vfSwap(ma)
	}
	if swapB {
		mb = vfSwap(mb)
	}
	// every evaluation parses both descriptions afresh: the observation point is
	// fmtp.Parse(mime, clock, channels, line).Match(fmtp.Parse(...))
	return Parse(ma, a.Clock, a.Ch, a.Line).Match(Parse(mb, b.Clock, b.Ch, b.Line))
}

// vfResults keeps the eight values pion returned for one pair, in the order of the bits of the
// recorded code (CodecOps.tla): a.Match(b), b.Match(a), a^.Match(b), b.Match(a^), a.Match(b^),
// b^.Match(a), a^.Match(b^), b^.Match(a^), x^ = x with the case of its mime type changed.
func vfResults(a, b vfDesc) [8]bool {
	return [8]bool{
		vfMatch(a, b, false, false), vfMatch(b, a, false, false),
		vfMatch(a, b, true, false), vfMatch(b, a, false, true),
		vfMatch(a, b, false, true), vfMatch(b, a, true, false),
		vfMatch(a, b, true, true), vfMatch(b, a, true, true),
	}
}

// vfCode packs the eight retained results into one integer (lossless; nothing is compared here).
func vfCode(r [8]bool) int {
	code := 0
	for i, v := range r {
		if v {
			code |= 1 << i
		}
	}

	return code
}

func TestVerifFmtp(t *testing.T) {
	vkSkipUnlessDriven(t)
	var in vfInput
	vkLoadInput(t, &in)
	tr := vkOpenTrace(t)
	defer tr.Close()

	sigs := make([]string, len(in.Domain))
	cls := make([]string, len(in.Domain))
	for i, d := range in.Domain {
		sigs[i], cls[i] = vfSig(d), vfCls(d)
	}
	tr.Emit(vkM{"ev": "domain", "t": 0, "sig": "domain", "n": len(in.Domain), "sigs": sigs, "cls": cls})

	for _, r := range in.Rows {
		if r.A < 1 || r.A > len(in.Domain) {
			t.Fatalf("row index %d out of range", r.A)
		}
		a := in.Domain[r.A-1]
		results := make([][8]bool, len(r.Bs)) // what pion returned, kept until the row is complete
		for k, j := range r.Bs {
			if j < 1 || j > len(in.Domain) {
				t.Fatalf("partner index %d out of range", j)
			}
			results[k] = vfResults(a, in.Domain[j-1])
		}
		codes := make([]int, len(results))
		for k := range results {
			codes[k] = vfCode(results[k])
		}
		bs := r.Bs
		if bs == nil {
			bs = []int{}
		}
		tr.Emit(vkM{"ev": "row", "t": r.A, "sig": sigs[r.A-1], "a": r.A, "bs": bs, "codes": codes})
	}

	for k, d := range in.Defaults {
		self := vfMatch(d, d, false, false)
		tr.Emit(vkM{"ev": "default", "t": k, "sig": "default:" + vfSig(d), "self": self})
	}
}
