//go:build verif && !js

package webrtc

// Driver for C26: replays the RTX packet layouts enumerated by TLC (spec/Rtx.tla, Rtx_Vec.cfg),
// filled with seeded bytes, into a real RTPReceiver whose primary and repair interceptors are
// channel-fed fakes (the way pion's own rtpreceiver_test.go does), and records what
// TrackRemote.Read delivers. The driver does not judge: it writes the parsed view of the packet
// that was sent and of the packet that was read (spec/Rtx_Trace.tla evaluates the predicates).

import (
	"crypto/sha256"
	"encoding/binary"
	"encoding/hex"
	"fmt"
	"io"
	"math/rand"
	"os"
	"sync/atomic"
	"testing"
	"time"

	"github.com/pion/interceptor"
)

type vrVec struct {
	ID    int    `json:"id"`
	CC    int    `json:"cc"`
	X     int    `json:"x"`
	Prof  string `json:"prof"`
	XL    int    `json:"xl"`
	Pad   int    `json:"pad"`
	PL    int    `json:"pl"`
	PLMax int    `json:"plmax"`
	M     int    `json:"m"`
	Len   int    `json:"len"`
	Fill  int    `json:"fill"`
}

const (
	vrPrimaryPT   = 96
	vrPrimarySSRC = 1111
	vrRtxSSRC     = 2222
)

func vrPick32(rng *rand.Rand) uint32 {
	switch rng.Intn(4) {
	case 0:
		return 0
	case 1:
		return 0xFFFFFFFF
	}
	return rng.Uint32()
}

func vrPick16(rng *rand.Rand) uint16 {
	switch rng.Intn(4) {
	case 0:
		return 0
	case 1:
		return 0xFFFF
	}
	return uint16(rng.Intn(65536)) //nolint:gosec
}

// vrBuild builds the RTX packet of a layout. Filling 0 is the plain one (RTX payload type 97,
// the repair stream's own SSRC); the others take every free field from the seeded generator,
// with the boundary values 0 and all-ones over-represented.
func vrBuild(v vrVec, rng *rand.Rand) []byte {
	hl := 12 + 4*v.CC
	if v.X == 1 {
		hl += 4 + 4*v.XL
	}
	pkt := make([]byte, hl+v.PL+v.Pad)
	pkt[0] = 0x80 | byte(v.X<<4) | byte(v.CC)
	if v.Pad > 0 {
		pkt[0] |= 0x20
	}
	pt, ssrc := byte(97), uint32(vrRtxSSRC)
	if v.Fill != 0 {
		pt, ssrc = byte(rng.Intn(128)), vrPick32(rng)
	}
	pkt[1] = byte(v.M<<7) | pt
	binary.BigEndian.PutUint16(pkt[2:], vrPick16(rng))
	binary.BigEndian.PutUint32(pkt[4:], vrPick32(rng))
	binary.BigEndian.PutUint32(pkt[8:], ssrc)
	for i := 12; i < 12+4*v.CC; i++ {
		pkt[i] = byte(rng.Intn(256))
	}
	if v.X == 1 {
		base := 12 + 4*v.CC
		prof := uint16(0x1234)
		switch v.Prof {
		case "bede":
			prof = 0xBEDE
		case "two":
			prof = 0x1000
		}
		binary.BigEndian.PutUint16(pkt[base:], prof)
		binary.BigEndian.PutUint16(pkt[base+2:], uint16(v.XL)) //nolint:gosec
		for i := base + 4; i < hl; i++ {
			pkt[i] = byte(rng.Intn(256))
		}
	}
	if v.PL >= 2 {
		binary.BigEndian.PutUint16(pkt[hl:], vrPick16(rng)) // OSN
	}
	for i := hl + 2; i < hl+v.PL; i++ {
		pkt[i] = byte(rng.Intn(256))
	}
	if v.PL == 1 {
		pkt[hl] = byte(rng.Intn(256))
	}
	if v.Pad > 0 {
		for i := hl + v.PL; i < len(pkt)-1; i++ {
			pkt[i] = byte(rng.Intn(256)) // RFC 3550 leaves the padding octets' content open
		}
		pkt[len(pkt)-1] = byte(v.Pad)
	}
	return pkt
}

func vrDigest(b []byte) string {
	s := sha256.Sum256(b)
	return fmt.Sprintf("%d:%s", len(b), hex.EncodeToString(s[:6]))
}

// vrView is the projector: the RFC 3550 view of a packet (spec/RtxOps.tla), plus the RFC 4588
// split of its payload. Large values are written as strings (TLC integers are 32 bit).
func vrView(b []byte) vkM {
	out := vkM{"ok": false, "v": 0, "p": 0, "x": 0, "cc": 0, "m": 0, "pt": 0, "seq": 0, "ts": "", "ssrc": "",
		"csrc": "", "xprof": "", "xlen": 0, "xdata": "", "payload": "", "plen": 0, "padlen": 0, "osn": -1, "body": "",
		"len": len(b)}
	if len(b) < 12 {
		return out
	}
	cc := int(b[0] & 0x0F)
	out["v"], out["p"], out["x"], out["cc"] = int(b[0]>>6), int(b[0]>>5)&1, int(b[0]>>4)&1, cc
	out["m"], out["pt"] = int(b[1]>>7), int(b[1]&0x7F)
	out["seq"] = int(binary.BigEndian.Uint16(b[2:]))
	out["ts"] = fmt.Sprint(binary.BigEndian.Uint32(b[4:]))
	out["ssrc"] = fmt.Sprint(binary.BigEndian.Uint32(b[8:]))
	hl := 12 + 4*cc
	if len(b) < hl {
		return out
	}
	out["csrc"] = hex.EncodeToString(b[12:hl])
	if b[0]&0x10 != 0 {
		if len(b) < hl+4 {
			return out
		}
		xl := int(binary.BigEndian.Uint16(b[hl+2:]))
		out["xprof"], out["xlen"] = hex.EncodeToString(b[hl:hl+2]), xl
		if len(b) < hl+4+4*xl {
			return out
		}
		out["xdata"] = hex.EncodeToString(b[hl+4 : hl+4+4*xl])
		hl += 4 + 4*xl
	}
	end := len(b)
	if b[0]&0x20 != 0 {
		if end <= hl {
			return out
		}
		pad := int(b[end-1])
		out["padlen"] = pad
		end -= pad
	}
	if end < hl {
		return out
	}
	payload := b[hl:end]
	out["payload"], out["plen"], out["ok"] = vrDigest(payload), len(payload), true
	if len(payload) >= 2 {
		out["osn"] = int(binary.BigEndian.Uint16(payload))
		out["body"] = vrDigest(payload[2:])
	}
	return out
}

func vrPLName(v vrVec) string {
	if v.PLMax == 1 {
		return "max"
	}
	return fmt.Sprint(v.PL)
}

func vrFlush(tr *vkTrace) {
	tr.mu.Lock()
	_ = tr.w.Flush()
	tr.mu.Unlock()
}

func TestVerifRtx(t *testing.T) {
	vkSkipUnlessDriven(t)
	var vecs []vrVec
	vkLoadInput(t, &vecs)
	tr := vkOpenTrace(t)
	defer tr.Close()
	progress, err := os.Create(os.Getenv("VERIF_OUT") + ".progress")
	if err != nil {
		t.Fatal(err)
	}
	defer func() { _ = progress.Close() }()

	// ---- receivers with one rid track and a repair stream, both fed by the driver: one learns the primary
	// stream first (the usual order), the other sees the repair stream (rsid) before the primary one ----
	rigs := []*vrRig{vrNewRig(t, false), vrNewRig(t, true)}
	defer func() {
		for _, r := range rigs {
			close(r.feed)
			_ = r.receiver.Stop()
		}
	}()
	buf := make([]byte, receiveMTU)
	rig := rigs[0]
	track, feed, primaryReads := rig.track, rig.feed, rig.primaryReads
	waitReady := rig.waitReady

	// one group = packets that are all on the repair stream before the application reads the first
	// of them (a retransmission burst); most groups have one packet, every fourth has up to three
	type sentPkt struct {
		v   vrVec
		pkt []byte
	}
	readOne := func(sp sentPkt, pos, size int) {
		v, pkt := sp.v, sp.pkt
		before := primaryReads.Load()
		for i := range buf {
			buf[i] = 0
		}
		n, att, rerr := track.Read(buf)
		line := vkM{"ev": "rtx", "t": v.ID,
			"sig":  fmt.Sprintf("cc%d/x%d:%s:%d/pad%d/pl%s/m%d", v.CC, v.X, v.Prof, v.XL, v.Pad, vrPLName(v), v.M),
			"lay":  vkM{"cc": v.CC, "x": v.X, "prof": v.Prof, "xl": v.XL, "pad": v.Pad, "pl": v.PL, "plmax": v.PLMax, "m": v.M, "fill": v.Fill},
			"in":   vrView(pkt),
			"prim": vkM{"pt": vrPrimaryPT, "ssrc": fmt.Sprint(vrPrimarySSRC)}, // what the primary stream carries
			"err":  "", "n": n, "burst": vkM{"pos": pos, "size": size}, "order": rig.order,
		}
		if rerr != nil {
			line["err"] = rerr.Error()
		}
		fromPrimary := primaryReads.Load() != before
		a := vkM{"has": false, "pt": -1, "seq": -1, "ssrc": ""}
		if att != nil {
			pt, ok1 := att.Get(AttributeRtxPayloadType).(uint8)
			sq, ok2 := att.Get(AttributeRtxSequenceNumber).(uint16)
			ss, ok3 := att.Get(AttributeRtxSsrc).(uint32)
			if ok1 && ok2 && ok3 {
				a = vkM{"has": true, "pt": int(pt), "seq": int(sq), "ssrc": fmt.Sprint(ss)}
			}
		}
		line["att"] = a
		if fromPrimary || rerr != nil {
			// nothing was queued by the repair reader: Read fell through to the primary stream
			line["res"] = "dropped"
			line["out"] = vrView(nil)
		} else {
			line["res"] = "delivered"
			line["out"] = vrView(buf[:n])
		}
		tr.Emit(line)
		vrFlush(tr)
	}
	maxBurst := vkEnvInt("VERIF_RTX_BURST", 3)
	for k := 0; k < len(vecs); {
		if k%200 == 0 || (k > 0 && k/200 != (k-1)/200) {
			tr.Reset(vecs[k].ID)
		}
		rig = rigs[0]
		if (k/8)%5 == 2 {
			rig = rigs[1]
		}
		track, feed, primaryReads, waitReady = rig.track, rig.feed, rig.primaryReads, rig.waitReady
		size := 1
		if (k/4)%4 == 3 {
			// only packets that carry an OSN can wait in the queue (shorter ones are dropped at once)
			for size < maxBurst && k+size < len(vecs) && (k+size)/200 == k/200 {
				size++
			}
			for j := 0; j < size; j++ {
				if vecs[k+j].PL < 2 {
					size = 1
					break
				}
			}
		}
		group := []sentPkt{}
		for j := 0; j < size; j++ {
			v := vecs[k+j]
			rng := rand.New(rand.NewSource(vkSeed()*1000003 + int64(v.Fill)*7919 + int64(v.ID)*104729)) //nolint:gosec
			pkt := vrBuild(v, rng)
			if len(pkt) != v.Len || len(pkt) > receiveMTU {
				t.Fatalf("vector %d: built %d bytes, layout says %d", v.ID, len(pkt), v.Len)
			}
			_, _ = fmt.Fprintf(progress, "%d\n", v.ID)
			feed <- pkt
			waitReady(fmt.Sprint("vector ", v.ID)) // processed: queued for Read, or dropped
			group = append(group, sentPkt{v, pkt})
		}
		for j, sp := range group {
			readOne(sp, j+1, size)
		}
		k += size
	}
}

// vrRig is one receiver under test with its driver-side ends.
type vrRig struct {
	receiver     *RTPReceiver
	track        *TrackRemote
	feed         chan []byte
	ready        chan struct{}
	primaryReads *atomic.Int64
	order        string
	waitReady    func(what string)
}

func vrNewRig(t *testing.T, repairFirst bool) *vrRig {
	t.Helper()
	transportAPI := NewAPI(WithSettingEngine(SettingEngine{}))
	receiverAPI := NewAPI()
	receiver, err := receiverAPI.NewRTPReceiver(RTPCodecTypeVideo, &DTLSTransport{api: transportAPI})
	if err != nil {
		t.Fatal(err)
	}
	r := &vrRig{receiver: receiver, feed: make(chan []byte), ready: make(chan struct{}), primaryReads: &atomic.Int64{}, order: "primary-first"}
	sentinel := []byte{0x80, vrPrimaryPT, 0xFF, 0xFE, 0, 0, 0, 0, 0, 0, 0x04, 0x57, 0xAA}
	primary := interceptor.RTPReaderFunc(func(b []byte, a interceptor.Attributes) (int, interceptor.Attributes, error) {
		r.primaryReads.Add(1)
		return copy(b, sentinel), a, nil
	})
	repair := interceptor.RTPReaderFunc(func(b []byte, a interceptor.Attributes) (int, interceptor.Attributes, error) {
		r.ready <- struct{}{} // the repair goroutine is done with the previous packet and asks for the next
		p, ok := <-r.feed
		if !ok {
			return 0, a, io.EOF
		}
		return copy(b, p), a, nil
	})
	params := RTPParameters{Codecs: []RTPCodecParameters{{
		RTPCodecCapability: RTPCodecCapability{MimeType: MimeTypeVP8}, PayloadType: vrPrimaryPT,
	}}}
	r.waitReady = func(what string) {
		select {
		case <-r.ready:
		case <-time.After(30 * time.Second):
			t.Fatalf("repair reader did not come back for the next packet (%s)", what)
		}
	}
	if repairFirst {
		// a rid track announced without SSRCs: the repair stream (rsid) shows up before the primary one
		r.order = "repair-first"
		receiver.configureReceive(RTPReceiveParameters{Encodings: []RTPDecodingParameters{{
			RTPCodingParameters: RTPCodingParameters{RID: "rid"},
		}}})
		close(receiver.received)
		if err = receiver.receiveForRtx(0, "rid", &interceptor.StreamInfo{SSRC: vrRtxSSRC}, nil, repair, true, nil, nil); err != nil {
			t.Fatal(err)
		}
		if r.track, err = receiver.receiveForRid("rid", params, &interceptor.StreamInfo{SSRC: vrPrimarySSRC}, nil, primary,
			true, nil, nil, nil); err != nil {
			t.Fatal(err)
		}
	} else {
		receiver.configureReceive(RTPReceiveParameters{Encodings: []RTPDecodingParameters{{
			RTPCodingParameters: RTPCodingParameters{RID: "rid", SSRC: vrPrimarySSRC, RTX: RTPRtxParameters{SSRC: vrRtxSSRC}},
		}}})
		if r.track, err = receiver.receiveForRid("rid", params, &interceptor.StreamInfo{SSRC: vrPrimarySSRC}, nil, primary,
			false, nil, nil, nil); err != nil {
			t.Fatal(err)
		}
		close(receiver.received)
		if err = receiver.receiveForRtx(vrRtxSSRC, "", &interceptor.StreamInfo{SSRC: vrRtxSSRC}, nil, repair, true, nil, nil); err != nil {
			t.Fatal(err)
		}
	}
	r.waitReady("start")
	// the original always precedes its retransmission: one primary packet first (it also fixes
	// the track's payload type, which the rewrite uses)
	b := make([]byte, receiveMTU)
	if n, _, rerr := r.track.Read(b); rerr != nil || n != len(sentinel) {
		t.Fatalf("primary read: n=%d err=%v", n, rerr)
	}
	if r.track.PayloadType() != vrPrimaryPT || r.track.SSRC() != vrPrimarySSRC {
		t.Fatalf("track not set up: pt=%d ssrc=%d", r.track.PayloadType(), r.track.SSRC())
	}
	return r
}
