//go:build verif && !js

package webrtc

// Driver for C21: concurrent Close / GracefulClose callers racing with a transport state callback
// (spec/PcClose.tla), driven with gates on a real PeerConnection (connected or not); afterwards every
// negotiation-changing call is tried. Connection-state changes are recorded at dispatch by a hook.

import (
	"errors"
	"fmt"
	"runtime"
	"sort"
	"testing"
	"time"

	"github.com/pion/webrtc/v4/pkg/rtcerr"
)

type vcStep struct {
	Proc  string `json:"proc"`
	Label string `json:"label"`
}

type vcBehaviour struct {
	ID        int      `json:"id"`
	Closers   []string `json:"closers"`
	Graceful  []string `json:"graceful"`
	Steps     []vcStep `json:"steps"`
	Connected bool     `json:"connected"`
	Free      bool     `json:"free"`
	Census    bool     `json:"census"` // sequential GracefulClose of both peers with a goroutine census
}

func TestVerifPcClose(t *testing.T) {
	vkSkipUnlessDriven(t)
	var behaviours []vcBehaviour
	vkLoadInput(t, &behaviours)
	tr := vkOpenTrace(t)
	defer tr.Close()
	defer func() { verifYieldHook, verifEventHook = nil, nil }()
	notDriven := 0
	for _, bh := range behaviours {
		if !vcRun(t, tr, bh) {
			notDriven++
		}
	}
	t.Logf("VERIF_STAT behaviours=%d not_driven=%d", len(behaviours), notDriven)
}

func vcInvalidState(err error) string {
	if err == nil {
		return "ok"
	}
	var ise *rtcerr.InvalidStateError
	if errors.As(err, &ise) {
		return "InvalidStateError"
	}
	return "other-error"
}

func vcRun(t *testing.T, tr *vkTrace, bh vcBehaviour) bool { //nolint:cyclop
	t.Helper()
	tr.Reset(bh.ID)
	ordered := !bh.Free
	settle := func() {
		for i := 0; i < 3; i++ {
			runtime.Gosched()
			time.Sleep(2 * time.Millisecond)
		}
	}
	settle()
	before := runtime.NumGoroutine()
	var a, b *PeerConnection
	if bh.Connected || bh.Census {
		p := vcConnectedPair(t)
		a, b = p[0], p[1]
	} else {
		var err error
		if a, b, err = newPair(); err != nil {
			t.Fatal(err)
		}
		_, _ = a.CreateDataChannel("x", nil)
		if offer, err := a.CreateOffer(nil); err == nil {
			_ = a.SetLocalDescription(offer)
		}
	}
	isGraceful := map[string]bool{}
	for _, g := range bh.Graceful {
		isGraceful[g] = true
	}
	gates := vkNewGates(func(gid int64, bound, point string, obj any) string {
		if pc, ok := obj.(*PeerConnection); ok && pc == a {
			return bound
		}
		return ""
	})
	gates.deadline = time.Duration(vkEnvInt("VERIF_STEP_MS", 400)) * time.Millisecond
	if bh.Free || bh.Census {
		gates.perturb = vkRand(int64(bh.ID))
		gates.ReleaseAll()
	}
	verifYieldHook = gates.Hook
	verifEventHook = func(point string, obj any, args ...any) {
		if point != "connstate" || obj != any(a) {
			return
		}
		cs, _ := args[0].(PeerConnectionState)
		tr.Emit(vkM{"ev": "conn", "t": bh.ID, "to": cs.String(), "ordered": ordered, "sig": "conn(" + cs.String() + ")"})
	}
	returned := map[string]bool{}
	start := func(name string) {
		gates.Go(name, func() {
			if isGraceful[name] {
				_ = a.GracefulClose()
			} else {
				_ = a.Close()
			}
		})
	}
	startU := func() {
		gates.Go("U", func() { a.updateConnectionState(ICEConnectionStateDisconnected, DTLSTransportStateConnected) })
	}
	driven := true
	if bh.Census {
		_ = a.GracefulClose()
		_ = b.GracefulClose()
		returned["seq"] = true
	} else if bh.Free {
		for _, k := range bh.Closers {
			start(k)
		}
		startU()
	} else {
		started := map[string]bool{}
		for _, st := range bh.Steps {
			if !driven {
				break
			}
			if !started[st.Proc] {
				started[st.Proc] = true
				if st.Proc == "U" {
					startU()
				} else {
					start(st.Proc)
				}
				// the first label (kEnter / uCall) is the arrival at the first gate
				want := "pc.close.enter"
				if st.Proc == "U" {
					want = "pc.ucs.computed"
				}
				// a callback that waits for the connection-state mutex does not reach its gate: go on without it
				if p := gates.Await(st.Proc); p != want && p != "" {
					driven = false
				}
				continue
			}
			switch st.Label {
			case "kWaitG", "kWaitC", "kRet":
				// blocked in / returning from a wait: nothing held at a gate
				if p := gates.Poll(st.Proc); p != "" && !vkEnded(p) {
					gates.Step(st.Proc)
				}
				continue
			}
			if vkEnded(gates.Poll(st.Proc)) {
				continue
			}
			// a closer that waits for the connection-state mutex or for another closer is not at a gate
			if gates.Poll(st.Proc) == "" {
				time.Sleep(500 * time.Microsecond)
				if gates.Poll(st.Proc) == "" {
					continue
				}
			}
			gates.Release(st.Proc)
			time.Sleep(200 * time.Microsecond)
		}
		gates.ReleaseAll()
	}
	// every call must return
	names := []string{}
	for _, n := range append(append([]string{}, bh.Closers...), "U") {
		if _, ok := gates.actors[n]; ok { // only calls that were actually made
			names = append(names, n)
		}
	}
	end := time.Now().Add(15 * time.Second)
	for time.Now().Before(end) {
		all := true
		for _, n := range names {
			if bh.Census {
				continue
			}
			if !gates.Finished(n) {
				all = false
			} else {
				returned[n] = true
			}
		}
		if all {
			break
		}
		time.Sleep(time.Millisecond)
	}
	hung := []string{}
	for _, n := range names {
		if !bh.Census && !returned[n] {
			hung = append(hung, n)
		}
	}
	sort.Strings(hung)
	verifYieldHook = nil
	// finality
	trk, _ := NewTrackLocalStaticSample(RTPCodecCapability{MimeType: MimeTypeOpus}, "a", "b")
	_, e1 := a.CreateOffer(nil)
	_, e2 := a.CreateAnswer(nil)
	e3 := a.SetLocalDescription(SessionDescription{Type: SDPTypeOffer, SDP: "v=0\r\n"})
	e4 := a.SetRemoteDescription(SessionDescription{Type: SDPTypeOffer, SDP: "v=0\r\n"})
	_, e5 := a.AddTrack(trk)
	_, e6 := a.AddTransceiverFromKind(RTPCodecTypeVideo)
	_, e7 := a.CreateDataChannel("late", nil)
	e8 := a.SetConfiguration(Configuration{})
	mut := []string{vcInvalidState(e1), vcInvalidState(e2), vcInvalidState(e3), vcInvalidState(e4), vcInvalidState(e5), vcInvalidState(e6), vcInvalidState(e7), vcInvalidState(e8)}
	leak := 0
	if bh.Census {
		for i := 0; i < 400; i++ {
			if leak = runtime.NumGoroutine() - before; leak <= 0 {
				break
			}
			time.Sleep(5 * time.Millisecond)
		}
		if leak < 0 {
			leak = 0
		}
	}
	tr.Emit(vkM{
		"ev": "end", "t": bh.ID, "to": a.ConnectionState().String(), "ordered": ordered, "sigState": a.SignalingState().String(),
		"hung": hung, "mutators": mut, "census": bh.Census, "leak": leak, "driven": driven,
		"sig": fmt.Sprintf("end(closers=%d,graceful=%d,connected=%v,conn=%s,sig=%s,hung=%d)", len(bh.Closers), len(bh.Graceful),
			bh.Connected || bh.Census, a.ConnectionState().String(), a.SignalingState().String(), len(hung)),
	})
	verifEventHook = nil
	if !bh.Census {
		_ = b.Close()
	}
	return driven
}

func vcConnectedPair(t *testing.T) [2]*PeerConnection {
	t.Helper()
	a, b, err := newPair()
	if err != nil {
		t.Fatal(err)
	}
	first, err := a.CreateDataChannel("bootstrap", nil)
	if err != nil {
		t.Fatal(err)
	}
	opened := make(chan struct{})
	first.OnOpen(func() { close(opened) })
	if err = signalPair(a, b); err != nil {
		t.Fatal(err)
	}
	select {
	case <-opened:
	case <-time.After(10 * time.Second):
		t.Fatal("pair did not connect")
	}
	return [2]*PeerConnection{a, b}
}
