//go:build verif && !js

package webrtc

// Driver for C21: concurrent Close / GracefulClose callers racing with a transport state callback
// (spec/PcClose.tla), driven with gates on a real PeerConnection (connected or not); afterwards every
// negotiation-changing call is tried. Connection-state changes are recorded at dispatch by a hook.

import (
	"errors"
	"fmt"
	"runtime"
	"sort"
	"sync"
	"sync/atomic"
	"testing"
	"time"

	"github.com/pion/webrtc/v4/pkg/rtcerr"
)

type vcStep struct {
	Proc  string `json:"proc"`
	Label string `json:"label"`
}

type vcBehaviour struct {
	ID        int      `json:"id"`
	Closers   []string `json:"closers"`
	Graceful  []string `json:"graceful"`
	Steps     []vcStep `json:"steps"`
	Connected bool     `json:"connected"`
	Free      bool     `json:"free"`
	Census    bool     `json:"census"` // sequential GracefulClose of both peers with a goroutine census
	Worker    string   `json:"worker"` // "" | "ops" | "dcmsg": a goroutine of the connection kept busy by the application
	// Close called synchronously inside a callback of the connection, after it connected:
	// "ice" (OnICEConnectionStateChange), "conn" (OnConnectionStateChange), "dc" (OnMessage of a data channel)
	InCallback string `json:"incallback"`
}

// vcCloseInCallback: the documented way to close from inside a handler is Close (not GracefulClose). The
// call has to return there, too, and the connection ends closed.
func vcCloseInCallback(t *testing.T, tr *vkTrace, bh vcBehaviour) {
	t.Helper()
	tr.Reset(bh.ID)
	a, b, err := newPair()
	if err != nil {
		t.Fatal(err)
	}
	defer func() { _ = b.Close() }()
	connected := make(chan struct{})
	var once, closeOnce sync.Once
	returned := make(chan struct{})
	closeHere := func() {
		closeOnce.Do(func() {
			<-connected // the handler sits in its callback until the connection is up, then closes from there
			_ = a.Close()
			close(returned)
		})
	}
	a.OnConnectionStateChange(func(s PeerConnectionState) {
		if s == PeerConnectionStateConnected {
			once.Do(func() { close(connected) })
			if bh.InCallback == "conn" {
				closeHere()
			}
		}
	})
	if bh.InCallback == "ice" {
		a.OnICEConnectionStateChange(func(s ICEConnectionState) {
			if s == ICEConnectionStateConnected {
				closeHere()
			}
		})
	}
	dc, err := a.CreateDataChannel("cb", nil)
	if err != nil {
		t.Fatal(err)
	}
	if bh.InCallback == "dc" {
		dc.OnMessage(func(DataChannelMessage) { closeHere() })
		b.OnDataChannel(func(d *DataChannel) {
			d.OnOpen(func() { _ = d.SendText("close now") })
		})
	}
	if err = signalPair(a, b); err != nil {
		t.Fatal(err)
	}
	hung := []string{}
	select {
	case <-returned:
	case <-time.After(20 * time.Second):
		hung = append(hung, "close-in-"+bh.InCallback)
	}
	state := a.ConnectionState().String()
	mut := []string{}
	if len(hung) == 0 {
		_, e := a.CreateOffer(nil)
		mut = append(mut, vcInvalidState(e))
	}
	tr.Emit(vkM{
		"ev": "end", "t": bh.ID, "to": state, "ordered": false, "sigState": a.SignalingState().String(),
		"hung": hung, "mutators": mut, "census": false, "leak": 0, "driven": true,
		"sig": fmt.Sprintf("end(close-in-callback=%s,conn=%s,hung=%d)", bh.InCallback, state, len(hung)),
	})
	if len(hung) > 0 {
		go func() { _ = a.Close() }() // do not keep the stuck connection's goroutines from being looked at
	}
}

func TestVerifPcClose(t *testing.T) {
	vkSkipUnlessDriven(t)
	var behaviours []vcBehaviour
	vkLoadInput(t, &behaviours)
	tr := vkOpenTrace(t)
	defer tr.Close()
	defer func() { verifYieldHook, verifEventHook = nil, nil }()
	notDriven := 0
	for _, bh := range behaviours {
		if !vcRun(t, tr, bh) {
			notDriven++
		}
	}
	t.Logf("VERIF_STAT behaviours=%d not_driven=%d", len(behaviours), notDriven)
}

func vcInvalidState(err error) string {
	if err == nil {
		return "ok"
	}
	var ise *rtcerr.InvalidStateError
	if errors.As(err, &ise) {
		return "InvalidStateError"
	}
	return "other-error"
}

func vcRun(t *testing.T, tr *vkTrace, bh vcBehaviour) bool { //nolint:cyclop
	t.Helper()
	if bh.InCallback != "" {
		verifYieldHook, verifEventHook = nil, nil
		vcCloseInCallback(t, tr, bh)
		return true
	}
	tr.Reset(bh.ID)
	ordered := !bh.Free
	settle := func() {
		for i := 0; i < 3; i++ {
			runtime.Gosched()
			time.Sleep(2 * time.Millisecond)
		}
	}
	settle()
	before := runtime.NumGoroutine()
	var a, b *PeerConnection
	var pair vcPair
	if bh.Connected || bh.Census {
		pair = vcConnectedPair(t)
		a, b = pair.a, pair.b
	} else {
		var err error
		if a, b, err = newPair(); err != nil {
			t.Fatal(err)
		}
		_, _ = a.CreateDataChannel("x", nil)
		if offer, err := a.CreateOffer(nil); err == nil {
			_ = a.SetLocalDescription(offer)
		}
	}
	if bh.ID%2 == 1 { // a receive-only transceiver that a later AddTrack of that kind would reuse
		_, _ = a.AddTransceiverFromKind(RTPCodecTypeVideo, RTPTransceiverInit{Direction: RTPTransceiverDirectionRecvonly})
	}
	isGraceful := map[string]bool{}
	for _, g := range bh.Graceful {
		isGraceful[g] = true
	}
	gates := vkNewGates(func(gid int64, bound, point string, obj any) string {
		if pc, ok := obj.(*PeerConnection); ok && pc == a {
			return bound
		}
		return ""
	})
	gates.deadline = time.Duration(vkEnvInt("VERIF_STEP_MS", 400)) * time.Millisecond
	if bh.Free || bh.Census {
		gates.perturb = vkRand(int64(bh.ID))
		gates.ReleaseAll()
	}
	verifYieldHook = gates.Hook
	verifEventHook = func(point string, obj any, args ...any) {
		if point != "connstate" || obj != any(a) {
			return
		}
		cs, _ := args[0].(PeerConnectionState)
		tr.Emit(vkM{"ev": "conn", "t": bh.ID, "to": cs.String(), "ordered": ordered, "sig": "conn(" + cs.String() + ")"})
	}
	// a goroutine of the connection that the application keeps busy: an operation of the queue that
	// does not return, or the read loop of a data channel inside its OnMessage handler
	var running atomic.Int64
	hold := make(chan struct{})
	var releaseOnce sync.Once
	release := func() { releaseOnce.Do(func() { close(hold) }) }
	defer release()
	worker := bh.Worker
	if worker == "dcmsg" && pair.bdc == nil {
		worker = "ops"
	}
	if worker != "" {
		entered := make(chan struct{})
		handler := func() {
			running.Add(1)
			close(entered)
			<-hold
			running.Add(-1)
		}
		if worker == "ops" {
			a.ops.Enqueue(handler)
		} else {
			var once sync.Once
			pair.adc.OnMessage(func(DataChannelMessage) { once.Do(handler) })
			if err := pair.bdc.SendText("keep the read loop busy"); err != nil {
				t.Fatal(err)
			}
		}
		select {
		case <-entered:
		case <-time.After(10 * time.Second):
			buf := make([]byte, 1<<20)
			buf = buf[:runtime.Stack(buf, true)]
			t.Fatalf("behaviour %d: the %s worker did not start\n%s", bh.ID, worker, buf)
		}
	}
	returned := map[string]bool{}
	start := func(name string) {
		gates.Go(name, func() {
			if isGraceful[name] {
				_ = a.GracefulClose()
			} else {
				_ = a.Close()
			}
			// still inside the closer's goroutine: what the caller finds when the call returns
			tr.Emit(vkM{"ev": "ret", "t": bh.ID, "to": "", "ordered": ordered, "who": name, "graceful": isGraceful[name],
				"busy": int(running.Load()), "worker": worker,
				"sig": fmt.Sprintf("ret(graceful=%v,worker=%s)", isGraceful[name], worker)})
		})
	}
	startU := func() {
		gates.Go("U", func() { a.updateConnectionState(ICEConnectionStateDisconnected, DTLSTransportStateConnected) })
	}
	driven := true
	if bh.Census {
		_ = a.GracefulClose()
		_ = b.GracefulClose()
		returned["seq"] = true
	} else if bh.Free {
		for _, k := range bh.Closers {
			start(k)
		}
		startU()
	} else {
		started := map[string]bool{}
		for _, st := range bh.Steps {
			if !driven {
				break
			}
			if st.Proc == "W" {
				release() // wRelease: the application lets the handler return
				continue
			}
			if !started[st.Proc] {
				started[st.Proc] = true
				if st.Proc == "U" {
					startU()
				} else {
					start(st.Proc)
				}
				// the first label (kEnter / uCall) is the arrival at the first gate
				want := "pc.close.enter"
				if st.Proc == "U" {
					want = "pc.ucs.computed"
				}
				// a callback that waits for the connection-state mutex does not reach its gate: go on without it
				if p := gates.Await(st.Proc); p != want && p != "" {
					driven = false
				}
				continue
			}
			switch st.Label {
			case "kWaitG", "kWaitC", "kRet", "kGrace1", "kGrace2":
				// blocked in / returning from a wait: nothing held at a gate
				if p := gates.Poll(st.Proc); p != "" && !vkEnded(p) {
					gates.Step(st.Proc)
				}
				continue
			}
			if vkEnded(gates.Poll(st.Proc)) {
				continue
			}
			// a closer that waits for the connection-state mutex or for another closer is not at a gate
			if gates.Poll(st.Proc) == "" {
				time.Sleep(500 * time.Microsecond)
				if gates.Poll(st.Proc) == "" {
					continue
				}
			}
			gates.Release(st.Proc)
			time.Sleep(200 * time.Microsecond)
		}
		gates.ReleaseAll()
	}
	if bh.Free && worker != "" {
		time.Sleep(time.Duration(vkRand(int64(bh.ID)+5).Intn(3000)) * time.Microsecond)
	}
	release()
	// every call must return
	names := []string{}
	for _, n := range append(append([]string{}, bh.Closers...), "U") {
		if _, ok := gates.actors[n]; ok { // only calls that were actually made
			names = append(names, n)
		}
	}
	end := time.Now().Add(15 * time.Second)
	for time.Now().Before(end) {
		all := true
		for _, n := range names {
			if bh.Census {
				continue
			}
			if !gates.Finished(n) {
				all = false
			} else {
				returned[n] = true
			}
		}
		if all {
			break
		}
		time.Sleep(time.Millisecond)
	}
	hung := []string{}
	for _, n := range names {
		if !bh.Census && !returned[n] {
			hung = append(hung, n)
		}
	}
	sort.Strings(hung)
	verifYieldHook = nil
	// finality
	trk, _ := NewTrackLocalStaticSample(RTPCodecCapability{MimeType: MimeTypeOpus}, "a", "b")
	_, e1 := a.CreateOffer(nil)
	_, e2 := a.CreateAnswer(nil)
	e3 := a.SetLocalDescription(SessionDescription{Type: SDPTypeOffer, SDP: "v=0\r\n"})
	e4 := a.SetRemoteDescription(SessionDescription{Type: SDPTypeOffer, SDP: "v=0\r\n"})
	_, e5 := a.AddTrack(trk)
	_, e6 := a.AddTransceiverFromKind(RTPCodecTypeVideo)
	_, e7 := a.CreateDataChannel("late", nil)
	e8 := a.SetConfiguration(Configuration{})
	// every way of adding a transceiver or a track, also the ones that do not build a sender
	_, e9 := a.AddTransceiverFromKind(RTPCodecTypeVideo, RTPTransceiverInit{Direction: RTPTransceiverDirectionRecvonly})
	_, e10 := a.AddTransceiverFromKind(RTPCodecTypeAudio, RTPTransceiverInit{Direction: RTPTransceiverDirectionSendonly})
	vtrk, _ := NewTrackLocalStaticSample(RTPCodecCapability{MimeType: MimeTypeVP8}, "v", "b")
	_, e11 := a.AddTransceiverFromTrack(vtrk, RTPTransceiverInit{Direction: RTPTransceiverDirectionSendonly})
	_, e12 := a.AddTrack(vtrk) // may find the receive-only video transceiver made before the close to reuse
	mut := []string{vcInvalidState(e1), vcInvalidState(e2), vcInvalidState(e3), vcInvalidState(e4), vcInvalidState(e5), vcInvalidState(e6), vcInvalidState(e7), vcInvalidState(e8),
		vcInvalidState(e9), vcInvalidState(e10), vcInvalidState(e11), vcInvalidState(e12)}
	leak := 0
	if bh.Census {
		for i := 0; i < 400; i++ {
			if leak = runtime.NumGoroutine() - before; leak <= 0 {
				break
			}
			time.Sleep(5 * time.Millisecond)
		}
		if leak < 0 {
			leak = 0
		}
	}
	tr.Emit(vkM{
		"ev": "end", "t": bh.ID, "to": a.ConnectionState().String(), "ordered": ordered, "sigState": a.SignalingState().String(),
		"hung": hung, "mutators": mut, "census": bh.Census, "leak": leak, "driven": driven,
		"sig": fmt.Sprintf("end(closers=%d,graceful=%d,connected=%v,conn=%s,sig=%s,hung=%d)", len(bh.Closers), len(bh.Graceful),
			bh.Connected || bh.Census, a.ConnectionState().String(), a.SignalingState().String(), len(hung)),
	})
	verifEventHook = nil
	if !bh.Census {
		_ = b.Close()
	}
	return driven
}

type vcPair struct {
	a, b     *PeerConnection
	adc, bdc *DataChannel // the two ends of the bootstrap channel
}

func vcConnectedPair(t *testing.T) vcPair {
	t.Helper()
	a, b, err := newPair()
	if err != nil {
		t.Fatal(err)
	}
	first, err := a.CreateDataChannel("bootstrap", nil)
	if err != nil {
		t.Fatal(err)
	}
	opened := make(chan struct{})
	first.OnOpen(func() { close(opened) })
	remote := make(chan *DataChannel, 1)
	b.OnDataChannel(func(d *DataChannel) {
		if d.Label() == "bootstrap" { // signalPair opens a channel of its own as well
			d.OnOpen(func() { remote <- d })
		}
	})
	if err = signalPair(a, b); err != nil {
		t.Fatal(err)
	}
	p := vcPair{a: a, b: b, adc: first}
	select {
	case <-opened:
	case <-time.After(10 * time.Second):
		t.Fatal("pair did not connect")
	}
	select {
	case p.bdc = <-remote:
	case <-time.After(10 * time.Second):
		t.Fatal("remote end of the bootstrap channel did not open")
	}
	return p
}
