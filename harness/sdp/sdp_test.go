//go:build verif && !js

package webrtc

// Driver for the SDP family (C06, C07, C08, C09, C10, C12, C16): replays TLC-generated API
// histories (spec/PeerConn.tla) on a pair of real PeerConnections and records an abstract
// projection of every description that CreateOffer / CreateAnswer returned and of every
// description that was applied. Nothing is judged here.

import (
	"fmt"
	"sort"
	"strconv"
	"strings"
	"sync"
	"testing"

	"github.com/pion/sdp/v3"
)

type vsStep struct {
	Op      string      `json:"op"`
	Who     string      `json:"who"`
	Kind    string      `json:"kind"`
	Dir     string      `json:"dir"`
	N       int         `json:"n"`
	Offer   []vsSection `json:"offer"`   // synthetic remote offer
	Prefs   []string    `json:"prefs"`   // codec preference list (mime names) for setPrefs
	Follow  string      `json:"follow"`  // for remoteOffer: "answer" | "answer+sld"
	Session string      `json:"session"` // fingerprint placement of a synthetic offer: "media" | "session"
}

type vsSection struct {
	Kind   string   `json:"kind"` // audio video application text message
	Mid    string   `json:"mid"`
	Dir    string   `json:"dir"`    // sendrecv sendonly recvonly inactive absent
	Codecs []string `json:"codecs"` // names from vsCodecTable ("vp8/96", ...) ; empty for application
	Port0  bool     `json:"port0"`
}

type vsBehaviour struct {
	ID     int      `json:"id"`
	Config string   `json:"config"` // "default" | "planb" | "fallback" | "rtxonly" ...
	Steps  []vsStep `json:"steps"`
}

// ---- projection --------------------------------------------------------------------------------

func vsAttrAll(m *sdp.MediaDescription, key string) []string {
	out := []string{}
	for _, a := range m.Attributes {
		if a.Key == key {
			out = append(out, a.Value)
		}
	}
	return out
}

// vsRidsSend lists the rids a section announces for sending, in order.
func vsRidsSend(m *sdp.MediaDescription) []string {
	out := []string{}
	for _, v := range vsAttrAll(m, "rid") {
		f := strings.Fields(v)
		if len(f) >= 2 && f[1] == "send" {
			out = append(out, f[0])
		}
	}
	return out
}

// vsSimSend lists the send parts of the section's a=simulcast attributes ("q;h;f").
func vsSimSend(m *sdp.MediaDescription) []string {
	out := []string{}
	for _, v := range vsAttrAll(m, "simulcast") {
		f := strings.Fields(v)
		for i := 0; i+1 < len(f); i += 2 {
			if f[i] == "send" {
				out = append(out, f[i+1])
			}
		}
	}
	return out
}

func vsHas(m *sdp.MediaDescription, key string) bool { return len(vsAttrAll(m, key)) > 0 }

func vsAtoi(s string) int {
	n, err := strconv.Atoi(s)
	if err != nil {
		return -1
	}
	return n
}

// vsProject turns SDP text into the abstract record the trace specification reads.
func vsProject(text string) (vkM, bool) {
	p := &sdp.SessionDescription{}
	if err := p.UnmarshalString(text); err != nil {
		return vkM{"parses": false, "bundle": []string{}, "sessFp": false, "sections": []vkM{}, "sessId": "", "sessVer": 0, "bundleLines": 0}, false
	}
	bundle := []string{}
	bundleLines := 0
	sessFp := false
	sessUfrag, sessPwd := false, false
	for _, a := range p.Attributes {
		switch a.Key {
		case "group":
			f := strings.Fields(a.Value)
			if len(f) > 0 && f[0] == "BUNDLE" {
				bundleLines++
				bundle = append(bundle, f[1:]...)
			}
		case "fingerprint":
			sessFp = true
		case "ice-ufrag":
			sessUfrag = true
		case "ice-pwd":
			sessPwd = true
		}
	}
	secs := []vkM{}
	for _, m := range p.MediaDescriptions {
		dirs := []string{}
		for _, a := range m.Attributes {
			switch a.Key {
			case "sendrecv", "sendonly", "recvonly", "inactive":
				dirs = append(dirs, a.Key)
			}
		}
		pts := []int{}
		fmts := []string{}
		for _, f := range m.MediaName.Formats {
			fmts = append(fmts, f)
			if n := vsAtoi(f); n >= 0 {
				pts = append(pts, n)
			}
		}
		rtpmaps := []vkM{}
		for _, v := range vsAttrAll(m, "rtpmap") {
			f := strings.SplitN(v, " ", 2)
			pt := vsAtoi(f[0])
			name, clock, ch := "", 0, 0
			if len(f) > 1 {
				q := strings.Split(f[1], "/")
				name = strings.ToLower(q[0])
				if len(q) > 1 {
					clock = vsAtoi(q[1])
				}
				if len(q) > 2 {
					ch = vsAtoi(q[2])
				}
			}
			rtpmaps = append(rtpmaps, vkM{"pt": pt, "name": name, "clock": clock, "ch": ch})
		}
		fmtps := []vkM{}
		for _, v := range vsAttrAll(m, "fmtp") {
			f := strings.SplitN(v, " ", 2)
			apt := -1
			aptBad := false
			if len(f) > 1 {
				for _, kv := range strings.Split(f[1], ";") {
					kv = strings.TrimSpace(kv)
					if strings.HasPrefix(kv, "apt=") {
						apt = vsAtoi(strings.TrimPrefix(kv, "apt="))
						aptBad = apt < 0
					}
				}
			}
			fmtps = append(fmtps, vkM{"pt": vsAtoi(f[0]), "apt": apt, "aptBad": aptBad})
		}
		fbs := []int{}
		for _, v := range vsAttrAll(m, "rtcp-fb") {
			f := strings.SplitN(v, " ", 2)
			if f[0] == "*" {
				continue
			}
			fbs = append(fbs, vsAtoi(f[0]))
		}
		exts := []vkM{}
		for _, v := range vsAttrAll(m, "extmap") {
			f := strings.Fields(v)
			id := -1
			uri := ""
			if len(f) > 0 {
				id = vsAtoi(strings.SplitN(f[0], "/", 2)[0])
			}
			if len(f) > 1 {
				uri = f[1]
			}
			exts = append(exts, vkM{"id": id, "uri": uri})
		}
		ssrcSet := map[string]bool{}
		for _, v := range vsAttrAll(m, "ssrc") {
			f := strings.Fields(v)
			if len(f) > 0 {
				ssrcSet[f[0]] = true
			}
		}
		ssrcs := []string{} // 32-bit values do not fit TLC's integers: kept as strings
		for s := range ssrcSet {
			ssrcs = append(ssrcs, s)
		}
		sort.Strings(ssrcs)
		groups := []vkM{}
		for _, v := range vsAttrAll(m, "ssrc-group") {
			f := strings.Fields(v)
			g := []string{}
			g = append(g, f[1:]...)
			groups = append(groups, vkM{"sem": f[0], "ssrcs": g})
		}
		mids := vsAttrAll(m, "mid")
		mid := ""
		if len(mids) > 0 {
			mid = mids[0]
		}
		secs = append(secs, vkM{
			"kind": m.MediaName.Media, "mid": mid, "nmid": len(mids), "port": m.MediaName.Port.Value,
			"dirs": dirs, "setup": vsAttrAll(m, "setup"),
			"ufrag": vsHas(m, "ice-ufrag") || sessUfrag, "pwd": vsHas(m, "ice-pwd") || sessPwd, "fp": vsHas(m, "fingerprint"),
			"pts": pts, "nfmt": len(fmts), "rtpmap": rtpmaps, "fmtp": fmtps, "fb": fbs, "ext": exts,
			"msid": vsAttrAll(m, "msid"), "ssrcs": ssrcs, "groups": groups, "rids": vsAttrAll(m, "rid"),
			"simulcast": vsAttrAll(m, "simulcast"), "ridsSend": vsRidsSend(m), "simSend": vsSimSend(m),
			"cls": "", "age": "",
		})
	}
	return vkM{
		"parses": true, "bundle": bundle, "bundleLines": bundleLines, "sessFp": sessFp, "sections": secs,
		"sessId": strconv.FormatUint(p.Origin.SessionID, 10), "sessVer": int(p.Origin.SessionVersion % (1 << 30)), //nolint:gosec
	}, true
}

func vsMids(text string) []string {
	p := &sdp.SessionDescription{}
	out := []string{}
	if err := p.UnmarshalString(text); err != nil {
		return out
	}
	for _, m := range p.MediaDescriptions {
		mid, _ := m.Attribute("mid")
		out = append(out, mid)
	}
	return out
}

// ---- endpoint under observation ----------------------------------------------------------------

type vsPeer struct {
	name   string
	pc     *PeerConnection
	trIDs  map[*RTPTransceiver]int
	tracks int
	dcs    int
	preIDs int // transceivers known before the last remote offer was applied
	// mids of every description applied so far, and whether a transceiver carried a mid from a local
	// offer that was never applied when the last remote offer arrived
	applied map[string]bool
	stale   bool
	prefSet map[*RTPTransceiver]string // the application called SetCodecPreferences on it: "with-prefs" (payload types given) | "with-prefs-nopt"
}

func (p *vsPeer) noteStale() {
	p.stale = false
	for _, tr := range p.pc.GetTransceivers() {
		if m := tr.Mid(); m != "" && !p.applied[m] {
			p.stale = true
		}
	}
}

func (p *vsPeer) transceivers() []vkM {
	out := []vkM{}
	for _, tr := range p.pc.GetTransceivers() {
		id, ok := p.trIDs[tr]
		if !ok {
			id = len(p.trIDs) + 1
			p.trIDs[tr] = id
		}
		rec := vkM{
			"id": id, "kind": tr.Kind().String(), "dir": tr.Direction().String(), "mid": tr.Mid(),
			"sending": false, "stream": "", "track": "", "ssrc": "0", "rtx": "0", "fec": "0", "nenc": 0, "encs": []vkM{},
		}
		if s := tr.Sender(); s != nil {
			if trk := s.Track(); trk != nil {
				rec["sending"] = true
				rec["stream"] = trk.StreamID()
				rec["track"] = trk.ID()
			}
			enc := s.GetParameters().Encodings
			rec["nenc"] = len(enc)
			if len(enc) > 0 {
				rec["ssrc"] = strconv.FormatUint(uint64(enc[0].SSRC), 10)
				rec["rtx"] = strconv.FormatUint(uint64(enc[0].RTX.SSRC), 10)
				rec["fec"] = strconv.FormatUint(uint64(enc[0].FEC.SSRC), 10)
			}
			encs := []vkM{}
			for _, e := range enc { // every encoding of a simulcast sender
				encs = append(encs, vkM{"ssrc": strconv.FormatUint(uint64(e.SSRC), 10), "rtx": strconv.FormatUint(uint64(e.RTX.SSRC), 10),
					"fec": strconv.FormatUint(uint64(e.FEC.SSRC), 10), "rid": e.RID})
			}
			rec["encs"] = encs
		}
		out = append(out, rec)
	}
	return out
}

type vsRun struct {
	t     *testing.T
	id    int
	a, b  *vsPeer
	cfg   string
	lines []vkM
}

func (r *vsRun) emit(m vkM) { r.lines = append(r.lines, m) }

func (r *vsRun) peer(who string) (*vsPeer, *vsPeer) {
	if who == "B" {
		return r.b, r.a
	}
	return r.a, r.b
}

func (r *vsRun) logDesc(p *vsPeer, op string, d SessionDescription, err error, step string) {
	line := vkM{"ev": "desc", "t": r.id, "who": p.name, "op": op, "cfg": r.cfg, "ok": err == nil, "err": "", "type": d.Type.String()}
	if err != nil {
		line["err"] = err.Error()
	}
	proj, _ := vsProject(d.SDP)
	line["d"] = proj
	line["trs"] = p.transceivers()
	line["dc"] = p.dcs > 0
	offer := vkM{"parses": false, "bundle": []string{}, "sessFp": false, "sections": []vkM{}, "sessId": "", "sessVer": 0, "bundleLines": 0}
	if op == "CreateAnswer" {
		if rd := p.pc.RemoteDescription(); rd != nil {
			offer, _ = vsProject(rd.SDP)
		}
	}
	if op == "CreateAnswer" {
		vsClassify(p, proj, offer)
	}
	line["offer"] = offer
	if op == "CreateAnswer" && p.stale {
		step += ",mids-from-unapplied-offer"
	}
	line["sig"] = fmt.Sprintf("%s(%s,%s)", op, r.cfg, step)
	r.emit(line)
}

func (r *vsRun) logApply(p *vsPeer, side string, d SessionDescription, err error, step string) {
	if err == nil {
		for _, m := range vsMids(d.SDP) {
			p.applied[m] = true
		}
	}
	r.emit(vkM{
		"ev": "apply", "t": r.id, "who": p.name, "side": side, "type": d.Type.String(), "ok": err == nil, "cfg": r.cfg,
		"mids": vsMids(d.SDP), "hasApp": strings.Contains(d.SDP, "m=application"), "trs": p.transceivers(), "sig": fmt.Sprintf("Set%s(%s,%s)", side, d.Type.String(), step),
	})
}

// vsClassify annotates the sections of an answer and of the offer it answers with the abstract
// class the C16 signatures use: how many of the offered codecs the local MediaEngine knows, and
// whether the answering transceiver existed before the offer was applied.
func vsClassify(p *vsPeer, answer, offer vkM) {
	known := map[string]bool{}
	for _, kind := range []RTPCodecType{RTPCodecTypeAudio, RTPCodecTypeVideo} {
		for _, c := range p.pc.api.mediaEngine.getCodecsByKind(kind) {
			n := strings.ToLower(c.MimeType)
			known[n[strings.Index(n, "/")+1:]] = true
		}
	}
	if secs, ok := offer["sections"].([]vkM); ok {
		for _, sec := range secs {
			total, sup := 0, 0
			if maps, ok := sec["rtpmap"].([]vkM); ok {
				for _, m := range maps {
					name, _ := m["name"].(string)
					if name == "rtx" {
						continue
					}
					total++
					if known[name] {
						sup++
					}
				}
			}
			switch {
			case total == 0:
				sec["cls"] = "no-codecs"
			case sup == 0:
				sec["cls"] = "all-unsupported"
			case sup < total:
				sec["cls"] = "some-unsupported"
			default:
				sec["cls"] = "all-supported"
			}
		}
	}
	age := map[string]string{}
	for tr, id := range p.trIDs {
		prefs := p.prefSet[tr]
		switch {
		case prefs != "": // the application set codec preferences (with or without payload types of its own numbering)
			age[tr.Mid()] = prefs
		case id <= p.preIDs:
			age[tr.Mid()] = "pre-existing"
		default:
			age[tr.Mid()] = "from-offer"
		}
	}
	if secs, ok := answer["sections"].([]vkM); ok {
		for _, sec := range secs {
			mid, _ := sec["mid"].(string)
			if a, ok := age[mid]; ok {
				sec["age"] = a
			} else {
				sec["age"] = "no-transceiver"
			}
		}
	}
}

func vsKind(s string) RTPCodecType {
	if s == "audio" {
		return RTPCodecTypeAudio
	}
	return RTPCodecTypeVideo
}

func vsDir(s string) RTPTransceiverDirection {
	switch s {
	case "sendonly":
		return RTPTransceiverDirectionSendonly
	case "recvonly":
		return RTPTransceiverDirectionRecvonly
	case "inactive":
		return RTPTransceiverDirectionInactive
	}
	return RTPTransceiverDirectionSendrecv
}

func (r *vsRun) newTrack(p *vsPeer, kind string) TrackLocal {
	p.tracks++
	mime := MimeTypeVP8
	if kind == "audio" {
		mime = MimeTypeOpus
	}
	trk, err := NewTrackLocalStaticSample(RTPCodecCapability{MimeType: mime},
		fmt.Sprintf("%s-track-%d", p.name, p.tracks), fmt.Sprintf("%s-stream-%d", p.name, p.tracks))
	if err != nil {
		r.t.Fatal(err)
	}
	return trk
}

// negotiate performs one complete offer/answer exchange, offerer first.
func (r *vsRun) negotiate(off, ans *vsPeer, step string) {
	offer, err := off.pc.CreateOffer(nil)
	r.logDesc(off, "CreateOffer", offer, err, step)
	if err != nil {
		return
	}
	err = off.pc.SetLocalDescription(offer)
	r.logApply(off, "Local", offer, err, step)
	if err != nil {
		return
	}
	ans.transceivers()
	ans.preIDs = len(ans.trIDs)
	ans.noteStale()
	err = ans.pc.SetRemoteDescription(offer)
	r.logApply(ans, "Remote", offer, err, step)
	if err != nil {
		return
	}
	r.answer(ans, off, step)
}

func (r *vsRun) answer(ans, off *vsPeer, step string) {
	answer, err := ans.pc.CreateAnswer(nil)
	r.logDesc(ans, "CreateAnswer", answer, err, step)
	if err != nil {
		return
	}
	err = ans.pc.SetLocalDescription(answer)
	r.logApply(ans, "Local", answer, err, step)
	if err != nil || off == nil {
		return
	}
	err = off.pc.SetRemoteDescription(answer)
	r.logApply(off, "Remote", answer, err, step)
}

func (r *vsRun) step(st vsStep) {
	p, other := r.peer(st.Who)
	desc := st.Op
	switch st.Op {
	case "addTransceiver":
		_, err := p.pc.AddTransceiverFromKind(vsKind(st.Kind), RTPTransceiverInit{Direction: vsDir(st.Dir)})
		_ = err
		desc = fmt.Sprintf("addTransceiver:%s:%s", st.Kind, st.Dir)
	case "addTransceiverTrack":
		_, err := p.pc.AddTransceiverFromTrack(r.newTrack(p, st.Kind), RTPTransceiverInit{Direction: vsDir(st.Dir)})
		_ = err
		desc = fmt.Sprintf("addTransceiverTrack:%s:%s", st.Kind, st.Dir)
	case "addTrack":
		_, err := p.pc.AddTrack(r.newTrack(p, st.Kind))
		_ = err
		desc = "addTrack:" + st.Kind
	case "addSimulcast": // one sender, st.N encodings of the same track (rids q, h, f)
		p.tracks++
		id, stream := fmt.Sprintf("%s-track-%d", p.name, p.tracks), fmt.Sprintf("%s-stream-%d", p.name, p.tracks)
		rids := []string{"q", "h", "f"}
		n := st.N
		if n < 2 || n > 3 {
			n = 3
		}
		first, err := NewTrackLocalStaticSample(RTPCodecCapability{MimeType: MimeTypeVP8}, id, stream, WithRTPStreamID(rids[0]))
		if err != nil {
			r.t.Fatal(err)
		}
		if sender, err := p.pc.AddTrack(first); err == nil {
			for _, rid := range rids[1:n] {
				more, e := NewTrackLocalStaticSample(RTPCodecCapability{MimeType: MimeTypeVP8}, id, stream, WithRTPStreamID(rid))
				if e != nil {
					r.t.Fatal(e)
				}
				_ = sender.AddEncoding(more)
			}
		}
		desc = fmt.Sprintf("addSimulcast:%d", n)
	case "removeTrack":
		n := 0
		for _, s := range p.pc.GetSenders() {
			if s.Track() != nil {
				if n == st.N {
					_ = p.pc.RemoveTrack(s)
					break
				}
				n++
			}
		}
	case "stop":
		trs := p.pc.GetTransceivers()
		if st.N < len(trs) {
			_ = trs[st.N].Stop()
		}
	case "setPrefs": // codec preferences in the local numbering on the n-th transceiver
		trs := p.pc.GetTransceivers()
		if st.N < len(trs) {
			prefs := []RTPCodecParameters{}
			for _, name := range st.Prefs {
				if c, ok := vsPrefTable[name]; ok {
					prefs = append(prefs, c)
				}
			}
			if trs[st.N].SetCodecPreferences(prefs) == nil && len(prefs) > 0 {
				if p.prefSet == nil {
					p.prefSet = map[*RTPTransceiver]string{}
				}
				p.prefSet[trs[st.N]] = "with-prefs-nopt"
				for _, c := range prefs {
					if c.PayloadType != 0 {
						p.prefSet[trs[st.N]] = "with-prefs"
					}
				}
			}
		}
		desc = "setPrefs:" + strings.Join(st.Prefs, ",")
	case "presetMid": // the application numbers a fresh transceiver itself, with a mid nothing carries yet
		trs := p.pc.GetTransceivers()
		if st.N < len(trs) && trs[st.N].Mid() == "" {
			top := -1
			note := func(m string) {
				if v, err := strconv.Atoi(m); err == nil && v > top {
					top = v
				}
			}
			for _, q := range []*vsPeer{p, other} {
				for _, tr := range q.pc.GetTransceivers() {
					note(tr.Mid())
				}
				for _, d := range []*SessionDescription{q.pc.LocalDescription(), q.pc.RemoteDescription()} {
					if d != nil {
						for _, m := range vsMids(d.SDP) {
							note(m)
						}
					}
				}
			}
			_ = trs[st.N].SetMid(strconv.Itoa(top + 1))
		}
	case "setMid":
		trs := p.pc.GetTransceivers()
		if st.N < len(trs) {
			_ = trs[st.N].SetMid("verif-mid") // refused when the transceiver has a mid
		}
	case "createDC":
		p.dcs++
		if _, err := p.pc.CreateDataChannel(fmt.Sprintf("dc%d", p.dcs), nil); err != nil {
			p.dcs--
		}
	case "offerOnly":
		offer, err := p.pc.CreateOffer(nil)
		r.logDesc(p, "CreateOffer", offer, err, "offerOnly")
		return
	case "negotiate":
		r.negotiate(p, other, "negotiate")
		return
	case "remoteOffer":
		sd := SessionDescription{Type: SDPTypeOffer, SDP: vsSynthOffer(st.Offer, st.Session)}
		p.transceivers()
		p.preIDs = len(p.trIDs)
		p.noteStale()
		err := p.pc.SetRemoteDescription(sd)
		r.logApply(p, "Remote", sd, err, "synthetic")
		if err != nil {
			return
		}
		answer, err := p.pc.CreateAnswer(nil)
		r.logDesc(p, "CreateAnswer", answer, err, "synthetic")
		if err != nil {
			return
		}
		if st.Follow == "pranswer" { // a provisional answer first, then the final one (created in have-local-pranswer)
			pr := answer
			pr.Type = SDPTypePranswer
			if err = p.pc.SetLocalDescription(pr); err != nil {
				r.logApply(p, "Local", pr, err, "synthetic")
				return
			}
			answer, err = p.pc.CreateAnswer(nil)
			r.logDesc(p, "CreateAnswer", answer, err, "synthetic")
			if err != nil {
				return
			}
		}
		err = p.pc.SetLocalDescription(answer)
		r.logApply(p, "Local", answer, err, "synthetic")
		return
	default:
		r.t.Fatalf("unknown op %q", st.Op)
	}
	r.emit(vkM{"ev": "act", "t": r.id, "who": p.name, "op": desc, "cfg": r.cfg, "trs": p.transceivers(), "sig": desc})
}

// ---- synthetic offers ---------------------------------------------------------------------------

var vsCodecTable = map[string][]string{ //nolint:gochecknoglobals
	"opus/111":   {"111 opus/48000/2", "111 minptime=10;useinbandfec=1"},
	"opus/109":   {"109 opus/48000/2", "109 minptime=10;useinbandfec=1"},
	"pcmu/0":     {"0 PCMU/8000", ""},
	"g722/9":     {"9 G722/8000", ""},
	"vp8/96":     {"96 VP8/90000", ""},
	"vp8/100":    {"100 VP8/90000", ""},
	"vp9/98":     {"98 VP9/90000", "98 profile-id=0"},
	"h264/102":   {"102 H264/90000", "102 level-asymmetry-allowed=1;packetization-mode=1;profile-level-id=42001f"},
	"h264/125":   {"125 H264/90000", "125 level-asymmetry-allowed=1;packetization-mode=1;profile-level-id=42e01f"},
	"rtx96/97":   {"97 rtx/90000", "97 apt=96"},
	"rtx102/103": {"103 rtx/90000", "103 apt=102"},
	// a peer with its own numbering: payload types that mean something else in pion's defaults
	"vp8/98":    {"98 VP8/90000", ""},
	"rtx98/99":  {"99 rtx/90000", "99 apt=98"},
	"h264/96":   {"96 H264/90000", "96 level-asymmetry-allowed=1;packetization-mode=1;profile-level-id=42001f"},
	"rtx96b/97": {"97 rtx/90000", "97 apt=96"},
	"opus/0":    {"0 opus/48000/2", "0 minptime=10;useinbandfec=1"},
	"foo/120":   {"120 FOO/90000", ""},
	"bar/121":   {"121 BAR/48000/2", ""},
	"t140/98":   {"98 t140/1000", ""},
}

// codec preferences as an application writes them, in pion's default numbering
var vsPrefTable = map[string]RTPCodecParameters{ //nolint:gochecknoglobals
	"vp8":     {RTPCodecCapability: RTPCodecCapability{MimeType: MimeTypeVP8, ClockRate: 90000}, PayloadType: 96},
	"rtx-vp8": {RTPCodecCapability: RTPCodecCapability{MimeType: MimeTypeRTX, ClockRate: 90000, SDPFmtpLine: "apt=96"}, PayloadType: 97},
	"vp9":     {RTPCodecCapability: RTPCodecCapability{MimeType: MimeTypeVP9, ClockRate: 90000, SDPFmtpLine: "profile-id=0"}, PayloadType: 98},
	"rtx-vp9": {RTPCodecCapability: RTPCodecCapability{MimeType: MimeTypeRTX, ClockRate: 90000, SDPFmtpLine: "apt=98"}, PayloadType: 99},
	"h264": {RTPCodecCapability: RTPCodecCapability{MimeType: MimeTypeH264, ClockRate: 90000,
		SDPFmtpLine: "level-asymmetry-allowed=1;packetization-mode=1;profile-level-id=42001f"}, PayloadType: 102},
	"rtx-h264": {RTPCodecCapability: RTPCodecCapability{MimeType: MimeTypeRTX, ClockRate: 90000, SDPFmtpLine: "apt=102"}, PayloadType: 103},
	// capabilities only, as returned by RTPSender/Receiver capabilities: no payload type
	"vp8-nopt": {RTPCodecCapability: RTPCodecCapability{MimeType: MimeTypeVP8, ClockRate: 90000}},
	"h264-nopt": {RTPCodecCapability: RTPCodecCapability{MimeType: MimeTypeH264, ClockRate: 90000,
		SDPFmtpLine: "level-asymmetry-allowed=1;packetization-mode=1;profile-level-id=42001f"}},
	"opus-nopt": {RTPCodecCapability: RTPCodecCapability{MimeType: MimeTypeOpus, ClockRate: 48000, Channels: 2, SDPFmtpLine: "minptime=10;useinbandfec=1"}},
	"opus":      {RTPCodecCapability: RTPCodecCapability{MimeType: MimeTypeOpus, ClockRate: 48000, Channels: 2, SDPFmtpLine: "minptime=10;useinbandfec=1"}, PayloadType: 111},
	"pcmu":      {RTPCodecCapability: RTPCodecCapability{MimeType: MimeTypePCMU, ClockRate: 8000}, PayloadType: 0},
}

const vsFp = "sha-256 0F:74:31:25:CB:A2:13:EC:28:6F:6D:2C:61:FF:5D:C2:BC:B9:DB:3D:98:14:8D:1A:BB:EA:33:0C:A4:60:A8:8E"

func vsSynthOffer(secs []vsSection, session string) string {
	var b strings.Builder
	b.WriteString("v=0\r\no=- 4596489990601351948 2 IN IP4 127.0.0.1\r\ns=-\r\nt=0 0\r\n")
	mids := []string{}
	for _, s := range secs {
		if !s.Port0 {
			mids = append(mids, s.Mid)
		}
	}
	b.WriteString("a=group:BUNDLE " + strings.Join(mids, " ") + "\r\n")
	if session == "session" {
		b.WriteString("a=fingerprint:" + vsFp + "\r\n")
	}
	b.WriteString("a=msid-semantic: WMS\r\n")
	for _, s := range secs {
		port := "9"
		if s.Port0 {
			port = "0"
		}
		if s.Kind == "application" {
			b.WriteString("m=application " + port + " UDP/DTLS/SCTP webrtc-datachannel\r\nc=IN IP4 0.0.0.0\r\n")
		} else {
			pts := []string{}
			for _, c := range s.Codecs {
				pts = append(pts, strings.SplitN(vsCodecTable[c][0], " ", 2)[0])
			}
			if len(pts) == 0 {
				pts = []string{"126"}
			}
			b.WriteString("m=" + s.Kind + " " + port + " UDP/TLS/RTP/SAVPF " + strings.Join(pts, " ") + "\r\nc=IN IP4 0.0.0.0\r\n")
		}
		b.WriteString("a=ice-ufrag:synU\r\na=ice-pwd:synPwdsynPwdsynPwdsynPwd\r\n")
		if session != "session" {
			b.WriteString("a=fingerprint:" + vsFp + "\r\n")
		}
		b.WriteString("a=setup:actpass\r\na=mid:" + s.Mid + "\r\n")
		if s.Kind == "application" {
			b.WriteString("a=sctp-port:5000\r\n")
			continue
		}
		if s.Dir != "absent" {
			b.WriteString("a=" + s.Dir + "\r\n")
		}
		b.WriteString("a=rtcp-mux\r\n")
		for _, c := range s.Codecs {
			e := vsCodecTable[c]
			b.WriteString("a=rtpmap:" + e[0] + "\r\n")
			if e[1] != "" {
				b.WriteString("a=fmtp:" + e[1] + "\r\n")
			}
		}
	}
	return b.String()
}

// ---- configurations ----------------------------------------------------------------------------

func vsNewPC(t *testing.T, cfg string) *PeerConnection {
	t.Helper()
	me := &MediaEngine{}
	conf := Configuration{}
	se := SettingEngine{}
	switch cfg {
	case "planb":
		conf.SDPSemantics = SDPSemanticsPlanB
	case "fallback":
		conf.SDPSemantics = SDPSemanticsUnifiedPlanWithFallback
	}
	switch cfg {
	case "rtxorphan": // an RTX codec whose primary is not registered (C10)
		for _, c := range []RTPCodecParameters{
			{RTPCodecCapability: RTPCodecCapability{MimeType: MimeTypeVP8, ClockRate: 90000}, PayloadType: 96},
			{RTPCodecCapability: RTPCodecCapability{MimeType: MimeTypeRTX, ClockRate: 90000, SDPFmtpLine: "apt=99"}, PayloadType: 97},
			{RTPCodecCapability: RTPCodecCapability{MimeType: MimeTypeVP9, ClockRate: 90000, SDPFmtpLine: "profile-id=0"}, PayloadType: 98},
		} {
			if err := me.RegisterCodec(c, RTPCodecTypeVideo); err != nil {
				t.Fatal(err)
			}
		}
		if err := me.RegisterCodec(RTPCodecParameters{
			RTPCodecCapability: RTPCodecCapability{MimeType: MimeTypeOpus, ClockRate: 48000, Channels: 2}, PayloadType: 111,
		}, RTPCodecTypeAudio); err != nil {
			t.Fatal(err)
		}
	case "rtxfec", "feconly", "nortx": // repair streams: RTX and FlexFEC both, FlexFEC alone, neither (C12)
		video := []RTPCodecParameters{
			{RTPCodecCapability: RTPCodecCapability{MimeType: MimeTypeVP8, ClockRate: 90000}, PayloadType: 96},
		}
		if cfg == "rtxfec" {
			video = append(video, RTPCodecParameters{
				RTPCodecCapability: RTPCodecCapability{MimeType: MimeTypeRTX, ClockRate: 90000, SDPFmtpLine: "apt=96"}, PayloadType: 97,
			})
		}
		if cfg != "nortx" {
			video = append(video, RTPCodecParameters{
				RTPCodecCapability: RTPCodecCapability{MimeType: MimeTypeFlexFEC03, ClockRate: 90000, SDPFmtpLine: "repair-window=10000000"},
				PayloadType:        118,
			})
		}
		for _, c := range video {
			if err := me.RegisterCodec(c, RTPCodecTypeVideo); err != nil {
				t.Fatal(err)
			}
		}
		if err := me.RegisterCodec(RTPCodecParameters{
			RTPCodecCapability: RTPCodecCapability{MimeType: MimeTypeOpus, ClockRate: 48000, Channels: 2}, PayloadType: 111,
		}, RTPCodecTypeAudio); err != nil {
			t.Fatal(err)
		}
	case "audioonly":
		if err := me.RegisterCodec(RTPCodecParameters{
			RTPCodecCapability: RTPCodecCapability{MimeType: MimeTypeOpus, ClockRate: 48000, Channels: 2}, PayloadType: 111,
		}, RTPCodecTypeAudio); err != nil {
			t.Fatal(err)
		}
	case "ptcollide": // the application registers a second codec under a payload type that is taken (C10): refused or not,
		// what is generated must stay consistent
		if err := me.RegisterDefaultCodecs(); err != nil {
			t.Fatal(err)
		}
		for _, clock := range []uint32{8000, 48000, 16000} {
			_ = me.RegisterCodec(RTPCodecParameters{
				RTPCodecCapability: RTPCodecCapability{MimeType: "audio/telephone-event", ClockRate: clock}, PayloadType: 126,
			}, RTPCodecTypeAudio)
		}
		_ = me.RegisterCodec(RTPCodecParameters{
			RTPCodecCapability: RTPCodecCapability{MimeType: MimeTypeVP8, ClockRate: 90000, SDPFmtpLine: "x=1"}, PayloadType: 96,
		}, RTPCodecTypeVideo)
		_ = me.RegisterCodec(RTPCodecParameters{
			RTPCodecCapability: RTPCodecCapability{MimeType: MimeTypeVP8, ClockRate: 45000}, PayloadType: 96,
		}, RTPCodecTypeVideo)
	case "manyext": // more header extensions than one-byte ids (C10)
		if err := me.RegisterDefaultCodecs(); err != nil {
			t.Fatal(err)
		}
		for i := 0; i < 16; i++ {
			if err := me.RegisterHeaderExtension(RTPHeaderExtensionCapability{URI: fmt.Sprintf("urn:verif:ext:%d", i)}, RTPCodecTypeVideo); err != nil {
				t.Fatal(err)
			}
		}
	default:
		if err := me.RegisterDefaultCodecs(); err != nil {
			t.Fatal(err)
		}
	}
	if cfg == "alwaysdc" {
		conf.AlwaysNegotiateDataChannels = true
	}
	pc, err := NewAPI(WithMediaEngine(me), WithSettingEngine(se)).NewPeerConnection(conf)
	if err != nil {
		t.Fatal(err)
	}
	return pc
}

func TestVerifSdp(t *testing.T) {
	vkSkipUnlessDriven(t)
	var behaviours []vsBehaviour
	vkLoadInput(t, &behaviours)
	tr := vkOpenTrace(t)
	defer tr.Close()
	// behaviours are independent: run them on several workers, write each one's lines together
	type result struct {
		id    int
		lines []vkM
	}
	workers := vkEnvInt("VERIF_WORKERS", 8)
	jobs := make(chan vsBehaviour)
	results := make(chan result, len(behaviours))
	var wg sync.WaitGroup
	for w := 0; w < workers; w++ {
		wg.Add(1)
		go func() {
			defer wg.Done()
			for bh := range jobs {
				results <- result{bh.ID, vsRunBehaviour(t, bh)}
			}
		}()
	}
	for _, bh := range behaviours {
		jobs <- bh
	}
	close(jobs)
	wg.Wait()
	close(results)
	all := map[int][]vkM{}
	for r := range results {
		all[r.id] = r.lines
	}
	for _, bh := range behaviours {
		tr.Reset(bh.ID)
		for _, l := range all[bh.ID] {
			l["t"] = bh.ID
			tr.Emit(l)
		}
	}
}

func vsRunBehaviour(t *testing.T, bh vsBehaviour) []vkM {
	t.Helper()
	cfg := bh.Config
	if cfg == "" {
		cfg = "default"
	}
	cfgA, cfgB := cfg, cfg
	if cfg == "novideoB" { // B has no video codec: it rejects video sections for lack of codecs
		cfgA, cfgB = "default", "audioonly"
	}
	if cfg == "alwaysdcA" { // only A always negotiates data channels: B's offers can be media-only
		cfgA, cfgB = "alwaysdc", "default"
	}
	a := &vsPeer{name: "A", pc: vsNewPC(t, cfgA), trIDs: map[*RTPTransceiver]int{}, applied: map[string]bool{}}
	b := &vsPeer{name: "B", pc: vsNewPC(t, cfgB), trIDs: map[*RTPTransceiver]int{}, applied: map[string]bool{}}
	defer func() {
		_ = a.pc.Close()
		_ = b.pc.Close()
	}()
	r := &vsRun{t: t, id: bh.ID, a: a, b: b, cfg: cfg}
	for _, st := range bh.Steps {
		r.step(st)
	}
	return r.lines
}
