//go:build verif && !js

package webrtc

// Driver for C25: builds the ICE candidates sampled by TLC (spec/Candidate.tla, Candidate_Vec.cfg)
// with pion/ice, converts them with newICECandidateFromICE -> ToJSON, hands the JSON form to
// AddICECandidate of a PeerConnection whose applied remote description is a genuine offer of a
// throw-away pion peer, and records (a) what ice.UnmarshalCandidate makes of ToJSON().Candidate,
// (b) what AddICECandidate returned, (c) the candidate that reached the ICE agent. The driver does
// not judge (spec/Candidate_Trace.tla evaluates the predicates).

import (
	"fmt"
	"io"
	"regexp"
	"strconv"
	"testing"
	"time"

	"github.com/pion/ice/v4"
	"github.com/pion/logging"
)

type vcVec struct {
	ID      int        `json:"id"`
	Via     string     `json:"via"`
	Typ     string     `json:"typ"`
	Proto   string     `json:"proto"`
	Addr    string     `json:"addr"`
	Port    string     `json:"port"`
	Prio    string     `json:"prio"`
	Comp    string     `json:"comp"`
	Found   string     `json:"found"`
	Rel     string     `json:"rel"`
	TCPType string     `json:"tcptype"`
	Exts    [][]string `json:"exts"`
}

const (
	vcForeignUfrag = "verifForeignUfrag"
	vcFound32      = "+/aZ09+/aZ09+/aZ09+/aZ09+/aZ09+/" // 32 ice-chars
	vcBatch        = 250
)

type vcConcrete struct {
	address, raddr, foundation string
	port, rport, component     int
	priority                   uint32
	exts                       []ice.CandidateExtension
}

// vcConcretise turns the abstract vector into concrete field values; k (position in the batch)
// makes the transport address unique so that the candidate can be found again in the agent.
func vcConcretise(v vcVec, k int, ownUfrag string) vcConcrete {
	c := vcConcrete{}
	v6 := false
	switch v.Addr {
	case "v4":
		c.address = fmt.Sprintf("10.1.%d.%d", k/250, k%250+1)
	case "v6":
		c.address, v6 = fmt.Sprintf("fd00::%x", k+1), true
	case "v6full":
		c.address, v6 = fmt.Sprintf("2001:0db8:0000:0000:0000:0000:0000:%04x", k+1), true
	default:
		c.address = fmt.Sprintf("verif-%06d.local", k)
	}
	switch v.Rel {
	case "full1", "full65535":
		c.raddr = fmt.Sprintf("192.168.%d.%d", k/250, k%250+1)
		if v6 {
			c.raddr = fmt.Sprintf("fd01::%x", k+1)
		}
		c.rport = 1
		if v.Rel == "full65535" {
			c.rport = 65535
		}
	case "port0": // what browsers send to hide the base address
		c.raddr = "0.0.0.0"
		if v6 {
			c.raddr = "::"
		}
	}
	c.port, _ = strconv.Atoi(v.Port)
	c.component, _ = strconv.Atoi(v.Comp)
	if v.Prio != "computed" {
		p, _ := strconv.ParseUint(v.Prio, 10, 32)
		c.priority = uint32(p)
	}
	switch v.Found {
	case "computed":
		c.foundation = ""
	case "f32":
		c.foundation = vcFound32
	case "empty":
		c.foundation = " "
	default:
		c.foundation = v.Found
	}
	for _, e := range v.Exts {
		val := e[1]
		switch val {
		case "OWN":
			val = ownUfrag
		case "FOREIGN":
			val = vcForeignUfrag
		case "UTF8": // a value that ends in a character of more than one byte
			val = "caf\u00e9"
		}
		c.exts = append(c.exts, ice.CandidateExtension{Key: e[0], Value: val})
	}
	return c
}

// vcBuild constructs the candidate the way the vector says: through the ice constructors and
// AddExtension ("new") or from a candidate line ("raw").
func vcBuild(v vcVec, c vcConcrete) (ice.Candidate, error) {
	if v.Via == "raw" {
		f := c.foundation
		if f == " " {
			f = ""
		}
		s := fmt.Sprintf("%s %d %s %d %s %d typ %s", f, c.component, v.Proto, c.priority, c.address, c.port, v.Typ)
		if v.Typ != "host" && v.Rel != "none" {
			s += fmt.Sprintf(" raddr %s rport %d", c.raddr, c.rport)
		}
		if v.Typ == "host" && v.TCPType != "" {
			s += " tcptype " + v.TCPType
		}
		for _, e := range c.exts {
			s += " " + e.Key + " " + e.Value
		}
		return ice.UnmarshalCandidate(s)
	}
	var (
		cand ice.Candidate
		err  error
	)
	comp := uint16(c.component) //nolint:gosec
	switch v.Typ {
	case "host":
		cand, err = ice.NewCandidateHost(&ice.CandidateHostConfig{Network: v.Proto, Address: c.address, Port: c.port,
			Component: comp, Priority: c.priority, Foundation: c.foundation, TCPType: ice.NewTCPType(v.TCPType)})
	case "srflx":
		cand, err = ice.NewCandidateServerReflexive(&ice.CandidateServerReflexiveConfig{Network: v.Proto, Address: c.address,
			Port: c.port, Component: comp, Priority: c.priority, Foundation: c.foundation, RelAddr: c.raddr, RelPort: c.rport})
	case "prflx":
		cand, err = ice.NewCandidatePeerReflexive(&ice.CandidatePeerReflexiveConfig{Network: v.Proto, Address: c.address,
			Port: c.port, Component: comp, Priority: c.priority, Foundation: c.foundation, RelAddr: c.raddr, RelPort: c.rport})
	case "relay":
		cand, err = ice.NewCandidateRelay(&ice.CandidateRelayConfig{Network: v.Proto, Address: c.address,
			Port: c.port, Component: comp, Priority: c.priority, Foundation: c.foundation, RelAddr: c.raddr, RelPort: c.rport})
	default:
		return nil, fmt.Errorf("unknown type %q", v.Typ) //nolint:err113
	}
	if err != nil {
		return nil, err
	}
	for _, e := range c.exts {
		if err = cand.AddExtension(e); err != nil {
			return nil, err
		}
	}
	return cand, nil
}

// vcProj is the projector: the fields the property enumerates (spec/CandidateOps.tla).
func vcProj(c ice.Candidate) vkM {
	if c == nil {
		return vkM{"foundation": "", "component": 0, "protocol": "", "priority": "", "address": "", "port": 0, "type": "",
			"raddr": "", "rport": 0, "tcptype": "", "exts": [][]string{}}
	}
	exts := [][]string{}
	for _, e := range c.Extensions() {
		exts = append(exts, []string{e.Key, e.Value})
	}
	m := vkM{"foundation": c.Foundation(), "component": int(c.Component()), "protocol": c.NetworkType().NetworkShort(),
		"priority": fmt.Sprint(c.Priority()), "address": c.Address(), "port": c.Port(), "type": c.Type().String(),
		"raddr": "", "rport": 0, "tcptype": c.TCPType().String(), "exts": exts}
	if r := c.RelatedAddress(); r != nil {
		m["raddr"], m["rport"] = r.Address, r.Port
	}
	return m
}

var vcReUfrag = regexp.MustCompile(`(?m)^a=ice-ufrag:(\S+)\r?$`)

func vcNewPC(t *testing.T) *PeerConnection {
	t.Helper()
	se := SettingEngine{}
	// hermetic: no multicast queries for the .local candidates (the agent then ignores them)
	se.SetICEMulticastDNSMode(ice.MulticastDNSModeDisabled)
	se.LoggerFactory = &logging.DefaultLoggerFactory{Writer: io.Discard, DefaultLogLevel: logging.LogLevelDisabled,
		ScopeLevels: map[string]logging.LogLevel{}}
	pc, err := NewAPI(WithSettingEngine(se)).NewPeerConnection(Configuration{})
	if err != nil {
		t.Fatal(err)
	}
	return pc
}

type vcPending struct {
	line    vkM
	address string
	await   bool // the driver waits for it to show up in the agent (never used to judge)
}

func TestVerifCandidate(t *testing.T) {
	vkSkipUnlessDriven(t)
	var vecs []vcVec
	vkLoadInput(t, &vecs)
	tr := vkOpenTrace(t)
	defer tr.Close()

	// a genuine remote offer from a throw-away pion peer
	peer := vcNewPC(t)
	if _, err := peer.CreateDataChannel("verif", nil); err != nil {
		t.Fatal(err)
	}
	if _, err := peer.AddTransceiverFromKind(RTPCodecTypeAudio); err != nil {
		t.Fatal(err)
	}
	offer, err := peer.CreateOffer(nil)
	if err != nil {
		t.Fatal(err)
	}
	_ = peer.Close()
	ufrags := map[string]bool{}
	for _, m := range vcReUfrag.FindAllStringSubmatch(offer.SDP, -1) {
		ufrags[m[1]] = true
	}
	if len(ufrags) != 1 {
		t.Fatalf("expected one ufrag in the peer's offer, got %v", ufrags)
	}
	own := ""
	for u := range ufrags {
		own = u
	}

	for lo := 0; lo < len(vecs); lo += vcBatch {
		hi := lo + vcBatch
		if hi > len(vecs) {
			hi = len(vecs)
		}
		vcBatchRun(t, tr, vecs[lo:hi], offer, own)
	}
}

func vcBatchRun(t *testing.T, tr *vkTrace, vecs []vcVec, offer SessionDescription, own string) {
	t.Helper()
	tr.Reset(vecs[0].ID)
	pc := vcNewPC(t)
	defer func() { _ = pc.Close() }()
	if err := pc.SetRemoteDescription(offer); err != nil {
		t.Fatal(err)
	}
	applied := []string{}
	for _, m := range vcReUfrag.FindAllStringSubmatch(pc.RemoteDescription().SDP, -1) {
		applied = append(applied, m[1])
	}

	pend := make([]*vcPending, 0, len(vecs))
	for k, v := range vecs {
		cc := vcConcretise(v, k, own)
		line := vkM{"ev": "cand", "t": v.ID, "sig": "rt:" + v.Typ,
			"vec":    vkM{"via": v.Via, "typ": v.Typ, "proto": v.Proto, "addr": v.Addr, "port": v.Port, "prio": v.Prio, "comp": v.Comp, "found": v.Found, "rel": v.Rel, "tcptype": v.TCPType, "next": len(v.Exts)},
			"ufrags": applied}
		c0, err := vcBuild(v, cc)
		if err != nil {
			// not a candidate pion can represent
			tr.Emit(vkM{"ev": "unrep", "t": v.ID, "sig": "unrep:" + v.Typ, "why": err.Error()})
			continue
		}
		line["before"] = vcProj(c0)
		line["converr"], line["jsonstr"], line["jsonok"], line["json"], line["err"] = "", "", false, vcProj(nil), ""
		p := &vcPending{line: line, address: c0.Address()}
		pend = append(pend, p)
		wc, err := newICECandidateFromICE(c0, "", 0)
		if err != nil {
			line["converr"] = err.Error()
			continue
		}
		js := wc.ToJSON()
		line["jsonstr"] = js.Candidate
		if parsed, perr := ice.UnmarshalCandidate(js.Candidate); perr == nil {
			line["jsonok"], line["json"] = true, vcProj(parsed)
		}
		if err = pc.AddICECandidate(js); err != nil {
			line["err"] = err.Error()
			continue
		}
		foreign := false
		for _, e := range cc.exts {
			if e.Key == "ufrag" && e.Value != own {
				foreign = true
			}
		}
		p.await = !foreign && v.Addr != "mdns" && c0.TCPType() != ice.TCPTypeActive
	}

	// the agent takes remote candidates asynchronously: wait until those that are going to arrive
	// have arrived (generous deadline), then look once more a little later
	agent := pc.iceTransport.gatherer.getAgent()
	seen := map[string]ice.Candidate{}
	snapshot := func() {
		if agent == nil {
			return
		}
		rc, err := agent.GetRemoteCandidates()
		if err != nil {
			return
		}
		for _, c := range rc {
			seen[c.Address()] = c
		}
	}
	deadline := time.Now().Add(20 * time.Second)
	for {
		snapshot()
		missing := 0
		for _, p := range pend {
			if _, ok := seen[p.address]; p.await && !ok {
				missing++
			}
		}
		if missing == 0 || time.Now().After(deadline) {
			break
		}
		time.Sleep(time.Millisecond)
	}
	time.Sleep(3 * time.Millisecond)
	snapshot()
	for _, p := range pend {
		c, ok := seen[p.address]
		p.line["reached"] = ok
		p.line["agent"] = vcProj(c)
		if !ok {
			p.line["agent"] = vcProj(nil)
		}
		tr.Emit(p.line)
	}
}
