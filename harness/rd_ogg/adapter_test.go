//go:build verif && !js

package oggreader

// C37 adapter: Ogg reader (NewWith, ParseNextPage) and the OpusHead / OpusTags parsers. Every page
// the reader returns is also classified and, if it carries one of the two Opus headers, parsed.

import "encoding/binary"

func vrParser(f string) (bool, func([]byte) error) {
	switch f {
	case "opushead":
		return true, func(b []byte) error {
			_, err := ParseOpusHead(b)

			return err
		}
	case "opustags":
		return true, func(b []byte) error {
			_, err := ParseOpusTags(b)

			return err
		}
	}

	return false, nil
}

// vrFixChecksums walks the complete pages the way ParseNextPage frames them and writes the
// checksum each of them must carry.
func vrFixChecksums(f string, b []byte) {
	if f != "ogg" {
		return // payloads of the parser vectors
	}
	table := generateChecksumTable()
	for p := 0; len(b)-p >= pageHeaderLen; {
		ns := int(b[p+26])
		if len(b)-p-pageHeaderLen < ns {
			return
		}
		ps := 0
		for _, s := range b[p+pageHeaderLen : p+pageHeaderLen+ns] {
			ps += int(s)
		}
		e := p + pageHeaderLen + ns + ps
		if e > len(b) {
			return
		}
		var sum uint32
		for i := p; i < e; i++ {
			v := b[i]
			if i-p > 21 && i-p < 26 {
				v = 0
			}
			sum = (sum << 8) ^ table[byte(sum>>24)^v]
		}
		binary.LittleEndian.PutUint32(b[p+22:], sum)
		p = e
	}
}

func vrOpenReader(_ string, s *vrStream) (*vrReaderOps, error) {
	r, _, err := NewWith(s)
	if err != nil {
		return nil, err
	}

	return &vrReaderOps{
		next: func() error {
			payload, hdr, e := r.ParseNextPage()
			if e != nil {
				return e
			}
			if sig, ok := hdr.HeaderType(payload); ok {
				switch sig {
				case HeaderOpusID:
					_, _ = ParseOpusHead(payload)
				case HeaderOpusTags:
					_, _ = ParseOpusTags(payload)
				}
			}

			return nil
		},
		buffered: func() int { return 0 },
	}, nil
}
