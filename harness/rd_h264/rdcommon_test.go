//go:build verif && !js

package h264reader

// Shared part of the C37 drivers (identical in harness/rd_*; only the package clause differs).
// Builds the input of every TLC-generated vector (base file, patches, truncation, repaired
// checksums), drives the reader of this package over a counting io.Reader until it stops, and
// records the run. It does not judge. One line is flushed per vector so that the orchestrator
// can tell which vector a dying process was working on.

import (
	"bytes"
	"errors"
	"fmt"
	"io"
	"os"
	"regexp"
	"runtime/debug"
	"strconv"
	"strings"
	"sync"
	"syscall"
	"testing"
	"time"
)

type vrPatch struct {
	Off  int    `json:"off"`
	Del  int    `json:"del"`
	Ins  []int  `json:"ins"`
	Name string `json:"name"`
}

type vrVec struct {
	ID      int       `json:"id"`
	Fmt     string    `json:"fmt"`
	Base    int       `json:"base"`
	Patches []vrPatch `json:"patches"`
	Trunc   int       `json:"trunc"`
	Fix     bool      `json:"fix"`
	Mode    string    `json:"mode"`
}

type vrBase struct {
	Fmt   string `json:"fmt"`
	Base  int    `json:"base"`
	Bytes []int  `json:"bytes"`
}

type vrInput struct {
	Bases []vrBase `json:"bases"`
	Vecs  []vrVec  `json:"vecs"`
}

// vrStream is the counting io.Reader. Modes: "full" gives what is asked for, "byte" one byte per
// call, "eofdata" returns io.EOF together with the last bytes (both allowed by io.Reader).
type vrStream struct {
	data []byte
	off  int
	n    int64
	mode string
}

func (s *vrStream) Read(p []byte) (int, error) {
	if len(p) == 0 {
		return 0, nil
	}
	if s.off >= len(s.data) {
		return 0, io.EOF
	}
	k := len(p)
	if s.mode == "byte" {
		k = 1
	}
	if k > len(s.data)-s.off {
		k = len(s.data) - s.off
	}
	copy(p, s.data[s.off:s.off+k])
	s.off += k
	s.n += int64(k)
	if s.mode == "eofdata" && s.off == len(s.data) {
		return k, io.EOF
	}

	return k, nil
}

// vrReaderOps is what the format adapter of the package provides.
type vrReaderOps struct {
	next     func() error // one read call; nil = a value was returned
	buffered func() int   // bytes taken from the stream but not yet consumed by the reader
}

func vrBuild(base []byte, v vrVec) []byte {
	b := append([]byte{}, base...)
	// patch offsets are offsets of the base file: apply from the last to the first
	ps := append([]vrPatch{}, v.Patches...)
	for i := 0; i < len(ps); i++ {
		for j := i + 1; j < len(ps); j++ {
			if ps[j].Off > ps[i].Off {
				ps[i], ps[j] = ps[j], ps[i]
			}
		}
	}
	for _, p := range ps {
		ins := make([]byte, len(p.Ins))
		for i, x := range p.Ins {
			ins[i] = byte(x)
		}
		nb := append([]byte{}, b[:p.Off]...)
		nb = append(nb, ins...)
		nb = append(nb, b[p.Off+p.Del:]...)
		b = nb
	}
	if v.Trunc >= 0 && v.Trunc < len(b) {
		b = b[:v.Trunc]
	}
	if v.Fix {
		vrFixChecksums(v.Fmt, b)
	}

	return b
}

var vrDigits = regexp.MustCompile(`[0-9]+`)

func vrClass(r any) string {
	s := fmt.Sprint(r)
	if e, ok := r.(error); ok {
		s = e.Error()
	}
	s = vrDigits.ReplaceAllString(s, "N")
	s = strings.ReplaceAll(s, " ", "_")
	if len(s) > 80 {
		s = s[:80]
	}

	return s
}

func vrKind(err error) string {
	switch {
	case err == nil:
		return "value"
	case errors.Is(err, io.EOF):
		return "eof"
	default:
		return "error"
	}
}

// vrRun is the record of one run; the mutex protects it against the watchdog reading it.
type vrRun struct {
	mu    sync.Mutex
	open  string
	pos0  int64
	calls []int64
	end   string
	msg   string
	call  string // the call in flight / the last call
}

func (r *vrRun) line(v vrVec, n int) vkM {
	r.mu.Lock()
	defer r.mu.Unlock()
	calls := append([]int64{}, r.calls...)

	return vkM{"ev": "run", "t": v.ID, "sig": v.Fmt + "." + r.call, "fmt": v.Fmt, "n": n, "mode": v.Mode,
		"open": r.open, "pos0": r.pos0, "calls": calls, "end": r.end, "msg": r.msg}
}

func vrFlush(tr *vkTrace) {
	tr.mu.Lock()
	_ = tr.w.Flush()
	tr.mu.Unlock()
}

// vrDrive performs the run of one vector in the calling goroutine.
func vrDrive(v vrVec, input []byte, run *vrRun, mark func(call string, k int, pos int64)) {
	set := func(f func()) {
		run.mu.Lock()
		f()
		run.mu.Unlock()
	}
	defer func() {
		if p := recover(); p != nil {
			set(func() {
				if run.open == "none" {
					run.open = "panic"
				}
				run.end = "panic"
				run.msg = vrClass(p)
			})
		}
	}()
	if handled, parse := vrParser(v.Fmt); handled {
		set(func() { run.call = "parse" })
		mark("parse", 0, 0)
		k := vrKind(parse(input))
		set(func() { run.open, run.end = k, k })

		return
	}
	s := &vrStream{data: input, mode: v.Mode}
	set(func() { run.call = "open" })
	mark("open", 0, 0)
	ops, err := vrOpenReader(v.Fmt, s)
	if err != nil || ops == nil {
		set(func() { run.open, run.end = "error", "error" })

		return
	}
	pos := s.n - int64(ops.buffered())
	set(func() { run.open, run.pos0, run.call = "value", pos, "next" })
	budget := len(input) + 2
	for k := 1; ; k++ {
		if k > budget+1 {
			set(func() { run.end = "budget" })

			return
		}
		mark("next", k, pos)
		e := ops.next()
		if e != nil {
			kind := vrKind(e)
			set(func() { run.end = kind })

			return
		}
		pos = s.n - int64(ops.buffered())
		set(func() { run.calls = append(run.calls, pos) })
	}
}

// vrLimitMemory bounds the address space of this process to what it uses now plus `extra` bytes:
// an allocation that a length field of a small input drives beyond that is fatal (out of memory).
func vrLimitMemory(t *testing.T, extra uint64) uint64 {
	t.Helper()
	b, err := os.ReadFile("/proc/self/status")
	if err != nil {
		t.Fatalf("verif: /proc/self/status: %v", err)
	}
	var kb uint64
	for _, ln := range strings.Split(string(b), "\n") {
		if strings.HasPrefix(ln, "VmSize:") {
			f := strings.Fields(ln)
			kb, _ = strconv.ParseUint(f[1], 10, 64)
		}
	}
	if kb == 0 {
		t.Fatalf("verif: VmSize not found")
	}
	lim := kb*1024 + extra
	var rl syscall.Rlimit
	if err := syscall.Getrlimit(syscall.RLIMIT_AS, &rl); err != nil {
		t.Fatalf("verif: getrlimit: %v", err)
	}
	rl.Cur = lim
	if err := syscall.Setrlimit(syscall.RLIMIT_AS, &rl); err != nil {
		t.Fatalf("verif: setrlimit: %v", err)
	}

	return lim
}

func TestVerifReaders(t *testing.T) {
	vkSkipUnlessDriven(t)
	var in vrInput
	vkLoadInput(t, &in)
	tr := vkOpenTrace(t)
	defer tr.Close()
	if mb := vkEnvInt("VERIF_SOFT_MEM_MB", 0); mb > 0 {
		debug.SetMemoryLimit(int64(mb) << 20)
	}
	lim := vrLimitMemory(t, uint64(vkEnvInt("VERIF_MEM_EXTRA_MB", 1024))<<20)
	deadline := time.Duration(vkEnvInt("VERIF_CALL_DEADLINE_S", 20)) * time.Second
	marks := os.Getenv("VERIF_MARK") != "0" // a flushed line before every call: tells which call a dying process was in
	bases := map[string][]byte{}
	crcOK := true
	for _, b := range in.Bases {
		raw := make([]byte, len(b.Bytes))
		for i, x := range b.Bytes {
			raw[i] = byte(x)
		}
		chk := append([]byte{}, raw...)
		vrFixChecksums(b.Fmt, chk) // the layouts of the model carry the valid page checksums: verify that
		crcOK = crcOK && bytes.Equal(chk, raw)
		bases[fmt.Sprintf("%s/%d", b.Fmt, b.Base)] = raw
	}
	tr.Emit(vkM{"ev": "start", "t": -1, "sig": "start", "limit": lim, "basecrc": crcOK})
	vrFlush(tr)
	for _, v := range in.Vecs {
		base, ok := bases[fmt.Sprintf("%s/%d", v.Fmt, v.Base)]
		if !ok {
			t.Fatalf("verif: no base %s/%d", v.Fmt, v.Base)
		}
		input := vrBuild(base, v)
		run := &vrRun{open: "none", end: "none", call: "open"}
		mark := func(string, int, int64) {}
		if marks {
			mark = func(call string, k int, pos int64) {
				tr.Emit(vkM{"ev": "mark", "t": v.ID, "sig": v.Fmt + "." + call, "call": call, "k": k, "pos": pos})
				vrFlush(tr)
			}
		}
		done := make(chan struct{})
		go func() {
			defer close(done)
			vrDrive(v, input, run, mark)
		}()
		select {
		case <-done:
			tr.Emit(run.line(v, len(input)))
			vrFlush(tr)
		case <-time.After(deadline):
			run.mu.Lock()
			if run.open == "none" {
				run.open = "hang"
			}
			run.end = "hang"
			run.mu.Unlock()
			tr.Emit(run.line(v, len(input)))
			tr.Close()
			os.Exit(3) // the stuck goroutine cannot be stopped: the orchestrator resumes behind this vector
		}
	}
}
