//go:build verif && !js

package webrtc

// Driver for C39: replays TLC-generated SetConfiguration vectors (spec/Config.tla) through the public
// API on real PeerConnections and records the argument, GetConfiguration() before and after, and the
// error. The driver does not judge; spec/Config_Trace.tla does.

import (
	"crypto/ecdsa"
	"crypto/elliptic"
	"crypto/rand"
	"crypto/sha256"
	"encoding/hex"
	"errors"
	"fmt"
	"sync"
	"testing"

	"github.com/pion/webrtc/v4/pkg/rtcerr"
)

type vcfVec struct {
	Init   string `json:"init"`
	Pos    string `json:"pos"`
	Bundle string `json:"bundle"`
	Mux    string `json:"mux"`
	Ident  string `json:"ident"`
	Certs  string `json:"certs"`
	Pool   string `json:"pool"`
	Policy string `json:"policy"`
	Srv    string `json:"srv"`
}

type vcfCase struct {
	ID    int      `json:"id"`
	V     vcfVec   `json:"v"`
	Exp   []string `json:"exp"`
	Kind  []string `json:"kind"`
	Calls int      `json:"calls"`
}

func vcfCert(t *testing.T) Certificate {
	t.Helper()
	sk, err := ecdsa.GenerateKey(elliptic.P256(), rand.Reader)
	if err != nil {
		t.Fatal(err)
	}
	c, err := GenerateCertificate(sk)
	if err != nil {
		t.Fatal(err)
	}

	return *c
}

func vcfCertName(c Certificate) string {
	if c.x509Cert == nil {
		return "nil"
	}
	h := sha256.Sum256(c.x509Cert.Raw)

	return hex.EncodeToString(h[:6])
}

func vcfEnum(unknown bool, s string) string {
	if unknown {
		return ""
	}

	return s
}

// vcfProj is the abstract configuration record of spec/ConfigOps.tla.
func vcfProj(c Configuration) vkM {
	certs := []string{}
	for _, x := range c.Certificates {
		certs = append(certs, vcfCertName(x))
	}
	servers := []string{}
	for _, s := range c.ICEServers {
		servers = append(servers, fmt.Sprintf("%q|%q|%T:%v|%s", s.URLs, s.Username, s.Credential, s.Credential, s.CredentialType))
	}

	return vkM{
		"bundle":  vcfEnum(c.BundlePolicy == BundlePolicyUnknown, c.BundlePolicy.String()),
		"mux":     vcfEnum(c.RTCPMuxPolicy == RTCPMuxPolicyUnknown, c.RTCPMuxPolicy.String()),
		"ident":   c.PeerIdentity,
		"certs":   certs,
		"pool":    int(c.ICECandidatePoolSize),
		"policy":  c.ICETransportPolicy.String(),
		"servers": servers,
		"sem":     c.SDPSemantics.String(),
		"dc":      c.AlwaysNegotiateDataChannels,
	}
}

const (
	vcfStun  = "stun:127.0.0.1:3478"
	vcfStun0 = "stun:127.0.0.1:3479"
	vcfTurn  = "turn:127.0.0.1:3478?transport=udp"
)

func vcfServers(class string) []ICEServer {
	switch class {
	case "stun":
		return []ICEServer{{URLs: []string{vcfStun}}}
	case "turn":
		return []ICEServer{{URLs: []string{vcfTurn}, Username: "u", Credential: "p", CredentialType: ICECredentialTypePassword}}
	case "badscheme":
		return []ICEServer{{URLs: []string{"http://127.0.0.1:3478"}}}
	case "turn-nocred":
		return []ICEServer{{URLs: []string{vcfTurn}}}
	case "turn-badcred":
		return []ICEServer{{URLs: []string{vcfTurn}, Username: "u", Credential: 42, CredentialType: ICECredentialTypePassword}}
	case "good+bad":
		return []ICEServer{{URLs: []string{vcfStun}}, {URLs: []string{vcfTurn}}}
	default: // "none"
		return nil
	}
}

func vcfBadServers(class string) bool {
	switch class {
	case "badscheme", "turn-nocred", "turn-badcred", "good+bad":
		return true
	default:
		return false
	}
}

// vcfArg derives the concrete argument from the current configuration by the rules of Config.tla ArgOf.
func vcfArg(v vcfVec, cur Configuration, x Certificate) Configuration {
	arg := Configuration{SDPSemantics: cur.SDPSemantics}
	switch v.Bundle {
	case "U":
		arg.BundlePolicy = cur.BundlePolicy
	case "C":
		arg.BundlePolicy = BundlePolicyMaxCompat
		if cur.BundlePolicy == BundlePolicyMaxCompat {
			arg.BundlePolicy = BundlePolicyBalanced
		}
	}
	switch v.Mux {
	case "U":
		arg.RTCPMuxPolicy = cur.RTCPMuxPolicy
	case "C":
		arg.RTCPMuxPolicy = RTCPMuxPolicyNegotiate
		if cur.RTCPMuxPolicy == RTCPMuxPolicyNegotiate {
			arg.RTCPMuxPolicy = RTCPMuxPolicyRequire
		}
	}
	switch v.Ident {
	case "U":
		arg.PeerIdentity = cur.PeerIdentity
	case "C":
		arg.PeerIdentity = "mallory"
	}
	switch v.Certs {
	case "U":
		arg.Certificates = append([]Certificate{}, cur.Certificates...)
	case "other":
		arg.Certificates = append([]Certificate{x}, cur.Certificates[1:]...)
	case "extra":
		arg.Certificates = append(append([]Certificate{}, cur.Certificates...), x)
	case "fewer":
		arg.Certificates = append([]Certificate{}, cur.Certificates[:len(cur.Certificates)-1]...)
	case "swapped":
		arg.Certificates = []Certificate{}
		for k := len(cur.Certificates) - 1; k >= 0; k-- {
			arg.Certificates = append(arg.Certificates, cur.Certificates[k])
		}
	case "dup":
		arg.Certificates = []Certificate{}
		for range cur.Certificates {
			arg.Certificates = append(arg.Certificates, cur.Certificates[0])
		}
	}
	switch v.Pool {
	case "U":
		arg.ICECandidatePoolSize = cur.ICECandidatePoolSize
	case "C":
		arg.ICECandidatePoolSize = cur.ICECandidatePoolSize + 1
	}
	switch v.Policy {
	case "U":
		arg.ICETransportPolicy = cur.ICETransportPolicy
	case "C":
		arg.ICETransportPolicy = ICETransportPolicyNoHost
		if cur.ICETransportPolicy == ICETransportPolicyNoHost {
			arg.ICETransportPolicy = ICETransportPolicyRelay
		}
	}
	arg.ICEServers = vcfServers(v.Srv)

	return arg
}

func vcfErrKind(err error) string {
	if err == nil {
		return ""
	}
	var (
		ime *rtcerr.InvalidModificationError
		ise *rtcerr.InvalidStateError
		iae *rtcerr.InvalidAccessError
		nse *rtcerr.NotSupportedError
		se  *rtcerr.SyntaxError
		te  *rtcerr.TypeError
		oe  *rtcerr.OperationError
		ue  *rtcerr.UnknownError
	)
	switch {
	case errors.As(err, &ime):
		return "InvalidModificationError"
	case errors.As(err, &ise):
		return "InvalidStateError"
	case errors.As(err, &iae):
		return "InvalidAccessError"
	case errors.As(err, &nse):
		return "NotSupportedError"
	case errors.As(err, &se):
		return "SyntaxError"
	case errors.As(err, &te):
		return "TypeError"
	case errors.As(err, &oe):
		return "OperationError"
	case errors.As(err, &ue):
		return "UnknownError"
	default:
		return "other"
	}
}

func TestVerifConfig(t *testing.T) {
	vkSkipUnlessDriven(t)
	var cases []vcfCase
	vkLoadInput(t, &cases)
	tr := vkOpenTrace(t)
	defer tr.Close()

	certA, certB, certX := vcfCert(t), vcfCert(t), vcfCert(t)
	workers := vkEnvInt("VERIF_CFG_WORKERS", 8)
	jobs := make(chan vcfCase)
	var wg sync.WaitGroup
	for w := 0; w < workers; w++ {
		wg.Add(1)
		go func() {
			defer wg.Done()
			for c := range jobs {
				vcfReplay(t, tr, c, certA, certB, certX)
			}
		}()
	}
	for i, c := range cases {
		if i%2000 == 0 {
			tr.Reset(c.ID)
		}
		jobs <- c
	}
	close(jobs)
	wg.Wait()
}

func vcfReplay(t *testing.T, tr *vkTrace, c vcfCase, certA, certB, certX Certificate) {
	v := c.V
	initial := Configuration{}
	if v.Init == "explicit" {
		initial = Configuration{
			BundlePolicy: BundlePolicyMaxBundle, RTCPMuxPolicy: RTCPMuxPolicyNegotiate, PeerIdentity: "alice",
			Certificates: []Certificate{certA, certB}, ICECandidatePoolSize: 1,
			ICETransportPolicy: ICETransportPolicyRelay, ICEServers: []ICEServer{{URLs: []string{vcfStun0}}},
		}
	}
	pc, err := NewPeerConnection(initial)
	if err != nil {
		t.Errorf("case %d: NewPeerConnection: %v", c.ID, err)

		return
	}
	defer func() { _ = pc.Close() }()

	switch v.Pos {
	case "afterSLD":
		if _, err = pc.CreateDataChannel("c39", nil); err != nil {
			t.Errorf("case %d: %v", c.ID, err)

			return
		}
		offer, oerr := pc.CreateOffer(nil)
		if oerr != nil {
			t.Errorf("case %d: CreateOffer: %v", c.ID, oerr)

			return
		}
		if err = pc.SetLocalDescription(offer); err != nil {
			t.Errorf("case %d: SetLocalDescription: %v", c.ID, err)

			return
		}
	case "afterClose":
		if err = pc.Close(); err != nil {
			t.Errorf("case %d: Close: %v", c.ID, err)

			return
		}
	}

	calls := c.Calls
	if calls < 1 {
		calls = 1
	}
	for k := 0; k < calls; k++ {
		cur := pc.GetConfiguration()
		arg := vcfArg(v, cur, certX)
		before := vcfProj(cur)
		argp := vcfProj(arg)
		hasLocal := pc.LocalDescription() != nil
		closed := pc.isClosed.Load()

		err = pc.SetConfiguration(arg)

		after := vcfProj(pc.GetConfiguration())
		line := vkM{
			"ev": "set", "t": c.ID, "k": k, "vec": v,
			"hasLocal": hasLocal, "closed": closed, "badServers": vcfBadServers(v.Srv),
			"arg": argp, "before": before, "after": after,
			"res": "ok", "kind": vcfErrKind(err), "err": "", "exp": "", "expKind": "",
			"sig": fmt.Sprintf("set(%s,%s,B=%s,M=%s,I=%s,C=%s,P=%s,T=%s,S=%s)#%d",
				v.Init, v.Pos, v.Bundle, v.Mux, v.Ident, v.Certs, v.Pool, v.Policy, v.Srv, k),
		}
		if err != nil {
			line["res"], line["err"] = "err", err.Error()
		}
		if k < len(c.Exp) {
			line["exp"], line["expKind"] = c.Exp[k], c.Kind[k]
		}
		tr.Emit(line)
	}
}
