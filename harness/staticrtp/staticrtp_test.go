//go:build verif && !js

package webrtc

// Driver for C29: replays TLC-generated Bind / Unbind / Write histories (spec/StaticRTP.tla) on a real
// TrackLocalStaticRTP through its public API. Senders are fake TrackLocalContexts whose writers
// snapshot what they are handed. The driver records facts only (projections of packets); TLC judges.

import (
	"encoding/hex"
	"fmt"
	"math/rand"
	"sort"
	"strings"
	"sync"
	"testing"
	"time"

	"github.com/pion/interceptor"
	"github.com/pion/rtp"
)

type vsrStep struct {
	Op  string `json:"op"`
	ID  int    `json:"id"`
	API string `json:"api"`
	CC  int    `json:"cc"`
	Ext string `json:"ext"`
	Pad string `json:"pad"`
	Exp string `json:"exp"`
	Cop string `json:"cop"` // WriteDuring: the call made while the write is under way ("Bind" / "Unbind")
}

type vsrBehaviour struct {
	ID    int       `json:"id"`
	Steps []vsrStep `json:"steps"`
}

// vsrSink collects deliveries of all writers of one behaviour in the order they are made.
type vsrSink struct {
	mu   sync.Mutex
	recv []any
	// gate: when armed, the first delivery of the running write blocks (after it was recorded) until
	// released -- the write is then provably inside its fan-out, holding whatever lock it holds
	armed   bool
	arrived chan struct{}
	release chan struct{}
}

func (s *vsrSink) arm() {
	s.mu.Lock()
	s.armed, s.arrived, s.release = true, make(chan struct{}), make(chan struct{})
	s.mu.Unlock()
}

// pass is called by a writer after it recorded a delivery.
func (s *vsrSink) pass() {
	s.mu.Lock()
	if !s.armed {
		s.mu.Unlock()
		return
	}
	s.armed = false
	arrived, release := s.arrived, s.release
	s.mu.Unlock()
	close(arrived)
	<-release
}

func (s *vsrSink) take() []any {
	s.mu.Lock()
	defer s.mu.Unlock()
	out := s.recv
	s.recv = nil
	if out == nil {
		out = []any{}
	}
	return out
}

type vsrWriter struct {
	id   string
	sink *vsrSink
}

// WriteRTP snapshots header and payload immediately: pion hands out a pointer into a pooled packet.
func (w *vsrWriter) WriteRTP(h *rtp.Header, payload []byte) (int, error) {
	hc := h.Clone()
	pc := append([]byte{}, payload...)
	w.sink.mu.Lock()
	w.sink.recv = append(w.sink.recv, vkM{"id": w.id, "via": "WriteRTP", "ssrc": int64(hc.SSRC), "pt": int(hc.PayloadType),
		"rest": vsrRest(&hc, pc, 0)})
	w.sink.mu.Unlock()
	w.sink.pass()
	return len(payload), nil
}

func (w *vsrWriter) Write(b []byte) (int, error) {
	p := &rtp.Packet{}
	cp := append([]byte{}, b...)
	rest := vkM{"unparsable": hex.EncodeToString(cp)}
	ssrc, pt := int64(-1), -1
	if err := p.Unmarshal(cp); err == nil {
		rest, ssrc, pt = vsrRest(&p.Header, p.Payload, p.PaddingSize), int64(p.SSRC), int(p.PayloadType)
	}
	w.sink.mu.Lock()
	w.sink.recv = append(w.sink.recv, vkM{"id": w.id, "via": "Write", "ssrc": ssrc, "pt": pt, "rest": rest})
	w.sink.mu.Unlock()
	return len(b), nil
}

type vsrCtx struct {
	id     string
	ssrc   SSRC
	pt     PayloadType
	codecs []RTPCodecParameters
	w      *vsrWriter
}

func (c *vsrCtx) CodecParameters() []RTPCodecParameters            { return c.codecs }
func (c *vsrCtx) HeaderExtensions() []RTPHeaderExtensionParameter   { return nil }
func (c *vsrCtx) SSRC() SSRC                                        { return c.ssrc }
func (c *vsrCtx) SSRCRetransmission() SSRC                          { return 0 }
func (c *vsrCtx) SSRCForwardErrorCorrection() SSRC                  { return 0 }
func (c *vsrCtx) WriteStream() TrackLocalWriter                     { return c.w }
func (c *vsrCtx) ID() string                                        { return c.id }
func (c *vsrCtx) RTCPReader() interceptor.RTCPReader                { return nil }

// vsrRest projects everything of a packet except SSRC and payload type. 32-bit quantities are
// written as hex strings (TLC integers are 32-bit signed).
func vsrRest(h *rtp.Header, payload []byte, packetPad byte) vkM {
	pad := h.PaddingSize
	if pad == 0 {
		pad = packetPad
	}
	csrc := []string{}
	for _, c := range h.CSRC {
		csrc = append(csrc, fmt.Sprintf("%08x", c))
	}
	xs := []string{}
	for _, id := range h.GetExtensionIDs() {
		xs = append(xs, fmt.Sprintf("%d:%s", id, hex.EncodeToString(h.GetExtension(id))))
	}
	return vkM{"v": int(h.Version), "p": h.Padding, "x": h.Extension, "m": h.Marker, "seq": int(h.SequenceNumber),
		"ts": fmt.Sprintf("%08x", h.Timestamp), "csrc": csrc, "xprof": int(h.ExtensionProfile), "xs": xs,
		"pad": int(pad), "payload": hex.EncodeToString(payload)}
}

// vsrSnap is the deep snapshot of the caller's packet: every field, read through the caller's own
// slices, so a write through an aliased backing array shows up.
func vsrSnap(p *rtp.Packet, raw []byte) vkM {
	return vkM{"ssrc": int64(p.SSRC), "pt": int(p.PayloadType), "hpad": int(p.Header.PaddingSize), "ppad": int(p.PaddingSize),
		"rest": vsrRest(&p.Header, p.Payload, p.PaddingSize), "raw": hex.EncodeToString(raw)}
}

func vsrPacket(r *rand.Rand, st vsrStep) *rtp.Packet {
	p := &rtp.Packet{}
	p.Version = 2
	p.Marker = r.Intn(2) == 0
	p.PayloadType = uint8(r.Intn(128)) //nolint:gosec
	p.SequenceNumber = uint16(r.Intn(65536)) //nolint:gosec
	p.Timestamp = r.Uint32()
	p.SSRC = uint32(r.Int31()) //nolint:gosec
	for i := 0; i < st.CC; i++ {
		p.CSRC = append(p.CSRC, r.Uint32())
	}
	rb := func(n int) []byte {
		b := make([]byte, n)
		_, _ = r.Read(b)
		return b
	}
	switch st.Ext {
	case "one":
		p.Extension, p.ExtensionProfile = true, rtp.ExtensionProfileOneByte
		_ = p.SetExtension(uint8(1+r.Intn(6)), rb(1+r.Intn(16)))  //nolint:gosec
		_ = p.SetExtension(uint8(8+r.Intn(6)), rb(1+r.Intn(3)))   //nolint:gosec
	case "two":
		p.Extension, p.ExtensionProfile = true, rtp.ExtensionProfileTwoByte
		_ = p.SetExtension(uint8(1+r.Intn(100)), rb(17+r.Intn(20))) //nolint:gosec
		_ = p.SetExtension(uint8(120+r.Intn(100)), rb(r.Intn(4)))   //nolint:gosec
	}
	n := r.Intn(13)
	if r.Intn(4) == 0 {
		n = 0
	}
	p.Payload = rb(n)
	k := byte(1 + r.Intn(8)) //nolint:gosec
	switch st.Pad {
	case "hdr":
		p.Padding, p.Header.PaddingSize = true, k
	case "legacy":
		p.Padding, p.PaddingSize = true, k
	}
	return p
}

func TestVerifStaticRTP(t *testing.T) {
	vkSkipUnlessDriven(t)
	var behaviours []vsrBehaviour
	vkLoadInput(t, &behaviours)
	tr := vkOpenTrace(t)
	defer tr.Close()
	for _, bh := range behaviours {
		vsrBehaviourRun(t, tr, bh)
	}
}

func vsrBehaviourRun(t *testing.T, tr *vkTrace, bh vsrBehaviour) {
	t.Helper()
	tr.Reset(bh.ID)
	r := vkRand(int64(bh.ID))
	vp8 := RTPCodecCapability{MimeType: MimeTypeVP8, ClockRate: 90000}
	track, err := NewTrackLocalStaticRTP(vp8, "video", "verif")
	if err != nil {
		t.Fatal(err)
	}
	sink := &vsrSink{}
	ctxs := map[int]*vsrCtx{}
	bound := map[string]bool{}
	boundSig := func() string {
		ids := []string{}
		for id := range bound {
			ids = append(ids, id)
		}
		sort.Strings(ids)
		return "[" + strings.Join(ids, "+") + "]"
	}
	noConc := vkM{"op": "none", "id": "", "res": "ok", "ssrc": int64(0), "pt": 0, "during": false}
	for _, st := range bh.Steps {
		at := boundSig()
		switch st.Op {
		case "WriteDuring":
			// the overlapping realisation of "Write, then Bind/Unbind": the write is held at its first
			// sender, the other call is started on its own goroutine (on a track that keeps its lock
			// for the whole fan-out it has to wait), then the write is let go.  Whatever the timing, the
			// line is judged by the same predicates; the waiting time below only decides how likely an
			// implementation that does NOT wait is to show it.
			id := fmt.Sprintf("b%d", st.ID)
			var c *vsrCtx
			if st.Cop == "Bind" {
				c = &vsrCtx{id: id, ssrc: SSRC(r.Int31()), pt: PayloadType(96 + st.ID%2)} //nolint:gosec
				c.w = &vsrWriter{id: id, sink: sink}
				c.codecs = []RTPCodecParameters{{RTPCodecCapability: vp8, PayloadType: c.pt}}
			} else {
				c = ctxs[st.ID]
			}
			if c == nil || len(bound) == 0 {
				t.Fatalf("behaviour %d: WriteDuring without a bound sender / context", bh.ID)
			}
			p := vsrPacket(r, st)
			sink.take()
			var before, after vkM
			var werr, cerr error
			var b []byte
			parse := func() vkM {
				q := &rtp.Packet{}
				if err := q.Unmarshal(append([]byte{}, b...)); err != nil {
					t.Fatalf("own parse: %v", err)
				}
				return vsrSnap(q, b)
			}
			if st.API == "WriteRTP" {
				before = vsrSnap(p, nil)
			} else {
				var err error
				if b, err = p.Marshal(); err != nil {
					t.Fatalf("marshal: %v", err)
				}
				before = parse()
			}
			sink.arm()
			wdone, cdone := make(chan struct{}), make(chan struct{})
			go func() {
				defer close(wdone)
				if st.API == "WriteRTP" {
					werr = track.WriteRTP(p)
				} else {
					_, werr = track.Write(b)
				}
			}()
			select {
			case <-sink.arrived:
			case <-time.After(10 * time.Second):
				t.Fatalf("behaviour %d: the write never reached a sender", bh.ID)
			}
			go func() {
				defer close(cdone)
				if st.Cop == "Bind" {
					_, cerr = track.Bind(c)
				} else {
					cerr = track.Unbind(c)
				}
			}()
			during := false
			select {
			case <-cdone:
				during = true // the concurrent call did not wait for the write
			case <-time.After(4 * time.Millisecond):
			}
			close(sink.release)
			<-wdone
			<-cdone
			if st.API == "WriteRTP" {
				after = vsrSnap(p, nil)
			} else {
				after = parse()
			}
			cres := "ok"
			if cerr != nil {
				cres = "err"
			} else if st.Cop == "Bind" {
				ctxs[st.ID], bound[id] = c, true
			} else {
				delete(bound, id)
				delete(ctxs, st.ID)
			}
			res := "ok"
			if werr != nil {
				res = "err"
			}
			tr.Emit(vkM{"ev": "write", "t": bh.ID,
				"sig": fmt.Sprintf("WriteDuring(%s,%s(%s))@%s", st.API, st.Cop, id, at),
				"api": st.API, "in": before, "after": after, "recv": sink.take(), "res": res,
				"conc": vkM{"op": st.Cop, "id": id, "res": cres, "ssrc": int64(c.ssrc), "pt": int(c.pt), "during": during}})
		case "Bind", "BindBad":
			id := fmt.Sprintf("b%d", st.ID)
			// a fresh context per bind: SSRC from the seed, payload types shared by senders 1 and 3
			c := &vsrCtx{id: id, ssrc: SSRC(r.Int31()), pt: PayloadType(96 + st.ID%2)} //nolint:gosec
			c.w = &vsrWriter{id: id, sink: sink}
			if st.Op == "Bind" {
				c.codecs = []RTPCodecParameters{
					{RTPCodecCapability: RTPCodecCapability{MimeType: MimeTypeOpus, ClockRate: 48000, Channels: 2}, PayloadType: 111},
					{RTPCodecCapability: vp8, PayloadType: c.pt},
				}
			} else {
				c.codecs = []RTPCodecParameters{
					{RTPCodecCapability: RTPCodecCapability{MimeType: MimeTypeOpus, ClockRate: 48000, Channels: 2}, PayloadType: 111},
				}
			}
			params, err := track.Bind(c)
			res := "ok"
			if err != nil {
				res = "err"
			} else {
				ctxs[st.ID] = c
				bound[id] = true
			}
			tr.Emit(vkM{"ev": "bind", "t": bh.ID, "sig": fmt.Sprintf("%s(%s)@%s", st.Op, id, at), "id": id,
				"ssrc": int64(c.ssrc), "pt": int(c.pt), "got_pt": int(params.PayloadType), "res": res, "exp": st.Exp})
		case "Unbind":
			id := fmt.Sprintf("b%d", st.ID)
			c := ctxs[st.ID]
			if c == nil {
				c = &vsrCtx{id: id, w: &vsrWriter{id: id, sink: sink}}
			}
			res := "ok"
			if err := track.Unbind(c); err != nil {
				res = "err"
			} else {
				delete(bound, id)
				delete(ctxs, st.ID)
			}
			tr.Emit(vkM{"ev": "unbind", "t": bh.ID, "sig": fmt.Sprintf("Unbind(%s)@%s", id, at), "id": id, "res": res, "exp": st.Exp})
		case "Write":
			p := vsrPacket(r, st)
			sink.take()
			var before, after vkM
			var werr error
			if st.API == "WriteRTP" {
				before = vsrSnap(p, nil)
				werr = track.WriteRTP(p)
				after = vsrSnap(p, nil)
			} else {
				b, err := p.Marshal()
				if err != nil {
					t.Fatalf("marshal: %v", err)
				}
				parse := func() vkM {
					q := &rtp.Packet{}
					if err := q.Unmarshal(append([]byte{}, b...)); err != nil {
						t.Fatalf("own parse: %v", err)
					}
					return vsrSnap(q, b)
				}
				before = parse()
				_, werr = track.Write(b)
				after = parse()
			}
			res := "ok"
			if werr != nil {
				res = "err"
			}
			tr.Emit(vkM{"ev": "write", "t": bh.ID,
				"sig": fmt.Sprintf("Write(%s,cc%d,%s,%s)@%s", st.API, st.CC, st.Ext, st.Pad, at),
				"api": st.API, "in": before, "after": after, "recv": sink.take(), "res": res, "conc": noConc})
		default:
			t.Fatalf("unknown op %q", st.Op)
		}
	}
}
