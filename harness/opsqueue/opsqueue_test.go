//go:build verif && !js

package webrtc

// Driver for C05: drives the real operations queue through TLC-generated schedules
// (spec/OpsQueue.tla) with gates at the yield points of operations.go, and records the
// enqueue events (hook under o.mu), item start/end and the returns of Done/GracefulClose.

import (
	"fmt"
	"runtime"
	"sort"
	"strings"
	"sync"
	"sync/atomic"
	"testing"
	"time"
)

type voStep struct {
	Proc  string `json:"proc"`
	Label string `json:"label"`
}

type voBehaviour struct {
	ID      int      `json:"id"`
	Enqs    []string `json:"enqs"`
	SelfEnq []string `json:"selfenq"`
	Waiters []string `json:"waiters"`
	Closers []string `json:"closers"`
	Steps   []voStep `json:"steps"`
	Free    bool     `json:"free"`  // free-running stress instead of a schedule
	Churn   int      `json:"churn"` // > 0: that many producers enqueue tiny operations as fast as they can
}

// voChurn: producers enqueue trivial operations in a tight loop, so that the worker keeps running dry
// and handing over while the next Enqueue arrives; no gates, nothing slows the code down. Every
// accepted operation has to run.
func voChurn(tr *vkTrace, bh voBehaviour) {
	tr.Reset(bh.ID)
	o := newOperations(&atomic.Bool{}, func() {})
	var ran atomic.Int64
	each := 4000
	var wg sync.WaitGroup
	start := make(chan struct{})
	for p := 0; p < bh.Churn; p++ {
		wg.Add(1)
		go func(p int) {
			defer wg.Done()
			rng := vkRand(int64(bh.ID)*31 + int64(p))
			<-start
			for i := 0; i < each; i++ {
				o.Enqueue(func() { ran.Add(1) })
				for spin := rng.Intn(40); spin > 0; spin-- {
					_ = spin
				}
				if i%64 == 0 {
					runtime.Gosched()
				}
			}
		}(p)
	}
	close(start)
	wg.Wait()
	total := int64(bh.Churn * each)
	end := time.Now().Add(3 * time.Second)
	for ran.Load() < total && time.Now().Before(end) {
		time.Sleep(200 * time.Microsecond)
	}
	// second phase: an operation that arrives just as the worker runs dry, nothing after it. Under the
	// queue's lock "operations waiting and no worker" must never be seen (no timing involved).
	stranded := 0
	rng := vkRand(int64(bh.ID))
	for round := 0; round < 6000; round++ {
		o.Enqueue(func() { ran.Add(1) })
		for spin := rng.Intn(300); spin > 0; spin-- {
			_ = spin
		}
		o.Enqueue(func() { ran.Add(1) })
		total += 2
		for {
			if ran.Load() >= total {
				break
			}
			o.mu.Lock()
			waiting, worker := o.ops.Len(), o.busyCh != nil
			o.mu.Unlock()
			if waiting > 0 && !worker {
				stranded++
				o.Enqueue(func() { ran.Add(1) }) // rescues the queue, so that the run can go on
				total++
			}
			runtime.Gosched()
		}
	}
	o.mu.Lock()
	qlen, idle := o.ops.Len(), o.busyCh == nil
	o.mu.Unlock()
	tr.Emit(vkM{"ev": "churn", "t": bh.ID, "total": int(total), "ran": int(ran.Load()), "qlen": qlen, "idle": idle, "stranded": stranded,
		"sig": fmt.Sprintf("churn(producers=%d)", bh.Churn)})
}

type voRun struct {
	tr       *vkTrace
	id       int
	o        *operations
	gates    *vkGates
	mu       sync.Mutex
	pending  map[int64]string // goroutine id -> label of the op it is about to enqueue
	workers  int
	selfEnq  map[string]bool
	accepted map[string]bool
}

func (r *voRun) wasAccepted(op string) bool {
	r.mu.Lock()
	defer r.mu.Unlock()
	return r.accepted[op]
}

func (r *voRun) setPending(op string) {
	r.mu.Lock()
	r.pending[vkGoid()] = op
	r.mu.Unlock()
}

func (r *voRun) eventHook(point string, obj any, args ...any) {
	if point == "ops.closed" && obj == any(r.o) {
		r.tr.Emit(vkM{"ev": "closed", "t": r.id, "op": "", "acc": false, "kind": "", "sig": "closed"})
		return
	}
	if point != "ops.enq" || obj != any(r.o) {
		return
	}
	r.mu.Lock()
	op := r.pending[vkGoid()]
	r.mu.Unlock()
	acc, _ := args[0].(bool)
	if acc {
		r.mu.Lock()
		r.accepted[op] = true
		r.mu.Unlock()
	}
	r.tr.Emit(vkM{"ev": "enq", "t": r.id, "op": op, "acc": acc, "kind": voKind(op), "sig": fmt.Sprintf("enq(%s,%v)", voKind(op), acc)})
}

func voKind(op string) string {
	switch {
	case strings.HasPrefix(op, "w_"):
		return "waiter"
	case strings.HasPrefix(op, "c_"):
		return "child"
	}
	return "op"
}

// classify names pion's worker goroutines k1, k2, ... in order of first appearance and lets a
// worker pass through the client-side gates it meets while running a self-enqueuing item.
func (r *voRun) classify(gid int64, bound, point string, _ any) string {
	if bound != "" {
		if strings.HasPrefix(bound, "k") && !strings.HasPrefix(point, "ops.start.") && point != "op.mid" {
			return ""
		}
		return bound
	}
	if point == "ops.start.enter" {
		r.mu.Lock()
		r.workers++
		name := fmt.Sprintf("k%d", r.workers)
		r.mu.Unlock()
		r.gates.Bind(gid, name)
		return name
	}
	return ""
}

func (r *voRun) item(name string) operation {
	return func() {
		r.tr.Emit(vkM{"ev": "start", "t": r.id, "op": name, "sig": "start(" + voKind(name) + ")"})
		r.gates.Hook("op.mid", nil)
		if r.selfEnq[name] {
			child := "c_" + name
			r.setPending(child)
			r.o.Enqueue(r.item(child))
		}
		r.tr.Emit(vkM{"ev": "end", "t": r.id, "op": name, "sig": "end(" + voKind(name) + ")"})
	}
}

func TestVerifOpsQueue(t *testing.T) {
	vkSkipUnlessDriven(t)
	var behaviours []voBehaviour
	vkLoadInput(t, &behaviours)
	tr := vkOpenTrace(t)
	defer tr.Close()
	defer func() { verifEventHook, verifYieldHook = nil, nil }()
	notDriven := 0
	for _, bh := range behaviours {
		if !voBehaviourRun(t, tr, bh) {
			notDriven++
		}
	}
	t.Logf("VERIF_STAT behaviours=%d not_driven=%d", len(behaviours), notDriven)
}

func voBehaviourRun(t *testing.T, tr *vkTrace, bh voBehaviour) bool {
	t.Helper()
	if bh.Churn > 0 {
		verifEventHook, verifYieldHook = nil, nil
		voChurn(tr, bh)
		return true
	}
	tr.Reset(bh.ID)
	r := &voRun{tr: tr, id: bh.ID, pending: map[int64]string{}, selfEnq: map[string]bool{}, accepted: map[string]bool{}}
	for _, s := range bh.SelfEnq {
		r.selfEnq[s] = true
	}
	r.o = newOperations(&atomic.Bool{}, func() {})
	r.gates = vkNewGates(r.classify)
	r.gates.deadline = time.Duration(vkEnvInt("VERIF_STEP_MS", 150)) * time.Millisecond
	if bh.Free {
		r.gates.perturb = vkRand(int64(bh.ID))
		r.gates.ReleaseAll()
	}
	verifEventHook = r.eventHook
	verifYieldHook = r.gates.Hook

	var returned sync.Map
	clients := []string{}
	for _, e := range bh.Enqs {
		e := e
		clients = append(clients, e)
		r.gates.Go(e, func() {
			r.setPending(e)
			r.o.Enqueue(r.item(e))
			returned.Store(e, true)
		})
	}
	for _, w := range bh.Waiters {
		w := w
		clients = append(clients, w)
		r.gates.Go(w, func() {
			r.setPending("w_" + w)
			r.o.Done()
			tr.Emit(vkM{"ev": "ret", "t": bh.ID, "fn": "Done", "who": w, "enqueued": r.wasAccepted("w_" + w), "sig": "ret(Done)"})
			returned.Store(w, true)
		})
	}
	for _, c := range bh.Closers {
		c := c
		clients = append(clients, c)
		r.gates.Go(c, func() {
			r.o.GracefulClose()
			tr.Emit(vkM{"ev": "ret", "t": bh.ID, "fn": "GracefulClose", "who": c, "enqueued": false, "sig": "ret(GracefulClose)"})
			returned.Store(c, true)
		})
	}

	driven := true
	skipMid := map[string]bool{}
	if !bh.Free {
		for _, c := range clients { // everybody at its first gate
			if r.gates.Await(c) == "" {
				driven = false
			}
		}
		for _, st := range bh.Steps {
			if !driven {
				break
			}
			if st.Label == "kSpawn" {
				if r.gates.Await(st.Proc) != "ops.start.enter" {
					driven = false
				}
				continue
			}
			if st.Label == "kMid" && skipMid[st.Proc] {
				skipMid[st.Proc] = false // the item was Done's own closure: no gate inside it
				continue
			}
			at := r.gates.Step(st.Proc)
			if at == "" {
				driven = false
			}
			if st.Label == "kRun" && at == "ops.start.next" {
				skipMid[st.Proc] = true
			}
		}
		r.gates.ReleaseAll()
	}

	// quiescence: every client returned (or is stuck beyond the deadline) and no worker exists
	deadline := time.Now().Add(5 * time.Second)
	allReturned := func() bool {
		for _, c := range clients {
			if _, ok := returned.Load(c); !ok {
				return false
			}
		}
		return true
	}
	idle := func() (bool, int, bool) {
		r.o.mu.Lock()
		defer r.o.mu.Unlock()
		return r.o.busyCh == nil, r.o.ops.Len(), r.o.isClosed
	}
	for time.Now().Before(deadline) {
		if i, _, _ := idle(); i && allReturned() {
			break
		}
		time.Sleep(100 * time.Microsecond)
	}
	isIdle, qlen, closed := idle()
	hung := []string{}
	for _, c := range clients {
		if _, ok := returned.Load(c); !ok {
			hung = append(hung, c)
		}
	}
	sort.Strings(hung)
	hk := []string{}
	for _, h := range hung {
		kind := "enqueuer"
		for _, w := range bh.Waiters {
			if w == h {
				kind = "Done"
			}
		}
		for _, c := range bh.Closers {
			if c == h {
				kind = "GracefulClose"
			}
		}
		hk = append(hk, kind)
	}
	tr.Emit(vkM{
		"ev": "quiesce", "t": bh.ID, "idle": isIdle, "qlen": qlen, "closed": closed, "hung": hung, "driven": driven,
		"sig": fmt.Sprintf("quiesce(closed=%v,queued=%d,hung=%s)", closed, qlen, strings.Join(hk, "+")),
	})
	verifEventHook, verifYieldHook = nil, nil
	return driven
}
