//go:build verif && !js

package webrtc

// Driver for C18: replays TLC-simulated histories of spec/DcIds.tla (channels created with and
// without explicit ids, negotiated or in band, before and after the association is up, on both
// endpoints of a real pair) and records the stream ids of every channel after every step.

import (
	"fmt"
	"sort"
	"strings"
	"sync"
	"testing"
	"time"
)

type viStep struct {
	Op  string `json:"op"`
	Who string `json:"who"`
	Eid int    `json:"eid"`
	K   int    `json:"k"`
}

type viBehaviour struct {
	ID    int      `json:"id"`
	Steps []viStep `json:"steps"`
	Burst int      `json:"burst"` // concurrent creators per side after the history (0 = none)
}

type viChan struct {
	dc       *DataChannel
	explicit bool
	origin   string
}

type viPeer struct {
	name  string
	pc    *PeerConnection
	mu    sync.Mutex
	chans []*viChan
	alloc []int // ids the allocator handed to concurrent callers (allocBurst)
}

// allocBurst calls the allocator of the endpoint's SCTP transport from n goroutines at once, the
// way concurrent CreateDataChannel calls do, and records every id handed out.
func (p *viPeer) allocBurst(n, each int) {
	p.pc.dtlsTransport.lock.RLock()
	role := p.pc.dtlsTransport.role()
	p.pc.dtlsTransport.lock.RUnlock()
	start := make(chan struct{})
	var wg sync.WaitGroup
	for g := 0; g < n; g++ {
		wg.Add(1)
		go func() {
			defer wg.Done()
			<-start
			for i := 0; i < each; i++ {
				var id *uint16
				if err := p.pc.sctpTransport.generateAndSetDataChannelID(role, &id); err == nil && id != nil {
					p.mu.Lock()
					p.alloc = append(p.alloc, int(*id))
					p.mu.Unlock()
				}
			}
		}()
	}
	close(start)
	wg.Wait()
}

func (p *viPeer) add(dc *DataChannel, explicit bool, origin string) {
	p.mu.Lock()
	p.chans = append(p.chans, &viChan{dc: dc, explicit: explicit, origin: origin})
	p.mu.Unlock()
}

func (p *viPeer) snapshot() []vkM {
	p.mu.Lock()
	defer p.mu.Unlock()
	out := []vkM{}
	for k, c := range p.chans {
		id := -1
		if v := c.dc.ID(); v != nil {
			id = int(*v)
		}
		out = append(out, vkM{"k": k, "id": id, "explicit": c.explicit, "origin": c.origin})
	}
	return out
}

// openRace: a channel that CreateDataChannel has just appended to the transport's list is opened by two
// goroutines at once, the way CreateDataChannel (transport connected) and SCTPTransport.Start (channel among
// the pending ones) do when they meet. Returns the different ids the channel was seen with and how many ids
// the allocator handed out.
func (p *viPeer) openRace(n int) ([]int, int) {
	pc := p.pc
	d, err := pc.api.newDataChannel(&DataChannelParameters{Label: fmt.Sprintf("race%d", n), Ordered: true}, nil, pc.log)
	if err != nil {
		return []int{}, 0
	}
	pc.sctpTransport.lock.Lock()
	before := len(pc.sctpTransport.dataChannelIDsUsed)
	pc.sctpTransport.dataChannels = append(pc.sctpTransport.dataChannels, d)
	pc.sctpTransport.dataChannelsRequested++
	pc.sctpTransport.lock.Unlock()
	seen := map[int]bool{}
	var mu sync.Mutex
	stop := make(chan struct{})
	var watch sync.WaitGroup
	watch.Add(1)
	go func() {
		defer watch.Done()
		for {
			if v := d.ID(); v != nil {
				mu.Lock()
				seen[int(*v)] = true
				mu.Unlock()
			}
			select {
			case <-stop:
				return
			default:
			}
		}
	}()
	// both openers wait behind the ICE transport's lock (open reads the DTLS role through it), then go together
	pc.iceTransport.lock.Lock()
	var wg sync.WaitGroup
	for i := 0; i < 2; i++ {
		wg.Add(1)
		go func() {
			defer wg.Done()
			_ = d.open(pc.sctpTransport)
		}()
	}
	time.Sleep(2 * time.Millisecond)
	pc.iceTransport.lock.Unlock()
	wg.Wait()
	time.Sleep(time.Millisecond)
	close(stop)
	watch.Wait()
	if v := d.ID(); v != nil {
		seen[int(*v)] = true
	}
	pc.sctpTransport.lock.Lock()
	taken := len(pc.sctpTransport.dataChannelIDsUsed) - before
	pc.sctpTransport.lock.Unlock()
	p.add(d, false, "local")
	ids := []int{}
	for v := range seen {
		ids = append(ids, v)
	}
	sort.Ints(ids)
	return ids, taken
}

func (p *viPeer) allocs() []int {
	p.mu.Lock()
	defer p.mu.Unlock()
	return append([]int{}, p.alloc...)
}

func TestVerifDcIds(t *testing.T) {
	vkSkipUnlessDriven(t)
	var behaviours []viBehaviour
	vkLoadInput(t, &behaviours)
	tr := vkOpenTrace(t)
	defer tr.Close()
	for _, bh := range behaviours {
		viRun(t, tr, bh)
	}
}

const viNoID = 100000

func viRun(t *testing.T, tr *vkTrace, bh viBehaviour) { //nolint:cyclop
	t.Helper()
	tr.Reset(bh.ID)
	apc, bpc, err := newPair()
	if err != nil {
		t.Fatal(err)
	}
	a, b := &viPeer{name: "A", pc: apc}, &viPeer{name: "B", pc: bpc}
	defer closePairNow(t, apc, bpc)
	apc.OnDataChannel(func(d *DataChannel) { a.add(d, false, "remote") })
	bpc.OnDataChannel(func(d *DataChannel) { b.add(d, false, "remote") })
	connected := false
	labels := 0
	role := func(p *viPeer) string {
		if !connected {
			return "unknown"
		}
		p.pc.dtlsTransport.lock.RLock()
		defer p.pc.dtlsTransport.lock.RUnlock()
		return p.pc.dtlsTransport.role().String()
	}
	race, raceIds, taken := false, []int{}, 0
	emit := func(step string) {
		for _, p := range []*viPeer{a, b} {
			tr.Emit(vkM{"ev": "ids", "t": bh.ID, "who": p.name, "role": role(p), "chans": p.snapshot(), "alloc": p.allocs(), "connected": connected,
				"race": race && strings.HasPrefix(step, "openRace("+p.name), "raceIds": raceIds, "taken": taken,
				"sig": fmt.Sprintf("ids(%s,%s,after=%s)", p.name, role(p), step)})
		}
	}
	create := func(p *viPeer, eid int, negotiated bool) {
		labels++
		init := &DataChannelInit{}
		if eid != viNoID {
			v := uint16(eid) //nolint:gosec
			init.ID = &v
		}
		if negotiated {
			n := true
			init.Negotiated = &n
		}
		dc, err := p.pc.CreateDataChannel(fmt.Sprintf("c%d", labels), init)
		if err == nil {
			p.add(dc, eid != viNoID, "local")
		}
	}
	// a remote in-band channel is announced asynchronously: wait until the peer saw as many as were opened
	settle := func() {
		if !connected {
			return
		}
		want := func(from, to *viPeer) int {
			from.mu.Lock()
			defer from.mu.Unlock()
			n := 0
			for _, c := range from.chans {
				if c.origin == "local" && !c.dc.Negotiated() && c.dc.ID() != nil {
					n++
				}
			}
			return n
		}
		have := func(p *viPeer) int {
			p.mu.Lock()
			defer p.mu.Unlock()
			n := 0
			for _, c := range p.chans {
				if c.origin == "remote" {
					n++
				}
			}
			return n
		}
		end := time.Now().Add(3 * time.Second)
		for time.Now().Before(end) {
			if have(b) >= want(a, b) && have(a) >= want(b, a) {
				return
			}
			time.Sleep(time.Millisecond)
		}
	}
	who := func(s string) *viPeer {
		if s == "B" {
			return b
		}
		return a
	}
	for _, st := range bh.Steps {
		desc := st.Op
		switch st.Op {
		case "create":
			create(who(st.Who), st.Eid, false)
			desc = fmt.Sprintf("create(%s,explicit=%v)", st.Who, st.Eid != viNoID)
		case "createNegotiated":
			create(a, st.Eid, true)
			create(b, st.Eid, true)
		case "connect":
			if len(a.chans) == 0 && len(b.chans) == 0 {
				create(a, viNoID, false) // an association needs an application section
			}
			done := make(chan error, 1)
			go func() { done <- signalPairWithOptions(apc, bpc, withDisableInitialDataChannel(true)) }()
			select {
			case err := <-done:
				if err != nil {
					t.Logf("behaviour %d: signalPair: %v", bh.ID, err)
					return
				}
			case <-time.After(10 * time.Second):
				return
			}
			end := time.Now().Add(5 * time.Second)
			for time.Now().Before(end) {
				if apc.SCTP().State() == SCTPTransportStateConnected && bpc.SCTP().State() == SCTPTransportStateConnected {
					connected = true
					break
				}
				time.Sleep(time.Millisecond)
			}
			if !connected {
				return
			}
			// pending channels are opened by the goroutine that brought the association up
			for i := 0; i < 3000; i++ {
				all := true
				for _, p := range []*viPeer{a, b} {
					for _, c := range p.snapshot() {
						if c["id"] == -1 {
							all = false
						}
					}
				}
				if all {
					break
				}
				time.Sleep(time.Millisecond)
			}
		case "openRace":
			if connected {
				raceIds, taken = who(st.Who).openRace(labels)
				labels++
				race = true
			}
			desc = fmt.Sprintf("openRace(%s)", st.Who)
		case "allocBurst":
			if connected {
				// the model takes k ids; the real allocator is asked by 8 goroutines, k times each
				who(st.Who).allocBurst(8, st.K)
			}
			desc = fmt.Sprintf("allocBurst(%s)", st.Who)
		case "close":
			p := who(st.Who)
			p.mu.Lock()
			var dc *DataChannel
			if st.K < len(p.chans) {
				dc = p.chans[st.K].dc
			}
			p.mu.Unlock()
			if dc != nil {
				_ = dc.Close()
			}
		}
		settle()
		emit(desc)
		tr.Flush() // a channel opened twice ends in a double close: keep what was recorded
		race = false
	}
	if bh.Burst > 0 && connected {
		var wg sync.WaitGroup
		for _, p := range []*viPeer{a, b} {
			for g := 0; g < bh.Burst; g++ {
				wg.Add(1)
				go func(p *viPeer) {
					defer wg.Done()
					for i := 0; i < 4; i++ {
						dc, err := p.pc.CreateDataChannel("burst", nil)
						if err == nil {
							p.add(dc, false, "local")
						}
					}
				}(p)
			}
		}
		wg.Wait()
		settle()
		emit("burst")
	}
}
