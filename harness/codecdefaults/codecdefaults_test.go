//go:build verif && !js

package webrtc

// Driver used by C17 (and C15): dumps the codecs RegisterDefaultCodecs registers, as they are at
// run time, so that the internal/fmtp driver can check that each of them matches itself.

import (
	"testing"
)

func TestVerifCodecDefaults(t *testing.T) {
	vkSkipUnlessDriven(t)
	tr := vkOpenTrace(t)
	defer tr.Close()

	me := &MediaEngine{}
	if err := me.RegisterDefaultCodecs(); err != nil {
		t.Fatalf("RegisterDefaultCodecs: %v", err)
	}
	n := 0
	for _, k := range []RTPCodecType{RTPCodecTypeAudio, RTPCodecTypeVideo} {
		for _, c := range me.getCodecsByKind(k) {
			fb := []string{}
			for _, f := range c.RTCPFeedback {
				s := f.Type
				if f.Parameter != "" {
					s += " " + f.Parameter
				}
				fb = append(fb, s)
			}
			tr.Emit(vkM{"ev": "defaultcodec", "t": n, "sig": "defaultcodec", "kind": k.String(),
				"mime": c.MimeType, "clock": int(c.ClockRate), "ch": int(c.Channels), "line": c.SDPFmtpLine,
				"pt": int(c.PayloadType), "fb": fb})
			n++
		}
	}
}
