//go:build verif && !js

package webrtc

// Driver for C01, C02, C03: replays TLC-generated API behaviours (spec/Jsep.tla) on a real
// PeerConnection and records, per call, the projection of the negotiation state before and after.

import (
	"fmt"
	"regexp"
	"strings"
	"sync"
	"testing"

	"github.com/pion/sdp/v3"
)

type vjStep struct {
	Op   string `json:"op"`
	Type string `json:"type"`
	Src  string `json:"src"`
	Bad  string `json:"bad"`
	Exp  string `json:"exp"`
}

type vjBehaviour struct {
	ID    int      `json:"id"`
	Steps []vjStep `json:"steps"`
	Sem   string   `json:"sem"` // SDPSemantics of the endpoint under test ("" = default)
}

// vDescID names a description by type and o= line; pion gives every description it creates a
// fresh session version and every throw-away peer has its own random session id.
func vDescID(d *SessionDescription) string {
	if d == nil {
		return "none"
	}
	p := &sdp.SessionDescription{}
	if err := p.UnmarshalString(d.SDP); err != nil || (p.Origin.SessionID == 0 && p.Origin.SessionVersion == 0) {
		return d.Type.String() + ":blank" // no usable o= line (empty or damaged text)
	}
	return fmt.Sprintf("%s:%d/%d", d.Type.String(), p.Origin.SessionID, p.Origin.SessionVersion)
}

func vJsepProj(pc *PeerConnection) vkM {
	return vkM{
		"sig":   pc.SignalingState().String(),
		"pendL": vDescID(pc.PendingLocalDescription()),
		"pendR": vDescID(pc.PendingRemoteDescription()),
		"curL":  vDescID(pc.CurrentLocalDescription()),
		"curR":  vDescID(pc.CurrentRemoteDescription()),
		"L":     vDescID(pc.LocalDescription()),
		"R":     vDescID(pc.RemoteDescription()),
	}
}

func vNewPC(t *testing.T, sem ...string) *PeerConnection {
	t.Helper()
	cfg := Configuration{}
	if len(sem) > 0 {
		switch sem[0] {
		case "planb":
			cfg.SDPSemantics = SDPSemanticsPlanB
		case "fallback":
			cfg.SDPSemantics = SDPSemanticsUnifiedPlanWithFallback
		}
	}
	pc, err := NewPeerConnection(cfg)
	if err != nil {
		t.Fatal(err)
	}
	return pc
}

// vPeerOffer returns a genuine offer of a throw-away pion endpoint (audio, video, data).
func vPeerOffer(t *testing.T) SessionDescription {
	t.Helper()
	b := vNewPC(t)
	defer func() { _ = b.Close() }()
	if _, err := b.AddTransceiverFromKind(RTPCodecTypeAudio); err != nil {
		t.Fatal(err)
	}
	if _, err := b.AddTransceiverFromKind(RTPCodecTypeVideo); err != nil {
		t.Fatal(err)
	}
	if _, err := b.CreateDataChannel("peer", nil); err != nil {
		t.Fatal(err)
	}
	o, err := b.CreateOffer(nil)
	if err != nil {
		t.Fatal(err)
	}
	return o
}

var (
	vReDir   = regexp.MustCompile(`(?m)^a=(sendrecv|sendonly|recvonly|inactive)\r\n`)
	vReSsrc  = regexp.MustCompile(`(?m)^a=(ssrc|msid|ssrc-group).*\r\n`)
	vReGroup = regexp.MustCompile(`(?m)^(a=group:BUNDLE.*)\r\n`)
)

// vPeerOfferX returns a well-formed offer with two more sections than vPeerOffer, neither of which
// this endpoint uses: an audio section without a direction attribute and a section of a media type
// pion does not know (m=text). Both are in the BUNDLE group and carry transport attributes.
func vPeerOfferX(t *testing.T) SessionDescription {
	t.Helper()
	o := vPeerOffer(t)
	parts := strings.Split(o.SDP, "\r\nm=")
	audio := ""
	for _, p := range parts[1:] {
		if strings.HasPrefix(p, "audio ") {
			audio = "m=" + p
			if !strings.HasSuffix(audio, "\r\n") {
				audio += "\r\n"
			}
			break
		}
	}
	if audio == "" {
		t.Fatal("no audio section in the peer offer")
	}
	audio = vReSsrc.ReplaceAllString(vReDir.ReplaceAllString(audio, ""), "")
	nodir := vReMid.ReplaceAllString(audio, "a=mid:8\r\n")
	text := strings.Replace(vReMid.ReplaceAllString(audio, "a=mid:9\r\n"), "m=audio ", "m=text ", 1)
	sdp := o.SDP
	if !strings.HasSuffix(sdp, "\r\n") {
		sdp += "\r\n"
	}
	sdp = vReGroup.ReplaceAllString(sdp, "$1 8 9\r\n") + nodir + text
	o.SDP = sdp
	return o
}

// vPeerAnswer returns a genuine answer of a throw-away pion endpoint to the given offer, or a
// retyped genuine offer when there is nothing to answer.
func vPeerAnswer(t *testing.T, offer *SessionDescription) SessionDescription {
	t.Helper()
	if offer != nil {
		b := vNewPC(t)
		defer func() { _ = b.Close() }()
		if err := b.SetRemoteDescription(SessionDescription{Type: SDPTypeOffer, SDP: offer.SDP}); err == nil {
			if a, err := b.CreateAnswer(nil); err == nil {
				return a
			}
		}
	}
	o := vPeerOffer(t)
	o.SDP = strings.ReplaceAll(o.SDP, "a=setup:actpass", "a=setup:active")
	return o
}

var (
	vReMid   = regexp.MustCompile(`(?m)^a=mid:.*\r\n`)
	vReUfrag = regexp.MustCompile(`(?m)^a=ice-ufrag:.*\r\n`)
	vRePwd   = regexp.MustCompile(`(?m)^a=ice-pwd:.*\r\n`)
	vReFp    = regexp.MustCompile(`(?m)^a=fingerprint:.*\r\n`)
	vReApt   = regexp.MustCompile(`apt=\d+`)
)

// vDamage applies one defect class to a genuine description.
func vDamage(d SessionDescription, bad string) SessionDescription {
	switch bad {
	case "unparsable":
		d.SDP = "v=0\r\nthis is not a session description\r\n"
	case "unknown-type":
		d.Type = SDPType(99)
	case "no-mid":
		d.SDP = vReMid.ReplaceAllString(d.SDP, "")
	case "no-ufrag":
		d.SDP = vReUfrag.ReplaceAllString(d.SDP, "")
	case "no-pwd":
		d.SDP = vRePwd.ReplaceAllString(d.SDP, "")
	case "no-fingerprint":
		d.SDP = vReFp.ReplaceAllString(d.SDP, "")
	case "bad-fingerprint":
		d.SDP = vReFp.ReplaceAllString(d.SDP, "a=fingerprint:sha-256\r\n")
	case "bad-candidate":
		d.SDP = vReUfrag.ReplaceAllStringFunc(d.SDP, func(s string) string {
			return "a=candidate:1 1 udp 1 not-an-address 9 typ host\r\n" + s
		})
	case "bad-apt":
		d.SDP = vReApt.ReplaceAllString(d.SDP, "apt=abc")
	case "planb-shape-no-mid":
		// one section announces two tracks (the Plan-B shape) under a mid that is not a Plan-B name, and the
		// first section has no mid at all; the ICE credentials are (also) given at session level
		if u, w := vReUfrag.FindString(d.SDP), vRePwd.FindString(d.SDP); u != "" && w != "" {
			d.SDP = strings.Replace(d.SDP, "t=0 0\r\n", "t=0 0\r\n"+u+w, 1)
		}
		first := true
		d.SDP = vReMid.ReplaceAllStringFunc(d.SDP, func(m string) string {
			if first {
				first = false

				return ""
			}

			return m
		})
		if i := strings.Index(d.SDP, "m=video"); i >= 0 {
			rest := d.SDP[i:]
			end := strings.Index(rest[1:], "\r\nm=")
			ins := "a=ssrc:1111111 cname:one\r\na=ssrc:1111111 msid:streamone trackone\r\na=ssrc:2222222 cname:two\r\na=ssrc:2222222 msid:streamtwo tracktwo\r\n"
			if end < 0 {
				d.SDP += ins
			} else {
				d.SDP = d.SDP[:i+1+end+2] + ins + d.SDP[i+1+end+2:]
			}
		}
	}
	return d
}

func vSDPType(s string) SDPType {
	switch s {
	case "offer":
		return SDPTypeOffer
	case "pranswer":
		return SDPTypePranswer
	case "answer":
		return SDPTypeAnswer
	case "rollback":
		return SDPTypeRollback
	}
	return SDPType(99)
}

type vSigEvents struct {
	mu sync.Mutex
	ev map[*PeerConnection][]string
}

func (s *vSigEvents) hook(point string, obj any, args ...any) {
	if point != "sigstate" {
		return
	}
	pc, _ := obj.(*PeerConnection)
	s.mu.Lock()
	s.ev[pc] = append(s.ev[pc], args[0].(SignalingState).String())
	s.mu.Unlock()
}

func (s *vSigEvents) take(pc *PeerConnection) []string {
	s.mu.Lock()
	defer s.mu.Unlock()
	out := s.ev[pc]
	delete(s.ev, pc)
	if out == nil {
		out = []string{}
	}
	return out
}

func TestVerifJsep(t *testing.T) {
	vkSkipUnlessDriven(t)
	var behaviours []vjBehaviour
	vkLoadInput(t, &behaviours)
	tr := vkOpenTrace(t)
	defer tr.Close()

	sigs := &vSigEvents{ev: map[*PeerConnection][]string{}}
	verifEventHook = sigs.hook
	defer func() { verifEventHook = nil }()

	for _, bh := range behaviours {
		vJsepBehaviour(t, tr, sigs, bh)
	}
}

func vJsepBehaviour(t *testing.T, tr *vkTrace, sigs *vSigEvents, bh vjBehaviour) {
	t.Helper()
	tr.Reset(bh.ID)
	pc := vNewPC(t, bh.Sem)
	defer func() { _ = pc.Close() }()
	if _, err := pc.AddTransceiverFromKind(RTPCodecTypeAudio); err != nil {
		t.Fatal(err)
	}
	if _, err := pc.CreateDataChannel("a", nil); err != nil {
		t.Fatal(err)
	}
	var offers, answers []SessionDescription // created by pc, in order

	for _, st := range bh.Steps {
		before := vJsepProj(pc)
		sigs.take(pc)
		line := vkM{"ev": "call", "t": bh.ID, "op": st.Op, "side": "none", "type": "none", "desc": "none",
			"exp": st.Exp, "b": before}
		var err error
		src := st.Src
		switch st.Op {
		case "CreateOffer":
			var d SessionDescription
			if d, err = pc.CreateOffer(nil); err == nil {
				offers = append(offers, d)
				line["desc"] = vDescID(&d)
			}
		case "CreateAnswer":
			var d SessionDescription
			if d, err = pc.CreateAnswer(nil); err == nil {
				answers = append(answers, d)
				line["desc"] = vDescID(&d)
			}
		case "SetLocal":
			ty := vSDPType(st.Type)
			pool := answers
			if st.Type == "offer" {
				pool = offers
			}
			var d SessionDescription
			if src != "latest" && src != "stale" && src != "foreign" && src != "empty" {
				t.Fatalf("behaviour %d: the model names a description source this driver does not know: %q", bh.ID, src)
			}
			switch {
			case src == "latest" && len(pool) > 0:
				d = pool[len(pool)-1]
			case src == "stale" && len(pool) > 1:
				d = pool[len(pool)-2]
			case src == "foreign":
				d = vPeerOffer(t)
			default:
				src = "empty"
			}
			d.Type = ty
			line["side"], line["type"] = "local", st.Type
			if src == "empty" {
				d = SessionDescription{Type: ty}
				// what pion is documented to use for an empty SDP: the last created offer/answer
				if len(pool) > 0 && st.Type != "rollback" {
					l := pool[len(pool)-1]
					l.Type = ty
					line["desc"] = vDescID(&l)
				} else if st.Type != "rollback" {
					line["desc"] = vDescID(&d) // nothing was created yet: the empty description itself
				}
			} else {
				line["desc"] = vDescID(&d)
			}
			err = pc.SetLocalDescription(d)
		case "SetRemote":
			ty := vSDPType(st.Type)
			var d SessionDescription
			if src != "peer" && src != "peerx" && src != "empty" && src != "current" {
				t.Fatalf("behaviour %d: the model names a description source this driver does not know: %q", bh.ID, src)
			}
			switch {
			case src == "empty":
				d = SessionDescription{Type: ty}
			case src == "current" && pc.RemoteDescription() != nil:
				d = SessionDescription{SDP: pc.RemoteDescription().SDP} // the very text that is in effect
			case src == "peerx":
				d = vPeerOfferX(t)
			case st.Type == "offer" || st.Type == "rollback":
				d = vPeerOffer(t)
			default:
				d = vPeerAnswer(t, pc.PendingLocalDescription())
			}
			d.Type = ty
			if st.Bad != "" && st.Bad != "none" {
				d = vDamage(d, st.Bad)
			}
			line["side"], line["type"] = "remote", st.Type
			if src != "empty" {
				line["desc"] = vDescID(&d)
			}
			err = pc.SetRemoteDescription(d)
		default:
			t.Fatalf("unknown op %q", st.Op)
		}
		line["res"], line["err"] = "ok", ""
		if err != nil {
			line["res"], line["err"] = "err", err.Error()
		}
		line["a"] = vJsepProj(pc)
		line["events"] = sigs.take(pc)
		bad := st.Bad
		if bad == "" {
			bad = "none"
		}
		line["sig"] = fmt.Sprintf("%s(%s,%s,%s)@%s", st.Op, st.Type, src, bad, before["sig"])
		tr.Emit(line)
	}
}
