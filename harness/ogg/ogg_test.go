//go:build verif && !js

package oggwriter

// Driver for C33: replays TLC-generated behaviours (spec/Ogg.tla, simulation mode) on the real Ogg
// writers - the legacy single-track API (New on a file, NewWith on an io.Writer) and the multi-track
// API (NewWriter, with or without WithSeekableOutput) - and records, for every page found in the
// produced bytes by an independent parser with its own CRC, and for every logical stream, abstract
// facts. The same bytes are read with OggReader (checksum on). The verdict is TLC's (Ogg_Trace.tla).

import (
	"bytes"
	"crypto/sha1" //nolint:gosec
	"encoding/binary"
	"encoding/hex"
	"errors"
	"fmt"
	"io"
	"math"
	"os"
	"path/filepath"
	"strings"
	"testing"

	"github.com/pion/rtp"
	"github.com/pion/webrtc/v4/pkg/media/oggreader"
)

type voTrack struct {
	Ch   string `json:"ch"`
	Tag  string `json:"tag"`
	Rate uint32 `json:"rate"`
}

type voOp struct {
	T   int  `json:"t"`
	Toc int  `json:"toc"`
	B1  int  `json:"b1"`
	N   int  `json:"n"`
	Ok  bool `json:"ok"`
}

type voVec struct {
	ID         int       `json:"id"`
	API        string    `json:"api"` // New | NewWith | Writer | WriterSeek
	Buf        string    `json:"buf"` // fresh | shared
	Tracks     []voTrack `json:"tracks"`
	Ops        []voOp    `json:"ops"`
	ModelPages int       `json:"model_pages"`
	ModelData  int       `json:"model_data_pages"`
}

// voMem is an in-memory output that can be rewritten (io.Writer + io.Seeker + io.WriterAt), not an *os.File.
type voMem struct {
	buf []byte
	pos int64
}

func (m *voMem) Write(p []byte) (int, error) {
	n, _ := m.WriteAt(p, m.pos)
	m.pos += int64(n)

	return n, nil
}

func (m *voMem) WriteAt(p []byte, off int64) (int, error) {
	end := off + int64(len(p))
	if end > int64(len(m.buf)) {
		m.buf = append(m.buf, make([]byte, end-int64(len(m.buf)))...)
	}
	copy(m.buf[off:], p)

	return len(p), nil
}

func (m *voMem) Seek(off int64, whence int) (int64, error) {
	switch whence {
	case io.SeekStart:
		m.pos = off
	case io.SeekCurrent:
		m.pos += off
	case io.SeekEnd:
		m.pos = int64(len(m.buf)) + off
	}

	return m.pos, nil
}

func voHash(b []byte) string {
	s := sha1.Sum(b) //nolint:gosec

	return hex.EncodeToString(s[:8])
}

func voInt(u uint64) int {
	if u > math.MaxInt32 {
		return -2
	}

	return int(u)
}

// voCRC is the Ogg page checksum computed bit by bit (polynomial 0x04c11db7, no reflection, zero
// initial value, no final xor) - deliberately not the table-driven form pion uses.
func voCRC(page []byte) uint32 {
	var crc uint32
	for i, b := range page {
		if i >= 22 && i < 26 {
			b = 0
		}
		crc ^= uint32(b) << 24
		for k := 0; k < 8; k++ {
			if crc&0x80000000 != 0 {
				crc = crc<<1 ^ 0x04c11db7
			} else {
				crc <<= 1
			}
		}
	}

	return crc
}

type voPage struct {
	serial  uint32
	seq     uint32
	flags   byte
	version byte
	gran    uint64
	crcOK   bool
	segs    []byte
	payload []byte
}

// voParse splits data into Ogg pages; rest = bytes that could not be parsed as a page.
func voParse(data []byte) (pages []voPage, rest int) {
	pos := 0
	for pos+27 <= len(data) {
		if string(data[pos:pos+4]) != "OggS" {
			break
		}
		nseg := int(data[pos+26])
		if pos+27+nseg > len(data) {
			break
		}
		segs := data[pos+27 : pos+27+nseg]
		plen := 0
		for _, s := range segs {
			plen += int(s)
		}
		end := pos + 27 + nseg + plen
		if end > len(data) {
			break
		}
		pages = append(pages, voPage{
			serial:  binary.LittleEndian.Uint32(data[pos+14:]),
			seq:     binary.LittleEndian.Uint32(data[pos+18:]),
			flags:   data[pos+5],
			version: data[pos+4],
			gran:    binary.LittleEndian.Uint64(data[pos+6:]),
			crcOK:   voCRC(data[pos:end]) == binary.LittleEndian.Uint32(data[pos+22:]),
			segs:    segs,
			payload: data[pos+27+nseg : end],
		})
		pos = end
	}

	return pages, len(data) - pos
}

func voRLE(segs []byte) []vkM {
	out := []vkM{}
	for i := 0; i < len(segs); {
		j := i
		for j < len(segs) && segs[j] == segs[i] {
			j++
		}
		out = append(out, vkM{"v": int(segs[i]), "c": j - i})
		i = j
	}

	return out
}

// voJoin is the demuxer side: packets of one logical stream from its pages (continuation flag + lacing).
func voJoin(pages []voPage) (packets [][]byte, dangling bool) {
	var pending []byte
	open := false
	for _, p := range pages {
		cont := p.flags&0x01 != 0
		if !cont && open {
			pending, open = nil, false
		}
		skip := cont && !open
		pos := 0
		for _, v := range p.segs {
			chunk := p.payload[pos : pos+int(v)]
			pos += int(v)
			if skip {
				if v < 255 {
					skip = false
				}

				continue
			}
			pending = append(pending, chunk...)
			open = true
			if v < 255 {
				packets = append(packets, pending)
				pending, open = nil, false
			}
		}
	}

	return packets, open
}

type voChan struct {
	fam, ch, sc, cc int
	mapping         []byte
}

func voChannel(name string) voChan {
	switch name {
	case "c1":
		return voChan{0, 1, 1, 0, nil}
	case "c2":
		return voChan{0, 2, 1, 1, nil}
	case "f1m":
		return voChan{1, 1, 1, 0, []byte{0}}
	case "f1s":
		return voChan{1, 2, 1, 1, []byte{0, 1}}
	case "f2":
		return voChan{2, 1, 1, 0, []byte{0}}
	default: // f255
		return voChan{255, 4, 1, 1, []byte{0, 1, 255, 0}}
	}
}

func voChanOpt(c voChan) WriterTrackOption {
	if c.fam == 0 {
		return WithChannelCount(uint16(c.ch)) //nolint:gosec
	}

	return WithChannelMapping(uint8(c.fam), uint8(c.sc), uint8(c.cc), c.mapping) //nolint:gosec
}

type voTags struct {
	vendorSet bool
	vendor    string
	comments  []UserComment
}

func voTagCfg(r interface{ Intn(int) int }, name string) voTags {
	word := func(n int) string {
		b := make([]byte, n)
		for i := range b {
			b[i] = byte('a' + r.Intn(26))
		}

		return string(b)
	}
	switch name {
	case "empty":
		return voTags{vendorSet: true, vendor: ""}
	case "vendor":
		return voTags{vendorSet: true, vendor: "verif-" + word(1+r.Intn(30))}
	case "c2":
		return voTags{vendorSet: true, vendor: "v" + word(3), comments: []UserComment{
			{Comment: "TITLE", Value: word(r.Intn(40))}, {Comment: "ARTIST", Value: "é=" + word(5)},
		}}
	case "big":
		return voTags{comments: []UserComment{{Comment: "BLOB", Value: word(65000 + r.Intn(70000))}}}
	default: // def
		return voTags{}
	}
}

func voCommentsHash(cs []string) string { return voHash([]byte(strings.Join(cs, "\x00"))) }

func voExpHeader(c voChan, preskip int, rate uint32, vendor string, comments []UserComment) vkM {
	cs := []string{}
	for _, u := range comments {
		cs = append(cs, u.Comment+"="+u.Value)
	}
	sc, cc, mp := 0, 0, ""
	if c.fam != 0 {
		sc, cc, mp = c.sc, c.cc, hex.EncodeToString(c.mapping)
	}

	return vkM{"ok": true, "version": 1, "ch": c.ch, "preskip": preskip, "rate": voInt(uint64(rate)), "gain": 0, "fam": c.fam,
		"sc": sc, "cc": cc, "map": mp, "vendor": vendor, "ncomments": len(cs), "comments": voCommentsHash(cs)}
}

func voGotHeader(packets [][]byte) vkM {
	got := vkM{"ok": false, "version": -1, "ch": -1, "preskip": -1, "rate": -1, "gain": -1, "fam": -1, "sc": -1, "cc": -1,
		"map": "", "vendor": "", "ncomments": -1, "comments": ""}
	if len(packets) < 2 {
		return got
	}
	h, err := oggreader.ParseOpusHead(packets[0])
	if err != nil {
		return got
	}
	tg, err := oggreader.ParseOpusTags(packets[1])
	if err != nil {
		return got
	}
	cs := []string{}
	for _, u := range tg.UserComments {
		cs = append(cs, u.Comment+"="+u.Value)
	}

	return vkM{"ok": true, "version": int(h.Version), "ch": int(h.Channels), "preskip": int(h.PreSkip),
		"rate": voInt(uint64(h.SampleRate)), "gain": int(h.OutputGain), "fam": int(h.ChannelMap), "sc": int(h.StreamCount),
		"cc": int(h.CoupledCount), "map": hex.EncodeToString([]byte(h.ChannelMapping)), "vendor": tg.Vendor,
		"ncomments": len(cs), "comments": voCommentsHash(cs)}
}

func TestVerifOgg(t *testing.T) {
	vkSkipUnlessDriven(t)
	var vecs []voVec
	vkLoadInput(t, &vecs)
	tr := vkOpenTrace(t)
	defer tr.Close()
	dir := t.TempDir()
	for _, v := range vecs {
		voBehaviour(t, tr, dir, v)
	}
}

type voWritten struct {
	n        int
	h        string
	toc, b1  int
	rejected bool
}

//nolint:gocyclo,cyclop,gocognit,maintidx
func voBehaviour(t *testing.T, tr *vkTrace, dir string, v voVec) {
	t.Helper()
	tr.Reset(v.ID)
	r := vkRand(int64(v.ID))
	nt := len(v.Tracks)
	sig := "close(" + v.API + ")"

	// ---- output
	var (
		buf  *bytes.Buffer
		mem  *voMem
		file *os.File
		path string
		sink string
		err  error
	)
	newFile := func() {
		path = filepath.Join(dir, fmt.Sprintf("o%d.ogg", v.ID))
		file, err = os.Create(path) //nolint:gosec
		if err != nil {
			t.Fatal(err)
		}
	}

	chans := make([]voChan, nt)
	tags := make([]voTags, nt)
	serials := make([]uint32, nt)
	preskips := make([]int, nt)
	expVendor := make([]string, nt)
	expComments := make([][]UserComment, nt)
	for i, tk := range v.Tracks {
		chans[i] = voChannel(tk.Ch)
		tags[i] = voTagCfg(r, tk.Tag)
	}

	var (
		legacy *OggWriter
		multi  *Writer
		tracks []*Track
	)
	ctorErr := ""
	switch v.API {
	case "New":
		sink = "file"
		path = filepath.Join(dir, fmt.Sprintf("o%d.ogg", v.ID))
		legacy, err = New(path, v.Tracks[0].Rate, uint16(chans[0].ch)) //nolint:gosec
	case "NewWith":
		switch r.Intn(3) {
		case 0:
			sink, buf = "buffer", &bytes.Buffer{}
			legacy, err = NewWith(buf, v.Tracks[0].Rate, uint16(chans[0].ch)) //nolint:gosec
		case 1:
			sink, mem = "mem", &voMem{}
			legacy, err = NewWith(mem, v.Tracks[0].Rate, uint16(chans[0].ch)) //nolint:gosec
		default:
			sink = "osfile"
			newFile()
			legacy, err = NewWith(file, v.Tracks[0].Rate, uint16(chans[0].ch)) //nolint:gosec
		}
	default:
		var wopts []WriterOption
		var out io.Writer
		if v.API == "WriterSeek" {
			if r.Intn(2) == 0 {
				sink = "file+seekable"
				newFile()
				out = file
				wopts = append(wopts, WithSeekableOutput(file))
			} else {
				sink, mem = "mem+seekable", &voMem{}
				out = mem
				wopts = append(wopts, WithSeekableOutput(mem))
			}
		} else {
			if r.Intn(2) == 0 {
				sink, buf = "buffer", &bytes.Buffer{}
				out = buf
			} else {
				sink = "osfile"
				newFile()
				out = file
			}
		}
		// writer-level defaults = configuration of track 1, which then passes no option of its own
		writerLevel := r.Intn(2) == 0
		var wlComments []UserComment
		if writerLevel {
			wopts = append(wopts, WithSampleRate(v.Tracks[0].Rate), voChanOpt(chans[0]))
			if tags[0].vendorSet {
				wopts = append(wopts, WithVendor(tags[0].vendor))
			}
			if len(tags[0].comments) > 0 {
				wopts = append(wopts, WithUserComments(tags[0].comments...))
				wlComments = tags[0].comments
			}
		}
		multi, err = NewWriter(out, wopts...)
		if err == nil {
			for i, tk := range v.Tracks {
				var topts []TrackOption
				vendor := defaultVendor
				comments := append([]UserComment{}, wlComments...)
				if writerLevel && tags[0].vendorSet {
					vendor = tags[0].vendor
				}
				if !(writerLevel && i == 0) {
					topts = append(topts, WithSampleRate(tk.Rate), voChanOpt(chans[i]))
					if tags[i].vendorSet {
						topts = append(topts, WithVendor(tags[i].vendor))
						vendor = tags[i].vendor
					}
					if len(tags[i].comments) > 0 {
						topts = append(topts, WithUserComments(tags[i].comments...)) // appended to the writer's
						comments = append(comments, tags[i].comments...)
					}
				}
				if r.Intn(2) == 0 {
					topts = append(topts, WithSerial(uint32(1000+i*7+r.Intn(5)))) //nolint:gosec
				}
				expVendor[i], expComments[i] = vendor, comments
				var tk2 *Track
				if tk2, err = multi.NewTrack(uint32(5000+i), topts...); err != nil { //nolint:gosec
					break
				}
				tracks = append(tracks, tk2)
				serials[i] = tk2.track.serial
				preskips[i] = int(tk2.track.preSkip)
			}
		}
	}
	if err != nil {
		ctorErr = err.Error()
		tr.Emit(vkM{"ev": "ctor_err", "t": v.ID, "sig": "ctor(" + v.API + ")", "err": ctorErr})
		if file != nil {
			_ = file.Close()
		}

		return
	}
	if legacy != nil {
		serials[0] = legacy.track.serial
		preskips[0] = int(legacy.track.preSkip)
		expVendor[0] = defaultVendor
	}

	// ---- packets. The packet domain includes what the writers refuse (code 3 without / with zero / with too large a
	// frame count) or ignore (empty payload). With buf = "shared" the driver behaves like an application with one
	// receive buffer: every payload is a slice of it, and it is overwritten right after WriteRTP returns (the next
	// network read) and again before Close.
	written := make([][]voWritten, nt)
	refusedBy := make([]int, nt)
	werrs, acceptDrift := 0, 0
	seq := uint16(r.Intn(65536)) //nolint:gosec
	shared := v.Buf == "shared"
	var recv []byte
	if shared {
		maxN := 1
		for _, op := range v.Ops {
			maxN = max(maxN, op.N)
		}
		recv = make([]byte, maxN)
	}
	scribble := func(k int) {
		for i := range recv {
			recv[i] = byte(0xA5 + i + k)
		}
	}
	for k, op := range v.Ops {
		ti := op.T - 1
		n := op.N
		var pkt []byte
		if shared {
			pkt = recv[:n]
		} else {
			pkt = make([]byte, n)
		}
		for i := range pkt {
			pkt[i] = byte(r.Intn(256))
		}
		b1 := 0
		if n >= 1 {
			pkt[0] = byte(op.Toc)
		}
		if op.Toc%4 == 3 && n >= 2 {
			pkt[1] = byte(op.B1)
			b1 = op.B1
		}
		h := voHash(pkt)
		ssrc := uint32(5000 + ti) //nolint:gosec
		p := &rtp.Packet{Header: rtp.Header{Version: 2, PayloadType: 111, SequenceNumber: seq, Timestamp: uint32(seq) * 960,
			SSRC: ssrc}, Payload: pkt}
		seq++
		var e error
		if legacy != nil {
			e = legacy.WriteRTP(p)
		} else {
			e = tracks[ti].WriteRTP(p)
		}
		if shared {
			scribble(k)
		}
		accepted := e == nil && n > 0
		if accepted != op.Ok {
			acceptDrift++ // generative model and code disagree on what is a valid packet: recorded, not judged
		}
		if e != nil {
			werrs++
		}
		if !accepted {
			refusedBy[ti]++

			continue
		}
		written[ti] = append(written[ti], voWritten{n: n, h: h, toc: op.Toc, b1: b1})
	}
	if shared {
		scribble(len(v.Ops) + 1)
	}
	cerr := ""
	if legacy != nil {
		err = legacy.Close()
	} else {
		err = multi.Close()
	}
	if err != nil && !errors.Is(err, os.ErrClosed) {
		cerr = err.Error()
	}

	// ---- what was written
	var data []byte
	switch {
	case buf != nil:
		data = buf.Bytes()
	case mem != nil:
		data = mem.buf
	default:
		if file != nil {
			_ = file.Close()
		}
		if data, err = os.ReadFile(path); err != nil { //nolint:gosec
			t.Fatalf("read back: %v", err)
		}
		_ = os.Remove(path)
	}

	pages, rest := voParse(data)
	trackOf := func(serial uint32) int {
		for i, s := range serials {
			if s == serial {
				return i + 1
			}
		}

		return 0
	}

	// OggReader over the same bytes, page by page, checksum on
	rd, rerr := oggreader.NewWithOptions(bytes.NewReader(data))
	rdDead := rerr != nil
	perTrack := make([][]voPage, nt)
	unknown := 0
	// the application reads the whole file first, keeping every page it is given, and looks at them afterwards
	type rdPage struct {
		state   string
		payload []byte
		gran    uint64
		serial  uint32
	}
	rdPages := make([]rdPage, len(pages))
	for i := range pages {
		rdPages[i].state = "none"
		if !rdDead {
			payload, hdr, e := rd.ParseNextPage()
			switch {
			case e == nil:
				rdPages[i] = rdPage{state: "ok", payload: payload, gran: hdr.GranulePosition, serial: hdr.Serial}
			case errors.Is(e, io.EOF):
				rdPages[i].state, rdDead = "eof", true
			default:
				rdPages[i].state, rdDead = "err", true
			}
		}
	}
	for i, p := range pages {
		rdState := rdPages[i].state
		same := rdState == "ok" && bytes.Equal(rdPages[i].payload, p.payload) && rdPages[i].gran == p.gran && rdPages[i].serial == p.serial
		kind := "other"
		switch {
		case bytes.HasPrefix(p.payload, []byte("OpusHead")):
			kind = "head"
		case bytes.HasPrefix(p.payload, []byte("OpusTags")):
			kind = "tags"
		}
		gran := -1
		if p.gran != math.MaxUint64 {
			gran = voInt(p.gran)
		}
		ti := trackOf(p.serial)
		if ti == 0 {
			unknown++
		} else {
			perTrack[ti-1] = append(perTrack[ti-1], p)
		}
		tr.Emit(vkM{"ev": "page", "t": v.ID, "sig": fmt.Sprintf("page(%s,%s)", v.API, kind), "i": i + 1, "tr": ti,
			"pseq": voInt(uint64(p.seq)), "ftype": int(p.flags), "cont": p.flags&0x01 != 0, "bos": p.flags&0x02 != 0,
			"eos": p.flags&0x04 != 0, "version": int(p.version), "gran": gran, "crc_ok": p.crcOK, "nseg": len(p.segs),
			"segs": voRLE(p.segs), "len": len(p.payload), "kind": kind, "rd": rdState, "rd_same": same})
	}
	rdEnd := "none"
	if !rdDead {
		if _, _, e := rd.ParseNextPage(); errors.Is(e, io.EOF) {
			rdEnd = "eof"
		} else if e != nil {
			rdEnd = "err"
		} else {
			rdEnd = "more"
		}
	}
	// the single-stream convenience constructor of the reader (first OpusHead only)
	nwOK := false
	if _, h, e := oggreader.NewWith(bytes.NewReader(data)); e == nil && len(pages) > 0 {
		nwOK = int(h.Channels) == chans[max(trackOf(pages[0].serial), 1)-1].ch
	}

	for i := range v.Tracks {
		packets, dangling := voJoin(perTrack[i])
		rec := []vkM{}
		for j, p := range packets {
			if j >= 2 {
				rec = append(rec, vkM{"n": len(p), "h": voHash(p)})
			}
		}
		wr := []vkM{}
		for _, w := range written[i] {
			wr = append(wr, vkM{"n": w.n, "h": w.h, "toc": w.toc, "b1": w.b1})
		}
		tr.Emit(vkM{"ev": "stream", "t": v.ID, "sig": sig, "api": v.API, "sink": sink, "tr": i + 1, "ntracks": nt,
			"npages": len(perTrack[i]), "wr": wr, "rec": rec, "nrec": len(packets), "dangling": dangling,
			"hdr_exp": voExpHeader(chans[i], preskips[i], v.Tracks[i].Rate, expVendor[i], expComments[i]),
			"hdr_got": voGotHeader(packets), "ch": v.Tracks[i].Ch, "tag": v.Tracks[i].Tag, "buf": v.Buf,
			"refused": refusedBy[i]})
	}
	// pages that do not carry the two header packets (their sizes are abstract in the generative model)
	ndata := len(pages)
	for i := range v.Tracks {
		done := 0
		for _, p := range perTrack[i] {
			if done >= 2 {
				break
			}
			ndata--
			for _, sv := range p.segs {
				if sv < 255 {
					done++
				}
			}
		}
	}
	tr.Emit(vkM{"ev": "file", "t": v.ID, "sig": "file(" + v.API + ")", "api": v.API, "sink": sink, "npages": len(pages),
		"rest": rest, "unknown_serial": unknown, "rdend": rdEnd, "werrs": werrs, "cerr": cerr, "nw_ok": nwOK,
		"bytes": len(data), "model_pages": v.ModelPages, "ndata": ndata, "model_data_pages": v.ModelData,
		"buf": v.Buf, "accept_drift": acceptDrift, "ops": len(v.Ops)})
}
