//go:build verif && !js

package webrtc

// Driver for C30: builds hostile descriptions / candidate strings from the structural vectors of
// spec/RemoteInput.tla and feeds them to real PeerConnections. A panic anywhere (also in work queued
// behind the call) kills this process: every vector is bracketed by a flushed "begin" line and an
// outcome line, so that the orchestrator knows which vector was in flight and restarts behind it.

import (
	"encoding/binary"
	"fmt"
	"os"
	"strconv"
	"strings"
	"sync/atomic"
	"testing"
	"time"

	"github.com/pion/rtp"
)

type vhSec struct {
	Kind, Mid, Dir, Ssrc, Group, Rid, Rtpmap, Extmap, Fmtp, Cand string
}

type vhVec struct {
	Kind   string  `json:"kind"`
	Secs   []vhSec `json:"secs"`
	Sem    string  `json:"sem"`
	Me     string  `json:"me"`
	Bundle string  `json:"bundle"`
	Fp     string  `json:"fp"`
	Follow string  `json:"follow"`
	Phase  string  `json:"phase"`
	Type   string  `json:"type"`
	Mirror bool    `json:"mirror"` // hostile answer: the local endpoint offers sections of the same kinds first
	// media vectors (RTP / RTCP packets a connected peer sends)
	Ssrc   string `json:"ssrc"` // primary | rtx | unknown
	Pt     string `json:"pt"`   // primary | rtx | unknown
	Cc     int    `json:"cc"`   // CSRC count
	Ext    string `json:"ext"`  // none | onebyte | twobyte | empty
	Pad    string `json:"pad"`  // none | ok | overlong | zero | all
	Plen   int    `json:"plen"` // payload length
	Marker bool   `json:"marker"`
	Ptype  string `json:"ptype"` // RTCP packet type
	Shape  string `json:"shape"` // RTCP defect class
	// candidate vectors
	Foundation, Component, Proto, Prio, Addr, Port, Typ, Tail, Line, Prefix string
	MidC                                                                    string `json:"mid"`
}

const vhFp = "sha-256 0F:74:31:25:CB:A2:13:EC:28:6F:6D:2C:61:FF:5D:C2:BC:B9:DB:3D:98:14:8D:1A:BB:EA:33:0C:A4:60:A8:8E"

func vhSDP(v vhVec, ufrag, pwd, fp string) string { return vhSDPMids(v, ufrag, pwd, fp, nil) }

// vhSDPMids: with mids given, section i carries mids[i] (the mid of the offer it answers) unless its
// mid class says otherwise.
func vhSDPMids(v vhVec, ufrag, pwd, fp string, given []string) string {
	var b strings.Builder
	b.WriteString("v=0\r\no=- 4596489990601351948 " + strconv.Itoa(2+len(v.Secs)) + " IN IP4 127.0.0.1\r\ns=-\r\nt=0 0\r\n")
	mids := []string{}
	midOf := func(i int, s vhSec) string {
		switch s.Mid {
		case "dup":
			return "0"
		case "empty":
			return ""
		}
		if i < len(given) {
			return given[i]
		}
		return strconv.Itoa(i)
	}
	for i, s := range v.Secs {
		if s.Mid != "absent" {
			mids = append(mids, midOf(i, s))
		}
	}
	switch v.Bundle {
	case "ok":
		b.WriteString("a=group:BUNDLE " + strings.Join(mids, " ") + "\r\n")
	case "unknown-mid":
		b.WriteString("a=group:BUNDLE " + strings.Join(mids, " ") + " 77 zz\r\n")
	}
	fpLine := "a=fingerprint:" + fp + "\r\n"
	if v.Fp == "malformed" {
		fpLine = "a=fingerprint:sha-256\r\n"
	}
	if v.Fp == "session" || v.Fp == "malformed" {
		b.WriteString(fpLine)
	}
	b.WriteString("a=msid-semantic: WMS *\r\n")
	for i, s := range v.Secs {
		pts := "96 97"
		if s.Kind == "audio" {
			pts = "111"
		} else if strings.HasPrefix(s.Fmtp, "params-") {
			pts = "102 98 96 97"
		}
		switch s.Kind {
		case "application":
			b.WriteString("m=application 9 UDP/DTLS/SCTP webrtc-datachannel\r\nc=IN IP4 0.0.0.0\r\n")
		case "text":
			b.WriteString("m=text 9 RTP/AVP 98\r\nc=IN IP4 0.0.0.0\r\n")
		default:
			b.WriteString("m=" + s.Kind + " 9 UDP/TLS/RTP/SAVPF " + pts + "\r\nc=IN IP4 0.0.0.0\r\n")
		}
		b.WriteString("a=ice-ufrag:" + ufrag + "\r\na=ice-pwd:" + pwd + "\r\n")
		if v.Fp == "media" {
			b.WriteString(fpLine)
		}
		if v.Type == "offer" || !v.Mirror {
			b.WriteString("a=setup:actpass\r\n")
		} else {
			b.WriteString("a=setup:active\r\n")
		}
		if s.Mid != "absent" {
			b.WriteString("a=mid:" + midOf(i, s) + "\r\n")
		}
		if s.Kind == "application" {
			b.WriteString("a=sctp-port:5000\r\n")
			continue
		}
		if s.Dir != "absent" {
			b.WriteString("a=" + s.Dir + "\r\n")
		}
		b.WriteString("a=rtcp-mux\r\n")
		switch s.Rtpmap {
		case "ok":
			if s.Kind == "audio" {
				b.WriteString("a=rtpmap:111 opus/48000/2\r\n")
			} else {
				b.WriteString("a=rtpmap:96 VP8/90000\r\na=rtpmap:97 rtx/90000\r\n")
			}
		case "unlisted":
			b.WriteString("a=rtpmap:120 VP8/90000\r\na=rtpmap:121 opus/48000/2\r\n")
		case "garbage":
			b.WriteString("a=rtpmap:96\r\na=rtpmap:x y/z\r\na=rtpmap:97 rtx\r\n")
		}
		switch s.Fmtp {
		case "ok":
			b.WriteString("a=fmtp:97 apt=96\r\n")
		case "apt-unlisted":
			b.WriteString("a=fmtp:97 apt=55\r\n")
		case "apt-garbage":
			b.WriteString("a=fmtp:97 apt=;;=\r\na=fmtp:\r\n")
		case "params-short", "params-empty", "params-odd":
			// codecs the endpoint has, with format parameters cut short / without value / malformed
			h264, vp9, opus := "packetization-mode=1;profile-level-id=42", "profile-id=", "minptime=1"
			switch s.Fmtp {
			case "params-empty":
				h264, vp9, opus = "packetization-mode=1;profile-level-id=", "profile-id", "minptime=;useinbandfec"
			case "params-odd":
				h264, vp9, opus = "profile-level-id=42e;packetization-mode=1;;=;", "profile-id=x;=2;;", "=;;"
			}
			if s.Kind == "audio" {
				b.WriteString("a=fmtp:111 " + opus + "\r\n")
			} else {
				b.WriteString("a=rtpmap:102 H264/90000\r\na=rtpmap:98 VP9/90000\r\na=fmtp:102 " + h264 + "\r\na=fmtp:98 " + vp9 + "\r\na=fmtp:97 apt=96\r\n")
			}
		}
		switch s.Extmap {
		case "ok":
			b.WriteString("a=extmap:1 urn:ietf:params:rtp-hdrext:sdes:mid\r\na=extmap:2 urn:ietf:params:rtp-hdrext:sdes:rtp-stream-id\r\n")
		case "malformed":
			b.WriteString("a=extmap:x\r\na=extmap:\r\na=extmap:3/sendrecv\r\n")
		case "huge-id":
			b.WriteString("a=extmap:99999999999 urn:ietf:params:rtp-hdrext:sdes:mid\r\na=extmap:0 urn:x\r\n")
		}
		switch s.Ssrc {
		case "one-msid":
			b.WriteString("a=msid:stream track\r\na=ssrc:1000 cname:c\r\na=ssrc:1000 msid:stream track\r\n")
		case "one-plain":
			b.WriteString("a=ssrc:1000 cname:c\r\n")
		case "two":
			b.WriteString("a=msid:s t\r\na=ssrc:1000 msid:s t\r\na=ssrc:1001 msid:s t\r\n")
		case "two-tracks": // two different tracks announced in one section
			b.WriteString("a=ssrc:1000 cname:c\r\na=ssrc:1000 msid:s t\r\na=ssrc:4242 cname:zz\r\na=ssrc:4242 msid:zz yy\r\n")
		case "nonnumeric":
			b.WriteString("a=ssrc:abc cname:c\r\na=ssrc:\r\na=ssrc:12x msid:s t\r\n")
		case "overflow":
			b.WriteString("a=ssrc:99999999999999999999 cname:c\r\na=ssrc:4294967296 msid:s t\r\n")
		}
		switch s.Group {
		case "fid2":
			b.WriteString("a=ssrc-group:FID 1000 1001\r\n")
		case "fid1":
			b.WriteString("a=ssrc-group:FID 1000\r\n")
		case "fid3":
			b.WriteString("a=ssrc-group:FID 1000 1001 1002\r\n")
		case "fecfr":
			b.WriteString("a=ssrc-group:FEC-FR 1000 1001\r\na=ssrc-group:FEC-FR 1000\r\n")
		case "fid-nonnumeric":
			b.WriteString("a=ssrc-group:FID x y\r\na=ssrc-group:\r\na=ssrc-group:FID\r\n")
		case "fid-unknown":
			b.WriteString("a=ssrc-group:FID 5 6\r\na=ssrc-group:SIM 1 2 3\r\n")
		}
		switch s.Rid {
		case "one":
			b.WriteString("a=msid:s t\r\na=rid:a send\r\n")
		case "two-simulcast":
			b.WriteString("a=msid:s t\r\na=rid:a send\r\na=rid:b send\r\na=simulcast:send a;b\r\n")
		case "empty-rid":
			b.WriteString("a=rid:\r\na=rid: send\r\na=simulcast:send\r\n")
		case "dangling-simulcast":
			b.WriteString("a=simulcast:send q;r recv s\r\na=simulcast:\r\n")
		case "paused":
			b.WriteString("a=msid:s t\r\na=rid:a send\r\na=rid:b send\r\na=simulcast:send ~a;b\r\n")
		}
		switch s.Cand {
		case "ok":
			b.WriteString("a=candidate:1 1 udp 2130706431 127.0.0.1 9 typ host\r\na=end-of-candidates\r\n")
		case "garbage":
			b.WriteString("a=candidate:\r\na=candidate:1 1 udp x y z\r\na=candidate:1 1 udp 1 not-an-ip 9 typ host\r\n")
		}
	}
	return b.String()
}

// vhOfferSections lists (kind, mid) of the m-sections of a description, in order.
func vhOfferSections(sdpText string) [][2]string {
	out := [][2]string{}
	for _, part := range strings.Split(sdpText, "\r\nm=")[1:] {
		kind := strings.SplitN(part, " ", 2)[0]
		mid := ""
		for _, line := range strings.Split(part, "\r\n") {
			if strings.HasPrefix(line, "a=mid:") {
				mid = strings.TrimPrefix(line, "a=mid:")
			}
		}
		out = append(out, [2]string{kind, mid})
	}
	return out
}

func vhCandidate(v vhVec) ICECandidateInit {
	pick := func(class string, m map[string]string) string {
		if s, ok := m[class]; ok {
			return s
		}
		return class
	}
	f := pick(v.Foundation, map[string]string{"ok": "842163049", "empty": "", "long": strings.Repeat("9", 64)})
	prio := pick(v.Prio, map[string]string{"ok": "1677729535", "neg": "-5", "overflow": "99999999999999999999"})
	addr := pick(v.Addr, map[string]string{"v4": "192.0.2.10", "v6": "2001:db8::1", "mdns": "b7e5c1e0-0000-4d1c-a0c3-aaaaaaaaaaaa.local", "garbage": "300.1.1", "empty": ""})
	port := pick(v.Port, map[string]string{"ok": "50000"})
	typ := "typ " + v.Typ
	if v.Typ == "missing" {
		typ = ""
	}
	tail := pick(v.Tail, map[string]string{
		"none": "", "raddr": "raddr 10.0.0.1 rport 9", "raddr-noport": "raddr 10.0.0.1", "tcptype": "tcptype passive",
		"ufrag": "ufrag nobody", "dangling-key": "generation", "generation-x": "generation x network-cost",
	})
	s := strings.TrimSpace(fmt.Sprintf("%s%s %s %s %s %s %s %s %s", v.Prefix, f, v.Component, v.Proto, prio, addr, port, typ, tail))
	init := ICECandidateInit{Candidate: s}
	switch v.MidC {
	case "ok":
		m := "0"
		init.SDPMid = &m
	case "unknown":
		m := "nope"
		init.SDPMid = &m
	}
	switch v.Line {
	case "0":
		z := uint16(0)
		init.SDPMLineIndex = &z
	case "999":
		z := uint16(999)
		init.SDPMLineIndex = &z
	}
	return init
}

func vhNewPC(t *testing.T, sem, me string) *PeerConnection {
	t.Helper()
	m := &MediaEngine{}
	if me == "both" || me == "audioonly" {
		if err := m.RegisterCodec(RTPCodecParameters{
			RTPCodecCapability: RTPCodecCapability{MimeType: MimeTypeOpus, ClockRate: 48000, Channels: 2}, PayloadType: 111,
		}, RTPCodecTypeAudio); err != nil {
			t.Fatal(err)
		}
	}
	if me == "both" || me == "videoonly" {
		for _, c := range []RTPCodecParameters{
			{RTPCodecCapability: RTPCodecCapability{MimeType: MimeTypeVP8, ClockRate: 90000}, PayloadType: 96},
			{RTPCodecCapability: RTPCodecCapability{MimeType: MimeTypeRTX, ClockRate: 90000, SDPFmtpLine: "apt=96"}, PayloadType: 97},
			{RTPCodecCapability: RTPCodecCapability{MimeType: MimeTypeH264, ClockRate: 90000,
				SDPFmtpLine: "level-asymmetry-allowed=1;packetization-mode=1;profile-level-id=42e01f"}, PayloadType: 102},
			{RTPCodecCapability: RTPCodecCapability{MimeType: MimeTypeVP9, ClockRate: 90000, SDPFmtpLine: "profile-id=0"}, PayloadType: 98},
		} {
			if err := m.RegisterCodec(c, RTPCodecTypeVideo); err != nil {
				t.Fatal(err)
			}
		}
	}
	cfg := Configuration{}
	switch sem {
	case "planb":
		cfg.SDPSemantics = SDPSemanticsPlanB
	case "fallback":
		cfg.SDPSemantics = SDPSemanticsUnifiedPlanWithFallback
	}
	pc, err := NewAPI(WithMediaEngine(m)).NewPeerConnection(cfg)
	if err != nil {
		t.Fatal(err)
	}
	return pc
}

func vhType(s string) SDPType {
	switch s {
	case "answer":
		return SDPTypeAnswer
	case "pranswer":
		return SDPTypePranswer
	}
	return SDPTypeOffer
}

func TestVerifHostile(t *testing.T) {
	vkSkipUnlessDriven(t)
	var vecs []vhVec
	vkLoadInput(t, &vecs)
	tr := vkOpenTrace(t)
	defer tr.Close()
	start := vkEnvInt("VERIF_START", 0)
	stop := vkEnvInt("VERIF_STOP", len(vecs))
	for id := start; id < stop && id < len(vecs); id++ {
		v := vecs[id]
		tr.Emit(vkM{"ev": "begin", "t": id, "sig": "begin"})
		tr.Flush()
		out := vhRun(t, v)
		out["ev"], out["t"] = "vec", id
		tr.Emit(out)
		tr.Flush()
	}
	_ = os.Stdout.Sync()
}

func vhRun(t *testing.T, v vhVec) vkM { //nolint:cyclop
	t.Helper()
	if v.Kind == "cand" {
		pc := vhNewPC(t, "unified", "both")
		peer := vhNewPC(t, "unified", "both")
		defer func() {
			_ = pc.Close()
			_ = peer.Close()
		}()
		_, _ = peer.CreateDataChannel("x", nil)
		if o, err := peer.CreateOffer(nil); err == nil {
			_ = pc.SetRemoteDescription(o)
		}
		returned := vkWithDeadline(10*time.Second, func() { _ = pc.AddICECandidate(vhCandidate(v)) })
		outcome := "returned"
		if !returned {
			outcome = "hung"
		}
		return vkM{"kind": "cand", "outcome": outcome, "sig": fmt.Sprintf("cand(typ=%s,addr=%s,port=%s,prio=%s,tail=%s,prefix=%q)", v.Typ, v.Addr, v.Port, v.Prio, v.Tail, v.Prefix)}
	}
	if v.Kind == "rtp" || v.Kind == "rtcp" {
		return vhMedia(t, v)
	}
	pc := vhNewPC(t, v.Sem, v.Me)
	var peer *PeerConnection
	defer func() {
		_ = pc.Close()
		if peer != nil {
			_ = peer.Close()
		}
	}()
	ufrag, pwd, fp := "synU", "synPwdsynPwdsynPwdsynPwd", vhFp
	connected := false
	if v.Phase == "connected" {
		// establish a genuine connection first (data channel only), then renegotiate with the hostile text;
		// the hostile description keeps the peer's real credentials so that the transports stay up
		peer = vhNewPC(t, v.Sem, "both")
		dc, _ := peer.CreateDataChannel("boot", nil)
		opened := make(chan struct{})
		if dc != nil {
			dc.OnOpen(func() { close(opened) })
		}
		if err := signalPairWithOptions(peer, pc, withDisableInitialDataChannel(true)); err == nil {
			select {
			case <-opened:
				connected = true
			case <-time.After(5 * time.Second):
			}
		}
		if ld := peer.LocalDescription(); ld != nil {
			for _, line := range strings.Split(ld.SDP, "\r\n") {
				switch {
				case strings.HasPrefix(line, "a=ice-ufrag:"):
					ufrag = strings.TrimPrefix(line, "a=ice-ufrag:")
				case strings.HasPrefix(line, "a=ice-pwd:"):
					pwd = strings.TrimPrefix(line, "a=ice-pwd:")
				case strings.HasPrefix(line, "a=fingerprint:"):
					fp = strings.TrimPrefix(line, "a=fingerprint:")
				}
			}
		}
	}
	sd := SessionDescription{Type: vhType(v.Type), SDP: vhSDP(v, ufrag, pwd, fp)}
	if v.Type != "offer" && v.Mirror {
		// the local endpoint offers what the hostile answer will answer: a receiving transceiver per media
		// section, a data channel for an application section
		for i, s := range v.Secs {
			switch s.Kind {
			case "audio", "video":
				dir := RTPTransceiverDirectionRecvonly
				if i%2 == 1 {
					dir = RTPTransceiverDirectionSendrecv
				}
				k := RTPCodecTypeAudio
				if s.Kind == "video" {
					k = RTPCodecTypeVideo
				}
				_, _ = pc.AddTransceiverFromKind(k, RTPTransceiverInit{Direction: dir})
			case "application":
				_, _ = pc.CreateDataChannel("x", nil)
			}
		}
		if v.Phase == "first" && len(pc.GetTransceivers()) == 0 {
			_, _ = pc.CreateDataChannel("x", nil)
		}
		if o, err := pc.CreateOffer(nil); err == nil {
			_ = pc.SetLocalDescription(o)
			// answer section by section: the next unused vector section of the offered kind (a plain one if
			// there is none), with the offered mid
			pool := append([]vhSec{}, v.Secs...)
			aligned, mids := []vhSec{}, []string{}
			for _, m := range vhOfferSections(o.SDP) {
				pick := vhSec{Kind: m[0], Mid: "ok", Dir: "sendonly", Ssrc: "one-msid", Group: "none", Rid: "none",
					Rtpmap: "ok", Extmap: "ok", Fmtp: "ok", Cand: "none"}
				for j, s := range pool {
					if s.Kind == m[0] {
						pick = s
						pool = append(pool[:j], pool[j+1:]...)
						break
					}
				}
				aligned = append(aligned, pick)
				mids = append(mids, m[1])
			}
			v.Secs = aligned
			sd.SDP = vhSDPMids(v, ufrag, pwd, fp, mids)
		}
	} else if v.Type != "offer" && v.Phase == "first" { // an answer needs a local offer first
		_, _ = pc.CreateDataChannel("x", nil)
		if o, err := pc.CreateOffer(nil); err == nil {
			_ = pc.SetLocalDescription(o)
		}
	} else if v.Type != "offer" && v.Phase == "connected" {
		if o, err := pc.CreateOffer(nil); err == nil {
			_ = pc.SetLocalDescription(o)
		}
	}
	steps := ""
	returned := vkWithDeadline(15*time.Second, func() {
		err := pc.SetRemoteDescription(sd)
		steps = "srd:" + strconv.FormatBool(err == nil)
		if err != nil || v.Follow == "none" || v.Type != "offer" {
			return
		}
		ans, err := pc.CreateAnswer(nil)
		steps += ",answer:" + strconv.FormatBool(err == nil)
		if err != nil || v.Follow == "answer" {
			return
		}
		err = pc.SetLocalDescription(ans)
		steps += ",sld:" + strconv.FormatBool(err == nil)
	})
	// let the queued work run (it only does once transports are up) and give background goroutines a moment
	drained := vkWithDeadline(3*time.Second, pc.ops.Done)
	time.Sleep(2 * time.Millisecond)
	outcome := "returned"
	if !returned {
		outcome = "hung"
	}
	shapes := []string{}
	for _, s := range v.Secs {
		shapes = append(shapes, s.Kind)
	}
	return vkM{"kind": "sdp", "outcome": outcome, "steps": steps, "connected": connected, "drained": drained,
		"sig": fmt.Sprintf("sdp(sem=%s,me=%s,type=%s,phase=%s,follow=%s,secs=%s)", v.Sem, v.Me, v.Type, v.Phase, v.Follow, strings.Join(shapes, "+"))}
}

// vhMedia: a connected pair with one video track (RTX negotiated); the sending side injects one hostile
// RTP or RTCP packet through its SRTP / SRTCP session, then ordinary media again. The receiver has to stay
// alive and keep delivering: "returned" when a well-formed packet written after the hostile one arrives.
func vhMedia(t *testing.T, v vhVec) vkM { //nolint:cyclop
	t.Helper()
	sig := fmt.Sprintf("rtp(ssrc=%s,pt=%s,cc=%d,ext=%s,pad=%s,plen=%d)", v.Ssrc, v.Pt, v.Cc, v.Ext, v.Pad, v.Plen)
	if v.Kind == "rtcp" {
		sig = fmt.Sprintf("rtcp(type=%s,shape=%s)", v.Ptype, v.Shape)
	}
	out := vkM{"kind": v.Kind, "outcome": "returned", "steps": "", "connected": false, "drained": true, "sig": sig}
	sender, receiver, err := newPair()
	if err != nil {
		t.Fatal(err)
	}
	defer func() {
		_ = sender.Close()
		_ = receiver.Close()
	}()
	track, err := NewTrackLocalStaticRTP(RTPCodecCapability{MimeType: MimeTypeVP8}, "video", "pion")
	if err != nil {
		t.Fatal(err)
	}
	rtpSender, err := sender.AddTrack(track)
	if err != nil {
		t.Fatal(err)
	}
	go func() { // the sender reads the RTCP it gets, as applications do
		b := make([]byte, 1500)
		for {
			if _, _, e := rtpSender.Read(b); e != nil {
				return
			}
		}
	}()
	var got atomic.Int64
	receiver.OnTrack(func(remote *TrackRemote, r *RTPReceiver) {
		go func() {
			b := make([]byte, 1500)
			for {
				if _, _, e := r.Read(b); e != nil {
					return
				}
			}
		}()
		b := make([]byte, 1500)
		for {
			if _, _, e := remote.Read(b); e != nil {
				return
			}
			got.Add(1)
		}
	})
	if err = signalPairWithOptions(sender, receiver, withDisableInitialDataChannel(true)); err != nil {
		out["steps"] = "signal:false"
		return out
	}
	seq := uint16(100)
	sendMedia := func() {
		seq++
		_ = track.WriteRTP(&rtp.Packet{
			Header:  rtp.Header{Version: 2, SequenceNumber: seq, Timestamp: uint32(seq) * 3000},
			Payload: []byte{0x10, 0x00, 0x01, 0x02},
		})
	}
	flows := func(min int64, d time.Duration) bool {
		end := time.Now().Add(d)
		for time.Now().Before(end) {
			sendMedia()
			if got.Load() >= min {
				return true
			}
			time.Sleep(3 * time.Millisecond)
		}
		return false
	}
	if !flows(1, 5*time.Second) {
		out["steps"] = "media:false"
		return out
	}
	out["connected"] = true
	params := rtpSender.GetParameters()
	mediaPT := params.Codecs[0].PayloadType
	rtxPT := findRTXPayloadType(mediaPT, params.Codecs)
	primary, rtx := uint32(params.Encodings[0].SSRC), uint32(params.Encodings[0].RTX.SSRC)
	if v.Kind == "rtp" {
		sess, e := sender.dtlsTransport.getSRTPSession()
		if e != nil {
			out["steps"] = "session:false"
			return out
		}
		raw, e := sess.OpenWriteStream()
		if e != nil {
			out["steps"] = "stream:false"
			return out
		}
		h := rtp.Header{Version: 2, Marker: v.Marker, SequenceNumber: 7, Timestamp: 9}
		switch v.Ssrc {
		case "primary":
			h.SSRC = primary
		case "rtx":
			h.SSRC = rtx
		default:
			h.SSRC = 0xDEADBEEF
		}
		switch v.Pt {
		case "primary":
			h.PayloadType = uint8(mediaPT)
		case "rtx":
			h.PayloadType = uint8(rtxPT)
		default:
			h.PayloadType = 77
		}
		for i := 0; i < v.Cc; i++ {
			h.CSRC = append(h.CSRC, uint32(1000+i))
		}
		switch v.Ext {
		case "onebyte":
			h.Extension, h.ExtensionProfile = true, 0xBEDE
			_ = h.SetExtension(1, []byte{0xAA, 0xBB})
		case "twobyte":
			h.Extension, h.ExtensionProfile = true, 0x1000
			_ = h.SetExtension(1, []byte{0xAA, 0xBB, 0xCC})
		case "empty":
			h.Extension, h.ExtensionProfile = true, 0xBEDE
		}
		payload := make([]byte, v.Plen)
		for i := range payload {
			payload[i] = byte(0x10 + i%7)
		}
		if v.Pad != "none" && v.Plen > 0 {
			h.Padding = true
			switch v.Pad {
			case "ok":
				payload[v.Plen-1] = byte(1 + (v.Plen-1)%4)
			case "overlong":
				payload[v.Plen-1] = 255
			case "zero":
				payload[v.Plen-1] = 0
			case "all":
				payload[v.Plen-1] = byte(v.Plen % 256)
			}
		}
		_, e = raw.WriteRTP(&h, payload)
		out["steps"] = "write:" + strconv.FormatBool(e == nil)
	} else {
		sess, e := sender.dtlsTransport.getSRTCPSession()
		if e != nil {
			out["steps"] = "session:false"
			return out
		}
		raw, e := sess.OpenWriteStream()
		if e != nil {
			out["steps"] = "stream:false"
			return out
		}
		_, e = raw.Write(vhRTCP(v, primary))
		out["steps"] = "write:" + strconv.FormatBool(e == nil)
	}
	// the receiver keeps working: media written after the hostile packet still arrives
	if !flows(got.Load()+2, 30*time.Second) {
		out["outcome"] = "hung"
	}
	return out
}

// vhRTCP builds one RTCP packet (or compound) of the given type with the given defect.
func vhRTCP(v vhVec, ssrc uint32) []byte {
	types := map[string][2]byte{ // packet type, count/fmt
		"sr": {200, 0}, "rr": {201, 1}, "sdes": {202, 1}, "bye": {203, 1}, "nack": {205, 1}, "twcc": {205, 15},
		"pli": {206, 1}, "fir": {206, 4}, "remb": {206, 15}, "unknown": {199, 3},
	}
	tp := types[v.Ptype]
	body := make([]byte, 4, 64) // sender SSRC
	binary.BigEndian.PutUint32(body, 0x01020304)
	switch v.Ptype {
	case "sr":
		body = append(body, make([]byte, 20)...)
	case "rr":
		blk := make([]byte, 24)
		binary.BigEndian.PutUint32(blk, ssrc)
		body = append(body, blk...)
	case "sdes":
		body = append(body[:0], 0x01, 0x02, 0x03, 0x04, 1, 2, 'a', 'b', 0, 0, 0, 0)
	case "bye":
	case "nack":
		m := make([]byte, 8)
		binary.BigEndian.PutUint32(m, ssrc)
		binary.BigEndian.PutUint16(m[4:], 100)
		body = append(body, m...)
	case "pli":
		m := make([]byte, 4)
		binary.BigEndian.PutUint32(m, ssrc)
		body = append(body, m...)
	case "fir":
		m := make([]byte, 12)
		binary.BigEndian.PutUint32(m[4:], ssrc)
		body = append(body, m...)
	case "remb":
		m := make([]byte, 16)
		copy(m[4:], "REMB")
		m[8] = 1
		binary.BigEndian.PutUint32(m[12:], ssrc)
		body = append(body, m...)
	case "twcc":
		m := make([]byte, 16)
		binary.BigEndian.PutUint32(m, ssrc)
		binary.BigEndian.PutUint16(m[4:], 1)
		binary.BigEndian.PutUint16(m[6:], 1)
		body = append(body, m...)
	default:
		body = append(body, 1, 2, 3, 4)
	}
	count := tp[1]
	switch v.Shape {
	case "short":
		body = body[:4]
	case "count-over":
		count = 31
	case "zero-ssrc":
		for i := range body {
			body[i] = 0
		}
	}
	pkt := make([]byte, 4+len(body))
	pkt[0] = 0x80 | count
	pkt[1] = tp[0]
	words := len(body) / 4
	switch v.Shape {
	case "length-over":
		words += 7
	case "length-under":
		if words > 1 {
			words--
		}
	}
	binary.BigEndian.PutUint16(pkt[2:], uint16(words)) //nolint:gosec
	copy(pkt[4:], body)
	if v.Shape == "compound-garbage" {
		pkt = append(pkt, 0x81, 0xC9, 0x00, 0x40, 0xDE, 0xAD, 0xBE, 0xEF, 0x01)
	}
	return pkt
}
