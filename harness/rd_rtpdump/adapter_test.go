//go:build verif && !js

package rtpdump

// C37 adapter: rtpdump reader (NewReader, Next). The reader reads through a bufio.Reader.

import "bufio"

func vrParser(string) (bool, func([]byte) error) { return false, nil }

func vrFixChecksums(string, []byte) {}

func vrOpenReader(_ string, s *vrStream) (*vrReaderOps, error) {
	r, _, err := NewReader(s)
	if err != nil {
		return nil, err
	}

	return &vrReaderOps{
		next: func() error {
			_, e := r.Next()

			return e
		},
		buffered: func() int {
			if b, ok := r.reader.(*bufio.Reader); ok {
				return b.Buffered()
			}

			return 0
		},
	}, nil
}
