//go:build verif && !js

package webrtc

// Driver for C22: replays TLC-generated sequences of transport-state updates (spec/ConnState.tla)
// by calling updateConnectionState on a fresh PeerConnection with isClosed preset, and records the
// connection state before/after and the handler invocations caused by each update. A second driver
// records the ICE / DTLS / connection state reports of real connected pairs.
//
// The driver does not judge; spec/ConnState_Trace.tla does.

import (
	"fmt"
	"runtime"
	"sort"
	"strings"
	"sync"
	"sync/atomic"
	"testing"
	"time"
)

type vcsStep struct {
	Closed bool   `json:"closed"`
	ICE    string `json:"ice"`
	DTLS   string `json:"dtls"`
}

type vcsBehaviour struct {
	ID    int       `json:"id"`
	Steps []vcsStep `json:"steps"`
}

func vcsBool(b bool) string {
	if b {
		return "T"
	}

	return "F"
}

// vcsCollect waits for `expect` handler invocations (long watchdog: the handler goroutine is spawned
// synchronously by the update, only its execution is asynchronous), then gives stray extra
// invocations a short time to show up, and returns everything received.
//
// A handler that was never dispatched costs the whole watchdog; once that has happened a few times in a
// run (so the code under test does lose notifications) the watchdog is shortened to keep the run finite.
var vcsExpired atomic.Int32

func vcsCollect(ch chan string, expect int, watchdog, settle time.Duration) []string {
	out := []string{}
	if vcsExpired.Load() >= 5 {
		watchdog = 100 * time.Millisecond
	}
	deadline := time.After(watchdog)
	for len(out) < expect {
		select {
		case s := <-ch:
			out = append(out, s)
		case <-deadline:
			expect = 0
			vcsExpired.Add(1)
		}
	}
	for i := 0; i < 4; i++ {
		runtime.Gosched()
	}
	t := time.NewTimer(settle)
	defer t.Stop()
	for {
		select {
		case s := <-ch:
			out = append(out, s)
		case <-t.C:
			return out
		}
	}
}

func TestVerifConnState(t *testing.T) {
	vkSkipUnlessDriven(t)
	var behaviours []vcsBehaviour
	vkLoadInput(t, &behaviours)
	tr := vkOpenTrace(t)
	defer tr.Close()

	settle := time.Duration(vkEnvInt("VERIF_CS_SETTLE_US", 150)) * time.Microsecond
	verifYieldHook = vcsYield
	defer func() { verifYieldHook = nil }()
	api := NewAPI() // no interceptors: nothing of this property depends on them

	// behaviours are independent (one fresh PeerConnection each, own handler channel): a few workers
	// replay them concurrently; every line carries its behaviour and step number
	workers := vkEnvInt("VERIF_CS_WORKERS", 4)
	jobs := make(chan vcsBehaviour)
	var wg sync.WaitGroup
	for w := 0; w < workers; w++ {
		wg.Add(1)
		go func() {
			defer wg.Done()
			for bh := range jobs {
				vcsReplay(t, tr, api, bh, settle)
			}
		}()
	}
	for i, bh := range behaviours {
		if i%1000 == 0 {
			tr.Reset(bh.ID)
		}
		jobs <- bh
	}
	close(jobs)
	wg.Wait()
}

func vcsReplay(t *testing.T, tr *vkTrace, api *API, bh vcsBehaviour, settle time.Duration) {
	pc, err := api.NewPeerConnection(Configuration{})
	if err != nil {
		t.Error(err)

		return
	}
	ch := make(chan string, 64)
	pc.OnConnectionStateChange(func(s PeerConnectionState) { ch <- s.String() })

	for k, st := range bh.Steps {
		pc.isClosed.Store(st.Closed)
		before := pc.ConnectionState()
		pc.updateConnectionState(NewICEConnectionState(st.ICE), newDTLSTransportState(st.DTLS))
		after := pc.ConnectionState()
		expect := 0
		if after != before {
			expect = 1 // synchronisation only: how many invocations to wait for before settling
		}
		notes := vcsCollect(ch, expect, 2*time.Second, settle)
		tr.Emit(vkM{
			"ev": "upd", "t": bh.ID, "k": k,
			"closed": st.Closed, "ice": st.ICE, "dtls": st.DTLS,
			"before": before.String(), "after": after.String(), "notes": notes,
			"sig": fmt.Sprintf("upd(%s,%s,%s)@%s", vcsBool(st.Closed), st.ICE, st.DTLS, before.String()),
		})
	}
	// the last update of every connection is the real one made by Close (step 11). Every third
	// behaviour lets a transport callback get in between Close setting the closed flag and that step
	// (it already reports closed); whatever the order, the handler hears closed once if the state was
	// not closed, and not at all if it was.
	pc.isClosed.Store(false)
	before := pc.ConnectionState()
	racing := bh.ID%3 == 0
	done := make(chan struct{})
	if racing {
		g := &vcsGate{arrived: make(chan struct{}, 1), release: make(chan struct{})}
		vcsGates.Store(pc, g)
		go func() {
			_ = pc.Close()
			close(done)
		}()
		select {
		case <-g.arrived:
			pc.updateConnectionState(ICEConnectionStateDisconnected, DTLSTransportStateConnected)
			close(g.release)
		case <-done: // Close did not come by the gate (no hook in this build)
		case <-time.After(5 * time.Second):
			close(g.release)
		}
		<-done
		vcsGates.Delete(pc)
	} else {
		_ = pc.Close()
	}
	expect := 0
	if before != PeerConnectionStateClosed {
		expect = 1
	}
	notes := vcsCollect(ch, expect, 2*time.Second, 4*settle)
	tr.Emit(vkM{
		"ev": "upd", "t": bh.ID, "k": len(bh.Steps),
		"closed": true, "ice": "by-close", "dtls": "by-close",
		"before": before.String(), "after": pc.ConnectionState().String(), "notes": notes,
		"sig": fmt.Sprintf("close(racing-update=%s)@%s", vcsBool(racing), before.String()),
	})
}

// gate for "pc.close.step11", per connection (behaviours are replayed by several workers at once)
type vcsGate struct{ arrived, release chan struct{} }

var vcsGates sync.Map //nolint:gochecknoglobals

func vcsYield(point string, obj any, _ ...any) {
	if point != "pc.close.step11" {
		return
	}
	if g, ok := vcsGates.Load(obj); ok {
		gate, _ := g.(*vcsGate)
		gate.arrived <- struct{}{}
		<-gate.release
	}
}

// ---- real connected pairs -----------------------------------------------------------------------

type vcsRec struct {
	mu    sync.Mutex
	ices  map[string]bool
	dtlss map[string]bool
	conns []string
}

func vcsNewRec() *vcsRec {
	// both transports start in "new" without reporting it
	return &vcsRec{ices: map[string]bool{"new": true}, dtlss: map[string]bool{"new": true}, conns: []string{}}
}

// attach installs the recording handlers. With slow set, the application's ICE handler for "connected" is
// still running when the DTLS handshake ends (it returns shortly after the DTLS transport reports
// connected): the update that follows the handler overlaps the one made by the transports' start.
func (r *vcsRec) attach(pc *PeerConnection, slow bool) {
	pc.OnICEConnectionStateChange(func(s ICEConnectionState) { // invoked synchronously before the update
		r.mu.Lock()
		r.ices[s.String()] = true
		r.mu.Unlock()
		if slow && s == ICEConnectionStateConnected {
			vcsWait(5*time.Second, func() bool { return pc.dtlsTransport.State() == DTLSTransportStateConnected })
			time.Sleep(10 * time.Millisecond)
		}
	})
	pc.SCTP().Transport().OnStateChange(func(s DTLSTransportState) { // invoked synchronously at the store
		r.mu.Lock()
		r.dtlss[s.String()] = true
		r.mu.Unlock()
	})
	pc.OnConnectionStateChange(func(s PeerConnectionState) { // go handler(...)
		r.mu.Lock()
		r.conns = append(r.conns, s.String())
		r.mu.Unlock()
	})
}

func vcsKeys(m map[string]bool) []string {
	out := []string{}
	for k := range m {
		out = append(out, k)
	}
	sort.Strings(out)

	return out
}

func (r *vcsRec) has(s string) bool {
	r.mu.Lock()
	defer r.mu.Unlock()
	for _, c := range r.conns {
		if c == s {
			return true
		}
	}

	return false
}

func (r *vcsRec) line(t int, side, phase string, closedSeen []bool, snaps []vkM) vkM {
	r.mu.Lock()
	defer r.mu.Unlock()
	conns := append([]string{}, r.conns...)
	set := map[string]bool{}
	for _, c := range conns {
		set[c] = true
	}

	return vkM{
		"ev": "pair", "t": t, "side": side, "phase": phase,
		"ices": vcsKeys(r.ices), "dtlss": vcsKeys(r.dtlss), "conns": conns, "closedSeen": closedSeen,
		"snaps": snaps,
		"sig":   fmt.Sprintf("pair(%s,%s)reports=[%s]", side, phase, strings.Join(vcsKeys(set), ",")),
	}
}

// vcsSnap reads (ice, dtls, connection state, ice, dtls); the sample is kept only when both transport
// reads agree, so that the connection state was read between two equal transport readings.
func vcsSnap(pc *PeerConnection) (vkM, bool) {
	i1, d1 := pc.ICEConnectionState(), pc.dtlsTransport.State()
	c := pc.ConnectionState()
	i2, d2 := pc.ICEConnectionState(), pc.dtlsTransport.State()
	if i1 != i2 || d1 != d2 {
		return nil, false
	}

	return vkM{"closed": pc.isClosed.Load(), "ice": i1.String(), "dtls": d1.String(), "conn": c.String()}, true
}

func vcsSnaps(pc *PeerConnection, n int) []vkM {
	out := []vkM{}
	for i := 0; i < n; i++ {
		if s, ok := vcsSnap(pc); ok {
			out = append(out, s)
		}
		time.Sleep(3 * time.Millisecond)
	}

	return out
}

func vcsWait(d time.Duration, cond func() bool) bool {
	end := time.Now().Add(d)
	for time.Now().Before(end) {
		if cond() {
			return true
		}
		time.Sleep(2 * time.Millisecond)
	}

	return cond()
}

func TestVerifConnStatePairs(t *testing.T) {
	vkSkipUnlessDriven(t)
	tr := vkOpenTrace(t)
	defer tr.Close()
	n := vkEnvInt("VERIF_CS_PAIRS", 4)
	for id := 0; id < n; id++ {
		tr.Reset(id)
		pcO, pcA, err := newPair()
		if err != nil {
			t.Fatal(err)
		}
		rO, rA := vcsNewRec(), vcsNewRec()
		slow := id%2 == 1
		rO.attach(pcO, slow)
		rA.attach(pcA, slow)
		if err := signalPair(pcO, pcA); err != nil {
			t.Fatal(err)
		}
		connected := vcsWait(15*time.Second, func() bool { return rO.has("connected") && rA.has("connected") })
		time.Sleep(20 * time.Millisecond)
		if slow {
			time.Sleep(40 * time.Millisecond)
		}
		snO, snA := vcsSnaps(pcO, 5), vcsSnaps(pcA, 5)
		lO := rO.line(id, "offerer", "up", []bool{false}, snO)
		lA := rA.line(id, "answerer", "up", []bool{false}, snA)
		lO["driven"], lA["driven"] = connected, connected
		if slow {
			lO["sig"], lA["sig"] = fmt.Sprint(lO["sig"])+"slow-ice-handler", fmt.Sprint(lA["sig"])+"slow-ice-handler"
		}
		tr.Emit(lO)
		tr.Emit(lA)

		// which side closes first varies with the pair number; the other one is closed by the DTLS
		// close_notify of its peer or by the explicit Close, whichever comes first
		if (id/2)%2 == 0 {
			closePairNow(t, pcO, pcA)
		} else {
			closePairNow(t, pcA, pcO)
		}
		closed := vcsWait(15*time.Second, func() bool { return rO.has("closed") && rA.has("closed") })
		time.Sleep(20 * time.Millisecond)
		lO = rO.line(id, "offerer", "down", []bool{false, true}, vcsSnaps(pcO, 2))
		lA = rA.line(id, "answerer", "down", []bool{false, true}, vcsSnaps(pcA, 2))
		lO["driven"], lA["driven"] = closed, closed
		tr.Emit(lO)
		tr.Emit(lA)
	}
}
