//go:build verif && !js

package webrtc

// Driver for C20: drives handleOpen, DataChannel.Close, PeerConnection.Close and the end of the
// read loop through TLC-generated schedules (spec/DcState.tla) on a channel of a real, connected
// pair, and records every store to readyState (hook next to the store), handler calls and Send.

import (
	"fmt"
	"sync"
	"sync/atomic"
	"testing"
	"time"
)

type vdStep struct {
	Proc  string `json:"proc"`
	Label string `json:"label"`
}

type vdBehaviour struct {
	ID    int      `json:"id"`
	Start string   `json:"start"` // "connecting" | "open"
	WithP bool     `json:"withp"`
	Steps []vdStep `json:"steps"`
	Free  bool     `json:"free"`
}

type vdPair struct {
	a, b *PeerConnection
}

func vdNewPair(t *testing.T) *vdPair {
	t.Helper()
	a, b, err := newPair()
	if err != nil {
		t.Fatal(err)
	}
	first, err := a.CreateDataChannel("bootstrap", nil)
	if err != nil {
		t.Fatal(err)
	}
	opened := make(chan struct{})
	first.OnOpen(func() { close(opened) })
	if err = signalPair(a, b); err != nil {
		t.Fatal(err)
	}
	select {
	case <-opened:
	case <-time.After(10 * time.Second):
		t.Fatal("pair did not connect")
	}
	return &vdPair{a: a, b: b}
}

func (p *vdPair) close() {
	_ = p.a.Close()
	_ = p.b.Close()
}

func TestVerifDcState(t *testing.T) {
	vkSkipUnlessDriven(t)
	var behaviours []vdBehaviour
	vkLoadInput(t, &behaviours)
	tr := vkOpenTrace(t)
	defer tr.Close()
	defer func() { verifYieldHook, verifEventHook = nil, nil }()
	notDriven := 0
	var pair *vdPair
	for _, bh := range behaviours {
		if bh.Start == "noassoc" {
			vdRunNoAssoc(t, tr, bh)
			continue
		}
		if pair == nil {
			pair = vdNewPair(t)
		}
		driven, usedUp := vdRun(t, tr, bh, pair)
		if !driven {
			notDriven++
		}
		if usedUp {
			pair.close()
			pair = nil
		}
	}
	if pair != nil {
		pair.close()
	}
	t.Logf("VERIF_STAT behaviours=%d not_driven=%d", len(behaviours), notDriven)
}

func vdRun(t *testing.T, tr *vkTrace, bh vdBehaviour, pair *vdPair) (bool, bool) { //nolint:cyclop
	t.Helper()
	tr.Reset(bh.ID)
	label := fmt.Sprintf("x%d", bh.ID)
	ordered := !bh.Free
	// store events are ordered like the stores only while the driver moves one actor at a time: the event
	// is emitted after the compare-and-swap, not atomically with it
	var inOrder atomic.Bool
	inOrder.Store(ordered)
	var mu sync.Mutex
	var dcp *DataChannel
	var opens, closes atomic.Int64

	var gates *vkGates
	var rGid atomic.Int64 // the goroutine of the channel's read loop, once it showed up at a gate
	var lastMu sync.Mutex
	last := map[string]string{} // the gate each actor passed last
	classify := func(gid int64, bound, point string, obj any) string {
		if d, ok := obj.(*DataChannel); ok {
			if d.label != label || d.api != pair.a.api {
				return "" // other channels, and the remote peer's end of this one
			}
			if point == "dc.readLoop.ending" || point == "dc.readLoop.exit" {
				rGid.Store(gid)
				lastMu.Lock()
				last["R"] = point
				lastMu.Unlock()
				return "R"
			}
			who := bound // O (handleOpen), C (Close) and P run on goroutines the driver started
			if who == "" && gid == rGid.Load() {
				who = "R" // the read loop is known by its goroutine
			}
			if point == "dc.setstate.loaded" {
				// setReadyState is called by everybody, also on the way to the calls the model describes
				// (a new channel is set to connecting): only the store that follows the actor's modelled
				// gate is a step of the schedule; everything else runs free
				lastMu.Lock()
				prev := last[who]
				lastMu.Unlock()
				want := map[string]string{"O": "dc.handleOpen.unlocked", "C": "dc.close.checked", "P": "pc.close.step5", "R": "dc.readLoop.ending"}
				if who == "" || (prev != want[who] && prev != "dc.setstate.loaded") {
					return ""
				}
			}
			if who != "" {
				lastMu.Lock()
				last[who] = point
				lastMu.Unlock()
			}
			return who
		}
		if pc, ok := obj.(*PeerConnection); ok && pc == pair.a && point == "pc.close.step5" {
			lastMu.Lock()
			last[bound] = point
			lastMu.Unlock()
			return bound
		}
		return ""
	}
	gates = vkNewGates(classify)
	gates.deadline = time.Duration(vkEnvInt("VERIF_STEP_MS", 400)) * time.Millisecond
	if bh.Free {
		gates.perturb = vkRand(int64(bh.ID))
		gates.ReleaseAll()
	}
	verifYieldHook = gates.Hook
	verifEventHook = func(point string, obj any, args ...any) {
		if point != "dc.state" {
			return
		}
		d, ok := obj.(*DataChannel)
		if !ok || d.label != label || d.api != pair.a.api {
			return
		}
		st, _ := args[0].(DataChannelState)
		by := gates.NameOf(vkGoid())
		if by == "" {
			by = "pion"
		}
		tr.Emit(vkM{"ev": "store", "t": bh.ID, "to": st.String(), "by": by, "ordered": inOrder.Load(),
			"sig": fmt.Sprintf("store(%s,by=%s,start=%s)", st.String(), by, bh.Start)})
	}
	// never waits for the transport's lock: PeerConnection.Close holds it while it stores closed on
	// every channel, and may be held at a gate right there
	findChannel := func() *DataChannel {
		mu.Lock()
		known := dcp
		mu.Unlock()
		if known != nil {
			return known
		}
		end := time.Now().Add(gates.deadline)
		for time.Now().Before(end) {
			if pair.a.sctpTransport.lock.TryRLock() {
				var found *DataChannel
				for _, d := range pair.a.sctpTransport.dataChannels {
					if d.label == label {
						found = d
					}
				}
				pair.a.sctpTransport.lock.RUnlock()
				return found
			}
			time.Sleep(50 * time.Microsecond)
		}
		return nil
	}
	attach := func(d *DataChannel) {
		mu.Lock()
		defer mu.Unlock()
		if dcp != nil {
			return
		}
		dcp = d
		d.OnOpen(func() {
			tr.Emit(vkM{"ev": "handler", "t": bh.ID, "to": "open", "by": "", "ordered": ordered, "n": int(opens.Add(1)), "sig": "OnOpen"})
		})
		d.OnClose(func() {
			tr.Emit(vkM{"ev": "handler", "t": bh.ID, "to": "close", "by": "", "ordered": ordered, "n": int(closes.Add(1)), "sig": "OnClose"})
		})
	}

	closeCalled, pcClosed := false, false
	startO := func() {
		gates.Go("O", func() {
			d, err := pair.a.CreateDataChannel(label, nil)
			if err == nil {
				attach(d)
			}
		})
	}
	startC := func() bool {
		d := findChannel()
		if d == nil {
			return false
		}
		attach(d)
		closeCalled = true
		gates.Go("C", func() { _ = d.Close() })
		return true
	}
	startP := func() {
		pcClosed = true
		gates.Go("P", func() { _ = pair.a.Close() })
	}

	driven := true
	if bh.Start == "open" { // let the channel open completely first
		prev := gates.free.Load()
		d, err := pair.a.CreateDataChannel(label, nil)
		_ = prev
		if err != nil {
			t.Fatal(err)
		}
		attach(d)
		for i := 0; i < 2000 && d.ReadyState() != DataChannelStateOpen; i++ {
			time.Sleep(time.Millisecond)
		}
		for i := 0; i < 2000; i++ { // the read loop exists once handleOpen finished
			d.mu.RLock()
			active := d.readLoopActive != nil
			d.mu.RUnlock()
			if active {
				break
			}
			time.Sleep(time.Millisecond)
		}
	}
	if bh.Free {
		rng := vkRand(int64(bh.ID) + 11)
		if bh.Start == "connecting" {
			startO()
		}
		time.Sleep(time.Duration(rng.Intn(300)) * time.Microsecond)
		for i := 0; i < 200 && !startC(); i++ {
			time.Sleep(50 * time.Microsecond)
		}
		if bh.WithP {
			time.Sleep(time.Duration(rng.Intn(300)) * time.Microsecond)
			startP()
		}
	} else {
		started := map[string]bool{}
		skipLoad := map[string]bool{}
		for si, st := range bh.Steps {
			if !driven {
				if vkEnvInt("VERIF_DEBUG", 0) > 0 && si > 0 {
					p := bh.Steps[si-1]
					t.Logf("behaviour %d not driven at step %d (%s %s); %s is at %q", bh.ID, si-1, p.Proc, p.Label, p.Proc, gates.Poll(p.Proc))
				}
				break
			}
			switch st.Label {
			case "oEnter":
				startO()
				started["O"] = true
				if gates.Await("O") != "dc.handleOpen.enter" {
					driven = false
				}
			case "cMark":
				if !startC() {
					driven = false
					break
				}
				started["C"] = true
				if p := gates.Await("C"); p != "dc.close.marked" {
					driven = false
				}
			case "pEnter":
				startP()
				started["P"] = true
				if gates.Await("P") != "pc.close.step5" {
					driven = false
				}
			case "rWait":
				if gates.Await("R") != "dc.readLoop.ending" {
					driven = false
				}
			case "oStore", "cStore", "pStore", "rStore", "sRet", "cAfter", "pAfter", "rAfter":
				// steps of the model without a gate of their own (the call, the return, what follows the
				// store in the same segment)
				continue
			case "sLoad":
				if skipLoad[st.Proc] { // the code re-loaded by itself after a failed compare-and-swap
					skipLoad[st.Proc] = false
					continue
				}
				if vkEnded(gates.Poll(st.Proc)) {
					continue
				}
				if at := gates.Step(st.Proc); at != "dc.setstate.loaded" {
					driven = false // the model and the code disagree on where this segment ends
				}
			case "sCas":
				if vkEnded(gates.Poll(st.Proc)) {
					continue
				}
				at := gates.Step(st.Proc)
				retry := false // does the model take the compare-and-swap to fail here?
				for _, nx := range bh.Steps[si+1:] {
					if nx.Proc == st.Proc {
						retry = nx.Label == "sLoad"
						break
					}
				}
				if retry {
					if at != "dc.setstate.loaded" {
						driven = false
					}
					skipLoad[st.Proc] = true
					continue
				}
				// the code loads again right after a failed compare-and-swap, i.e. earlier than the model's
				// next load: it may need one more round than the model, with nobody else moving meanwhile
				for n := 0; at == "dc.setstate.loaded" && n < 3; n++ {
					at = gates.Step(st.Proc)
				}
				if at == "" || at == "dc.setstate.loaded" {
					driven = false
				}
			case "oEnd", "cEnd":
				// the call returns: nothing to release if it already did
				if !vkEnded(gates.Poll(st.Proc)) && gates.Poll(st.Proc) != "" {
					gates.Step(st.Proc)
				}
			default:
				if vkEnded(gates.Poll(st.Proc)) {
					continue
				}
				if gates.Step(st.Proc) == "" {
					driven = false
				}
			}
		}
		inOrder.Store(false) // from here on the actors run freely
		gates.ReleaseAll()
	}
	// quiescence: started calls returned; if the transport is gone the read loop ended
	d := findChannel()
	if d == nil {
		mu.Lock()
		d = dcp
		mu.Unlock()
	}
	end := time.Now().Add(3 * time.Second)
	quiesced := false
	for time.Now().Before(end) {
		ok := true
		for _, name := range []string{"O", "C", "P"} {
			if _, exists := gates.actors[name]; exists && !gates.Finished(name) {
				ok = false
			}
		}
		if ok && d != nil && (pcClosed || closeCalled) {
			d.mu.RLock()
			rl := d.readLoopActive
			d.mu.RUnlock()
			if rl != nil {
				select {
				case <-rl:
				default:
					ok = d.dataChannel == nil
				}
			}
		}
		if ok {
			quiesced = true
			break
		}
		time.Sleep(200 * time.Microsecond)
	}
	time.Sleep(time.Millisecond) // handlers are dispatched with go
	state, sendErr := "none", true
	if d != nil {
		state = d.ReadyState().String()
		sendErr = d.Send([]byte("probe")) != nil
	}
	tr.Emit(vkM{"ev": "end", "t": bh.ID, "to": state, "by": "", "ordered": ordered, "closeCalled": closeCalled, "gone": pcClosed,
		"quiesced": quiesced, "sendErr": sendErr, "driven": driven,
		"sig": fmt.Sprintf("end(start=%s,close=%v,pcclose=%v,state=%s)", bh.Start, closeCalled, pcClosed, state)})
	verifYieldHook, verifEventHook = nil, nil
	return driven, pcClosed
}

// vdRunNoAssoc: a channel on a PeerConnection that is closed before any SCTP association exists
// (never signalled, or only half way). Sequential: Close and PeerConnection.Close in the given order.
func vdRunNoAssoc(t *testing.T, tr *vkTrace, bh vdBehaviour) {
	t.Helper()
	tr.Reset(bh.ID)
	a, b, err := newPair()
	if err != nil {
		t.Fatal(err)
	}
	defer func() { _ = b.Close() }()
	d, err := a.CreateDataChannel("na", nil)
	if err != nil {
		t.Fatal(err)
	}
	var opens, closes atomic.Int64
	d.OnOpen(func() {
		tr.Emit(vkM{"ev": "handler", "t": bh.ID, "to": "open", "by": "", "ordered": true, "n": int(opens.Add(1)), "sig": "OnOpen"})
	})
	d.OnClose(func() {
		tr.Emit(vkM{"ev": "handler", "t": bh.ID, "to": "close", "by": "", "ordered": true, "n": int(closes.Add(1)), "sig": "OnClose"})
	})
	verifEventHook = func(point string, obj any, args ...any) {
		if point != "dc.state" || obj != any(d) {
			return
		}
		st, _ := args[0].(DataChannelState)
		tr.Emit(vkM{"ev": "store", "t": bh.ID, "to": st.String(), "by": "seq", "ordered": true,
			"sig": fmt.Sprintf("store(%s,by=seq,start=noassoc)", st.String())})
	}
	half := bh.WithP // reuse the flag: apply the offer on both sides before closing
	if half {
		if offer, err := a.CreateOffer(nil); err == nil {
			_ = a.SetLocalDescription(offer)
			_ = b.SetRemoteDescription(offer)
		}
	}
	closeCalled := false
	for _, st := range bh.Steps {
		switch st.Proc {
		case "C":
			if !closeCalled {
				closeCalled = true
				_ = d.Close()
			}
		case "P":
			_ = a.Close()
		}
	}
	_ = a.Close()
	time.Sleep(time.Millisecond)
	state := d.ReadyState().String()
	tr.Emit(vkM{"ev": "end", "t": bh.ID, "to": state, "by": "", "ordered": true, "closeCalled": closeCalled, "gone": true,
		"quiesced": true, "sendErr": d.Send([]byte("probe")) != nil, "driven": true,
		"sig": fmt.Sprintf("end(start=noassoc,close=%v,pcclose=true,state=%s)", closeCalled, state)})
	verifEventHook = nil
}
