//go:build verif && !js

package webrtc

// Driver for C24: drives the agent's candidate callbacks and the candidate flush of successive
// SetLocalDescription calls through TLC-generated schedules (spec/Gatherer.tla) on a real
// PeerConnection over a virtual network with exactly one host candidate.

import (
	"fmt"
	"sync"
	"sync/atomic"
	"testing"
	"time"

	"github.com/pion/ice/v4"
	"github.com/pion/logging"
	"github.com/pion/transport/v4/vnet"
)

type vgStep struct {
	Proc  string `json:"proc"`
	Label string `json:"label"`
}

type vgBehaviour struct {
	ID    int      `json:"id"`
	Pool  int      `json:"pool"`
	Steps []vgStep `json:"steps"`
	Free  bool     `json:"free"`
	// after the schedule: an ICE restart (CreateOffer with ICERestart) whose SetLocalDescription runs while
	// the second gathering is held before its first callback
	Restart bool `json:"restart"`
}

func vgNewVnetPC(t *testing.T, pool uint8) (*PeerConnection, *vnet.Router) {
	t.Helper()
	wan, err := vnet.NewRouter(&vnet.RouterConfig{CIDR: "1.2.3.0/24", LoggerFactory: logging.NewDefaultLoggerFactory()})
	if err != nil {
		t.Fatal(err)
	}
	nw, err := vnet.NewNet(&vnet.NetConfig{StaticIPs: []string{"1.2.3.4"}})
	if err != nil {
		t.Fatal(err)
	}
	if err = wan.AddNet(nw); err != nil {
		t.Fatal(err)
	}
	se := SettingEngine{}
	se.SetNet(nw)
	se.SetNetworkTypes([]NetworkType{NetworkTypeUDP4})
	se.SetICEMulticastDNSMode(ice.MulticastDNSModeDisabled)
	lf := logging.NewDefaultLoggerFactory()
	lf.DefaultLogLevel = logging.LogLevelDisabled
	se.LoggerFactory = lf
	if err = wan.Start(); err != nil {
		t.Fatal(err)
	}
	pc, err := NewAPI(WithSettingEngine(se)).NewPeerConnection(Configuration{ICECandidatePoolSize: pool})
	if err != nil {
		t.Fatal(err)
	}
	return pc, wan
}

func TestVerifGatherer(t *testing.T) {
	vkSkipUnlessDriven(t)
	var behaviours []vgBehaviour
	vkLoadInput(t, &behaviours)
	tr := vkOpenTrace(t)
	defer tr.Close()
	defer func() { verifYieldHook = nil }()
	notDriven := 0
	for _, bh := range behaviours {
		if !vgRun(t, tr, bh) {
			notDriven++
		}
	}
	t.Logf("VERIF_STAT behaviours=%d not_driven=%d", len(behaviours), notDriven)
}

func vgRun(t *testing.T, tr *vkTrace, bh vgBehaviour) bool { //nolint:cyclop
	t.Helper()
	tr.Reset(bh.ID)
	var mu sync.Mutex
	var target *ICEGatherer
	var nilCbActive, nilCbDone atomic.Bool
	var gates *vkGates
	classify := func(gid int64, bound, point string, obj any) string {
		mu.Lock()
		mine := target != nil && obj == any(target)
		mu.Unlock()
		if !mine {
			return ""
		}
		if len(point) > 10 && point[:10] == "gather.cb." {
			if bound == "" {
				gates.Bind(gid, "A")
			}
			return "A"
		}
		return bound // flush gates: the goroutine that called SetLocalDescription (S1, S2)
	}
	gates = vkNewGates(classify)
	gates.deadline = time.Duration(vkEnvInt("VERIF_STEP_MS", 200)) * time.Millisecond
	if bh.Free {
		gates.perturb = vkRand(int64(bh.ID))
		gates.ReleaseAll()
	}
	verifYieldHook = func(point string, obj any, args ...any) {
		mu.Lock()
		mine := target != nil && obj == any(target)
		mu.Unlock()
		if mine {
			if point == "gather.cb.enter" && len(args) > 0 && args[0] == true {
				nilCbActive.Store(true)
			}
			if point == "gather.cb.return.note" && nilCbActive.Load() {
				nilCbDone.Store(true)
			}
		}
		gates.Hook(point, obj, args...)
	}

	// hold the gatherer of the PeerConnection under test from its very first callback: the
	// target is identified as soon as NewPeerConnection has created it
	pcCh := make(chan *PeerConnection, 1)
	var wan *vnet.Router
	// NewPeerConnection starts gathering when the pool is on; its gatherer is not known before it
	// returns, so callbacks that arrive meanwhile wait here for the target to be set.
	earlyGate := make(chan struct{})
	prevHook := verifYieldHook
	verifYieldHook = func(point string, obj any, args ...any) {
		<-earlyGate
		prevHook(point, obj, args...)
	}
	go func() {
		pc, w := vgNewVnetPC(t, uint8(bh.Pool)) //nolint:gosec
		wan = w
		pcCh <- pc
	}()
	pc := <-pcCh
	mu.Lock()
	target = pc.iceGatherer
	mu.Unlock()
	close(earlyGate)
	defer func() {
		verifYieldHook = nil
		_ = pc.Close()
		_ = wan.Stop()
	}()

	var nils, cands atomic.Int64
	ordered := !bh.Free
	pc.OnICECandidate(func(c *ICECandidate) {
		by := gates.NameOf(vkGoid())
		if by == "" {
			by = "other"
		}
		if c == nil {
			n := nils.Add(1)
			tr.Emit(vkM{"ev": "emit", "t": bh.ID, "c": "nil", "id": "", "by": by, "ordered": ordered,
				"sig": fmt.Sprintf("emit(nil#%d,by=%s,pool=%d)", n, by, bh.Pool)})
			return
		}
		cands.Add(1)
		tr.Emit(vkM{"ev": "emit", "t": bh.ID, "c": "cand", "id": c.String(), "by": by, "ordered": ordered,
			"sig": fmt.Sprintf("emit(cand,by=%s,pool=%d,after-nil=%v)", by, bh.Pool, nils.Load() > 0)})
	})
	if _, err := pc.CreateDataChannel("x", nil); err != nil {
		t.Fatal(err)
	}

	var peers []*PeerConnection
	defer func() {
		for _, p := range peers {
			_ = p.Close()
		}
	}()
	startedS := map[string]bool{}
	startS := func(name string) bool {
		if name == "S2" { // renegotiation: complete the first exchange with a throw-away peer
			b, err := NewPeerConnection(Configuration{})
			if err != nil {
				t.Fatal(err)
			}
			peers = append(peers, b)
			ld := pc.PendingLocalDescription()
			if ld == nil {
				return false
			}
			if err = b.SetRemoteDescription(*ld); err != nil {
				return false
			}
			ans, err := b.CreateAnswer(nil)
			if err != nil {
				return false
			}
			if err = pc.SetRemoteDescription(ans); err != nil {
				return false
			}
		}
		offer, err := pc.CreateOffer(nil)
		if err != nil {
			return false
		}
		startedS[name] = true
		gates.Go(name, func() {
			_ = pc.SetLocalDescription(offer)
		})
		return true
	}
	waitDone := func(name string) bool {
		for i := 0; i < 20; i++ {
			p := gates.Step(name)
			if p == vkDone {
				return true
			}
			if p == "" {
				return false
			}
		}
		return false
	}

	driven := true
	stoppedAt := ""
	if bh.Free {
		if bh.Pool > 0 {
			time.Sleep(time.Duration(vkRand(int64(bh.ID)+7).Intn(3000)) * time.Microsecond)
		}
		startS("S1")
		for i := 0; i < 50 && gates.Await("S1") != vkDone; i++ {
		}
		time.Sleep(time.Duration(vkRand(int64(bh.ID)+9).Intn(3000)) * time.Microsecond)
		if startS("S2") {
			for i := 0; i < 50 && gates.Await("S2") != vkDone; i++ {
			}
		}
	} else {
		for i, st := range bh.Steps {
			if !driven {
				stoppedAt = fmt.Sprintf("%d:%s/%s", i-1, bh.Steps[i-1].Proc, bh.Steps[i-1].Label)
				break
			}
			switch {
			case st.Label == "aWait":
				if gates.Await("A") != "gather.cb.enter" {
					driven = false
				}
			case st.Label == "sWait":
				if !startS(st.Proc) {
					driven = false
					break
				}
				if gates.Await(st.Proc) != "gather.flush.enter" {
					driven = false
				}
			case st.Proc == "A":
				if st.Label == "aOut" && vkIsNote(gates.Poll("A")) {
					continue // the nil callback returned without emitting: nothing left to do
				}
				if gates.Step("A") == "" {
					driven = false
				}
			default:
				if at := gates.Poll(st.Proc); at == vkDone {
					continue
				}
				at := gates.Step(st.Proc)
				if at == "" {
					driven = false
				}
				if st.Label == "sNil" && at != vkDone {
					driven = waitDone(st.Proc) && driven
				}
			}
		}
		gates.ReleaseAll()
	}
	// quiescence: the nil callback returned and every SetLocalDescription call returned
	end := time.Now().Add(3 * time.Second)
	quiesced := false
	for time.Now().Before(end) {
		ok := nilCbDone.Load()
		for name := range startedS {
			if !gates.Finished(name) {
				ok = false
			}
		}
		if ok {
			quiesced = true
			break
		}
		time.Sleep(100 * time.Microsecond)
	}
	local, _ := pc.iceGatherer.GetLocalCandidates()
	tr.Emit(vkM{"ev": "end", "t": bh.ID, "c": "", "id": "", "by": "", "ordered": ordered, "quiesced": quiesced, "gathered": len(local),
		"flushes": len(startedS), "driven": driven, "nilcb": nilCbDone.Load(), "stoppedAt": stoppedAt, "sig": fmt.Sprintf("end(pool=%d,flushes=%d)", bh.Pool, len(startedS))})
	if bh.Restart && quiesced && len(startedS) > 0 {
		vgRestart(t, tr, bh, pc, &gates, classify, &nilCbActive, &nilCbDone)
	}
	return driven
}

// vgRestart: a second gathering of the same connection. The agent's callbacks are held before the first
// one while SetLocalDescription of the restarting offer flushes; then they run. The trace gets a
// "restart" line (a new gathering begins: its candidates and its end-of-gathering marker are counted anew).
func vgRestart(t *testing.T, tr *vkTrace, bh vgBehaviour, pc *PeerConnection, gates **vkGates,
	classify func(int64, string, string, any) string, nilCbActive, nilCbDone *atomic.Bool,
) {
	t.Helper()
	g2 := vkNewGates(classify)
	g2.deadline = time.Duration(vkEnvInt("VERIF_STEP_MS", 200)) * time.Millisecond
	*gates = g2 // the hook and classify go through this variable
	nilCbActive.Store(false)
	nilCbDone.Store(false)
	tr.Emit(vkM{"ev": "restart", "t": bh.ID, "c": "", "id": "", "by": "", "ordered": true, "sig": "restart"})
	if pc.SignalingState() == SignalingStateHaveLocalOffer { // complete the exchange under way with a throw-away peer
		b, err := NewPeerConnection(Configuration{})
		if err != nil {
			t.Fatal(err)
		}
		defer func() { _ = b.Close() }()
		ok := false
		if ld := pc.PendingLocalDescription(); ld != nil && b.SetRemoteDescription(*ld) == nil {
			if ans, e := b.CreateAnswer(nil); e == nil {
				ok = pc.SetRemoteDescription(ans) == nil
			}
		}
		if !ok {
			g2.ReleaseAll()
			return
		}
	}
	offer, err := pc.CreateOffer(&OfferOptions{ICERestart: true})
	if err != nil {
		g2.ReleaseAll()
		return
	}
	held := g2.Await("A") == "gather.cb.enter" // the second gathering waits before its first report
	var sldErr atomic.Value
	sldErr.Store("")
	g2.Go("S3", func() {
		if e := pc.SetLocalDescription(offer); e != nil {
			sldErr.Store(e.Error())
		}
	})
	for i := 0; i < 40; i++ {
		p := g2.Step("S3")
		if p == vkDone || p == "" {
			break
		}
	}
	g2.ReleaseAll()
	end := time.Now().Add(3 * time.Second)
	quiesced := false
	for time.Now().Before(end) {
		if nilCbDone.Load() && g2.Finished("S3") {
			quiesced = true
			break
		}
		time.Sleep(100 * time.Microsecond)
	}
	local, _ := pc.iceGatherer.GetLocalCandidates()
	tr.Emit(vkM{"ev": "end", "t": bh.ID, "c": "", "id": "", "by": "", "ordered": true, "quiesced": quiesced, "gathered": len(local),
		"flushes": 1, "driven": held, "nilcb": nilCbDone.Load(), "stoppedAt": "", "sldErr": sldErr.Load(), "sig": fmt.Sprintf("end(restart,pool=%d)", bh.Pool)})
}
