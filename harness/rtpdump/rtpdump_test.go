//go:build verif && !js

package rtpdump

// Driver for C36: replays TLC-generated vectors (spec/RtpDump.tla) through the real Writer and
// Reader and records what was passed in and what came back. It does not judge.

import (
	"bytes"
	"encoding/binary"
	"errors"
	"fmt"
	"hash/fnv"
	"io"
	"net"
	"testing"
	"time"
)

type vdSrc struct {
	Kind string `json:"kind"`
	Form int    `json:"form"`
	B    []int  `json:"b"`
}

type vdStart struct {
	Neg  bool `json:"neg"`
	Hi   int  `json:"hi"`
	Lo   int  `json:"lo"`
	Usec int  `json:"usec"`
	Ns   int  `json:"ns"`
}

type vdHdr struct {
	Src   vdSrc   `json:"src"`
	Port  int     `json:"port"`
	Start vdStart `json:"start"`
}

type vdOff struct {
	Neg bool `json:"neg"`
	Hi  int  `json:"hi"`
	Lo  int  `json:"lo"`
	Ns  int  `json:"ns"`
}

type vdPkt struct {
	Rtcp bool  `json:"rtcp"`
	Len  int   `json:"len"`
	Off  vdOff `json:"off"`
}

type vdVec struct {
	Kind string  `json:"kind"`
	Hdr  vdHdr   `json:"hdr"`
	Pkts []vdPkt `json:"pkts"`
	L    int     `json:"L"`
	Plen int     `json:"plen"`
	Tail int     `json:"tail"`
}

type vdCase struct {
	ID  int   `json:"id"`
	Vec vdVec `json:"vec"`
}

func vdHash(b []byte) string {
	h := fnv.New64a()
	_, _ = h.Write(b)

	return fmt.Sprintf("%016x", h.Sum64())
}

// ---- Go values from the abstract vector -----------------------------------------------------

func vdHeader(h vdHdr) Header {
	var ip net.IP
	switch h.Src.Kind {
	case "v4":
		if h.Src.Form == 16 {
			ip = net.IPv4(byte(h.Src.B[0]), byte(h.Src.B[1]), byte(h.Src.B[2]), byte(h.Src.B[3]))
		} else {
			ip = net.IP{byte(h.Src.B[0]), byte(h.Src.B[1]), byte(h.Src.B[2]), byte(h.Src.B[3])}
		}
	case "v6":
		ip = net.ParseIP("2001:db8::1")
	default:
		ip = nil
	}
	var start time.Time
	if h.Start.Neg {
		start = time.Unix(-(int64(h.Start.Hi)<<16 | int64(h.Start.Lo)), 0)
	} else {
		start = time.Unix(int64(h.Start.Hi)<<16|int64(h.Start.Lo), int64(h.Start.Usec)*1000+int64(h.Start.Ns))
	}

	return Header{Start: start, Source: ip, Port: uint16(h.Port)} //nolint:gosec
}

func vdOffset(o vdOff) time.Duration {
	ms := int64(o.Hi)<<16 | int64(o.Lo)
	if o.Neg {
		return -time.Duration(ms) * time.Millisecond
	}

	return time.Duration(ms)*time.Millisecond + time.Duration(o.Ns)
}

// ---- projections of the Go values actually passed / returned --------------------------------

func vdProjHeader(h Header) (vkM, string) {
	kind, form, b := "nil", 0, []int{0, 0, 0, 0}
	if h.Source != nil {
		if v4 := h.Source.To4(); v4 != nil {
			kind, form, b = "v4", len(h.Source), []int{int(v4[0]), int(v4[1]), int(v4[2]), int(v4[3])}
		} else {
			kind = "v6"
		}
	}
	sec := h.Start.Unix()
	neg := sec < 0
	if neg {
		sec = -sec
	}
	nano := h.Start.Nanosecond()
	cls := "ok"
	switch {
	case neg:
		cls = "neg"
	case sec>>16 >= 65536:
		cls = "over32"
	case nano%1000 != 0:
		cls = "subus"
	}

	return vkM{
		"src":  vkM{"kind": kind, "form": form, "b": b},
		"port": int(h.Port),
		"start": vkM{"neg": neg, "hi": int(sec >> 16), "lo": int(sec & 0xffff), "usec": nano / 1000,
			"ns": nano % 1000},
	}, fmt.Sprintf("NewWriter(src=%s,start=%s)", kind, cls)
}

func vdProjPacket(p Packet) (vkM, string) {
	d := p.Offset
	neg := d < 0
	if neg {
		d = -d
	}
	ms := int64(d / time.Millisecond)
	ns := int64(d % time.Millisecond)
	ocls := "ok"
	switch {
	case neg:
		ocls = "neg"
	case ms>>16 >= 65536:
		ocls = "over32"
	case ns != 0:
		ocls = "subms"
	}
	lcls := "ok"
	if len(p.Payload) > 65527 {
		lcls = "over"
	}
	kind := "rtp"
	if p.IsRTCP {
		kind = "rtcp"
	}

	return vkM{
		"rtcp": p.IsRTCP, "len": len(p.Payload), "h": vdHash(p.Payload),
		"off": vkM{"neg": neg, "hi": int(ms >> 16), "lo": int(ms & 0xffff), "ns": int(ns)},
	}, fmt.Sprintf("WritePacket(%s,len=%s,off=%s)", kind, lcls, ocls)
}

func vdOutcome(p Packet, err error) vkM {
	switch {
	case err == nil:
		ms := int64(p.Offset / time.Millisecond)

		return vkM{"k": "val", "rtcp": p.IsRTCP, "len": len(p.Payload), "h": vdHash(p.Payload),
			"off": vkM{"hi": int(ms >> 16), "lo": int(ms & 0xffff)}}
	case errors.Is(err, io.EOF):
		return vkM{"k": "eof", "rtcp": false, "len": 0, "h": "", "off": vkM{"hi": 0, "lo": 0}}
	default:
		return vkM{"k": "err", "rtcp": false, "len": 0, "h": "", "off": vkM{"hi": 0, "lo": 0}}
	}
}

func vdInts(b []byte) []int {
	out := make([]int, len(b))
	for i, x := range b {
		out[i] = int(x)
	}

	return out
}

func TestVerifRtpDump(t *testing.T) {
	vkSkipUnlessDriven(t)
	var cases []vdCase
	vkLoadInput(t, &cases)
	tr := vkOpenTrace(t)
	defer tr.Close()

	for _, c := range cases {
		tr.Reset(c.ID)
		rng := vkRand(int64(c.ID))
		buf := &bytes.Buffer{}

		// ---- write
		hdr := vdHeader(c.Vec.Hdr)
		hp, hsig := vdProjHeader(hdr)
		wr, err := NewWriter(buf, hdr)
		tr.Emit(vkM{"ev": "hdr", "t": c.ID, "sig": hsig, "h": hp, "err": err != nil})
		if err != nil || wr == nil {
			continue // refused: no file is promised
		}
		recHdrs := [][]int{}
		for i, vp := range c.Vec.Pkts {
			payload := make([]byte, vp.Len)
			_, _ = rng.Read(payload)
			pkt := Packet{Offset: vdOffset(vp.Off), IsRTCP: vp.Rtcp, Payload: payload}
			pp, psig := vdProjPacket(pkt)
			before := buf.Len()
			werr := wr.WritePacket(pkt)
			tr.Emit(vkM{"ev": "pkt", "t": c.ID, "i": i + 1, "sig": psig, "p": pp, "err": werr != nil,
				"wrote": buf.Len() - before})
			if buf.Len() >= before+8 {
				recHdrs = append(recHdrs, vdInts(buf.Bytes()[before:before+8]))
			}
		}
		file := append([]byte{}, buf.Bytes()...)
		hdrBytes := []int{}
		if nl := bytes.IndexByte(file, '\n'); nl >= 0 && len(file) >= nl+1+16 {
			hdrBytes = vdInts(file[nl+1 : nl+17])
		}

		if c.Vec.Kind == "rec" {
			raw := make([]byte, 8+c.Vec.Tail)
			binary.BigEndian.PutUint16(raw[0:], uint16(c.Vec.L))    //nolint:gosec
			binary.BigEndian.PutUint16(raw[2:], uint16(c.Vec.Plen)) //nolint:gosec
			binary.BigEndian.PutUint32(raw[4:], 5)
			for i := 8; i < len(raw); i++ {
				raw[i] = byte(0xA0 + i%7)
			}
			file = append(file, raw...)
		}

		// ---- read back
		rd, rh, rerr := NewReader(bytes.NewReader(file))
		open := "ok"
		dh := vkM{"b": []int{0, 0, 0, 0}, "port": 0, "hi": 0, "lo": 0, "usec": 0}
		if rerr != nil || rd == nil {
			open = "err"
		} else {
			b := []int{0, 0, 0, 0}
			if v4 := rh.Source.To4(); v4 != nil {
				b = vdInts(v4)
			}
			sec := rh.Start.Unix()
			dh = vkM{"b": b, "port": int(rh.Port), "hi": int(sec >> 16), "lo": int(sec & 0xffff),
				"usec": rh.Start.Nanosecond() / 1000}
		}

		if c.Vec.Kind == "rec" {
			outs := []vkM{}
			if open == "ok" {
				for n := 0; n < len(c.Vec.Pkts)+1; n++ {
					p, e := rd.Next()
					outs = append(outs, vdOutcome(p, e))
					if e != nil {
						break
					}
				}
			}
			need := (c.Vec.L - 8 + 65536) % 65536
			tcls := "enough"
			switch {
			case c.Vec.Tail == 0 && need > 0:
				tcls = "none"
			case c.Vec.Tail < need:
				tcls = "short"
			case c.Vec.L < 8:
				tcls = "covers-wrapped"
			}
			tr.Emit(vkM{"ev": "rec", "t": c.ID, "sig": fmt.Sprintf("Next(len=%d,tail=%s)", c.Vec.L, tcls),
				"open": open, "L": c.Vec.L, "plen": c.Vec.Plen, "tail": c.Vec.Tail, "outs": outs})

			continue
		}

		pkts := []vkM{}
		end := "none"
		if open == "ok" {
			end = "more"
			// the caller keeps every packet it was given and looks at them when the file is read:
			// a packet must not change because a later one was read
			kept := []Packet{}
			for n := 0; n < len(c.Vec.Pkts)+2; n++ {
				p, e := rd.Next()
				if e != nil {
					end = vdOutcome(p, e)["k"].(string) //nolint:forcetypeassert
					break
				}
				kept = append(kept, p)
			}
			for _, p := range kept {
				pkts = append(pkts, vdOutcome(p, nil))
			}
		}
		tr.Emit(vkM{"ev": "read", "t": c.ID, "sig": fmt.Sprintf("ReadBack(n=%d)", len(c.Vec.Pkts)),
			"open": open, "h": dh, "pkts": pkts, "end": end, "hdrbytes": hdrBytes, "rechdrs": recHdrs,
			"size": len(file)})
	}
}
