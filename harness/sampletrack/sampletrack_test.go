//go:build verif && !js

package webrtc

// Driver for C28: replays TLC-generated sample sequences (spec/SampleTrack.tla) on a real
// TrackLocalStaticSample (public API) bound to a fake TrackLocalContext whose writer records the RTP
// headers it is handed. One trace line per WriteSample call; the driver records facts only.

import (
	"fmt"
	"sync"
	"testing"
	"time"

	"github.com/pion/interceptor"
	"github.com/pion/rtp"
	"github.com/pion/webrtc/v4/pkg/media"
)

// one event of a behaviour: a WriteSample call, or Bind / Unbind of sender B between samples
type vstEvent struct {
	K    string `json:"k"`    // "sample" | "bind" | "unbind"
	D    int64  `json:"d"`    // duration, nanoseconds
	NP   int    `json:"np"`   // packets the sample is meant to span (0: empty data)
	Drop int    `json:"drop"` // PrevDroppedPackets
	B    int    `json:"b"`    // sender (bind / unbind)
	ETs  int64  `json:"ets"`  // the model's timestamp offset for the sample (passed through for the drift report)
}

type vstVector struct {
	ID     int        `json:"id"`
	Rate   uint32     `json:"rate"`
	Start  string     `json:"start"`
	SeqOpt bool       `json:"seqopt"` // WithRTPSequenceNumber given
	TsOpt  bool       `json:"tsopt"`  // WithRTPTimestamp given
	Events []vstEvent `json:"events"`
}

type vstWriter struct {
	mu  sync.Mutex
	got []rtp.Header
}

func (w *vstWriter) WriteRTP(h *rtp.Header, payload []byte) (int, error) {
	w.mu.Lock()
	w.got = append(w.got, h.Clone())
	w.mu.Unlock()
	return len(payload), nil
}

func (w *vstWriter) Write(b []byte) (int, error) {
	p := &rtp.Packet{}
	if err := p.Unmarshal(append([]byte{}, b...)); err == nil {
		w.mu.Lock()
		w.got = append(w.got, p.Header)
		w.mu.Unlock()
	}
	return len(b), nil
}

func (w *vstWriter) take() []rtp.Header {
	w.mu.Lock()
	defer w.mu.Unlock()
	out := w.got
	w.got = nil
	return out
}

type vstCtx struct {
	id    string
	codec RTPCodecParameters
	w     *vstWriter
}

func (c *vstCtx) CodecParameters() []RTPCodecParameters          { return []RTPCodecParameters{c.codec} }
func (c *vstCtx) HeaderExtensions() []RTPHeaderExtensionParameter { return nil }
func (c *vstCtx) SSRC() SSRC                                      { return 0x1234 }
func (c *vstCtx) SSRCRetransmission() SSRC                        { return 0 }
func (c *vstCtx) SSRCForwardErrorCorrection() SSRC                { return 0 }
func (c *vstCtx) WriteStream() TrackLocalWriter                   { return c.w }
func (c *vstCtx) ID() string                                      { return c.id }
func (c *vstCtx) RTCPReader() interceptor.RTCPReader              { return nil }

// vstCodec picks one of the default codecs that has the given clock rate.
func vstCodec(rate uint32, alt bool) RTPCodecCapability {
	switch rate {
	case 8000:
		if alt {
			return RTPCodecCapability{MimeType: MimeTypeG722, ClockRate: 8000}
		}
		return RTPCodecCapability{MimeType: MimeTypePCMU, ClockRate: 8000}
	case 48000:
		return RTPCodecCapability{MimeType: MimeTypeOpus, ClockRate: 48000, Channels: 2}
	default:
		if alt {
			return RTPCodecCapability{MimeType: MimeTypeVP9, ClockRate: 90000}
		}
		return RTPCodecCapability{MimeType: MimeTypeVP8, ClockRate: 90000}
	}
}

func TestVerifSampleTrack(t *testing.T) {
	vkSkipUnlessDriven(t)
	var vecs []vstVector
	vkLoadInput(t, &vecs)
	tr := vkOpenTrace(t)
	defer tr.Close()
	for _, v := range vecs {
		vstRun(t, tr, v)
	}
}

func vstRun(t *testing.T, tr *vkTrace, v vstVector) {
	t.Helper()
	tr.Reset(v.ID)
	r := vkRand(int64(v.ID))
	var ts0 uint32
	var seq0 uint16
	switch v.Start {
	case "zero":
	case "wrap":
		ts0 = ^uint32(0) - uint32(r.Intn(3000))  //nolint:gosec
		seq0 = ^uint16(0) - uint16(r.Intn(40))   //nolint:gosec
	default:
		ts0 = r.Uint32()
		seq0 = uint16(r.Intn(65536)) //nolint:gosec
	}
	codec := vstCodec(v.Rate, v.ID%2 == 1)
	opts := []func(*TrackLocalStaticRTP){}
	if v.TsOpt {
		opts = append(opts, WithRTPTimestamp(ts0))
	}
	if v.SeqOpt {
		opts = append(opts, WithRTPSequenceNumber(seq0))
	}
	track, err := NewTrackLocalStaticSample(codec, "media", "verif", opts...)
	if err != nil {
		t.Fatal(err)
	}
	ctxs := map[int]*vstCtx{}
	for b := 1; b <= 2; b++ {
		ctxs[b] = &vstCtx{id: fmt.Sprintf("b%d", b), codec: RTPCodecParameters{RTPCodecCapability: codec, PayloadType: PayloadType(99 + b)}, w: &vstWriter{}} //nolint:gosec
	}
	bound := map[int]bool{}
	bind := func(b int) string {
		if _, err := track.Bind(ctxs[b]); err != nil {
			return "err"
		}
		bound[b] = true
		return "ok"
	}
	tsref := "opt"
	if !v.TsOpt {
		tsref = "first" // timestamps are reported relative to the first packet seen
	}
	tr.Emit(vkM{"ev": "start", "t": v.ID, "sig": fmt.Sprintf("start(%s,%d,%s)", codec.MimeType, v.Rate, v.Start),
		"rate": int(v.Rate), "seqopt": v.SeqOpt, "seq0": int(seq0), "tsopt": v.TsOpt, "tsref": tsref, "mime": codec.MimeType})
	tr.Emit(vkM{"ev": "bind", "t": v.ID, "sig": "Bind(b1)", "b": 1, "res": bind(1)})
	big := make([]byte, 2*1187+200)
	for i := range big {
		big[i] = byte(i*7 + 1)
	}
	ref, haveRef := ts0, v.TsOpt
	nsample := 0
	for _, e := range v.Events {
		switch e.K {
		case "bind":
			tr.Emit(vkM{"ev": "bind", "t": v.ID, "sig": fmt.Sprintf("Bind(b%d)", e.B), "b": e.B, "res": bind(e.B)})
			continue
		case "unbind":
			res := "ok"
			if err := track.Unbind(ctxs[e.B]); err != nil {
				res = "err"
			} else {
				delete(bound, e.B)
			}
			tr.Emit(vkM{"ev": "unbind", "t": v.ID, "sig": fmt.Sprintf("Unbind(b%d)", e.B), "b": e.B, "res": res})
			continue
		}
		var data []byte
		switch {
		case e.NP == 1:
			data = big[:50+r.Intn(200)]
		case e.NP > 1:
			data = big[:(e.NP-1)*1187+200]
		}
		for b := 1; b <= 2; b++ {
			ctxs[b].w.take()
		}
		err := track.WriteSample(media.Sample{Data: data, Duration: time.Duration(e.D), PrevDroppedPackets: uint16(e.Drop)}) //nolint:gosec
		res := "ok"
		if err != nil {
			res = "err"
		}
		recv := []any{}
		npk := 0
		for b := 1; b <= 2; b++ {
			hs := ctxs[b].w.take()
			if !bound[b] && len(hs) == 0 {
				continue
			}
			pk := []any{}
			for _, h := range hs {
				if !haveRef {
					ref, haveRef = h.Timestamp, true
				}
				pk = append(pk, vkM{"seq": int(h.SequenceNumber), "tsd": int64(int32(h.Timestamp - ref)), "m": h.Marker}) //nolint:gosec
			}
			if len(recv) == 0 {
				npk = len(pk)
			}
			recv = append(recv, vkM{"b": b, "bound": bound[b], "pk": pk})
		}
		nb := 0
		for range bound {
			nb++
		}
		tr.Emit(vkM{"ev": "sample", "t": v.ID, "k": nsample,
			"sig": fmt.Sprintf("WriteSample(rate=%d,d=%d,drop=%d,np=%d,senders=%d,seqopt=%v)", v.Rate, e.D, e.Drop, npk, nb, v.SeqOpt),
			"d": e.D, "drop": e.Drop, "recv": recv, "ets": e.ETs, "res": res})
		nsample++
	}
}
