//go:build verif && !js

package webrtc

// Driver for C28: replays TLC-generated sample sequences (spec/SampleTrack.tla) on a real
// TrackLocalStaticSample (public API) bound to a fake TrackLocalContext whose writer records the RTP
// headers it is handed. One trace line per WriteSample call; the driver records facts only.

import (
	"fmt"
	"sync"
	"testing"
	"time"

	"github.com/pion/interceptor"
	"github.com/pion/rtp"
	"github.com/pion/webrtc/v4/pkg/media"
)

type vstSample struct {
	D    int64 `json:"d"`    // duration, nanoseconds
	NP   int   `json:"np"`   // packets the sample is meant to span (0: empty data)
	Drop int   `json:"drop"` // PrevDroppedPackets
}

type vstVector struct {
	ID      int         `json:"id"`
	Rate    uint32      `json:"rate"`
	Start   string      `json:"start"`
	Samples []vstSample `json:"samples"`
}

type vstWriter struct {
	mu  sync.Mutex
	got []rtp.Header
}

func (w *vstWriter) WriteRTP(h *rtp.Header, payload []byte) (int, error) {
	w.mu.Lock()
	w.got = append(w.got, h.Clone())
	w.mu.Unlock()
	return len(payload), nil
}

func (w *vstWriter) Write(b []byte) (int, error) {
	p := &rtp.Packet{}
	if err := p.Unmarshal(append([]byte{}, b...)); err == nil {
		w.mu.Lock()
		w.got = append(w.got, p.Header)
		w.mu.Unlock()
	}
	return len(b), nil
}

func (w *vstWriter) take() []rtp.Header {
	w.mu.Lock()
	defer w.mu.Unlock()
	out := w.got
	w.got = nil
	return out
}

type vstCtx struct {
	codec RTPCodecParameters
	w     *vstWriter
}

func (c *vstCtx) CodecParameters() []RTPCodecParameters          { return []RTPCodecParameters{c.codec} }
func (c *vstCtx) HeaderExtensions() []RTPHeaderExtensionParameter { return nil }
func (c *vstCtx) SSRC() SSRC                                      { return 0x1234 }
func (c *vstCtx) SSRCRetransmission() SSRC                        { return 0 }
func (c *vstCtx) SSRCForwardErrorCorrection() SSRC                { return 0 }
func (c *vstCtx) WriteStream() TrackLocalWriter                   { return c.w }
func (c *vstCtx) ID() string                                      { return "verif" }
func (c *vstCtx) RTCPReader() interceptor.RTCPReader              { return nil }

// vstCodec picks one of the default codecs that has the given clock rate.
func vstCodec(rate uint32, alt bool) RTPCodecCapability {
	switch rate {
	case 8000:
		if alt {
			return RTPCodecCapability{MimeType: MimeTypeG722, ClockRate: 8000}
		}
		return RTPCodecCapability{MimeType: MimeTypePCMU, ClockRate: 8000}
	case 48000:
		return RTPCodecCapability{MimeType: MimeTypeOpus, ClockRate: 48000, Channels: 2}
	default:
		if alt {
			return RTPCodecCapability{MimeType: MimeTypeVP9, ClockRate: 90000}
		}
		return RTPCodecCapability{MimeType: MimeTypeVP8, ClockRate: 90000}
	}
}

func TestVerifSampleTrack(t *testing.T) {
	vkSkipUnlessDriven(t)
	var vecs []vstVector
	vkLoadInput(t, &vecs)
	tr := vkOpenTrace(t)
	defer tr.Close()
	for _, v := range vecs {
		vstRun(t, tr, v)
	}
}

func vstRun(t *testing.T, tr *vkTrace, v vstVector) {
	t.Helper()
	tr.Reset(v.ID)
	r := vkRand(int64(v.ID))
	var ts0 uint32
	var seq0 uint16
	switch v.Start {
	case "zero":
	case "wrap":
		ts0 = ^uint32(0) - uint32(r.Intn(3000))  //nolint:gosec
		seq0 = ^uint16(0) - uint16(r.Intn(40))   //nolint:gosec
	default:
		ts0 = r.Uint32()
		seq0 = uint16(r.Intn(65536)) //nolint:gosec
	}
	codec := vstCodec(v.Rate, v.ID%2 == 1)
	track, err := NewTrackLocalStaticSample(codec, "media", "verif", WithRTPTimestamp(ts0), WithRTPSequenceNumber(seq0))
	if err != nil {
		t.Fatal(err)
	}
	w := &vstWriter{}
	ctx := &vstCtx{codec: RTPCodecParameters{RTPCodecCapability: codec, PayloadType: 100}, w: w}
	if _, err := track.Bind(ctx); err != nil {
		t.Fatalf("bind: %v", err)
	}
	tr.Emit(vkM{"ev": "start", "t": v.ID, "sig": fmt.Sprintf("start(%s,%d,%s)", codec.MimeType, v.Rate, v.Start),
		"rate": int(v.Rate), "seq0": int(seq0), "mime": codec.MimeType})
	big := make([]byte, 2*1187+200)
	for i := range big {
		big[i] = byte(i*7 + 1)
	}
	for k, s := range v.Samples {
		var data []byte
		switch {
		case s.NP == 1:
			data = big[:50+r.Intn(200)]
		case s.NP > 1:
			data = big[:(s.NP-1)*1187+200]
		}
		w.take()
		err := track.WriteSample(media.Sample{Data: data, Duration: time.Duration(s.D), PrevDroppedPackets: uint16(s.Drop)}) //nolint:gosec
		res := "ok"
		if err != nil {
			res = "err"
		}
		pk := []any{}
		for _, h := range w.take() {
			pk = append(pk, vkM{"seq": int(h.SequenceNumber), "tsd": int64(int32(h.Timestamp - ts0)), "m": h.Marker}) //nolint:gosec
		}
		tr.Emit(vkM{"ev": "sample", "t": v.ID, "k": k,
			"sig": fmt.Sprintf("WriteSample(rate=%d,d=%d,drop=%d,np=%d)", v.Rate, s.D, s.Drop, len(pk)),
			"d": s.D, "drop": s.Drop, "pk": pk, "res": res})
	}
}
