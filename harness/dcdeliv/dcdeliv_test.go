//go:build verif && !js

package webrtc

// Driver for C19: session vectors of spec/DcDeliv.tla on real connected pairs: channels with the
// given parameters are created in band, messages of the given sizes are sent on all of them in
// parallel; the driver records what was sent and what OnMessage received, per channel, in order.

import (
	"crypto/sha256"
	"encoding/hex"
	"fmt"
	"github.com/pion/logging"
	"github.com/pion/transport/v4/vnet"
	"sync"
	"sync/atomic"
	"testing"
	"time"
)

type vlCfg struct {
	Ordered  bool   `json:"ordered"`
	Rel      string `json:"rel"`
	Protocol string `json:"protocol"`
	Text     bool   `json:"text"`
}

type vlVec struct {
	Nch   int     `json:"nch"`
	Cfgs  []vlCfg `json:"cfgs"`
	Sizes string  `json:"sizes"`
	Count int     `json:"count"`
	Side  string  `json:"side"`
	Slow  bool    `json:"slow"` // the receiving application takes its time (2.5 s) in OnDataChannel before it registers OnMessage
	Net   string  `json:"net"`  // loopback | delay (in-process network, jitter reorders datagrams) | loss (it also drops some)
}

// vlNetPair connects two endpoints over an in-process network (pion/transport vnet): every datagram is
// delayed by 1..6 ms (so datagrams overtake each other); with loss, every datagram sent once the pair is
// up is dropped with probability 1/20.
func vlNetPair(t *testing.T, lossy bool, seed int64) (*PeerConnection, *PeerConnection, func(), *atomic.Bool) {
	t.Helper()
	wan, err := vnet.NewRouter(&vnet.RouterConfig{
		CIDR: "1.2.3.0/24", MinDelay: time.Millisecond, MaxJitter: 5 * time.Millisecond,
		LoggerFactory: logging.NewDefaultLoggerFactory(),
	})
	if err != nil {
		t.Fatal(err)
	}
	mk := func(ip string) *PeerConnection {
		n, e := vnet.NewNet(&vnet.NetConfig{StaticIPs: []string{ip}})
		if e != nil {
			t.Fatal(e)
		}
		if e = wan.AddNet(n); e != nil {
			t.Fatal(e)
		}
		se := SettingEngine{}
		se.SetNet(n)
		se.SetICETimeouts(5*time.Second, 10*time.Second, 200*time.Millisecond)
		pc, e := NewAPI(WithSettingEngine(se)).NewPeerConnection(Configuration{})
		if e != nil {
			t.Fatal(e)
		}
		return pc
	}
	a, b := mk("1.2.3.4"), mk("1.2.3.5")
	dropping := &atomic.Bool{}
	if lossy {
		var mu sync.Mutex
		rng := vkRand(seed)
		wan.AddChunkFilter(func(vnet.Chunk) bool {
			if !dropping.Load() {
				return true
			}
			mu.Lock()
			defer mu.Unlock()
			return rng.Intn(20) != 0
		})
	}
	if err = wan.Start(); err != nil {
		t.Fatal(err)
	}
	return a, b, func() { _ = wan.Stop() }, dropping
}

func vlHash(b []byte) string { h := sha256.Sum256(b); return hex.EncodeToString(h[:8]) }

func TestVerifDcDeliv(t *testing.T) {
	vkSkipUnlessDriven(t)
	var vecs []vlVec
	vkLoadInput(t, &vecs)
	tr := vkOpenTrace(t)
	defer tr.Close()
	for id, v := range vecs {
		vlRun(t, tr, id, v)
	}
}

func vlRun(t *testing.T, tr *vkTrace, id int, v vlVec) { //nolint:cyclop
	t.Helper()
	tr.Reset(id)
	var a, b *PeerConnection
	var err error
	dropping := &atomic.Bool{}
	if v.Net == "delay" || v.Net == "loss" {
		var stop func()
		a, b, stop, dropping = vlNetPair(t, v.Net == "loss", int64(id))
		defer stop()
	} else if a, b, err = newPair(); err != nil {
		t.Fatal(err)
	}
	defer closePairNow(t, a, b)
	boot, err := a.CreateDataChannel("bootstrap", nil)
	if err != nil {
		t.Fatal(err)
	}
	opened := make(chan struct{})
	boot.OnOpen(func() { close(opened) })
	// the receiving side records every message at the moment OnMessage runs
	var mu sync.Mutex
	recvCount := map[string]int{}
	remoteSeen := map[string]bool{}
	sender, receiver := a, b
	if v.Side == "answerer" {
		sender, receiver = b, a
	}
	receiver.OnDataChannel(func(d *DataChannel) {
		if d.Label() == "bootstrap" {
			return
		}
		mr, ml := -1, -1
		if p := d.MaxRetransmits(); p != nil {
			mr = int(*p)
		}
		if p := d.MaxPacketLifeTime(); p != nil {
			ml = int(*p)
		}
		tr.Emit(vkM{"ev": "remote", "t": id, "ch": d.Label(), "ordered": d.Ordered(), "mr": mr, "ml": ml, "protocol": d.Protocol(),
			"k": 0, "len": 0, "hash": "", "str": false, "sig": "remote"})
		mu.Lock()
		remoteSeen[d.Label()] = true
		mu.Unlock()
		if v.Slow { // messages sent meanwhile wait: the channel is handed to the application first
			time.Sleep(2500 * time.Millisecond)
		}
		d.OnMessage(func(m DataChannelMessage) {
			mu.Lock()
			recvCount[d.Label()]++
			k := recvCount[d.Label()]
			mu.Unlock()
			tr.Emit(vkM{"ev": "recv", "t": id, "ch": d.Label(), "k": k, "len": len(m.Data), "hash": vlHash(m.Data), "str": m.IsString,
				"ordered": true, "mr": -1, "ml": -1, "protocol": "", "sig": "recv"})
		})
	})
	if err = signalPair(a, b); err != nil {
		t.Fatal(err)
	}
	select {
	case <-opened:
	case <-time.After(10 * time.Second):
		t.Fatal("pair did not connect")
	}
	dropping.Store(true) // the pair is up: from now on the lossy network loses datagrams
	rng := vkRand(int64(id))
	type chanT struct {
		dc  *DataChannel
		cfg vlCfg
	}
	chans := []chanT{}
	for i := 0; i < v.Nch && i < len(v.Cfgs); i++ {
		cfg := v.Cfgs[i]
		init := &DataChannelInit{Ordered: &cfg.Ordered}
		if cfg.Protocol != "" {
			init.Protocol = &cfg.Protocol
		}
		mr, ml := -1, -1
		switch cfg.Rel {
		case "rexmit0":
			z := uint16(0)
			init.MaxRetransmits, mr = &z, 0
		case "rexmit3":
			z := uint16(3)
			init.MaxRetransmits, mr = &z, 3
		case "lifetime50":
			z := uint16(50)
			init.MaxPacketLifeTime, ml = &z, 50
		}
		label := fmt.Sprintf("ch%d", i)
		dc, err := sender.CreateDataChannel(label, init)
		if err != nil {
			t.Fatal(err)
		}
		ready := make(chan struct{})
		dc.OnOpen(func() { close(ready) })
		select {
		case <-ready:
		case <-time.After(5 * time.Second):
			t.Fatalf("channel %s did not open", label)
		}
		tr.Emit(vkM{"ev": "created", "t": id, "ch": label, "ordered": cfg.Ordered, "mr": mr, "ml": ml, "protocol": cfg.Protocol,
			"reliable": cfg.Rel == "reliable", "k": 0, "len": 0, "hash": "", "str": false, "sig": "created(" + cfg.Rel + ")"})
		chans = append(chans, chanT{dc, cfg})
	}
	size := func(k int) int {
		switch v.Sizes {
		case "empty":
			return 0
		case "one":
			return 1
		case "1k":
			return 1024
		case "16k":
			return 16 * 1024
		case "64k":
			return 65535
		case "64KiB": // the largest message of the property's range; one more than the read loop's first buffer
			return 65536
		case "mixed":
			return []int{0, 1, 1024, 16384, 65535, 3, 65536, 70}[k%8]
		}
		return rng.Intn(20000)
	}
	// senders run in parallel, one goroutine per channel; sent lines are emitted before the Send call
	var wg sync.WaitGroup
	sentCount := make([]int, len(chans))
	for i := range chans {
		sizes := make([]int, v.Count)
		for k := range sizes {
			sizes[k] = size(k)
		}
		payloads := make([][]byte, v.Count)
		for k := range payloads {
			payloads[k] = make([]byte, sizes[k])
			_, _ = rng.Read(payloads[k])
		}
		wg.Add(1)
		go func(i int) {
			defer wg.Done()
			c := chans[i]
			for k := 0; k < v.Count; k++ {
				data := payloads[k]
				var err error
				if c.cfg.Text {
					s := hex.EncodeToString(data)
					if len(s) > len(data) { // text of the requested length
						s = s[:len(data)]
					}
					if len(data) == 1 {
						s = "7"
					}
					data = []byte(s)
					err = c.dc.SendText(s)
				} else {
					err = c.dc.Send(data)
				}
				if err != nil {
					continue // a refused Send was not sent
				}
				sentCount[i]++
				tr.Emit(vkM{"ev": "sent", "t": id, "ch": c.dc.Label(), "k": sentCount[i], "len": len(data), "hash": vlHash(data), "str": c.cfg.Text,
					"ordered": true, "mr": -1, "ml": -1, "protocol": "", "sig": "sent"})
			}
		}(i)
	}
	wg.Wait()
	// wait until the reliable channels delivered everything and every channel was announced. Over a slow or
	// lossy network that takes as long as it takes: the wait ends when nothing more is missing, when nothing
	// has arrived for 20 s (then something is lost), or after 3 minutes of steady progress (then the run says
	// nothing about completeness)
	begin, lastProgress, lastTotal := time.Now(), time.Now(), -1
	complete, stalled := false, false
	for {
		done, total := true, 0
		mu.Lock()
		for i, c := range chans {
			total += recvCount[c.dc.Label()]
			if c.cfg.Rel == "reliable" && recvCount[c.dc.Label()] < sentCount[i] {
				done = false
			}
			if !remoteSeen[c.dc.Label()] { // the announcement is reliable whatever the channel is: it arrives
				done = false
			} else {
				total++
			}
		}
		mu.Unlock()
		if done {
			complete = true
			break
		}
		if total != lastTotal {
			lastTotal, lastProgress = total, time.Now()
		}
		if time.Since(lastProgress) > 20*time.Second {
			stalled = true
			break
		}
		if time.Since(begin) > 3*time.Minute {
			break
		}
		time.Sleep(time.Millisecond)
	}
	time.Sleep(5 * time.Millisecond)
	for i, c := range chans {
		mu.Lock()
		n := recvCount[c.dc.Label()]
		seen := remoteSeen[c.dc.Label()]
		mu.Unlock()
		tr.Emit(vkM{"ev": "end", "t": id, "ch": c.dc.Label(), "k": n, "len": sentCount[i], "hash": "", "str": seen,
			"ordered": c.cfg.Ordered, "mr": -1, "ml": -1, "protocol": "", "reliable": c.cfg.Rel == "reliable",
			"settled": complete || stalled,
			"sig":     fmt.Sprintf("end(%s,ordered=%v,sizes=%s,net=%s)", c.cfg.Rel, c.cfg.Ordered, v.Sizes, v.Net)})
	}
}
