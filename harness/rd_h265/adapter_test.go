//go:build verif && !js

package h265reader

// C37 adapter: H.265 Annex-B reader (NewReader, NextNAL). The reader keeps unread bytes in readBuffer.

func vrParser(string) (bool, func([]byte) error) { return false, nil }

func vrFixChecksums(string, []byte) {}

func vrOpenReader(_ string, s *vrStream) (*vrReaderOps, error) {
	r, err := NewReader(s)
	if err != nil {
		return nil, err
	}

	return &vrReaderOps{
		next: func() error {
			_, e := r.NextNAL()

			return e
		},
		buffered: func() int { return len(r.readBuffer) },
	}, nil
}
