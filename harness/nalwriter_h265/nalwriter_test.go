//go:build verif && !js

package h265writer

// Driver for C35 (the codec-specific half is codec_test.go): builds NAL sequences from TLC vectors
// (type, length, Payload() call boundaries), packetizes them with pion/rtp's payloader at the given
// MTU, records which units the packets carry (independent parse of the payloads), writes the packets
// with the real writer into a buffer and reads the buffer back with the matching reader (SEI inclusion
// on, so that the reader's SEI filter is out of the picture). It does not judge.

import (
	"bytes"
	"crypto/sha256"
	"encoding/hex"
	"errors"
	"fmt"
	"io"
	"testing"

	"github.com/pion/rtp"
)

type vwUnit struct {
	Ty  int  `json:"ty"`
	Len int  `json:"len"` // total length of the unit in bytes (header included)
	Eos bool `json:"eos"` // last unit of its Payload() call
}

type vwCase struct {
	ID    int      `json:"id"`
	MTU   int      `json:"mtu"`
	Agg   bool     `json:"agg"` // aggregation enabled in the payloader
	Raw   bool     `json:"raw"` // parameter-set bodies are random instead of carrying parsable ids
	Units []vwUnit `json:"units"`
}

type vwInput struct {
	Cases []vwCase `json:"cases"`
}

// vwCarried is one unit carried by the packets, as found by the driver's own parse of the payloads.
type vwCarried struct {
	data []byte
	kind string // single | agg0 | aggN | fu
}

func vwDigest(b []byte) string {
	if len(b) <= 6 {
		return hex.EncodeToString(b)
	}
	h := sha256.Sum256(b)
	return fmt.Sprintf("%d:%s", len(b), hex.EncodeToString(h[:6]))
}

// vwBody fills b[from:] with bytes that are never 0x00 (so no start code can appear) and puts a unique
// tag into the last three bytes so that no two units of a case are equal.
func vwBody(b []byte, from int, caseID, idx int, seed int64) {
	rnd := vkRand(seed)
	for i := from; i < len(b); i++ {
		b[i] = byte(2 + rnd.Intn(254))
	}
	tag := []byte{0x80 | byte(idx&0x7f), 0x80 | byte((idx>>7)&0x7f), 0x80 | byte(caseID&0x7f)}
	for i, t := range tag {
		if p := len(b) - 1 - i; p >= from {
			b[p] = t
		}
	}
}

func vwAnnexB(units [][]byte) []byte {
	var out []byte
	for _, u := range units {
		out = append(out, 0, 0, 0, 1)
		out = append(out, u...)
	}
	return out
}

func vwSig(codec string, pk []vwCarried) string {
	key, kind, pre := "none", "none", "none"
	first := -1
	for i, c := range pk {
		if vwKeyClass(vwType(c.data)) != "" {
			first = i
			break
		}
	}
	n := len(pk)
	if first >= 0 {
		key, kind, n = vwKeyClass(vwType(pk[first].data)), pk[first].kind, first
	}
	for i := 0; i < n; i++ {
		if pre == "none" {
			pre = "whole"
		}
		if pk[i].kind == "fu" {
			pre = "frag"
		}
	}
	return fmt.Sprintf("%s:key=%s:pk=%s:pre=%s", codec, key, kind, pre)
}

func TestVerifNalWriter(t *testing.T) {
	vkSkipUnlessDriven(t)
	var in vwInput
	vkLoadInput(t, &in)
	tr := vkOpenTrace(t)
	defer tr.Close()

	for _, c := range in.Cases {
		tr.Reset(c.ID)
		// 1. the units
		var units [][]byte
		inDig := []string{}
		for i, u := range c.Units {
			nal := vwMakeUnit(u, c, i)
			units = append(units, nal)
			inDig = append(inDig, vwDigest(nal))
		}
		// 2. pion/rtp's payloader, one Payload() call per group of units
		pay := vwNewPayloader(c.Agg)
		var payloads [][]byte
		var group [][]byte
		for i, u := range c.Units {
			group = append(group, units[i])
			if u.Eos || i == len(c.Units)-1 {
				payloads = append(payloads, pay.Payload(uint16(c.MTU), vwAnnexB(group))...) //nolint:gosec
				group = nil
			}
		}
		// 3. what the packets carry
		carried, perr := vwParsePackets(payloads)
		pk := []vkM{}
		for _, x := range carried {
			pk = append(pk, vkM{"d": vwDigest(x.data), "ty": vwType(x.data), "k": x.kind})
		}
		// 4. the real writer
		var buf bytes.Buffer
		w := NewWith(&buf)
		werr, werrs := 0, ""
		for i, p := range payloads {
			pkt := &rtp.Packet{Header: rtp.Header{Version: 2, PayloadType: 96, SequenceNumber: uint16(i), //nolint:gosec
				Timestamp: uint32(i) * 3000, SSRC: 1}, Payload: p} //nolint:gosec
			if err := w.WriteRTP(pkt); err != nil {
				werr++
				if werrs == "" {
					werrs = err.Error()
				}
			}
		}
		_ = w.Close()
		// 5. read back with the matching reader
		out, rerr := vwReadBack(buf.Bytes(), len(carried)+len(c.Units)+4)
		tr.Emit(vkM{"ev": "wr", "t": c.ID, "codec": vwCodec, "mtu": c.MTU, "agg": c.Agg, "in": inDig, "pk": pk,
			"out": out, "werr": werr, "werrs": werrs, "rerr": rerr, "perr": perr, "npkt": len(payloads),
			"bytes": buf.Len(), "sig": vwSig(vwCodec, carried)})
	}
}

func vwEOF(err error) string {
	if errors.Is(err, io.EOF) {
		return "EOF"
	}
	return err.Error()
}
