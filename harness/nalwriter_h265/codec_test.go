//go:build verif && !js

package h265writer

// Codec-specific half of the C35 driver: H.265.

import (
	"bytes"
	"encoding/binary"

	"github.com/pion/rtp/codecs"
	"github.com/pion/webrtc/v4/pkg/media/h265reader"
)

const vwCodec = "h265"

func vwType(nal []byte) int { return int(nal[0]&0x7e) >> 1 }

// vwKeyClass names the key-unit class of a type for the line signature ("" = not a key unit).
func vwKeyClass(ty int) string {
	switch ty {
	case 19, 20:
		return "idr"
	case 32:
		return "vps"
	case 33:
		return "sps"
	case 34:
		return "pps"
	}
	return ""
}

// vwMakeUnit builds one unit. Unless c.Raw, parameter sets carry ids the payloader can parse
// (VPS: id 1; PPS: ue(v) = 0; SPS: profile_tier_level of 12 bytes, then ue(v) = 0), so that the
// payloader's parameter-set cache is used the way the model assumes.
func vwMakeUnit(u vwUnit, c vwCase, idx int) []byte {
	n := u.Len
	if n < 5 {
		n = 5
	}
	b := make([]byte, n)
	b[0] = byte(u.Ty&0x3f) << 1
	b[1] = 0x01 // layer 0, temporal id + 1 = 1
	vwBody(b, 2, c.ID, idx, int64(c.ID)*131+int64(idx))
	if !c.Raw {
		switch {
		case u.Ty == 32:
			b[2] = 0x10 | b[2]&0x0f // vps_video_parameter_set_id 1
		case u.Ty == 34:
			b[2] |= 0x80
		case u.Ty == 33 && n >= 16:
			b[2] = 0x01   // sps_video_parameter_set_id 0, sps_max_sub_layers_minus1 0, nesting flag 1
			b[15] |= 0x80 // sps_seq_parameter_set_id = ue(v) 0
		}
	}
	return b
}

type vwPayloader interface {
	Payload(mtu uint16, payload []byte) [][]byte
}

func vwNewPayloader(agg bool) vwPayloader { return &codecs.H265Payloader{SkipAggregation: !agg} }

// vwParsePackets lists the units the payloads carry (RFC 7798: single NAL unit, AP, FU; no DONL).
func vwParsePackets(payloads [][]byte) (out []vwCarried, perr string) {
	var fu []byte
	for _, p := range payloads {
		if len(p) < 2 {
			perr = "short payload"
			continue
		}
		switch t := int(p[0]&0x7e) >> 1; {
		case t == 48:
			off, i := 2, 0
			for off+2 <= len(p) {
				n := int(binary.BigEndian.Uint16(p[off:]))
				off += 2
				if off+n > len(p) {
					perr = "short AP"
					break
				}
				kind := "aggN"
				if i == 0 {
					kind = "agg0"
				}
				out = append(out, vwCarried{data: p[off : off+n], kind: kind})
				off += n
				i++
			}
		case t == 49:
			if len(p) < 3 {
				perr = "short FU"
				continue
			}
			if p[2]&0x80 != 0 {
				fu = []byte{p[0]&0x81 | (p[2]&0x3f)<<1, p[1]}
			}
			if fu == nil {
				perr = "FU without start"
				continue
			}
			fu = append(fu, p[3:]...)
			if p[2]&0x40 != 0 {
				out = append(out, vwCarried{data: fu, kind: "fu"})
				fu = nil
			}
		case t == 50:
			perr = "unexpected PACI"
		default:
			out = append(out, vwCarried{data: p, kind: "single"})
		}
	}
	if fu != nil {
		perr = "unfinished FU"
	}
	return out, perr
}

func vwReadBack(data []byte, maxCalls int) (out []vkM, rerr string) {
	out = []vkM{}
	rd, err := h265reader.NewReaderWithOptions(bytes.NewReader(data), h265reader.WithIncludeSEI(true))
	if err != nil {
		return out, "new: " + err.Error()
	}
	for i := 0; i < maxCalls; i++ {
		nal, err := rd.NextNAL()
		if err != nil {
			return out, vwEOF(err)
		}
		out = append(out, vkM{"d": vwDigest(nal.Data), "ty": int(nal.NalUnitType)})
	}
	return out, "no-eof"
}
