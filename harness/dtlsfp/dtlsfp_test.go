//go:build verif && !js

package webrtc

// Driver for C14: every vector of spec/DtlsFp.tla on a real pair over loopback. The description the
// verifying side receives has its fingerprint lines rewritten; the driver records the DTLS states
// each side went through, whether a data channel opened / a message arrived on the verifying side,
// and whether the fingerprint each side advertised equals the SHA-256 of the certificate the other
// side was presented with.

import (
	"crypto/ecdsa"
	"crypto/elliptic"
	"crypto/rand"
	"crypto/rsa"
	"crypto/sha1" //nolint:gosec
	"crypto/sha256"
	"crypto/sha512"
	"encoding/hex"
	"fmt"
	"regexp"
	"strings"
	"sync"
	"testing"
	"time"
)

type vfVec struct {
	Cert      string `json:"cert"`
	Fp        string `json:"fp"`
	Place     string `json:"place"`
	VerifyOff bool   `json:"verifyOff"`
	Verifier  string `json:"verifier"`
}

var vfFpRe = regexp.MustCompile(`(?m)^a=fingerprint:(\S+) (\S+)\r\n`)

func vfColon(b []byte) string {
	h := strings.ToUpper(hex.EncodeToString(b))
	parts := make([]string, 0, len(h)/2)
	for i := 0; i < len(h); i += 2 {
		parts = append(parts, h[i:i+2])
	}
	return strings.Join(parts, ":")
}

func vfFlip(c byte) byte {
	if c == '0' {
		return '1'
	}
	return '0'
}

// vfRewrite alters every fingerprint line of sdpText according to the class and moves it to the
// requested place. der is the certificate the described endpoint will present.
func vfRewrite(sdpText, class, place string, der []byte) string {
	m := vfFpRe.FindStringSubmatch(sdpText)
	if m == nil {
		return sdpText
	}
	algo, val := m[1], m[2]
	switch class {
	case "first-digit":
		val = string(vfFlip(val[0])) + val[1:]
	case "middle-digit":
		i := len(val) / 2
		if val[i] == ':' {
			i++
		}
		val = val[:i] + string(vfFlip(val[i])) + val[i+1:]
	case "last-digit":
		val = val[:len(val)-1] + string(vfFlip(val[len(val)-1]))
	case "sha1-wrong":
		h := sha1.Sum(append([]byte("not the certificate"), der...)) //nolint:gosec
		algo, val = "sha-1", vfColon(h[:])
	case "sha512-correct":
		h := sha512.Sum512(der)
		algo, val = "sha-512", vfColon(h[:])
	case "unknown-hash":
		algo, val = "sha3-256", strings.Repeat("AB:", 31)+"AB"
	case "unknown-hash-sha256-value":
		algo = "blake2b"
	case "absent":
		return vfFpRe.ReplaceAllString(sdpText, "")
	}
	line := "a=fingerprint:" + algo + " " + val + "\r\n"
	stripped := vfFpRe.ReplaceAllString(sdpText, "")
	out := stripped
	if place == "session" || place == "both" {
		out = strings.Replace(out, "t=0 0\r\n", "t=0 0\r\n"+line, 1)
	}
	if place == "media" || place == "both" {
		out = regexp.MustCompile(`(?m)^(a=mid:.*\r\n)`).ReplaceAllString(out, "${1}"+line)
	}
	return out
}

func vfCert(t *testing.T, kind string) []Certificate {
	t.Helper()
	switch kind {
	case "ecdsa":
		k, err := ecdsa.GenerateKey(elliptic.P256(), rand.Reader)
		if err != nil {
			t.Fatal(err)
		}
		c, err := GenerateCertificate(k)
		if err != nil {
			t.Fatal(err)
		}
		return []Certificate{*c}
	case "rsa":
		k, err := rsa.GenerateKey(rand.Reader, 2048)
		if err != nil {
			t.Fatal(err)
		}
		c, err := GenerateCertificate(k)
		if err != nil {
			t.Fatal(err)
		}
		return []Certificate{*c}
	case "two", "two-reconfigured":
		out := []Certificate{}
		for i := 0; i < 2; i++ {
			k, err := ecdsa.GenerateKey(elliptic.P256(), rand.Reader)
			if err != nil {
				t.Fatal(err)
			}
			c, err := GenerateCertificate(k)
			if err != nil {
				t.Fatal(err)
			}
			out = append(out, *c)
		}
		return out
	}
	return nil
}

func TestVerifDtlsFp(t *testing.T) {
	vkSkipUnlessDriven(t)
	var vecs []vfVec
	vkLoadInput(t, &vecs)
	tr := vkOpenTrace(t)
	defer tr.Close()
	workers := vkEnvInt("VERIF_WORKERS", 6)
	type job struct {
		id int
		v  vfVec
	}
	jobs := make(chan job)
	var wg sync.WaitGroup
	for w := 0; w < workers; w++ {
		wg.Add(1)
		go func() {
			defer wg.Done()
			for j := range jobs {
				vfRun(t, tr, j.id, j.v)
			}
		}()
	}
	for id, v := range vecs {
		jobs <- job{id, v}
	}
	close(jobs)
	wg.Wait()
}

func vfRun(t *testing.T, tr *vkTrace, id int, v vfVec) { //nolint:cyclop
	t.Helper()
	// the presenting side uses the chosen certificate; the verifying side may have verification off
	seV := SettingEngine{}
	seV.DisableCertificateFingerprintVerification(v.VerifyOff)
	presenterCfg := Configuration{Certificates: vfCert(t, v.Cert)}
	var off, ans *PeerConnection
	var err error
	if v.Verifier == "answerer" {
		off, err = NewPeerConnection(presenterCfg)
		if err == nil {
			ans, err = NewAPI(WithSettingEngine(seV)).NewPeerConnection(Configuration{})
		}
	} else {
		off, err = NewAPI(WithSettingEngine(seV)).NewPeerConnection(Configuration{})
		if err == nil {
			ans, err = NewPeerConnection(presenterCfg)
		}
	}
	if err != nil {
		t.Fatal(err)
	}
	defer func() {
		_ = off.Close()
		_ = ans.Close()
	}()
	verifier, presenter := ans, off
	if v.Verifier == "offerer" {
		verifier, presenter = off, ans
	}
	if v.Cert == "two-reconfigured" {
		c := presenter.GetConfiguration()
		c.Certificates = []Certificate{presenterCfg.Certificates[1], presenterCfg.Certificates[0]}
		_ = presenter.SetConfiguration(c) // refused or not: judged by what is advertised and presented afterwards
	}
	der := presenter.dtlsTransport.certificates[0].x509Cert.Raw // what the DTLS transport presents
	var mu sync.Mutex
	states := map[*PeerConnection][]string{}
	for _, pc := range []*PeerConnection{off, ans} {
		pc := pc
		pc.dtlsTransport.OnStateChange(func(s DTLSTransportState) {
			mu.Lock()
			states[pc] = append(states[pc], s.String())
			mu.Unlock()
		})
	}
	opened, gotMsg := false, false
	dc, err := off.CreateDataChannel("x", nil)
	if err != nil {
		t.Fatal(err)
	}
	dc.OnOpen(func() {
		mu.Lock()
		if verifier == off {
			opened = true
		}
		mu.Unlock()
		_ = dc.SendText("hello from offerer")
	})
	dc.OnMessage(func(DataChannelMessage) {
		mu.Lock()
		if verifier == off {
			gotMsg = true
		}
		mu.Unlock()
	})
	ans.OnDataChannel(func(d *DataChannel) {
		d.OnOpen(func() {
			mu.Lock()
			if verifier == ans {
				opened = true
			}
			mu.Unlock()
			_ = d.SendText("hello from answerer")
		})
		d.OnMessage(func(DataChannelMessage) {
			mu.Lock()
			if verifier == ans {
				gotMsg = true
			}
			mu.Unlock()
		})
	})
	// signalling, with the description that the verifying side receives rewritten
	signalErr := ""
	func() {
		offer, err := off.CreateOffer(nil)
		if err != nil {
			signalErr = "CreateOffer"
			return
		}
		g := GatheringCompletePromise(off)
		if err = off.SetLocalDescription(offer); err != nil {
			signalErr = "SetLocal(offer)"
			return
		}
		<-g
		od := *off.LocalDescription()
		if v.Verifier == "answerer" {
			od.SDP = vfRewrite(od.SDP, v.Fp, v.Place, der)
		}
		if err = ans.SetRemoteDescription(od); err != nil {
			signalErr = "SetRemote(offer)"
			return
		}
		answer, err := ans.CreateAnswer(nil)
		if err != nil {
			signalErr = "CreateAnswer"
			return
		}
		g2 := GatheringCompletePromise(ans)
		if err = ans.SetLocalDescription(answer); err != nil {
			signalErr = "SetLocal(answer)"
			return
		}
		<-g2
		ad := *ans.LocalDescription()
		if v.Verifier == "offerer" {
			ad.SDP = vfRewrite(ad.SDP, v.Fp, v.Place, der)
		}
		if err = off.SetRemoteDescription(ad); err != nil {
			signalErr = "SetRemote(answer)"
		}
	}()
	// observe until the verifying side's DTLS transport settled (connected / failed) or the window ends
	window := time.Duration(vkEnvInt("VERIF_DTLS_WINDOW_MS", 3000)) * time.Millisecond
	end := time.Now().Add(window)
	for time.Now().Before(end) && signalErr == "" {
		st := verifier.dtlsTransport.State()
		mu.Lock()
		done := st == DTLSTransportStateFailed || (st == DTLSTransportStateConnected && gotMsg)
		mu.Unlock()
		if done {
			break
		}
		time.Sleep(2 * time.Millisecond)
	}
	time.Sleep(20 * time.Millisecond)
	// what was advertised versus what was presented
	advEq := "unknown"
	if rc := verifier.dtlsTransport.GetRemoteCertificate(); len(rc) > 0 {
		if ld := presenter.LocalDescription(); ld != nil {
			if m := vfFpRe.FindStringSubmatch(ld.SDP); m != nil && strings.EqualFold(m[1], "sha-256") {
				h := sha256.Sum256(rc)
				if strings.EqualFold(m[2], vfColon(h[:])) {
					advEq = "equal"
				} else {
					advEq = "different"
				}
			}
		}
	}
	mu.Lock()
	vs := append([]string{}, states[verifier]...)
	ps := append([]string{}, states[presenter]...)
	o, g := opened, gotMsg
	mu.Unlock()
	tr.Emit(vkM{
		"ev": "dtls", "t": id, "cert": v.Cert, "fp": v.Fp, "place": v.Place, "verifyOff": v.VerifyOff, "verifier": v.Verifier,
		"signalErr": signalErr, "verifierStates": vs, "presenterStates": ps, "verifierFinal": verifier.dtlsTransport.State().String(),
		"opened": o, "gotMsg": g, "advertised": advEq,
		"sig": fmt.Sprintf("dtls(cert=%s,fp=%s,place=%s,verifyOff=%v,verifier=%s)", v.Cert, v.Fp, v.Place, v.VerifyOff, v.Verifier),
	})
}
