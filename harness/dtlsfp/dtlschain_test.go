//go:build verif && !js

package webrtc

// Second driver for C14: a peer that is not pion. The verifying side is an ORTC stack (ICEGatherer,
// ICETransport, DTLSTransport) that was told, by signaling, the fingerprint of an honest certificate H.
// The peer that shows up over ICE is a plain pion/dtls client with its own key and certificate X; it
// may append the (public) certificate H after its own in the Certificate message. It can prove
// possession of X only, so the verifying transport must never be connected.

import (
	"crypto/ecdsa"
	"crypto/elliptic"
	"crypto/rand"
	"crypto/tls"
	"fmt"
	"sync"
	"testing"
	"time"

	"github.com/pion/dtls/v3"
	"github.com/pion/webrtc/v4/internal/mux"
)

type vfICE struct {
	gatherer   *ICEGatherer
	ice        *ICETransport
	params     ICEParameters
	candidates []ICECandidate
}

func vfNewICE(t *testing.T, api *API) *vfICE {
	t.Helper()
	gatherer, err := api.NewICEGatherer(ICEGatherOptions{})
	if err != nil {
		t.Fatal(err)
	}
	done := make(chan struct{})
	var once sync.Once
	gatherer.OnLocalCandidate(func(c *ICECandidate) {
		if c == nil {
			once.Do(func() { close(done) })
		}
	})
	if err = gatherer.Gather(); err != nil {
		t.Fatal(err)
	}
	select {
	case <-done:
	case <-time.After(20 * time.Second):
		t.Fatal("gathering did not finish")
	}
	res := &vfICE{gatherer: gatherer, ice: api.NewICETransport(gatherer)}
	if res.candidates, err = gatherer.GetLocalCandidates(); err != nil {
		t.Fatal(err)
	}
	if res.params, err = gatherer.GetLocalParameters(); err != nil {
		t.Fatal(err)
	}
	return res
}

func vfGenCert(t *testing.T) (*ecdsa.PrivateKey, *Certificate) {
	t.Helper()
	key, err := ecdsa.GenerateKey(elliptic.P256(), rand.Reader)
	if err != nil {
		t.Fatal(err)
	}
	cert, err := GenerateCertificate(key)
	if err != nil {
		t.Fatal(err)
	}
	return key, cert
}

type vfChainVec struct {
	Chain string `json:"chain"` // "own" | "own+honest" | "own+honest+own" | "honest-key" (control: the honest peer itself)
	Role  string `json:"role"`  // DTLS role of the verifying transport
}

func TestVerifDtlsChain(t *testing.T) {
	vkSkipUnlessDriven(t)
	var vecs []vfChainVec
	vkLoadInput(t, &vecs)
	tr := vkOpenTrace(t)
	defer tr.Close()
	for id, v := range vecs {
		vfChainRun(t, tr, 100000+id, v)
	}
}

func vfChainRun(t *testing.T, tr *vkTrace, id int, v vfChainVec) { //nolint:cyclop
	t.Helper()
	api := NewAPI()
	honestKey, honest := vfGenCert(t)
	peerKey, peerCert := vfGenCert(t)
	fps, err := honest.GetFingerprints()
	if err != nil {
		t.Fatal(err)
	}
	local, peer := vfNewICE(t, api), vfNewICE(t, api)
	defer func() {
		_ = local.ice.Stop()
		_ = peer.ice.Stop()
	}()
	localDTLS, err := api.NewDTLSTransport(local.ice, nil)
	if err != nil {
		t.Fatal(err)
	}
	var mu sync.Mutex
	states := []string{}
	localDTLS.OnStateChange(func(s DTLSTransportState) {
		mu.Lock()
		states = append(states, s.String())
		mu.Unlock()
	})
	signalErr := ""
	if err = local.ice.SetRemoteCandidates(peer.candidates); err != nil {
		signalErr = "candidates"
	}
	if err = peer.ice.SetRemoteCandidates(local.candidates); err != nil {
		signalErr = "candidates"
	}
	iceErr := make(chan error, 2)
	go func() {
		role := ICERoleControlling
		iceErr <- local.ice.Start(nil, peer.params, &role)
	}()
	go func() {
		role := ICERoleControlled
		iceErr <- peer.ice.Start(nil, local.params, &role)
	}()
	for i := 0; i < 2 && signalErr == ""; i++ {
		select {
		case e := <-iceErr:
			if e != nil {
				signalErr = "ice"
			}
		case <-time.After(20 * time.Second):
			signalErr = "ice-timeout"
		}
	}
	if signalErr == "" {
		role := DTLSRoleClient // the remote is the DTLS client: the verifying transport is the server
		localDone := make(chan error, 1)
		go func() { localDone <- localDTLS.Start(DTLSParameters{Role: role, Fingerprints: fps}) }()
		key, chain := peerKey, [][]byte{peerCert.x509Cert.Raw}
		switch v.Chain {
		case "own+honest":
			chain = append(chain, honest.x509Cert.Raw)
		case "own+honest+own":
			chain = append(chain, honest.x509Cert.Raw, peerCert.x509Cert.Raw)
		case "honest-key":
			key, chain = honestKey, [][]byte{honest.x509Cert.Raw}
		}
		ep := peer.ice.newEndpoint(mux.MatchDTLS)
		peerConn, err := dtls.ClientWithOptions(ep, ep.RemoteAddr(),
			dtls.WithCertificates(tls.Certificate{Certificate: chain, PrivateKey: key}),
			dtls.WithInsecureSkipVerify(true),
			dtls.WithSRTPProtectionProfiles(defaultSrtpProtectionProfiles()...))
		if err != nil {
			signalErr = "peer-dtls"
		} else {
			hs := make(chan error, 1)
			go func() { hs <- peerConn.Handshake() }()
			select {
			case <-localDone:
			case <-time.After(30 * time.Second):
			}
			select {
			case <-hs:
			case <-time.After(5 * time.Second):
			}
			_ = peerConn.Close()
		}
	}
	time.Sleep(20 * time.Millisecond)
	mu.Lock()
	vs := append([]string{}, states...)
	mu.Unlock()
	final := localDTLS.State().String()
	_ = localDTLS.Stop()
	fp := "foreign-leaf" // Mismatch for the trace specification
	if v.Chain == "honest-key" {
		fp = "correct"
	}
	tr.Emit(vkM{
		"ev": "dtls", "t": id, "cert": "chain:" + v.Chain, "fp": fp, "place": "ortc", "verifyOff": false, "verifier": "ortc-" + v.Role,
		"signalErr": signalErr, "verifierStates": vs, "presenterStates": []string{}, "verifierFinal": final,
		"opened": false, "gotMsg": false, "advertised": "unknown",
		"sig": fmt.Sprintf("dtls(peer=raw-dtls,chain=%s,verifier-role=%s)", v.Chain, v.Role),
	})
}
