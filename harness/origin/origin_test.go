//go:build verif && !js

package webrtc

// Driver for C11: concurrent and sequential CreateOffer / CreateAnswer calls on one PeerConnection,
// with gates at the atomic steps of updateSDPOrigin; records for every generated description the
// o= session id and version together with the call's start and end position in the trace.

import (
	"fmt"
	"strconv"
	"sync"
	"sync/atomic"
	"testing"
	"time"

	"github.com/pion/sdp/v3"
)

type voStep struct {
	Proc  string `json:"proc"`
	Label string `json:"label"`
}

type voBehaviour struct {
	ID      int      `json:"id"`
	Callers []string `json:"callers"`
	Steps   []voStep `json:"steps"`
	Free    bool     `json:"free"`
	Rounds  int      `json:"rounds"`
	Burst   int      `json:"burst"` // > 0: that many goroutines stamp descriptions against one origin at once
	Armed   []bool   `json:"armed"` // recompute runs: offer i is generated while the application changes a transceiver
}

// voHookTrack is a local track of the application whose StreamID (read while its section is written)
// can change another transceiver: CreateOffer then finds the description outdated and generates it again.
type voHookTrack struct {
	*TrackLocalStaticSample
	armed atomic.Bool
	hook  func()
}

func (s *voHookTrack) StreamID() string {
	if s.armed.CompareAndSwap(true, false) {
		s.hook()
	}
	return s.TrackLocalStaticSample.StreamID()
}

// voRecompute: sequential offers of one connection, some of them recomputed inside CreateOffer.
func voRecompute(t *testing.T, tr *vkTrace, bh voBehaviour) {
	t.Helper()
	tr.Reset(bh.ID)
	pc, err := NewPeerConnection(Configuration{})
	if err != nil {
		t.Fatal(err)
	}
	defer func() { _ = pc.Close() }()
	// transceivers described before the audio sender; each armed offer stops (or re-directs) one of them
	var videos []*RTPTransceiver
	for i := 0; i < len(bh.Armed)+1; i++ {
		v, e := pc.AddTransceiverFromKind(RTPCodecTypeVideo, RTPTransceiverInit{Direction: RTPTransceiverDirectionRecvonly})
		if e != nil {
			t.Fatal(e)
		}
		videos = append(videos, v)
	}
	static, err := NewTrackLocalStaticSample(RTPCodecCapability{MimeType: MimeTypeOpus}, "audio", "stream")
	if err != nil {
		t.Fatal(err)
	}
	next := 0
	track := &voHookTrack{TrackLocalStaticSample: static}
	track.hook = func() {
		done := make(chan struct{})
		go func() { // another goroutine of the application, while CreateOffer is at work
			if next < len(videos) {
				_ = videos[next].Stop()
				next++
			}
			close(done)
		}()
		<-done
	}
	if _, err = pc.AddTrack(track); err != nil {
		t.Fatal(err)
	}
	var base uint64
	for n, armed := range bh.Armed {
		start := tr.Emit2(vkM{"ev": "start", "t": bh.ID, "who": "seq", "n": n, "sig": "start"})
		track.armed.Store(armed)
		d, e := pc.CreateOffer(nil)
		track.armed.Store(false)
		line := vkM{"ev": "call", "t": bh.ID, "who": "seq", "n": n, "start": start, "ok": e == nil, "sid": "", "vrel": 0, "kind": "CreateOffer",
			"sig": fmt.Sprintf("CreateOffer(recomputed=%v)", armed)}
		if e == nil {
			p := &sdp.SessionDescription{}
			if p.UnmarshalString(d.SDP) == nil {
				if base == 0 {
					base = p.Origin.SessionVersion
				}
				line["sid"] = strconv.FormatUint(p.Origin.SessionID, 10)
				line["vrel"] = int(int64(p.Origin.SessionVersion - base)) //nolint:gosec
			}
		}
		tr.Emit(line)
	}
}

func TestVerifOrigin(t *testing.T) {
	vkSkipUnlessDriven(t)
	var behaviours []voBehaviour
	vkLoadInput(t, &behaviours)
	tr := vkOpenTrace(t)
	defer tr.Close()
	defer func() { verifYieldHook = nil }()
	notDriven := 0
	for _, bh := range behaviours {
		if !voRun(t, tr, bh) {
			notDriven++
		}
	}
	t.Logf("VERIF_STAT behaviours=%d not_driven=%d", len(behaviours), notDriven)
}

// voBurst: the step that CreateOffer / CreateAnswer share (updateSDPOrigin) under the densest concurrency
// there is: goroutines that do nothing else. One line with every version handed out.
func voBurst(tr *vkTrace, bh voBehaviour) {
	tr.Reset(bh.ID)
	origin := &sdp.Origin{}
	first, err := sdp.NewJSEPSessionDescription(false) // what CreateOffer / CreateAnswer start from
	if err != nil {
		return
	}
	updateSDPOrigin(origin, first) // fixes the session id, like the first description of a connection
	base := first.Origin.SessionVersion
	each := 300
	out := make([][]int, bh.Burst)
	sids := make([]map[uint64]bool, bh.Burst)
	start := make(chan struct{})
	var wg sync.WaitGroup
	for g := 0; g < bh.Burst; g++ {
		wg.Add(1)
		go func(g int) {
			defer wg.Done()
			sids[g] = map[uint64]bool{}
			<-start
			for i := 0; i < each; i++ {
				d, e := sdp.NewJSEPSessionDescription(false)
				if e != nil {
					continue
				}
				updateSDPOrigin(origin, d)
				out[g] = append(out[g], int(int64(d.Origin.SessionVersion-base))) //nolint:gosec
				sids[g][d.Origin.SessionID] = true
			}
		}(g)
	}
	close(start)
	wg.Wait()
	all, ids, increasing := []int{}, map[uint64]bool{first.Origin.SessionID: true}, true
	for g := range out {
		for i, v := range out[g] {
			all = append(all, v)
			if i > 0 && out[g][i-1] >= v {
				increasing = false // one caller's own descriptions, in the order it made them
			}
		}
		for id := range sids[g] {
			ids[id] = true
		}
	}
	distinct := map[int]bool{}
	for _, v := range all {
		distinct[v] = true
	}
	tr.Emit(vkM{"ev": "burst", "t": bh.ID, "who": "", "n": len(all), "start": 0, "ok": true, "sid": "", "vrel": 0, "kind": "burst",
		"distinct": len(distinct), "sessionIds": len(ids), "perCallerIncreasing": increasing,
		"sig": fmt.Sprintf("burst(callers=%d)", bh.Burst)})
}

func voRun(t *testing.T, tr *vkTrace, bh voBehaviour) bool {
	t.Helper()
	if bh.Burst > 0 {
		voBurst(tr, bh)
		return true
	}
	if len(bh.Armed) > 0 {
		voRecompute(t, tr, bh)
		return true
	}
	tr.Reset(bh.ID)
	pc, err := NewPeerConnection(Configuration{})
	if err != nil {
		t.Fatal(err)
	}
	peer, err := NewPeerConnection(Configuration{})
	if err != nil {
		t.Fatal(err)
	}
	defer func() {
		_ = pc.Close()
		_ = peer.Close()
	}()
	// have-remote-offer: both CreateOffer and CreateAnswer are allowed
	if _, err = peer.CreateDataChannel("x", nil); err != nil {
		t.Fatal(err)
	}
	if _, err = peer.AddTransceiverFromKind(RTPCodecTypeAudio); err != nil {
		t.Fatal(err)
	}
	po, err := peer.CreateOffer(nil)
	if err != nil {
		t.Fatal(err)
	}
	if err = pc.SetRemoteDescription(po); err != nil {
		t.Fatal(err)
	}
	var base atomic.Uint64
	gates := vkNewGates(func(gid int64, bound, point string, obj any) string {
		if o, ok := obj.(*sdp.Origin); ok && o == &pc.sdpOrigin {
			return bound
		}
		return ""
	})
	gates.deadline = time.Duration(vkEnvInt("VERIF_STEP_MS", 150)) * time.Millisecond
	if bh.Free {
		gates.perturb = vkRand(int64(bh.ID))
		gates.ReleaseAll()
	}
	verifYieldHook = gates.Hook
	call := func(name string, n int) {
		start := tr.Emit2(vkM{"ev": "start", "t": bh.ID, "who": name, "n": n, "sig": "start"})
		var d SessionDescription
		var err error
		kind := "CreateOffer"
		if (len(name)+n)%2 == 0 {
			kind = "CreateAnswer"
			d, err = pc.CreateAnswer(nil)
		} else {
			d, err = pc.CreateOffer(nil)
		}
		line := vkM{"ev": "call", "t": bh.ID, "who": name, "n": n, "start": start, "ok": err == nil, "sid": "", "vrel": 0, "kind": kind,
			"sig": fmt.Sprintf("%s(concurrent=%d)", kind, len(bh.Callers))}
		if err == nil {
			p := &sdp.SessionDescription{}
			if p.UnmarshalString(d.SDP) == nil {
				base.CompareAndSwap(0, p.Origin.SessionVersion)
				line["sid"] = strconv.FormatUint(p.Origin.SessionID, 10)
				line["vrel"] = int(int64(p.Origin.SessionVersion - base.Load())) //nolint:gosec
			}
		}
		tr.Emit(line)
	}
	var wg sync.WaitGroup
	rounds := bh.Rounds
	if rounds == 0 {
		rounds = 1
	}
	for _, c := range bh.Callers {
		c := c
		wg.Add(1)
		gates.Go(c, func() {
			defer wg.Done()
			for n := 0; n < rounds; n++ {
				call(c, n)
			}
		})
	}
	driven := true
	if !bh.Free {
		blocked := map[string]bool{}
		for _, st := range bh.Steps {
			switch st.Label {
			case "cStart", "cLock", "cEnd":
				continue
			}
			if blocked[st.Proc] || vkEnded(gates.Poll(st.Proc)) {
				continue
			}
			// a caller that waits for pc.mu is not at a gate: do not wait long for it
			if gates.Poll(st.Proc) == "" {
				time.Sleep(300 * time.Microsecond)
				if gates.Poll(st.Proc) == "" {
					blocked[st.Proc] = true
					continue
				}
			}
			if gates.Step(st.Proc) == "" {
				blocked[st.Proc] = true
			}
			for k := range blocked { // whoever was waiting for the lock may have arrived now
				if gates.Poll(k) != "" {
					delete(blocked, k)
				}
			}
		}
		gates.ReleaseAll()
	}
	done := make(chan struct{})
	go func() { wg.Wait(); close(done) }()
	select {
	case <-done:
	case <-time.After(10 * time.Second):
		driven = false
	}
	verifYieldHook = nil
	return driven
}
