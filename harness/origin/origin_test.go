//go:build verif && !js

package webrtc

// Driver for C11: concurrent and sequential CreateOffer / CreateAnswer calls on one PeerConnection,
// with gates at the atomic steps of updateSDPOrigin; records for every generated description the
// o= session id and version together with the call's start and end position in the trace.

import (
	"fmt"
	"strconv"
	"sync"
	"sync/atomic"
	"testing"
	"time"

	"github.com/pion/sdp/v3"
)

type voStep struct {
	Proc  string `json:"proc"`
	Label string `json:"label"`
}

type voBehaviour struct {
	ID      int      `json:"id"`
	Callers []string `json:"callers"`
	Steps   []voStep `json:"steps"`
	Free    bool     `json:"free"`
	Rounds  int      `json:"rounds"`
}

func TestVerifOrigin(t *testing.T) {
	vkSkipUnlessDriven(t)
	var behaviours []voBehaviour
	vkLoadInput(t, &behaviours)
	tr := vkOpenTrace(t)
	defer tr.Close()
	defer func() { verifYieldHook = nil }()
	notDriven := 0
	for _, bh := range behaviours {
		if !voRun(t, tr, bh) {
			notDriven++
		}
	}
	t.Logf("VERIF_STAT behaviours=%d not_driven=%d", len(behaviours), notDriven)
}

func voRun(t *testing.T, tr *vkTrace, bh voBehaviour) bool {
	t.Helper()
	tr.Reset(bh.ID)
	pc, err := NewPeerConnection(Configuration{})
	if err != nil {
		t.Fatal(err)
	}
	peer, err := NewPeerConnection(Configuration{})
	if err != nil {
		t.Fatal(err)
	}
	defer func() {
		_ = pc.Close()
		_ = peer.Close()
	}()
	// have-remote-offer: both CreateOffer and CreateAnswer are allowed
	if _, err = peer.CreateDataChannel("x", nil); err != nil {
		t.Fatal(err)
	}
	if _, err = peer.AddTransceiverFromKind(RTPCodecTypeAudio); err != nil {
		t.Fatal(err)
	}
	po, err := peer.CreateOffer(nil)
	if err != nil {
		t.Fatal(err)
	}
	if err = pc.SetRemoteDescription(po); err != nil {
		t.Fatal(err)
	}
	var base atomic.Uint64
	gates := vkNewGates(func(gid int64, bound, point string, obj any) string {
		if o, ok := obj.(*sdp.Origin); ok && o == &pc.sdpOrigin {
			return bound
		}
		return ""
	})
	gates.deadline = time.Duration(vkEnvInt("VERIF_STEP_MS", 150)) * time.Millisecond
	if bh.Free {
		gates.perturb = vkRand(int64(bh.ID))
		gates.ReleaseAll()
	}
	verifYieldHook = gates.Hook
	call := func(name string, n int) {
		start := tr.Emit2(vkM{"ev": "start", "t": bh.ID, "who": name, "n": n, "sig": "start"})
		var d SessionDescription
		var err error
		kind := "CreateOffer"
		if (len(name)+n)%2 == 0 {
			kind = "CreateAnswer"
			d, err = pc.CreateAnswer(nil)
		} else {
			d, err = pc.CreateOffer(nil)
		}
		line := vkM{"ev": "call", "t": bh.ID, "who": name, "n": n, "start": start, "ok": err == nil, "sid": "", "vrel": 0, "kind": kind,
			"sig": fmt.Sprintf("%s(concurrent=%d)", kind, len(bh.Callers))}
		if err == nil {
			p := &sdp.SessionDescription{}
			if p.UnmarshalString(d.SDP) == nil {
				base.CompareAndSwap(0, p.Origin.SessionVersion)
				line["sid"] = strconv.FormatUint(p.Origin.SessionID, 10)
				line["vrel"] = int(int64(p.Origin.SessionVersion - base.Load())) //nolint:gosec
			}
		}
		tr.Emit(line)
	}
	var wg sync.WaitGroup
	rounds := bh.Rounds
	if rounds == 0 {
		rounds = 1
	}
	for _, c := range bh.Callers {
		c := c
		wg.Add(1)
		gates.Go(c, func() {
			defer wg.Done()
			for n := 0; n < rounds; n++ {
				call(c, n)
			}
		})
	}
	driven := true
	if !bh.Free {
		blocked := map[string]bool{}
		for _, st := range bh.Steps {
			switch st.Label {
			case "cStart", "cLock", "cEnd":
				continue
			}
			if blocked[st.Proc] || vkEnded(gates.Poll(st.Proc)) {
				continue
			}
			// a caller that waits for pc.mu is not at a gate: do not wait long for it
			if gates.Poll(st.Proc) == "" {
				time.Sleep(300 * time.Microsecond)
				if gates.Poll(st.Proc) == "" {
					blocked[st.Proc] = true
					continue
				}
			}
			if gates.Step(st.Proc) == "" {
				blocked[st.Proc] = true
			}
			for k := range blocked { // whoever was waiting for the lock may have arrived now
				if gates.Poll(k) != "" {
					delete(blocked, k)
				}
			}
		}
		gates.ReleaseAll()
	}
	done := make(chan struct{})
	go func() { wg.Wait(); close(done) }()
	select {
	case <-done:
	case <-time.After(10 * time.Second):
		driven = false
	}
	verifYieldHook = nil
	return driven
}
