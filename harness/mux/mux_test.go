//go:build verif && !js

package mux

// Drivers for C27 (spec/Mux.tla, spec/MuxOps.tla):
//   TestVerifMuxClass  exhaustive first-two-bytes x length classes through the match functions,
//                      and a boundary subset through a real Mux with three endpoints
//   TestVerifMuxOrder  TLC-generated schedules of read loop / NewEndpoint / pending flush, driven
//                      with gates on a real Mux over an in-memory transport

import (
	"fmt"
	"io"
	"net"
	"sync"
	"sync/atomic"
	"testing"
	"time"

	"github.com/pion/logging"
)

// vmConn is an in-memory datagram transport with a queue, so that writing a datagram never
// waits for the mux read loop.
type vmConn struct {
	ch     chan []byte
	closed chan struct{}
	once   sync.Once
	reads  atomic.Int64 // number of Read calls started
}

func newVMConn() *vmConn { return &vmConn{ch: make(chan []byte, 4096), closed: make(chan struct{})} }

func (c *vmConn) Read(b []byte) (int, error) {
	c.reads.Add(1)
	select {
	case d := <-c.ch:
		return copy(b, d), nil
	case <-c.closed:
		return 0, io.EOF
	}
}
func (c *vmConn) Write(b []byte) (int, error)      { return len(b), nil }
func (c *vmConn) Close() error                     { c.once.Do(func() { close(c.closed) }); return nil }
func (c *vmConn) LocalAddr() net.Addr              { return &net.UDPAddr{} }
func (c *vmConn) RemoteAddr() net.Addr             { return &net.UDPAddr{} }
func (c *vmConn) SetDeadline(time.Time) error      { return nil }
func (c *vmConn) SetReadDeadline(time.Time) error  { return nil }
func (c *vmConn) SetWriteDeadline(time.Time) error { return nil }

func (c *vmConn) send(d []byte) { c.ch <- append([]byte{}, d...) }

// waitConsumed waits until the read loop has come back for datagram number n+1, i.e. finished
// dispatching the first n.
func (c *vmConn) waitConsumed(n int64, d time.Duration) bool {
	end := time.Now().Add(d)
	for c.reads.Load() < n+1 {
		if time.Now().After(end) {
			return false
		}
		time.Sleep(20 * time.Microsecond)
	}
	return true
}

func vmNewMux(c *vmConn, g ...*vmLogGate) *Mux {
	var lf logging.LoggerFactory = logging.NewDefaultLoggerFactory()
	if len(g) > 0 {
		lf = vmLoggerFactory{g: g[0]}
	}

	return NewMux(Config{Conn: c, BufferSize: 8192, LoggerFactory: lf})
}

// vmLogGate: the application's logger is called by dispatch when no endpoint matches; an armed gate keeps the
// read loop there (for a bounded time) while another goroutine calls NewEndpoint
type vmLogGate struct {
	armed   atomic.Bool
	release chan struct{}
}

type vmLoggerFactory struct{ g *vmLogGate }

func (f vmLoggerFactory) NewLogger(scope string) logging.LeveledLogger {
	return vmLogger{LeveledLogger: logging.NewDefaultLoggerFactory().NewLogger(scope), g: f.g}
}

type vmLogger struct {
	logging.LeveledLogger
	g *vmLogGate
}

func (l vmLogger) Warnf(string, ...any) {
	if l.g.armed.CompareAndSwap(true, false) {
		select {
		case <-l.g.release:
		case <-time.After(20 * time.Millisecond):
		}
	}
}

func vmMask(b []byte) int {
	m := 0
	if MatchDTLS(b) {
		m |= 1
	}
	if MatchSRTP(b) {
		m |= 2
	}
	if MatchSRTCP(b) {
		m |= 4
	}
	return m
}

func TestVerifMuxClass(t *testing.T) {
	vkSkipUnlessDriven(t)
	tr := vkOpenTrace(t)
	defer tr.Close()
	tr.Reset(0)
	// 1. the match functions, exhaustively over (b0, b1) and the length classes
	for _, ln := range []int{1, 2, 3, 4, 5} {
		for b0 := 0; b0 < 256; b0++ {
			ans := make([]int, 256)
			for b1 := 0; b1 < 256; b1++ {
				buf := make([]byte, ln)
				buf[0] = byte(b0)
				if ln > 1 {
					buf[1] = byte(b1)
				}
				ans[b1] = vmMask(buf)
			}
			// run-length form: [first b1, last b1, answer mask]
			runs := [][]int{}
			for b1 := 0; b1 < 256; b1++ {
				if n := len(runs); n > 0 && runs[n-1][2] == ans[b1] {
					runs[n-1][1] = b1
				} else {
					runs = append(runs, []int{b1, b1, ans[b1]})
				}
			}
			tr.Emit(vkM{"ev": "class", "t": 0, "b0": b0, "len": ln, "runs": runs, "sig": fmt.Sprintf("class(b0=%d,len=%d)", b0, ln)})
		}
	}
	// 2. through a real Mux with the three endpoints pion creates
	tr.Reset(1)
	conn := newVMConn()
	m := vmNewMux(conn)
	eps := []*Endpoint{m.NewEndpoint(MatchDTLS), m.NewEndpoint(MatchSRTP), m.NewEndpoint(MatchSRTCP)}
	names := []string{"dtls", "srtp", "srtcp"}
	var sent int64
	for _, ln := range []int{1, 4, 12} {
		for b0 := 0; b0 < 256; b0++ {
			for _, b1 := range []int{0, 100, 191, 192, 200, 223, 224, 255} {
				buf := make([]byte, ln)
				buf[0] = byte(b0)
				if ln > 1 {
					buf[1] = byte(b1)
				}
				before := []int{eps[0].buffer.Count(), eps[1].buffer.Count(), eps[2].buffer.Count()}
				conn.send(buf)
				sent++
				if !conn.waitConsumed(sent, 2*time.Second) {
					t.Fatalf("read loop did not consume datagram %d", sent)
				}
				to := []string{}
				for i, e := range eps {
					if e.buffer.Count() > before[i] {
						to = append(to, names[i])
						tmp := make([]byte, 64)
						_, _ = e.Read(tmp)
					}
				}
				tr.Emit(vkM{"ev": "route", "t": 1, "b0": b0, "b1": b1, "len": ln, "to": to, "sig": fmt.Sprintf("route(b0=%d,b1=%d,len=%d)", b0, b1, ln)})
			}
		}
	}
	_ = m.Close()
}

type vmStep struct {
	Proc  string `json:"proc"`
	Label string `json:"label"`
}

type vmBehaviour struct {
	ID      int      `json:"id"`
	NBefore int      `json:"nbefore"`
	NAfter  int      `json:"nafter"`
	Steps   []vmStep `json:"steps"`
	Free    bool     `json:"free"`
}

func TestVerifMuxOrder(t *testing.T) {
	vkSkipUnlessDriven(t)
	var behaviours []vmBehaviour
	vkLoadInput(t, &behaviours)
	tr := vkOpenTrace(t)
	defer tr.Close()
	defer func() { verifYieldHook = nil }()
	notDriven := 0
	for _, bh := range behaviours {
		if !vmOrderRun(t, tr, bh) {
			notDriven++
		}
	}
	t.Logf("VERIF_STAT behaviours=%d not_driven=%d", len(behaviours), notDriven)
}

// set once a schedule found that NewEndpoint flushes by itself (no flusher goroutine to wait for)
var vmFlusherAbsent atomic.Bool

func vmDatagram(id int) []byte {
	// a DTLS-range datagram carrying its arrival number
	return []byte{22, 254, 253, byte(id >> 8), byte(id)}
}

func vmOrderRun(t *testing.T, tr *vkTrace, bh vmBehaviour) bool {
	t.Helper()
	tr.Reset(bh.ID)
	var mu sync.Mutex
	var theMux *Mux
	var gates *vkGates
	var creator atomic.Int64 // goroutine of an overlapping NewEndpoint call
	ctrl := vkGoid()
	classify := func(gid int64, bound, point string, obj any) string {
		mu.Lock()
		mine := obj == any(theMux) && theMux != nil
		mu.Unlock()
		if !mine {
			return ""
		}
		if gid == ctrl || gid == creator.Load() {
			return "" // NewEndpoint (and a flush it performs itself) runs on the controller's goroutine
		}
		switch point {
		case "mux.dispatch.enter", "mux.dispatch.write":
			return "R"
		case "mux.flush.enter", "mux.flush.exit":
			return "F"
		}
		return ""
	}
	gates = vkNewGates(classify)
	gates.deadline = time.Duration(vkEnvInt("VERIF_STEP_MS", 150)) * time.Millisecond
	if bh.Free {
		gates.perturb = vkRand(int64(bh.ID))
		gates.ReleaseAll()
	}
	verifYieldHook = gates.Hook
	conn := newVMConn()
	logGate := &vmLogGate{release: make(chan struct{}, 1)}
	m := vmNewMux(conn, logGate)
	mu.Lock()
	theMux = m
	mu.Unlock()
	// another endpoint that never matches (pion registers three): its match function is called by
	// dispatch inside the critical section, which lets the driver keep the read loop there while
	// NewEndpoint is being called ("overlap")
	var holdReq atomic.Bool
	holdEntered, holdRelease := make(chan struct{}, 1), make(chan struct{})
	m.NewEndpoint(func([]byte) bool {
		if holdReq.CompareAndSwap(true, false) {
			holdEntered <- struct{}{}
			<-holdRelease
		}

		return false
	})

	var ep *Endpoint
	sent := 0
	send := func() {
		sent++
		when := "before"
		if ep != nil {
			when = "after"
		}
		tr.Emit(vkM{"ev": "arrive", "t": bh.ID, "d": sent, "when": when, "sig": "arrive(" + when + ")"})
		conn.send(vmDatagram(sent))
	}
	create := func() {
		ep = m.NewEndpoint(MatchDTLS)
		tr.Emit(vkM{"ev": "created", "t": bh.ID, "d": 0, "when": "", "sig": "created"})
	}
	pendingLen := func() int {
		// never wait for the lock: an actor may be held at a gate while it owns it
		if m.lock.TryLock() {
			defer m.lock.Unlock()
			return len(m.pendingPackets)
		}
		return -1
	}
	waitFor := func(cond func() bool) bool {
		end := time.Now().Add(gates.deadline)
		for !cond() {
			if time.Now().After(end) {
				return false
			}
			time.Sleep(20 * time.Microsecond)
		}
		return true
	}

	// overlapCreate realises "rMatch, then dCreate" with the two calls overlapping in time: NewEndpoint
	// is called while dispatch is looking for an endpoint, and has to wait for the mux lock
	overlapCreate := func() bool {
		r0 := conn.reads.Load()
		holdReq.Store(true)
		if !gates.Release("R") {
			holdReq.Store(false)
			return false
		}
		select {
		case <-holdEntered:
		case <-time.After(gates.deadline):
			holdReq.Store(false)
			return false
		}
		done := make(chan struct{})
		go func() {
			creator.Store(vkGoid())
			ep = m.NewEndpoint(MatchDTLS)
			close(done)
		}()
		time.Sleep(300 * time.Microsecond) // NewEndpoint is now waiting for the lock (or about to)
		// the read loop is kept once more, in the application's logger ("no endpoint for packet"), until the
		// endpoint exists or 20 ms have passed -- wherever that call is made relative to the critical section
		select {
		case <-logGate.release: // a token the previous hold did not use
		default:
		}
		logGate.armed.Store(true)
		holdRelease <- struct{}{}
		select {
		case <-done:
		case <-time.After(2 * time.Second):
			return false
		}
		logGate.armed.Store(false)
		select {
		case logGate.release <- struct{}{}:
		default:
		}
		tr.Emit(vkM{"ev": "created", "t": bh.ID, "d": 0, "when": "", "sig": "created(overlapping dispatch)"})
		// the read loop finished this datagram when it asks for the next one
		return waitFor(func() bool { return conn.reads.Load() > r0 })
	}

	driven := true
	flusherAbsent := vmFlusherAbsent.Load()
	if bh.Free {
		for i := 0; i < bh.NBefore; i++ {
			send()
		}
		create()
		for i := 0; i < bh.NAfter; i++ {
			send()
		}
	} else {
		skipCreate := false
		for si, st := range bh.Steps {
			if !driven {
				break
			}
			if bh.ID%2 == 1 && st.Label == "rMatch" && ep == nil && si+1 < len(bh.Steps) && bh.Steps[si+1].Label == "dCreate" {
				if !overlapCreate() {
					driven = false
				}
				skipCreate = true
				continue
			}
			switch st.Label {
			case "dBefore", "dAfter":
				send()
			case "dCreate":
				if skipCreate {
					skipCreate = false
					continue
				}
				create()
			case "rRead":
				if gates.Await("R") != "mux.dispatch.enter" {
					driven = false
				}
			case "rMatch":
				p0 := pendingLen()
				if !gates.Release("R") {
					driven = false
					break
				}
				// the segment ends at the write gate (matched) or with the datagram queued
				if !waitFor(func() bool { return gates.Poll("R") == "mux.dispatch.write" || (p0 >= 0 && pendingLen() > p0) }) {
					driven = false
				}
			case "rWrite":
				if gates.Poll("R") != "mux.dispatch.write" {
					driven = false // the real read loop queued the datagram where the model delivered it
					break
				}
				c0 := ep.buffer.Count()
				gates.Release("R")
				if !waitFor(func() bool { return ep.buffer.Count() > c0 }) {
					driven = false
				}
			case "fSpawn":
				if !flusherAbsent && gates.Await("F") != "mux.flush.enter" {
					flusherAbsent = true // the flush is not a goroutine of its own in this build
					vmFlusherAbsent.Store(true)
				}
			case "fFlush":
				if !flusherAbsent {
					if at := gates.Step("F"); !vkEnded(at) {
						driven = false
					}
				}
			default:
				t.Fatalf("unknown label %q", st.Label)
			}
		}
		gates.ReleaseAll()
	}
	// quiescence: every datagram consumed by the read loop and the flush done
	ok := conn.waitConsumed(int64(sent), 2*time.Second)
	if ep == nil {
		create()
	}
	want := sent
	waitFor(func() bool { return ep.buffer.Count() >= want })
	time.Sleep(200 * time.Microsecond)
	got := []int{}
	_ = ep.SetReadDeadline(time.Now().Add(5 * time.Millisecond))
	for {
		b := make([]byte, 64)
		n, err := ep.Read(b)
		if err != nil || n < 5 {
			break
		}
		got = append(got, int(b[3])<<8|int(b[4]))
		if len(got) == want {
			break
		}
	}
	tr.Emit(vkM{"ev": "read", "t": bh.ID, "d": 0, "when": "", "got": got, "consumed": ok, "driven": driven,
		"sig": fmt.Sprintf("read(before=%d,after=%d)", bh.NBefore, bh.NAfter)})
	_ = m.Close()
	verifYieldHook = nil
	return driven
}
