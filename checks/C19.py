"""C19 — data channels deliver exactly once, in order, intact (spec/DcDeliv.tla; sessions on real connected pairs)."""
import os
import vlib


def run(ctx):
    quick = ctx.quick
    vlib.tlc_model(ctx, "DcDeliv", "DcDeliv_MC", workers=4)
    res = vlib.tlc_model(ctx, "DcDeliv", "DcDeliv_Vec" if quick else "DcDeliv_VecT", workers=1)
    vecs = [v[0] for v in res.tag("VERIF_VEC")]
    ctx.log("%d session vectors" % len(vecs))
    binary = vlib.go_build(ctx, "dcdeliv")
    infile = vlib.write_json(os.path.join(ctx.work, "vecs.json"), vecs)
    trace = os.path.join(ctx.work, "trace.ndjson")
    vlib.go_run(ctx, binary, "TestVerifDcDeliv", infile, trace, timeout=2400)
    ctx.viol = vlib.tlc_trace(ctx, "DcDeliv_Trace", "DcDeliv_Trace", trace, chunk=6000)
    pr = ctx.cov["predicates"]
    if not pr.get("FifoIntact") or not pr.get("ParamsMirrored"):
        raise vlib.NoVerdict("predicates not exercised: %s" % pr)
    lines = vlib.read_ndjson(trace)
    ctx.cov["evaluations"] = sum(1 for l in lines if l["ev"] == "recv")
    ctx.cov["messages_sent"] = sum(1 for l in lines if l["ev"] == "sent")
    ctx.cov["traces_validated_against_impl"] = len(vecs)
    ctx.cov["samples"] = vecs[:2]
    return vlib.finish(
        ctx, "exploration",
        rule="session vectors = seeded TLC sample of DcDeliv.tla's space (1-3 parallel channels x ordered x reliability x protocol x "
             "text/binary x message-size pattern x count x sending side), each run on a real connected pair over loopback; "
             "distinct = vectors; delivery judged for reliable ordered channels, parameter mirroring for all",
        distinct_nontrivial=len({vlib.canon(v) for v in vecs}), exhaustive=False,
        replay_of=lambda v: {"vector": vecs[v["trace"]] if v["trace"] < len(vecs) else None})
