"""C21 — Close is idempotent, concurrency-safe and final (spec/PcClose.tla; gates in close / updateConnectionState)."""
import os
import re
import vlib


def run(ctx):
    quick = ctx.quick
    r = vlib.tlc_expect_violation(ctx, "PcClose", "PcClose_asis_cex", workers=1)
    ctx.cov["asis_model"] = "counterexample found by TLC" if r.rc == 12 else "rc=%s" % r.rc
    beh = []
    r2 = vlib.tlc_expect_violation(ctx, "PcClose", "PcClose_early_cex", workers=1)
    ctx.cov["early_return_model"] = "counterexample found by TLC" if r2.rc == 12 else "rc=%s" % r2.rc
    for v in ("fixed", "asis", "workers"):
        res = vlib.tlc_model(ctx, "PcClose", "PcClose_" + v, workers=1)
        g = vlib.graph_from(res)
        paths = g.edge_cover(ctx.rng, 60, maximal=True) + g.random_walks(ctx.rng, 30 if quick else 800, 60)
        seen = set()
        for p in paths:
            steps = [a for _, a, _ in p]
            key = tuple((s["proc"], s["label"]) for s in steps)
            if key in seen:
                continue
            seen.add(key)
            beh.append({"id": len(beh), "closers": ["k1", "k2", "k3"], "graceful": ["k2", "k3"], "steps": steps,
                        "connected": len(beh) % 4 == 0, "free": False, "census": False,
                        "worker": "" if v != "workers" else ("dcmsg" if len(beh) % 4 == 0 and len(beh) % 8 == 0 else "ops")})
    if quick:
        ctx.rng.shuffle(beh)
        beh = beh[:160]
        for i, b in enumerate(beh):
            b["id"] = i
    nsched = len(beh)
    for j in range(30 if quick else 600):
        k = 1 + j % 4
        cl = ["k%d" % (i + 1) for i in range(k)]
        beh.append({"id": len(beh), "closers": cl, "graceful": cl[j % (k + 1):], "steps": [], "connected": j % 2 == 0,
                    "free": True, "census": False, "worker": ["", "ops", "dcmsg"][j % 3]})
    for j in range(6 if quick else 60):
        beh.append({"id": len(beh), "closers": [], "graceful": [], "steps": [], "connected": True, "free": False, "census": True})
    for j in range(6 if quick else 60):
        beh.append({"id": len(beh), "closers": [], "graceful": [], "steps": [], "connected": True, "free": True, "census": False,
                    "incallback": ["ice", "conn", "dc"][j % 3]})
    ctx.log("%d schedules + %d free-running, census and close-in-callback runs" % (nsched, len(beh) - nsched))
    binary = vlib.go_build(ctx, "pcclose")
    infile = vlib.write_json(os.path.join(ctx.work, "behaviours.json"), beh)
    trace = os.path.join(ctx.work, "trace.ndjson")
    rc, out = vlib.go_run(ctx, binary, "TestVerifPcClose", infile, trace, timeout=2400)
    ctx.viol = vlib.tlc_trace(ctx, "PcClose_Trace", "PcClose_Trace", trace)
    pr = ctx.cov["predicates"]
    if not pr.get("FinalConnectionClosed") or not pr.get("NoStateAfterClosed"):
        raise vlib.NoVerdict("predicates not exercised: %s" % pr)
    lines = vlib.read_ndjson(trace)
    ctx.cov["evaluations"] = len(beh)
    ctx.cov["traces_validated_against_impl"] = len(beh)
    bytrace = {}
    for l in lines:
        bytrace.setdefault(l["t"], []).append(l)
    ctx.cov["samples"] = [{"schedule": beh[0]["steps"][:14]}, {"recorded": bytrace.get(0, [])}]
    distinct = {tuple((s["proc"], s["label"]) for s in b["steps"]) for b in beh if b["steps"]}
    return vlib.finish(
        ctx, "model_checking",
        rule="schedules = edge cover + seeded maximal walks of the TLC state graphs of PcClose.tla (3 closers, two of them graceful, "
             "one racing connection-state callback; as-is and repaired variant), driven with gates on a real PeerConnection "
             "(every fourth on a connected pair); plus free-running runs with 1-4 closers and sequential graceful closes with a "
             "goroutine census; distinct = distinct schedules",
        distinct_nontrivial=len(distinct), exhaustive=False,
        replay_of=lambda v: {"behaviour": beh[v["trace"]], "recorded": bytrace.get(v["trace"], [])})
