import os, sys
sys.path.insert(0, os.path.dirname(os.path.abspath(__file__)))
import jsep_common


def run(ctx):
    return jsep_common.run_jsep(ctx, "C01")
