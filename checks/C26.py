"""C26 — RTX packets are unwrapped into the original packets (RFC 4588).

spec/RtxOps.tla   normative operators (clauses of the property over RFC 3550 packet views)
spec/Rtx.tla      byte-level transcription of rtpreceiver.go's in-place rewrite, checked exhaustively
                  by TLC over the layout space (Rtx_MC.cfg; thorough adds Rtx_dense.cfg)
Rtx_Vec.cfg       the layouts that are replayed (cc 0..15 x extension x padding x payload length x marker)
harness/rtx       channel-fed fake interceptors around a real RTPReceiver / TrackRemote
spec/Rtx_Trace    TLC judges every recorded packet
"""
import json
import os

import vlib

PREDS = ["UnwrappedDelivered", "SeqIsOsn", "SsrcPtPrimary", "PayloadMinusOsn", "OtherHeaderFieldsSame", "ShortDroppedNoCrash",
         "AttributesCarryRtx"]


def _sig(v):
    pl = "max" if v["plmax"] == 1 else str(v["pl"])
    return "cc%d/x%d:%s:%d/pad%d/pl%s/m%d" % (v["cc"], v["x"], v["prof"], v["xl"], v["pad"], pl, v["m"])


def _replay(ctx, binary, vecs, trace):
    """Run the driver; when the process dies while a packet is being processed (a panic in pion's
    repair goroutine cannot be recovered), record that packet as a 'crash' line and go on with
    the rest. Returns the number of crashes."""
    crashes = 0
    rest = vecs
    part = 0
    with open(trace, "w") as out:
        while rest:
            infile = vlib.write_json(os.path.join(ctx.work, "vectors-%d.json" % part), rest)
            tfile = os.path.join(ctx.work, "trace-%d.ndjson" % part)
            rc, output = vlib.go_run(ctx, binary, "TestVerifRtx", infile, tfile, timeout=500, allow_fail=True)
            lines = open(tfile).read().splitlines() if os.path.exists(tfile) else []
            lines = [l for l in lines if l.strip() and l.strip().endswith("}")]
            for l in lines:
                out.write(l + "\n")
            if rc == 0:
                break
            died = "panic:" in output or "fatal error:" in output or "SIGSEGV" in output
            prog = tfile + ".progress"
            if not died or not os.path.exists(prog):
                raise vlib.NoVerdict("driver TestVerifRtx failed rc=%d:\n%s" % (rc, output[-4000:]))
            ids = [int(x) for x in open(prog).read().split()]
            done = {json.loads(l)["t"] for l in lines if '"ev":"rtx"' in l}
            if not ids or ids[-1] in done:
                raise vlib.NoVerdict("driver died outside a packet:\n%s" % output[-4000:])
            bad = ids[-1]
            v = next(x for x in rest if x["id"] == bad)
            crashes += 1
            ctx.notes.append("driver process died on vector %d (%s): %s" %
                             (bad, _sig(v), [l for l in output.splitlines() if l.startswith("panic:")][:1]))
            out.write(json.dumps({"ev": "crash", "t": bad, "sig": _sig(v), "in": {"plen": v["pl"]}}) + "\n")
            rest = [x for x in rest if x["id"] > bad]
            part += 1
            if crashes >= 25:
                ctx.notes.append("stopped after 25 crashes; %d vectors not replayed" % len(rest))
                break
    return crashes


def _parallel_trace(ctx, spec, cfg, trace, parts, chunk):
    """vlib.tlc_trace on `parts` slices of the trace (cut at reset lines) at the same time. Each slice
    gets its own scratch directory and coverage record (vlib.run_tlc names its directories by
    counting, which is not safe to share between threads); the counts are merged afterwards."""
    import copy
    import threading
    lines = [l for l in open(trace).read().splitlines() if l.strip()]
    cuts = [i for i, l in enumerate(lines) if '"ev":"reset"' in l.replace(" ", "")]
    if parts <= 1 or len(cuts) < 2 * parts:
        return vlib.tlc_trace(ctx, spec, cfg, trace, timeout=900, chunk=chunk)
    bounds = [cuts[(len(cuts) * k) // parts] for k in range(parts)] + [len(lines)]
    bounds[0] = 0
    subs, results, errors = [], {}, {}

    def work(k, sub, path):
        try:
            results[k] = vlib.tlc_trace(sub, spec, cfg, path, timeout=900, chunk=chunk)
        except Exception as e:  # NoVerdict included: re-raised by the caller
            errors[k] = e

    threads = []
    for k in range(parts):
        sub = copy.copy(ctx)
        sub.work = os.path.join(ctx.work, "part%d" % k)
        os.makedirs(sub.work, exist_ok=True)
        sub.cov = {"tlc_runs": [], "predicates": {}}
        sub.log = lambda *a: None
        path = os.path.join(sub.work, "slice.ndjson")
        with open(path, "w") as fh:
            fh.write("\n".join(lines[bounds[k]:bounds[k + 1]]) + "\n")
        subs.append(sub)
        th = threading.Thread(target=work, args=(k, sub, path))
        th.start()
        threads.append(th)
    for th in threads:
        th.join()
    if errors:
        raise errors[min(errors)]
    viol = []
    for k in range(parts):
        for r in results[k]:
            r = dict(r)
            r["line"] = r["line"] + bounds[k]
            viol.append(r)
        ctx.cov["tlc_runs"] += subs[k].cov["tlc_runs"]
        for n, c in subs[k].cov["predicates"].items():
            ctx.cov["predicates"][n] = ctx.cov["predicates"].get(n, 0) + c
        ctx.cov["trace_lines_validated"] = ctx.cov.get("trace_lines_validated", 0) + subs[k].cov.get("trace_lines_validated", 0)
    ctx.log("TLC trace %s: %d lines in %d parallel slices, %d violation records" %
            (spec, ctx.cov["trace_lines_validated"], parts, len(viol)))
    return viol


def run(ctx):
    quick = ctx.quick
    # 1. the transcribed algorithm satisfies the normative operators on every layout (exhaustive)
    vlib.tlc_model(ctx, "Rtx", "Rtx_MC", workers=8, timeout=600)
    if not quick:
        vlib.tlc_model(ctx, "Rtx", "Rtx_dense", workers=12, timeout=900)
    # 2. the layouts to replay: every initial state of the model with the real MTU
    #    (run_tlc: an enumeration, not counted as model-checking states in the evidence)
    res = vlib.run_tlc(ctx, "Rtx", "Rtx_Vec", workers=1, timeout=300)
    layouts = [v[0] for v in res.tag("VERIF_VEC")]
    if res.rc != 0 or len(layouts) != res.distinct or not layouts:
        raise vlib.NoVerdict("expected one emitted layout per initial state (%d vs %d)" % (len(layouts), res.distinct))
    layouts.sort(key=lambda v: (v["cc"], v["x"], v["prof"], v["xl"], v["pad"], v["plmax"], v["pl"], v["m"]))
    fillings = 1 if quick else 20
    vecs = []
    for f in range(fillings):
        for v in layouts:
            w = dict(v)
            w["id"] = len(vecs)
            w["fill"] = f
            vecs.append(w)
    ctx.log("%d layouts x %d fillings = %d packets" % (len(layouts), fillings, len(vecs)))

    # 3. replay into a real RTPReceiver / TrackRemote
    binary = vlib.go_build(ctx, "rtx")
    trace = os.path.join(ctx.work, "trace.ndjson")
    crashes = _replay(ctx, binary, vecs, trace)

    # 4. TLC judges what pion did
    ctx.viol = _parallel_trace(ctx, "Rtx_Trace", "Rtx_Trace", trace, 3 if quick else 8, 20000)
    lines = [l for l in vlib.read_ndjson(trace) if l.get("ev") in ("rtx", "crash")]
    pk = [l for l in lines if l["ev"] == "rtx"]
    delivered = [l for l in pk if l["res"] == "delivered"]
    dropped = [l for l in pk if l["res"] == "dropped"]
    short = [l for l in pk if l["in"]["plen"] < 2]
    ctx.cov["evaluations"] = len(lines)
    ctx.cov["traces_validated_against_impl"] = len(lines)
    ctx.cov["packets_replayed"] = len(pk)
    ctx.cov["delivered"] = len(delivered)
    ctx.cov["dropped"] = len(dropped)
    ctx.cov["too_short_sent"] = len(short)
    ctx.cov["driver_crashes"] = crashes
    ctx.cov["layouts"] = len(layouts)
    ctx.cov["fillings_per_layout"] = fillings
    ctx.cov["not_delivered_though_long_enough"] = sum(1 for l in pk if l["in"]["plen"] >= 2 and l["res"] != "delivered")
    ctx.cov["samples"] = [{k: l[k] for k in ("sig", "in", "res", "out", "att")} for l in (delivered[:1] + delivered[-1:] + dropped[:1])]
    ctx.assumptions += [
        "RTX packets enter at the repair stream's interceptor (SRTP decryption, which rejects packets whose header does "
        "not fit, is in front of it and is not exercised)",
        "one primary packet is read before the first retransmission, as on a real stream",
        "header views are computed by the driver's own RFC 3550 parser; payloads and extension data are compared "
        "through length + SHA-256 prefix",
    ]
    cnt = ctx.cov["predicates"]
    missing = [p for p in PREDS if cnt.get(p, 0) == 0]
    if missing and not ctx.viol:
        raise vlib.NoVerdict("predicates never exercised: %s (delivered=%d dropped=%d)" % (missing, len(delivered), len(dropped)))
    by_t = {l["t"]: l for l in lines}
    by_id = {v["id"]: v for v in vecs}

    def replay_of(v):
        return {"vector": by_id.get(v["trace"]), "recorded": by_t.get(v["trace"])}

    distinct = {(l["sig"], l.get("res", "crash")) for l in lines}
    return vlib.finish(
        ctx, "model_checking",
        rule="TLC exhausts the byte-level transcription of the RTX rewrite over every layout (cc 0..15 x {no extension, "
             "3 profiles x lengths} x paddings x payload lengths x marker); every layout is then sent, with seeded byte "
             "fillings (boundary values over-represented), through a real RTPReceiver/TrackRemote and each packet read "
             "back is judged by TLC; one evaluation = one packet; distinct = distinct (layout, outcome)",
        distinct_nontrivial=len(distinct), exhaustive=True, replay_of=replay_of)
