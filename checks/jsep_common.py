"""C01, C02, C03 share the JSEP model (spec/Jsep.tla), the driver TestVerifJsep and the trace spec."""
import os
import vlib


def run_jsep(ctx, focus):
    quick = ctx.quick
    # 1. model check the intended machine (invariants + action properties hold on the model) and
    #    emit its complete labelled state graph
    res = vlib.tlc_model(ctx, "Jsep", "Jsep_MC", workers=1)
    g = vlib.graph_from(res)
    ctx.log("graph: %d states, %d labelled edges" % (len(g.nodes), g.nedges))
    # 1b. the as-is variant: TLC itself must exhibit the rollback counterexample (C02 model level)
    asis = vlib.tlc_expect_violation(ctx, "Jsep", "Jsep_asis", workers=1)
    ctx.cov["asis_model_rc"] = asis.rc
    g2 = vlib.graph_from(asis)

    # 2. behaviours
    maxlen = 10 if quick else 14
    if focus == "C01":
        want = lambda a, f, t: a.get("bad", "none") == "none"
        nwalk = 150 if quick else 3000
    elif focus == "C02":
        want = lambda a, f, t: a.get("type") == "rollback"
        nwalk = 60 if quick else 1500
    else:
        want = lambda a, f, t: a.get("exp") == "err" and a.get("op", "").startswith("Set")
        nwalk = 100 if quick else 2000
    paths = g.edge_cover(ctx.rng, maxlen, want=want, tail=2)
    paths += g2.edge_cover(ctx.rng, maxlen, want=want, tail=2)
    walks = g.random_walks(ctx.rng, nwalk, maxlen) + g2.random_walks(ctx.rng, nwalk, maxlen)
    if focus == "C02":
        # walks biased to contain a rollback: keep those that have one
        walks = [p for p in walks if any(a.get("type") == "rollback" for _, a, _ in p)]
    paths += walks
    if quick:
        # quick tier: a seeded sample of the cover, bounded in API calls (the thorough tier replays all of it)
        budget = {"C01": 12000, "C02": 12000}.get(focus, 16000)
        ctx.rng.shuffle(paths)
        total, kept = 0, []
        for p in paths:
            if total >= budget:
                break
            kept.append(p)
            total += len(p)
        ctx.cov["quick_sample_of_cover"] = {"paths_kept": len(kept), "paths_in_cover": len(paths)}
        paths = kept
    beh = vlib.behaviours_from_paths(paths)
    if focus == "C03":
        # whether a description is rejected before or after the transition must not depend on the configured semantics
        for b in beh:
            b["sem"] = ("unified", "planb", "fallback")[b["id"] % 3]
    ctx.log("%d behaviours (%d steps)" % (len(beh), sum(len(b["steps"]) for b in beh)))
    infile = vlib.write_json(os.path.join(ctx.work, "behaviours.json"), beh)
    trace = os.path.join(ctx.work, "trace.ndjson")

    # 3. replay on real PeerConnections
    binary = vlib.go_build(ctx, "jsep")
    vlib.go_run(ctx, binary, "TestVerifJsep", infile, trace, timeout=1500)

    # 4. TLC validates what pion did
    viol = vlib.tlc_trace(ctx, "Jsep_Trace", "Jsep_Trace", trace)
    ctx.viol = viol
    lines = vlib.read_ndjson(trace)
    calls = [l for l in lines if l.get("ev") == "call"]
    distinct = {(l["b"]["sig"], l["op"], l["type"], l["sig"], l["res"]) for l in calls}
    ctx.cov["evaluations"] = len(calls)
    ctx.cov["traces_validated_against_impl"] = len(beh)
    ctx.cov["real_states_seen"] = sorted({l["a"]["sig"] for l in calls})
    drift = sum(1 for l in calls if l.get("exp") and l["exp"] != l["res"])
    ctx.cov["model_drift_steps"] = drift
    ctx.cov["samples"] = [{"behaviour": b["steps"][:6]} for b in beh[:2]] + \
        [{k: l[k] for k in ("op", "type", "desc", "res", "b", "a", "events")} for l in calls[:2]]
    keep = {}
    for l in calls:
        keep.setdefault(l["t"], []).append(l)

    def replay_of(v):
        return {"steps": beh[v["trace"]]["steps"] if v["trace"] < len(beh) else None,
                "recorded": keep.get(v["trace"], [])[:40]}

    own_preds = {k: n for k, n in ctx.cov["predicates"].items()}
    if not any(n for k, n in own_preds.items()):
        raise vlib.NoVerdict("no predicate was exercised")
    return vlib.finish(
        ctx, "model_checking",
        rule="behaviours = edge cover of the TLC state graph of Jsep.tla (intended and as-is variants) restricted to the "
             "edges that stress this property, plus seeded random walks; one evaluation = one API call on a real "
             "PeerConnection judged by TLC; distinct = distinct (state before, op, type, source, defect class, result)",
        distinct_nontrivial=len(distinct), exhaustive=True, replay_of=replay_of)
