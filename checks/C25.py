"""C25 — ICE candidates round-trip through their signaling form.

spec/CandidateOps.tla   normative operators (RoundTrip field by field, HasForeignUfrag)
spec/Candidate.tla      the pipeline ToJSON -> AddICECandidate with the extension splitter of
                        icecandidate.go as a character automaton; TLC checks the intended variant
                        exhaustively (Candidate_MC.cfg, thorough: Candidate_MC3.cfg) and exhibits the two
                        places where the pinned code loses information (Candidate_asisRel/asisDup.cfg)
Candidate_Vec.cfg       seeded, stratified sample of the full candidate space (replayed)
harness/candidate       real ice candidates -> newICECandidateFromICE -> ToJSON -> AddICECandidate
spec/Candidate_Trace    TLC judges every recorded candidate
"""
import os

import vlib

PREDS = ["Accepted", "ReachesTransport", "ForeignUfragDroppedSilently"]


def _parallel_trace(ctx, spec, cfg, trace, parts, chunk):
    """vlib.tlc_trace on `parts` slices of the trace (cut at reset lines) at the same time. Each slice
    gets its own scratch directory and coverage record (vlib.run_tlc names its directories by
    counting, which is not safe to share between threads); the counts are merged afterwards."""
    import copy
    import threading
    lines = [l for l in open(trace).read().splitlines() if l.strip()]
    cuts = [i for i, l in enumerate(lines) if '"ev":"reset"' in l.replace(" ", "")]
    if parts <= 1 or len(cuts) < 2 * parts:
        return vlib.tlc_trace(ctx, spec, cfg, trace, timeout=900, chunk=chunk)
    bounds = [cuts[(len(cuts) * k) // parts] for k in range(parts)] + [len(lines)]
    bounds[0] = 0
    subs, results, errors = [], {}, {}

    def work(k, sub, path):
        try:
            results[k] = vlib.tlc_trace(sub, spec, cfg, path, timeout=900, chunk=chunk)
        except Exception as e:  # NoVerdict included: re-raised by the caller
            errors[k] = e

    threads = []
    for k in range(parts):
        sub = copy.copy(ctx)
        sub.work = os.path.join(ctx.work, "part%d" % k)
        os.makedirs(sub.work, exist_ok=True)
        sub.cov = {"tlc_runs": [], "predicates": {}}
        sub.log = lambda *a: None
        path = os.path.join(sub.work, "slice.ndjson")
        with open(path, "w") as fh:
            fh.write("\n".join(lines[bounds[k]:bounds[k + 1]]) + "\n")
        subs.append(sub)
        th = threading.Thread(target=work, args=(k, sub, path))
        th.start()
        threads.append(th)
    for th in threads:
        th.join()
    if errors:
        raise errors[min(errors)]
    viol = []
    for k in range(parts):
        for r in results[k]:
            r = dict(r)
            r["line"] = r["line"] + bounds[k]
            viol.append(r)
        ctx.cov["tlc_runs"] += subs[k].cov["tlc_runs"]
        for n, c in subs[k].cov["predicates"].items():
            ctx.cov["predicates"][n] = ctx.cov["predicates"].get(n, 0) + c
        ctx.cov["trace_lines_validated"] = ctx.cov.get("trace_lines_validated", 0) + subs[k].cov.get("trace_lines_validated", 0)
    ctx.log("TLC trace %s: %d lines in %d parallel slices, %d violation records" %
            (spec, ctx.cov["trace_lines_validated"], parts, len(viol)))
    return viol


def run(ctx):
    quick = ctx.quick
    # 1. the intended pipeline round-trips every candidate of the bounded space (all stages, all
    #    extension lists: Parse(Print(exts)) = exts is the invariant ModelSplitInverse)
    #    The initial states (= the vectors of the bounded space) are printed while TLC computes them
    #    (sequentially, before the workers start), so several workers are safe here.
    mc = vlib.tlc_model(ctx, "Candidate", "Candidate_MC", workers=8, timeout=600)
    bounded = [v[0] for v in mc.tag("VERIF_VEC")]
    if not quick:
        mc3 = vlib.tlc_model(ctx, "Candidate", "Candidate_MC3", workers=12, timeout=900)
        bounded += [v[0] for v in mc3.tag("VERIF_VEC")]
    if not bounded:
        raise vlib.NoVerdict("the model emitted no vectors")
    # 1b. the pinned code: TLC itself exhibits both losses (model level; confirmed or refuted by the replay)
    for cfg in ("Candidate_asisRel", "Candidate_asisDup"):
        r = vlib.tlc_expect_violation(ctx, "Candidate", cfg, workers=4, timeout=300)
        inv = [l for l in r.stdout.splitlines() if l.startswith("Error: Invariant")]
        ctx.cov["model_" + cfg] = {"rc": r.rc, "violated": inv[0].split()[2] if inv else "none"}
        if r.rc not in (12, 13) or not inv:
            ctx.notes.append("model drift: %s did not produce the expected counterexample (rc=%s)" % (cfg, r.rc))

    # 2. vectors: a seeded sample of the full space, stratified by candidate class and list length
    want = 3000 if quick else 100000
    # the sample is cut by Valid(): oversample (measured yield is about 0.6)
    #    (run_tlc, not tlc_model: enumerating the sample is not a model-checking result and is not
    #    counted in the evidence's states)
    res = vlib.run_tlc(ctx, "Candidate", "Candidate_Vec", workers=1, timeout=600,
                       extra_env={"VERIF_NVEC": int(want * 1.75)})
    vecs = [v[0] for v in res.tag("VERIF_VEC")]
    if res.rc != 0 or not vecs:
        raise vlib.NoVerdict("vector sampling failed (rc=%s):\n%s" % (res.rc, res.error))
    ctx.rng.shuffle(vecs)
    vecs = vecs[:want]
    nsample = len(vecs)
    vecs = bounded + vecs          # every vector of the exhaustively checked space, then the sample
    for i, v in enumerate(vecs):
        v["id"] = i
    ctx.log("%d vectors: %d = the whole bounded model space, %d sampled from the full space" %
            (len(vecs), len(bounded), nsample))
    infile = vlib.write_json(os.path.join(ctx.work, "vectors.json"), vecs)
    trace = os.path.join(ctx.work, "trace.ndjson")

    # 3. replay on real PeerConnections
    binary = vlib.go_build(ctx, "candidate")
    vlib.go_run(ctx, binary, "TestVerifCandidate", infile, trace, timeout=500)
    ctx.log("replayed")

    # 4. TLC judges what pion did
    ctx.viol = _parallel_trace(ctx, "Candidate_Trace", "Candidate_Trace", trace, 3 if quick else 8, 5000)
    lines = vlib.read_ndjson(trace)
    cands = [l for l in lines if l.get("ev") == "cand"]
    unrep = [l for l in lines if l.get("ev") == "unrep"]
    if not cands:
        raise vlib.NoVerdict("no candidate could be built")
    ctx.cov["evaluations"] = len(cands)
    ctx.cov["traces_validated_against_impl"] = len(cands)
    ctx.cov["vectors"] = len(vecs)
    ctx.cov["vectors_bounded_space_exhaustive"] = len(bounded)
    ctx.cov["vectors_sampled_full_space"] = nsample
    ctx.cov["not_representable"] = len(unrep)
    ctx.cov["not_representable_reasons"] = sorted({l["why"][:80] for l in unrep})[:5]
    ctx.cov["reached_agent"] = sum(1 for l in cands if l["reached"])
    ctx.cov["add_ice_candidate_errors"] = sum(1 for l in cands if l["err"])
    foreign = [l for l in cands if any(e[0] == "ufrag" and e[1] not in l["ufrags"] for e in l["before"]["exts"])]
    ctx.cov["foreign_ufrag_candidates"] = len(foreign)
    by = {}
    for l in cands:
        v = l["vec"]
        by.setdefault((v["typ"], v["proto"], v["addr"], v["rel"], v["tcptype"], v["next"], v["via"]), l)
    ctx.cov["samples"] = [{k: l[k] for k in ("vec", "before", "jsonstr", "err", "reached")} for l in cands[:3]]
    ctx.assumptions += [
        "the remote description is a genuine offer of a throw-away pion peer (one ufrag); multicast DNS is disabled "
        "on the PeerConnection under test, so .local candidates are judged on their JSON form only",
        "remote active-TCP candidates are not listed by pion/ice's agent by design; they are judged on their JSON form only",
        "arrival in the ICE agent is asynchronous: the driver waits up to 20 s per batch of 250 (typical: < 1 ms)",
        "tcptype ranges over host candidates only and IPv6 zone ids are excluded (pion/ice discards both when parsing)",
    ]
    cnt = ctx.cov["predicates"]
    missing = [p for p in PREDS if cnt.get(p, 0) == 0]
    if not any(n for k, n in cnt.items() if k.startswith("FieldsEqual:json/")) or \
            not any(n for k, n in cnt.items() if k.startswith("FieldsEqual:agent/")):
        missing.append("FieldsEqual")
    if missing and not ctx.viol:
        raise vlib.NoVerdict("predicates never exercised: %s" % missing)
    by_t = {l["t"]: l for l in cands}
    by_id = {v["id"]: v for v in vecs}

    def replay_of(v):
        return {"vector": by_id.get(v["trace"]), "recorded": by_t.get(v["trace"])}

    return vlib.finish(
        ctx, "model_checking",
        rule="TLC exhausts the pipeline model over a bounded candidate space (all extension lists up to the bound, every "
             "stage an invariant); every vector of that space is replayed, plus a seeded TLC sample (RandomSubset, stratified by host/non-host and extension-list length 0..3) of "
             "via x type x protocol x address form x port x priority x component x foundation x related address x "
             "tcptype x extension lists; one evaluation = one candidate taken through ToJSON and AddICECandidate on a "
             "real PeerConnection and judged by TLC field by field; distinct = distinct (type, protocol, address form, "
             "related class, tcptype, list length, construction)",
        distinct_nontrivial=len(by), exhaustive=True, replay_of=replay_of)
