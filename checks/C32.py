import os, sys
sys.path.insert(0, os.path.dirname(os.path.abspath(__file__)))
import ivf_common


def run(ctx):
    return ivf_common.run_ivf(ctx)
