"""C14 — DTLS authenticates the peer against the signalled fingerprint (spec/DtlsFp.tla; vectors on real pairs)."""
import os
import vlib


def run(ctx):
    res = vlib.tlc_model(ctx, "DtlsFp", "DtlsFp", workers=1)
    vecs = [v[0] for v in res.tag("VERIF_VEC")]
    if ctx.quick:   # every fingerprint class x verification x verifier; certificate kind and placement rotate
        keep, seen = [], {}
        ctx.rng.shuffle(vecs)
        for v in vecs:
            k = (v["fp"], v["verifyOff"], v["verifier"])
            if seen.get(k, 0) < 2:
                seen[k] = seen.get(k, 0) + 1
                keep.append(v)
        # ... and every certificate arrangement with an untouched description, on both sides
        have = {(v["cert"], v["verifier"]) for v in keep if v["fp"] == "correct" and not v["verifyOff"]}
        for v in vecs:
            k = (v["cert"], v["verifier"])
            if v["fp"] == "correct" and not v["verifyOff"] and v["place"] == "media" and k not in have:
                have.add(k)
                keep.append(v)
        vecs = keep
    ctx.log("%d vectors" % len(vecs))
    binary = vlib.go_build(ctx, "dtlsfp")
    infile = vlib.write_json(os.path.join(ctx.work, "vecs.json"), vecs)
    trace = os.path.join(ctx.work, "trace.ndjson")
    vlib.go_run(ctx, binary, "TestVerifDtlsFp", infile, trace, timeout=2400)
    # a peer that is not pion: a raw DTLS client with its own key that may append the honest certificate to its chain
    chain = [{"chain": c, "role": "server"} for c in ("own", "own+honest", "own+honest+own", "honest-key")]
    cin = vlib.write_json(os.path.join(ctx.work, "chains.json"), chain)
    ctrace = os.path.join(ctx.work, "chain.ndjson")
    vlib.go_run(ctx, binary, "TestVerifDtlsChain", cin, ctrace, timeout=600)
    with open(trace, "a") as fh:
        fh.write(open(ctrace).read())
    ctx.viol = vlib.tlc_trace(ctx, "DtlsFp_Trace", "DtlsFp_Trace", trace)
    pr = ctx.cov["predicates"]
    lines = [l for l in vlib.read_ndjson(trace) if l["ev"] == "dtls"]
    connected_ok = sum(1 for l in lines if l["fp"] in ("correct", "sha512-correct") and "connected" in l["verifierStates"])
    ctx.cov["matching_vectors_that_connected"] = connected_ok
    if not pr.get("MismatchNeverConnected") or not pr.get("AdvertisedEqualsPresented") or connected_ok == 0:
        raise vlib.NoVerdict("predicates not exercised: %s (connected with a matching fingerprint: %d)" % (pr, connected_ok))
    ctx.cov["evaluations"] = len(lines)
    ctx.cov["traces_validated_against_impl"] = len(lines)
    ctx.cov["samples"] = lines[:2]
    return vlib.finish(
        ctx, "exploration",
        rule="vectors = TLC enumeration of DtlsFp.tla (certificate kind x fingerprint class x placement x verification switch x "
             "verifying side; quick: two per (class, switch, side)), each on a real pair over loopback with the received "
             "description's fingerprint rewritten; a mismatch is observed until the handshake failed or the window ended",
        distinct_nontrivial=len({l["sig"] for l in lines}), exhaustive=not ctx.quick,
        replay_of=lambda v: {"recorded": [l for l in lines if l["t"] == v["trace"]]})
