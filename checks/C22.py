"""C22 - connection state is the W3C aggregate of closed flag, ICE and DTLS state; notify iff changed.

spec/ConnStateOps.tla (normative), spec/ConnState.tla (transcription of updateConnectionState, all 70
inputs and all update sequences, emitted as a graph), harness/connstate (in-package driver),
spec/ConnState_Trace.tla (verdicts)."""
import concurrent.futures
import os
import sys
sys.path.insert(0, os.path.dirname(os.path.abspath(__file__)))
import vlib  # noqa: E402


def run(ctx):
    quick = ctx.quick
    # the test binary is built while TLC runs
    pool = concurrent.futures.ThreadPoolExecutor(1)
    build = pool.submit(vlib.go_build, ctx, "connstate")
    # 1. the model: table facts over the 70 inputs, the transcribed switch equals the table, the
    #    aggregate / notification properties hold on every transition of the update machine
    res = vlib.tlc_model(ctx, "ConnState", "ConnState_MC", workers=1)
    g = vlib.graph_from(res)
    ctx.log("graph: %d states, %d labelled edges" % (len(g.nodes), g.nedges))
    if g.nedges != 6 * 70:
        raise vlib.NoVerdict("unexpected graph size %d (want 420 = 6 states x 70 inputs)" % g.nedges)
    # 1b. the table quoted in the code's comments is a different function: TLC exhibits the cell
    alt = vlib.tlc_expect_violation(ctx, "ConnState", "ConnState_comment", workers=1)
    ctx.cov["comment_table_model_rc"] = alt.rc
    ctx.cov["comment_table_counterexample_found"] = "ModelAggregate is violated" in alt.stdout

    # 2. behaviours: every pair of updates from a fresh connection (70 x 70: contains all 70 single
    #    inputs from the initial state and every (state before, input) edge of the graph), plus
    #    seeded longer walks
    paths = g.all_paths(2, 10000)
    if paths is None or len(paths) != 4900:
        raise vlib.NoVerdict("expected the 4900 two-step paths")
    nwalk, wlen = (150, 6) if quick else (6000, 12)
    paths += g.random_walks(ctx.rng, nwalk, wlen)
    beh = vlib.behaviours_from_paths(paths)
    steps = sum(len(b["steps"]) for b in beh)
    ctx.log("%d behaviours (%d updates)" % (len(beh), steps))
    infile = vlib.write_json(os.path.join(ctx.work, "behaviours.json"), beh)
    trace = os.path.join(ctx.work, "trace.ndjson")

    # 3. replay on real PeerConnections
    binary = build.result()
    vlib.go_run(ctx, binary, "TestVerifConnState", infile, trace, timeout=400)
    lines = [l for l in vlib.read_ndjson(trace) if l.get("ev") == "upd"]
    # every behaviour ends with the real Close (recorded as one more update)
    if len(lines) != steps + len(beh):
        raise vlib.NoVerdict("driver recorded %d of %d updates" % (len(lines), steps + len(beh)))

    # 3b. real connected pairs (weak, order-insensitive predicates); one TLC run validates both files
    npairs = 4 if quick else 40
    ptrace = os.path.join(ctx.work, "pairs.ndjson")
    vlib.go_run(ctx, binary, "TestVerifConnStatePairs", None, ptrace, env={"VERIF_CS_PAIRS": npairs}, timeout=300)
    with open(trace, "a") as fh:
        fh.write(open(ptrace).read())
    viol = vlib.tlc_trace(ctx, "ConnState_Trace", "ConnState_Trace", trace, chunk=12000)
    plines = [l for l in vlib.read_ndjson(ptrace) if l.get("ev") == "pair"]
    undriven = sum(1 for l in plines if not l.get("driven"))
    ctx.cov["pair_phases_recorded"] = len(plines)
    ctx.cov["pair_phases_not_driven"] = undriven
    ctx.cov["pair_reported_states"] = sorted({c for l in plines for c in l["conns"]})
    ctx.viol = viol

    # 4. coverage / vacuity
    inputs = {(l["closed"], l["ice"], l["dtls"]) for l in lines}
    edges = {(l["before"], l["closed"], l["ice"], l["dtls"]) for l in lines}
    pairs2 = {(tuple(sorted(a.items())), tuple(sorted(b.items())))
              for bh in beh if len(bh["steps"]) == 2
              for a, b in [({k: bh["steps"][0][k] for k in ("closed", "ice", "dtls")},
                            {k: bh["steps"][1][k] for k in ("closed", "ice", "dtls")})]}
    model = {(b["id"], k): a for b in beh for k, a in enumerate(b["steps"])}
    closes = [l for l in lines if l["ice"] == "by-close"]      # the real Close that ends every behaviour
    ctx.cov["real_closes_recorded"] = len(closes)
    ctx.cov["real_closes_with_racing_update"] = sum(1 for l in closes if "racing-update=true" in l["sig"])
    lines_m = [l for l in lines if l["ice"] != "by-close"]
    inputs = {(l["closed"], l["ice"], l["dtls"]) for l in lines_m}
    edges = {(l["before"], l["closed"], l["ice"], l["dtls"]) for l in lines_m}
    drift = sum(1 for l in lines_m
                if model[(l["t"], l["k"])].get("exp") != l["after"] or model[(l["t"], l["k"])].get("notes") != l["notes"])
    ctx.cov["evaluations"] = len(lines) + len(plines)
    ctx.cov["traces_validated_against_impl"] = len(beh) + npairs
    ctx.cov["inputs_replayed"] = len(inputs)
    ctx.cov["state_input_edges_replayed"] = len(edges)
    ctx.cov["update_pairs_replayed"] = len(pairs2)
    ctx.cov["states_seen_in_impl"] = sorted({l["after"] for l in lines})
    ctx.cov["notifications_recorded"] = sum(len(l["notes"]) for l in lines)
    ctx.cov["model_drift_steps"] = drift
    ctx.cov["samples"] = [{k: l[k] for k in ("closed", "ice", "dtls", "before", "after", "notes")} for l in lines[:3]] + \
        [{k: l[k] for k in ("side", "phase", "ices", "dtlss", "conns", "snaps")} for l in plines[:2]]
    ctx.assumptions += [
        "one ICE transport and one DTLS transport per PeerConnection (pion's architecture), so the table's any/all quantifiers are over one value each",
        "where the W3C Recommendation wording and the current editor's-draft wording of the table differ (3 of 70 cells, enumerated by TLC in TableFacts) either value is accepted",
        "handler invocations are attributed to the update that precedes them after waiting for the expected one (2 s watchdog) and a short settle for stray ones",
        "isClosed is preset by the driver (in-package); ICE/DTLS 'unknown' (value 0) is outside the 70 inputs",
    ]
    need = ["Aggregate", "NotifyOnlyIfChanged", "NotifiedWhenChanged", "ReportedIsSomeAggregate", "AggregateAtRest"]
    missing = [p for p in need if not ctx.cov["predicates"].get(p)]
    if missing:
        raise vlib.NoVerdict("predicates not exercised: %s" % missing)
    if len(inputs) != 70 or len(pairs2) != 4900:
        raise vlib.NoVerdict("replayed %d inputs / %d pairs instead of 70 / 4900" % (len(inputs), len(pairs2)))

    keep = {}
    for l in lines:
        keep.setdefault(l["t"], []).append(l)

    def replay_of(v):
        t = v.get("trace")
        return {"steps": beh[t]["steps"] if isinstance(t, int) and t < len(beh) else None, "recorded": keep.get(t, [])[:20]}

    return vlib.finish(
        ctx, "model_checking",
        rule="TLC: the transcribed switch equals the normative table on all 70 inputs and the update machine satisfies "
             "aggregate/notify on every transition; replay: all 70 x 70 pairs of updates from a fresh PeerConnection (every "
             "input, every (state before, input) edge) plus seeded walks through updateConnectionState, each update judged by "
             "TLC; plus real connected/closed pairs judged by the weak order-insensitive predicates. distinct = distinct "
             "(state before, closed, ice, dtls) replayed",
        distinct_nontrivial=len(edges), exhaustive=True, replay_of=replay_of)
