"""C11 — o= session id fixed, version strictly increasing (spec/Origin.tla; gates in updateSDPOrigin)."""
import os
import re
import vlib


def run(ctx):
    quick = ctx.quick
    beh = []
    for lk in ("TRUE", "FALSE"):
        res = vlib.tlc_model(ctx, "Origin", "Origin_" + lk, workers=1)
        g = vlib.graph_from(res)
        paths = g.edge_cover(ctx.rng, 40, maximal=True) + g.random_walks(ctx.rng, 60 if quick else 2000, 40)
        for p in paths:
            beh.append({"id": len(beh), "callers": ["a", "b", "c"], "steps": [a for _, a, _ in p], "free": False, "rounds": 1})
    nsched = len(beh)
    for j in range(150 if quick else 3000):
        beh.append({"id": len(beh), "callers": ["a", "b", "c", "d"][: 2 + j % 3], "steps": [], "free": True, "rounds": 1 + j % 4})
    for j in range(10 if quick else 200):
        beh.append({"id": len(beh), "callers": [], "steps": [], "free": True, "rounds": 0, "burst": 2 + (j * 3) % 15})
    # sequential offers, some generated twice inside CreateOffer because a transceiver changed meanwhile: every pattern of 4
    for m in range(16):
        beh.append({"id": len(beh), "callers": [], "steps": [], "free": True, "rounds": 0, "armed": [bool(m >> i & 1) for i in range(4)]})
    ctx.log("%d schedules + %d free-running runs, bursts and recompute runs" % (nsched, len(beh) - nsched))
    binary = vlib.go_build(ctx, "origin")
    infile = vlib.write_json(os.path.join(ctx.work, "behaviours.json"), beh)
    trace = os.path.join(ctx.work, "trace.ndjson")
    rc, out = vlib.go_run(ctx, binary, "TestVerifOrigin", infile, trace, timeout=1800)
    m = re.search(r"VERIF_STAT behaviours=(\d+) not_driven=(\d+)", out)
    ctx.cov["behaviours_not_completed"] = int(m.group(2)) if m else -1
    ctx.viol = vlib.tlc_trace(ctx, "Origin_Trace", "Origin_Trace", trace)
    pr = ctx.cov["predicates"]
    if not pr.get("RealTimeOrder") or not pr.get("SameSessionId"):
        raise vlib.NoVerdict("predicates not exercised: %s" % pr)
    lines = vlib.read_ndjson(trace)
    calls = [l for l in lines if l["ev"] == "call"]
    ctx.cov["evaluations"] = len(calls)
    ctx.cov["traces_validated_against_impl"] = len(beh)
    ctx.cov["samples"] = [{"schedule": beh[0]["steps"][:12]}, calls[:3]]
    distinct = {tuple((s["proc"], s["label"]) for s in b["steps"]) for b in beh if not b["free"]}
    bytrace = {}
    for l in lines:
        bytrace.setdefault(l["t"], []).append(l)
    return vlib.finish(
        ctx, "model_checking",
        rule="schedules = edge cover + seeded maximal walks of the TLC state graphs of Origin.tla (3 callers, with and without the "
             "enclosing lock), driven with gates inside updateSDPOrigin under concurrent CreateOffer/CreateAnswer on one "
             "PeerConnection in have-remote-offer; callers that wait for pc.mu are skipped until they arrive; plus free-running "
             "runs with 2-4 callers and 1-4 calls each; distinct = distinct schedules",
        distinct_nontrivial=len(distinct), exhaustive=False,
        replay_of=lambda v: {"behaviour": beh[v["trace"]], "recorded": bytrace.get(v["trace"], [])})
