"""C11 — o= session id fixed, version strictly increasing (spec/Origin.tla; gates in updateSDPOrigin)."""
import os
import re
import sys
sys.path.insert(0, os.path.dirname(os.path.abspath(__file__)))
import vlib


def run(ctx):
    quick = ctx.quick
    beh = []
    for lk in ("TRUE", "FALSE"):
        res = vlib.tlc_model(ctx, "Origin", "Origin_" + lk, workers=1)
        g = vlib.graph_from(res)
        paths = g.edge_cover(ctx.rng, 40, maximal=True) + g.random_walks(ctx.rng, 60 if quick else 2000, 40)
        for p in paths:
            beh.append({"id": len(beh), "callers": ["a", "b", "c"], "steps": [a for _, a, _ in p], "free": False, "rounds": 1})
    nsched = len(beh)
    for j in range(150 if quick else 3000):
        beh.append({"id": len(beh), "callers": ["a", "b", "c", "d"][: 2 + j % 3], "steps": [], "free": True, "rounds": 1 + j % 4})
    for j in range(10 if quick else 200):
        beh.append({"id": len(beh), "callers": [], "steps": [], "free": True, "rounds": 0, "burst": 2 + (j * 3) % 15})
    # sequential offers, some generated twice inside CreateOffer because a transceiver changed meanwhile: every pattern of 4
    for m in range(16):
        beh.append({"id": len(beh), "callers": [], "steps": [], "free": True, "rounds": 0, "armed": [bool(m >> i & 1) for i in range(4)]})
    ctx.log("%d schedules + %d free-running runs, bursts and recompute runs" % (nsched, len(beh) - nsched))
    binary = vlib.go_build(ctx, "origin")
    infile = vlib.write_json(os.path.join(ctx.work, "behaviours.json"), beh)
    trace = os.path.join(ctx.work, "trace.ndjson")
    rc, out = vlib.go_run(ctx, binary, "TestVerifOrigin", infile, trace, timeout=1800)
    m = re.search(r"VERIF_STAT behaviours=(\d+) not_driven=(\d+)", out)
    ctx.cov["behaviours_not_completed"] = int(m.group(2)) if m else -1
    ctx.viol = vlib.tlc_trace(ctx, "Origin_Trace", "Origin_Trace", trace)
    pr = ctx.cov["predicates"]
    if not pr.get("RealTimeOrder") or not pr.get("SameSessionId"):
        raise vlib.NoVerdict("predicates not exercised: %s" % pr)
    lines = vlib.read_ndjson(trace)
    calls = [l for l in lines if l["ev"] == "call"]
    ctx.cov["evaluations"] = len(calls)
    ctx.cov["traces_validated_against_impl"] = len(beh)
    ctx.cov["samples"] = [{"schedule": beh[0]["steps"][:12]}, calls[:3]]
    distinct = {tuple((s["proc"], s["label"]) for s in b["steps"]) for b in beh if not b["free"]}
    bytrace = {}
    for l in lines:
        bytrace.setdefault(l["t"], []).append(l)
    # sequential histories: the SDP family (PeerConn.tla histories, synthetic offers answered provisionally and
    # finally, unapplied offers) under every SDPSemantics; Sdp_Trace judges session id and version of every
    # description an endpoint generates, in order
    import sdp_common
    viol_sched, pr_sched = list(ctx.viol), dict(pr)
    work = ctx.work
    ctx.work = os.path.join(work, "seq")
    os.makedirs(ctx.work, exist_ok=True)
    seq = sdp_common.sdp_traces(ctx, ["default", "planb", "fallback"], 90, 2000, ["SeqSameSessionId", "SeqVersionIncreasing"])
    ctx.work = work
    for v in ctx.viol:
        v["family"] = "seq"
    seq_eval = ctx.cov.pop("evaluations", 0)
    ctx.viol = viol_sched + list(ctx.viol)
    merged = {k: n for k, n in ctx.cov.get("predicates", {}).items() if k.startswith("Seq")}   # C11's own
    merged.update(pr_sched)
    ctx.cov["predicates"] = merged
    ctx.cov["evaluations"] = len(calls) + seq_eval
    ctx.cov["sequential_histories"] = len(seq["beh"])
    ctx.cov["traces_validated_against_impl"] = len(beh) + len(seq["beh"])
    sched_replay = lambda v: {"behaviour": beh[v["trace"]], "recorded": bytrace.get(v["trace"], [])}  # noqa: E731
    return vlib.finish(
        ctx, "model_checking",
        rule="schedules = edge cover + seeded maximal walks of the TLC state graphs of Origin.tla (3 callers, with and without the "
             "enclosing lock), driven with gates inside updateSDPOrigin under concurrent CreateOffer/CreateAnswer on one "
             "PeerConnection in have-remote-offer; callers that wait for pc.mu are skipped until they arrive; plus free-running "
             "runs with 2-4 callers and 1-4 calls each; plus sequential histories: the SDP family (PeerConn.tla histories, "
             "synthetic offers answered provisionally and then finally, unapplied offers) under Unified Plan, Plan B and "
             "fallback semantics, where every generated description must carry the endpoint's session id and a version "
             "above the previous one; distinct = distinct schedules",
        distinct_nontrivial=len(distinct), exhaustive=False,
        replay_of=lambda v: seq["replay_of"](v) if v.get("family") == "seq" else sched_replay(v))
