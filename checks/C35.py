import os, sys
sys.path.insert(0, os.path.dirname(os.path.abspath(__file__)))
import annexb_common


def run(ctx):
    return annexb_common.run_c35(ctx)
