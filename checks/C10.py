import os, sys
sys.path.insert(0, os.path.dirname(os.path.abspath(__file__)))
import sdp_common


def run(ctx):
    return sdp_common.run_sdp(ctx, "C10", ['default','rtxorphan','manyext','fallback','ptcollide'], 150, 4000, ['PayloadsUnique','AttrsReferToListed','AptListed','ExtmapOK'])
