"""C36 - rtpdump files round-trip, and malformed records are rejected.

spec/RtpDumpOps.tla (format + normative operators), spec/RtpDump.tla (writer/reader transcribed, as-is
and intended), harness/rtpdump (driver), spec/RtpDump_Trace.tla (trace spec)."""
import os
import sys

sys.path.insert(0, os.path.dirname(os.path.abspath(__file__)))
import vlib  # noqa: E402
from readers_common import run_parallel, counterexample  # noqa: E402


def run(ctx):
    quick = ctx.quick
    # 1. TLC: the intended writer/reader satisfies the normative operators on the whole boundary domain;
    #    the transcription of the pinned code (Impl "asis") is refuted for packets and for the reader, the
    #    transcription of the code as it is now (Impl "current": c5e853e repaired those two, Header.Marshal
    #    is unchanged) is refuted for the header; the "current" run without normative invariants emits the
    #    vectors with the transcription's predictions.
    jobs = [("mc", "RtpDump", "RtpDump_MC" if quick else "RtpDump_MCT", dict(workers=4 if quick else 8, timeout=500)),
            ("asisW", "RtpDump", "RtpDump_asisW", dict(workers=1, timeout=300)),
            ("asisH", "RtpDump", "RtpDump_asisH", dict(workers=1, timeout=300)),
            ("asisR", "RtpDump", "RtpDump_asisR", dict(workers=1, timeout=300)),
            ("emit", "RtpDump", "RtpDump_emit" if quick else "RtpDump_emitT", dict(workers=1, timeout=500))]
    r = run_parallel(ctx, jobs)
    mc = r["mc"]
    if mc.rc != 0:
        raise vlib.NoVerdict("model check of RtpDump (intended) failed rc=%s:\n%s" % (mc.rc, mc.error or mc.stdout[-3000:]))
    ctx.cov["states"] += mc.distinct
    ctx.cov["transitions"] += mc.generated
    ctx.log("TLC model RtpDump (intended): %d states, depth %d, %.1fs: codec law, writer = format, refuses iff "
            "unrepresentable, round trip, reader rejects < 8 all hold" % (mc.distinct, mc.depth, mc.wall))
    cex = {}
    for name in ("asisW", "asisH", "asisR"):
        a = r[name]
        ctx.cov["states"] += a.distinct
        ctx.cov["transitions"] += a.generated
        inv, vec = counterexample(a)
        cex[name] = {"rc": a.rc, "violated": inv, "vector": vec}
        if a.rc == 0:
            ctx.notes.append("model drift: model %s no longer refuted by TLC" % name)
        ctx.log("TLC %s %s: rc=%s violated=%s" % ("current" if name == "asisH" else "as-is (pinned)", name, a.rc, inv))
    ctx.cov["asis_counterexamples"] = cex
    emit = r["emit"]
    if emit.rc != 0:
        raise vlib.NoVerdict("vector emission failed rc=%s:\n%s" % (emit.rc, emit.error or emit.stdout[-3000:]))
    ctx.cov["states"] += emit.distinct
    ctx.cov["transitions"] += emit.generated
    vecs = [v[0] for v in emit.tag("VERIF_VEC")]
    vecs.sort(key=vlib.canon)
    if not vecs:
        raise vlib.NoVerdict("TLC emitted no vectors")
    cases = [{"id": i, "vec": v["vec"], "exp": v["exp"]} for i, v in enumerate(vecs)]
    ctx.log("%d vectors from TLC (%d round-trip, %d raw-record)" %
            (len(cases), sum(1 for c in cases if c["vec"]["kind"] == "rt"),
             sum(1 for c in cases if c["vec"]["kind"] == "rec")))
    infile = vlib.write_json(os.path.join(ctx.work, "vectors.json"), [{"id": c["id"], "vec": c["vec"]} for c in cases])
    trace = os.path.join(ctx.work, "trace.ndjson")

    # 2. replay through the real Writer / Reader
    binary = vlib.go_build(ctx, "rtpdump")
    vlib.go_run(ctx, binary, "TestVerifRtpDump", infile, trace, timeout=900)

    # 3. TLC judges what pion did
    ctx.viol = vlib.tlc_trace(ctx, "RtpDump_Trace", "RtpDump_Trace", trace, timeout=900)

    # 4. coverage, vacuity, model drift
    lines = vlib.read_ndjson(trace)
    by_t = {}
    for ln in lines:
        if ln["ev"] != "reset":
            by_t.setdefault(ln["t"], []).append(ln)
    drift = 0
    drift_samples = []
    for c in cases:
        ev = by_t.get(c["id"], [])
        exp = c["exp"]
        h = [e for e in ev if e["ev"] == "hdr"]
        got = {"herr": h[0]["err"] if h else None,
               "perrs": [e["err"] for e in ev if e["ev"] == "pkt"]}
        want = {"herr": exp["herr"], "perrs": exp["perrs"]}
        fin = [e for e in ev if e["ev"] in ("read", "rec")]
        if fin:
            f = fin[0]
            want["open"] = exp["open"]
            got["open"] = f["open"]
            if f["ev"] == "read":
                seq = [(o["k"], o["len"], o["rtcp"], o["off"]["hi"], o["off"]["lo"]) for o in f["pkts"]]
                if f["end"] in ("eof", "err"):
                    seq.append((f["end"],))
                want["hdr"] = exp["hdr"]
                got["hdr"] = f["hdrbytes"]
            else:
                seq = [(o["k"], o["len"], o["rtcp"], o["off"]["hi"], o["off"]["lo"]) if o["k"] == "val" else (o["k"],)
                       for o in f["outs"]]
            eseq = []
            for o in exp["out"]:
                if o["k"] == "lost":
                    break
                eseq.append((o["k"], o["len"], o["rtcp"], o["off"]["hi"], o["off"]["lo"]) if o["k"] == "val" else (o["k"],))
            lost = any(o["k"] == "lost" for o in exp["out"])
            want["out"] = eseq
            got["out"] = seq[:len(eseq)] if lost else seq
        if want != got:
            drift += 1
            if len(drift_samples) < 3:
                drift_samples.append({"vec": c["vec"], "model": want, "pion": got})
    ctx.cov["model_drift_vectors"] = drift
    if drift_samples:
        ctx.cov["model_drift_samples"] = drift_samples
        ctx.notes.append("model drift: %d vectors where pion differs from the transcription of the current code (not a verdict)" % drift)
    ctx.log("transcription of the current code vs pion: %d of %d vectors differ" % (drift, len(cases)))

    preds = ctx.cov["predicates"]
    needed = ["AcceptsRepresentable", "RefusesUnrepresentable", "RoundTripHeader", "RoundTripPackets",
              "RoundTripEndsAtEof", "RejectsShortLength", "AcceptsWellFormed", "PrefixBeforeRawRecord"]
    missing = [p for p in needed if not preds.get(p)]
    if missing:
        raise vlib.NoVerdict("predicates never exercised: %s" % ", ".join(missing))
    calls = [ln for ln in lines if ln["ev"] in ("hdr", "pkt", "read", "rec")]
    ctx.cov["evaluations"] = sum(preds.values())
    ctx.cov["traces_validated_against_impl"] = len(cases)
    ctx.cov["calls_recorded"] = len(calls)
    ctx.cov["payload_sizes_written"] = sorted({ln["p"]["len"] for ln in lines if ln["ev"] == "pkt"})
    ctx.cov["length_fields_read"] = sorted({ln["L"] for ln in lines if ln["ev"] == "rec"})
    distinct = {(ln["ev"], ln["sig"], ln.get("err"), ln.get("open"), ln.get("end"),
                 tuple(o["k"] for o in ln.get("outs", []))) for ln in calls}
    rd = [ln for ln in lines if ln["ev"] == "read"][:1]
    rc = [ln for ln in lines if ln["ev"] == "rec" and 0 < ln["L"] < 8 and ln["sig"].endswith("covers-wrapped)")][:1]
    ctx.cov["samples"] = [{"vector": cases[0]["vec"], "model_prediction": cases[0]["exp"]}] + \
        [{k: ln[k] for k in ("ev", "sig", "open", "h", "pkts", "end")} for ln in rd] + \
        [{k: ln[k] for k in ("ev", "sig", "L", "tail", "outs")} for ln in rc]
    ctx.assumptions += [
        "payload bytes are pseudo-random (seeded); equality of payloads is compared through a 64-bit FNV-1a hash",
        "sub-millisecond offsets and sub-microsecond start times are judged to the format's resolution "
        "(either neighbouring value accepted) and are not required to be refused",
        "'rejects' is read weakly: Next must not return a packet for a length field below 8 (any error counts)",
        "negative start time / offset are represented by -1 s / -1 ms only; the over-range classes by the listed boundary values",
    ]
    keep = {c["id"]: c for c in cases}

    def replay_of(v):
        c = keep.get(v["trace"])
        return {"vector": c["vec"] if c else None, "model_prediction": c["exp"] if c else None,
                "recorded": by_t.get(v["trace"], [])[:12]}

    return vlib.finish(
        ctx, "model_checking",
        rule="vectors = every terminal state of the TLC run of RtpDump.tla over the boundary domain (headers x one packet, "
             "fixed header x packet lists, raw records with length field 0..9 and boundary tails%s); one evaluation = "
             "one normative predicate instance on one recorded Writer/Reader call; distinct = distinct (call, input "
             "class signature, outcome)" % ("" if quick else ", plus a seeded sample of the full product"),
        distinct_nontrivial=len(distinct), exhaustive=True, replay_of=replay_of)
