"""C32 (IVF writer/reader round trip). Also holds the small helpers shared with checks/ogg_common.py:
running several TLC processes side by side (each in its own scratch directory) and drawing replay vectors
from TLC's simulation mode."""
import os
import re
import threading

import vlib


# ---------------------------------------------------------------------------------------------
# helpers (local work-arounds: vlib.run_tlc numbers its scratch directories by listing ctx.work, which
# is not safe from several threads, so every parallel job gets a context with its own work directory)

class SubCtx:
    def __init__(self, ctx, name):
        self.parent = ctx
        self.prop, self.tier, self.seed, self.quick = ctx.prop, ctx.tier, ctx.seed, ctx.quick
        self.work = os.path.join(ctx.work, name)
        os.makedirs(self.work, exist_ok=True)
        self.cov = {"states": 0, "transitions": 0, "tlc_runs": [], "predicates": {}}

    def log(self, *a):
        self.parent.log(*a)


class Job(threading.Thread):
    def __init__(self, fn):
        super().__init__(daemon=True)
        self.fn, self.res, self.exc = fn, None, None
        self.start()

    def run(self):
        try:
            self.res = self.fn()
        except BaseException as e:  # re-raised by result()
            self.exc = e

    def result(self):
        self.join()
        if self.exc is not None:
            raise self.exc
        return self.res


def start_models(ctx, models, workers=4, timeout=540):
    """Start the exhaustive model checks [(spec, cfg), ...] side by side; returns jobs for finish_models."""
    jobs = []
    for i, (spec, cfg) in enumerate(models):
        sub = SubCtx(ctx, "mc-%d" % i)
        jobs.append((spec, cfg, sub, Job(lambda s=spec, c=cfg, x=sub: vlib.run_tlc(x, s, c, workers=workers, timeout=timeout))))
    return jobs


def finish_models(ctx, jobs):
    """The invariants of every model must hold (else no verdict); adds the measured numbers to the evidence."""
    for spec, cfg, sub, job in jobs:
        res = job.result()
        ctx.cov["tlc_runs"] += sub.cov["tlc_runs"]
        if res.rc != 0:
            raise vlib.NoVerdict("model check %s/%s failed (rc=%s):\n%s" % (spec, cfg, res.rc, res.error))
        ctx.cov["states"] += res.distinct
        ctx.cov["transitions"] += res.generated
        ctx.log("TLC model %s/%s: %d generated, %d distinct, depth %d, %.1fs" %
                (spec, cfg, res.generated, res.distinct, res.depth, res.wall))


def sim_vectors(ctx, spec, cfg, total, procs, depth=400, timeout=400):
    """Draw `total` behaviours from TLC's simulation mode (seeded, one worker per process => deterministic);
    every behaviour ends with a VERIF_VEC line. The model invariants are checked on the final state of every behaviour."""
    per = (total + procs - 1) // procs
    jobs = []
    for i in range(procs):
        sub = SubCtx(ctx, "sim-%d" % i)
        jobs.append((sub, Job(lambda x=sub, k=i: vlib.run_tlc(
            x, spec, cfg, workers=1, simulate="num=%d" % per, depth=depth, seed=ctx.seed * 1000 + k,
            timeout=timeout, quiet_ok=True, tool_opts="-Xss256m"))))
    vecs, states, wall = [], 0, 0.0
    for sub, job in jobs:
        res = job.result()
        ctx.cov["tlc_runs"] += sub.cov["tlc_runs"]
        m = re.search(r"The number of states generated: (\d+)", res.stdout)
        if res.rc != 0 or not m:
            raise vlib.NoVerdict("simulation %s/%s failed (rc=%s):\n%s" %
                                 (spec, cfg, res.rc, "\n".join(res.stdout.splitlines()[-30:])))
        states += int(m.group(1))
        wall = max(wall, res.wall)
        vecs += [v[0] for v in res.tag("VERIF_VEC")]
    ctx.cov["simulated_states_checked"] = ctx.cov.get("simulated_states_checked", 0) + states
    ctx.log("TLC simulation %s/%s: %d behaviours, %d states (invariants checked on every final state), %.1fs" %
            (spec, cfg, len(vecs), states, wall))
    return vecs[:total]


def par_tlc_trace(ctx, spec, cfg, trace, procs):
    """vlib.tlc_trace on `procs` slices of the trace (cut at reset lines), side by side."""
    lines = [l for l in open(trace).read().splitlines() if l.strip()]
    if not lines:
        raise vlib.NoVerdict("empty trace %s" % trace)
    target = max(1, len(lines) // procs)
    parts, cur = [], []
    for l in lines:
        if len(cur) >= target and len(parts) < procs - 1 and '"ev":"reset"' in l.replace(" ", ""):
            parts.append(cur)
            cur = []
        cur.append(l)
    if cur:
        parts.append(cur)
    jobs = []
    for i, part in enumerate(parts):
        sub = SubCtx(ctx, "tr-%d" % i)
        p = os.path.join(sub.work, "part.ndjson")
        with open(p, "w") as fh:
            fh.write("\n".join(part) + "\n")
        jobs.append((sub, Job(lambda x=sub, f=p: vlib.tlc_trace(x, spec, cfg, f))))
    viol = []
    for i, (sub, job) in enumerate(jobs):
        for r in job.result():
            r["part"] = i
            viol.append(r)
        ctx.cov["tlc_runs"] += sub.cov["tlc_runs"]
        ctx.cov["trace_lines_validated"] = ctx.cov.get("trace_lines_validated", 0) + sub.cov.get("trace_lines_validated", 0)
        for k, n in sub.cov["predicates"].items():
            ctx.cov["predicates"][k] = ctx.cov["predicates"].get(k, 0) + n
    return viol


# ---------------------------------------------------------------------------------------------
# C32

def run_ivf(ctx):
    quick = ctx.quick
    # 1. exhaustive model checks (run while the replay goes on): the transcribed assembly automaton, header,
    #    frame count and PTS computation satisfy the normative operators, the reader being the inverse parser
    models = [("Ivf_MC", "Ivf_MC"), ("Ivf_MC", "Ivf_Pts")] if quick else \
             [("Ivf_MC", "Ivf_MCt"), ("Ivf_MC", "Ivf_MC3"), ("Ivf_MC", "Ivf_Ptst")]
    mc = start_models(ctx, models, workers=4)
    # 1b. frames around and beyond the reader's chunk limit (ivfreader.maxPreallocatedFrameSize, 1 MiB): exhaustive model of
    #     every short stream with such a frame first / in the middle / last / alone; each behaviour is a replay vector
    big_ctx = SubCtx(ctx, "big")
    big_job = Job(lambda: vlib.tlc_model(big_ctx, "Ivf_MC", "Ivf_Big" if quick else "Ivf_Bigt", workers=1, timeout=400))

    # 2. vectors: behaviours of the same machine over the large alphabet, drawn by TLC's simulator
    nvec = 300 if quick else 10000
    vecs = sim_vectors(ctx, "Ivf_MC", "Ivf_Sim" if quick else "Ivf_Simt", nvec, 2 if quick else 8)
    if not vecs:
        raise vlib.NoVerdict("the simulation produced no vector")
    big = big_job.result()
    ctx.cov["tlc_runs"] += big_ctx.cov["tlc_runs"]
    ctx.cov["states"] += big.distinct
    ctx.cov["transitions"] += big.generated
    bigvecs = [v[0] for v in big.tag("VERIF_VEC")]
    if not bigvecs:
        raise vlib.NoVerdict("Ivf_Big produced no vector")
    ctx.cov["chunk_limit_vectors"] = len(bigvecs)
    vecs += bigvecs
    for i, v in enumerate(vecs):
        v["id"] = i
    infile = vlib.write_json(os.path.join(ctx.work, "vectors.json"), vecs)
    trace = os.path.join(ctx.work, "trace.ndjson")

    # 3. replay on the real writer and reader
    binary = vlib.go_build(ctx, "ivf")
    vlib.go_run(ctx, binary, "TestVerifIvf", infile, trace, timeout=400)

    # 4. TLC judges what was recorded
    ctx.viol = par_tlc_trace(ctx, "Ivf_Trace", "Ivf_Trace", trace, 2 if quick else 8)
    ctx.log("TLC trace Ivf_Trace: %d lines, %d violation records" % (ctx.cov.get("trace_lines_validated", 0), len(ctx.viol)))
    finish_models(ctx, mc)

    lines = vlib.read_ndjson(trace)
    hdrs = [l for l in lines if l["ev"] == "hdr"]
    frames = [l for l in lines if l["ev"] == "frame"]
    ends = [l for l in lines if l["ev"] == "end"]
    prem = [l for l in ends if l["premise"]]
    byk = {l["t"]: l["nexp"] for l in ends}
    pc = ctx.cov["predicates"]
    for need in ("FrameReadBack", "CountReadBack", "HeaderFields", "HeaderFieldsInFile", "CountWhenSeekable", "PtsFormula"):
        if not pc.get(need):
            raise vlib.NoVerdict("predicate %s was not exercised" % need)
    ctx.cov["evaluations"] = sum(pc.values())
    ctx.cov["traces_validated_against_impl"] = len(hdrs)
    ctx.cov["streams_in_premise"] = len(prem)
    ctx.cov["frames_read_back"] = sum(1 for l in frames if l["hg"])
    ctx.cov["rtp_packets_written"] = sum(l["packets"] for l in ends)
    ctx.cov["constructor_errors"] = sum(1 for l in lines if l["ev"] == "ctor_err")
    ctx.cov["frames_beyond_reader_chunk_limit_followed_by_frames"] = sum(
        1 for l in frames if l["premise"] and l["exp"]["n"] > (1 << 20) and l["k"] < byk.get(l["t"], 0))
    ctx.cov["timestamp_wraps_seen"] = sum(1 for l in frames if "wrap=true" in l["sig"])
    # generative model vs code, outside any verdict: number of frames the model predicted vs frames in the file
    ctx.cov["model_drift_streams"] = sum(1 for l in ends if l["model_frames"] != l["nfile"])
    ctx.cov["depacketised_equals_original_frames"] = sum(l["orig_same"] for l in ends)
    ctx.cov["samples"] = [{"vector": v} for v in vecs[:2]] + \
        [{k: l[k] for k in ("sig", "cfg", "rd", "seekable", "nfile")} for l in hdrs[:1]] + \
        [{k: l[k] for k in ("sig", "k", "exp", "got", "pts", "rts", "tsh", "tsl", "fh", "fl")} for l in frames[:2]]
    ctx.assumptions += [
        "pion/rtp payloaders and depacketisers are trusted as producers of the input and of the expected assembled frames",
        "timestamps are compared as 16-bit limbs; PTS predicates apply where the expected value fits in 31 bits (always, for the generated streams)",
        "streams are loss-free inside the premise; lost first packets are explored on the model only"]
    bytrace = {}
    for l in lines:
        bytrace.setdefault(l["t"], []).append(l)

    def replay_of(v):
        t = v["trace"]
        return {"vector": vecs[t] if t < len(vecs) else None, "recorded": bytrace.get(t, [])[:40]}

    distinct = {(l["sig"], l["exp"]["n"]) for l in frames if l["premise"]}
    return vlib.finish(
        ctx, "model_checking",
        rule="TLC exhausts the transcribed IVFWriter automaton + inverse reader for the bounds of Ivf_MC*/Ivf_Pts* (normative "
             "operators as invariants); vectors = terminated behaviours of the same machine drawn by TLC's simulator over the "
             "large alphabet; one evaluation = one normative predicate applied by TLC to a header/frame/end observation of the "
             "real writer+reader; distinct = distinct (codec, constructor, direct, timebase, wrap, frame length) among judged frames",
        distinct_nontrivial=len(distinct), exhaustive=False, replay_of=replay_of)
