"""C15 - negotiated codecs are the remote's offered codecs that match local ones.

Model: spec/CodecOps.tla (codecParametersFuzzySearch, matchRemoteCodec, the two passes, push, lookup
transcribed; normative NegotiatedOK) + spec/CodecNegDomain.tla + spec/CodecNeg.tla (vector spaces).
Replay: harness/codecneg (MediaEngine.updateFromRemoteDescription in-package and SetRemoteDescription /
GetParameters on a real PeerConnection).  Oracle: spec/CodecNeg_Trace.tla."""
import os
import sys

sys.path.insert(0, os.path.dirname(os.path.abspath(__file__)))
import codec_common  # noqa: E402
import vlib  # noqa: E402


def _plain(c):
    return (c["mime"], c["clock"], c["ch"], c["line"], c["pt"], tuple(c["fb"]))


def run(ctx):
    quick = ctx.quick
    # 1. TLC exhausts every vector over the small sub-domain: the transcribed negotiation satisfies
    #    the normative operators (NegotiatedOK, lookup order)
    vlib.tlc_model(ctx, "CodecNeg", "CodecNeg_MCQ" if quick else "CodecNeg_MC", workers=16, timeout=500)
    # 2. seeded random vectors over the whole domain: checked the same way on the model, and emitted
    #    (several single-worker runs side by side, seeds derived from VERIF_SEED)
    nruns = 2 if quick else 6
    runs = codec_common.tlc_models_parallel(ctx, "CodecNeg", "CodecNeg_SampleQ" if quick else "CodecNeg_SampleT",
                                            [ctx.seed * 100 + k for k in range(nruns)], timeout=560)
    vectors = []
    for vecs in runs:
        for v in sorted(vecs, key=lambda v: v["id"]):
            v["id"] = len(vectors)
            vectors.append(v)
    if not vectors:
        raise vlib.NoVerdict("the model emitted no vector")
    napi = 500 if quick else 15000
    for i, v in enumerate(vectors):
        v["api"] = i < napi
    ctx.log("%d vectors (%d also through the public API)" % (len(vectors), min(napi, len(vectors))))
    infile = vlib.write_json(os.path.join(ctx.work, "vectors.json"),
                             [{k: v[k] for k in ("id", "local", "remote", "pre", "api")} for v in vectors])
    trace = os.path.join(ctx.work, "trace.ndjson")

    # 3. replay into pion
    binary = vlib.go_build(ctx, "codecneg")
    vlib.go_run(ctx, binary, "TestVerifCodecNeg", infile, trace, timeout=560)

    # 4. TLC judges what pion did
    ctx.viol = codec_common.tlc_trace_parallel(ctx, "CodecNeg_Trace", "CodecNeg_Trace", trace,
                                               jobs=8 if quick else 12, timeout=560)

    # 5. evidence
    lines = vlib.read_ndjson(trace)
    neg = {l["t"]: l for l in lines if l.get("ev") == "neg"}
    api = {l["t"]: l for l in lines if l.get("ev") == "api"}
    if len(neg) != len(vectors):
        raise vlib.NoVerdict("%d of %d vectors were replayed" % (len(neg), len(vectors)))
    drift, drift_samples, applied, with_neg, with_partial_only, rtx_neg, collide = 0, [], 0, 0, 0, 0, 0
    for v in vectors:
        got = neg[v["id"]]
        exp = v["exp"]
        same = (got["err"] != "") == exp["err"]
        if same and not exp["err"]:
            gk = {k["kind"]: [_plain(c) for c in k["neg"]] for k in got["kinds"] if k["present"]}
            ek = {k["kind"]: [_plain(c) for c in k["neg"]] for k in exp["kinds"] if k["present"]}
            same = gk == ek
        if not same:
            drift += 1
            if len(drift_samples) < 3:
                drift_samples.append({"vector": {k: v[k] for k in ("local", "remote")}, "model": exp,
                                      "real": {"err": got["err"], "kinds": [{"kind": k["kind"], "neg": k["neg"]} for k in got["kinds"]]}})
        if got["err"] == "":
            applied += 1
            n = [c for k in got["kinds"] if k["present"] for c in k["neg"]]
            with_neg += 1 if n else 0
            rtx_neg += 1 if any(c["mime"].lower().endswith("/rtx") and "apt=" in c["line"] for c in n) else 0
            lpts = {c["pt"] for k in got["kinds"] for c in k["local"]}
            collide += 1 if any(c["pt"] in lpts for c in n) else 0
    preds = ctx.cov["predicates"]
    need = ["OfferedByRemote", "RemotePayloadType", "MatchesLocal", "ExactPreferred", "FeedbackIsIntersection",
            "NegotiatedBeforeLocalLookup", "OfferedByRemote@api", "RemotePayloadType@api", "MatchesLocal@api",
            "FeedbackWithinBothSides@api"]
    counts = {n: sum(c for k, c in preds.items() if k == n or k.startswith(n + ":")) for n in need}
    if not all(counts.values()):
        raise vlib.NoVerdict("a C15 predicate was not exercised: %s" % counts)
    ctx.cov["evaluations"] = sum(preds.values())
    ctx.cov["traces_validated_against_impl"] = len(neg) + len(api)
    ctx.cov["vectors_replayed"] = len(neg)
    ctx.cov["vectors_through_public_api"] = len(api)
    ctx.cov["descriptions_applied_without_error"] = applied
    ctx.cov["vectors_with_negotiated_codecs"] = with_neg
    ctx.cov["vectors_with_negotiated_rtx_apt"] = rtx_neg
    ctx.cov["vectors_negotiated_pt_collides_with_local_pt"] = collide
    ctx.cov["predicate_evaluations"] = counts
    ctx.cov["model_drift_vectors"] = drift
    ctx.cov["model_drift_samples"] = drift_samples
    show = [v for v in vectors if not v["exp"]["err"] and sum(len(k["neg"]) for k in v["exp"]["kinds"]) >= 2][:2]
    ctx.cov["samples"] = [{"vector": {k: v[k] for k in ("local", "remote")},
                           "real_negotiated": [{"kind": k["kind"], "neg": k["neg"]} for k in neg[v["id"]]["kinds"]],
                           "real_lookup": neg[v["id"]]["lookup"]} for v in show]
    ctx.assumptions += [
        "one audio and/or one video section per remote description; a payload type is offered once; feedback strings "
        "are compared literally",
        "'matched exactly / partially' is the TLA+ Match / PartialMatch of spec/CodecOps.tla, in the weakest reading "
        "(either direction, exact or partial)",
        "TrackRemote.Codec() and the payload type on sent RTP are not observed (no media flows in this driver)"]
    byid = {v["id"]: v for v in vectors}

    def replay_of(v):
        vec = byid.get(v.get("trace"))
        return {"vector": vec, "recorded_neg": neg.get(v.get("trace")), "recorded_api": api.get(v.get("trace"))}

    return vlib.finish(
        ctx, "exploration",
        rule="one evaluation = one normative predicate (conjunct of NegotiatedOK, lookup order) judged by TLC on one "
             "kind of one replayed vector (in-package MediaEngine state, or GetParameters of one receiver/sender on a "
             "real PeerConnection); vectors = seeded random local (<=3) x remote (<=4) codec lists over the domain of "
             "spec/CodecNegDomain.tla; distinct = vectors whose description was applied",
        distinct_nontrivial=applied, exhaustive=False, replay_of=replay_of)
