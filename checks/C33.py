import os, sys
sys.path.insert(0, os.path.dirname(os.path.abspath(__file__)))
import ogg_common


def run(ctx):
    return ogg_common.run_ogg(ctx)
