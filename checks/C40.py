"""C40 — concurrent use is deadlock-free and race-free: LockOrder.tla (TLC, deadlock checking on), ConcProg.tla
programs replayed on real pairs built with the race detector, whose reports are the observation."""
import glob
import json
import os
import re
import vlib


def parse_races(text):
    """Distinct reports, as the sorted pair of innermost library frames of the two conflicting accesses."""
    out = {}
    for block in text.split("WARNING: DATA RACE")[1:]:
        block = block.split("==================")[0]
        stacks = re.split(r"\n\s*\n", block)
        tops = []
        for st in stacks[:2]:
            top = None
            lines = st.splitlines()
            for i, l in enumerate(lines):
                m = re.match(r"^\s+(github\.com/pion/\S+?)\(", l)
                if m and i + 1 < len(lines) and "zz_verif" not in lines[i + 1]:
                    top = m.group(1).replace("github.com/pion/", "")
                    break
            tops.append(top or "(outside pion)")
        sig = "race(%s)" % "|".join(sorted(tops))
        out.setdefault(sig, 0)
        out[sig] += 1
    return out


def run(ctx):
    quick = ctx.quick
    vlib.tlc_model(ctx, "LockOrder", "LockOrder", workers=8, timeout=900)     # no deadlock among 3 concurrent calls
    res = vlib.tlc_model(ctx, "ConcProg", "ConcProg" if quick else "ConcProg_T", workers=1)
    progs = [v[0] for v in res.tag("VERIF_VEC")]
    ctx.log("%d concurrent programs" % len(progs))
    binary = vlib.go_build(ctx, "concur", race=True)
    infile = vlib.write_json(os.path.join(ctx.work, "progs.json"), progs)
    trace = os.path.join(ctx.work, "trace.ndjson")
    racelog = os.path.join(ctx.work, "race")
    rc, out = vlib.go_run(ctx, binary, "TestVerifConcur", infile, trace, timeout=3000, allow_fail=True,
                          env={"GORACE": "halt_on_error=0 log_path=%s" % racelog})
    lines = vlib.read_ndjson(trace) if os.path.exists(trace) else []
    progs_done = [l for l in lines if l["ev"] == "prog"]
    if len(progs_done) < len(progs):
        raise vlib.NoVerdict("driver ended after %d of %d programs (rc=%s): %s" % (len(progs_done), len(progs), rc, out[-1500:]))
    text = out
    for f in glob.glob(racelog + "*"):
        text += open(f, errors="replace").read()
    races = parse_races(text)
    with open(trace, "a") as fh:
        for sig, n in sorted(races.items()):
            fh.write(json.dumps({"ev": "race", "t": 0, "count": n, "sig": sig}) + "\n")
        fh.write(json.dumps({"ev": "summary", "t": 0, "races": len(races), "programs": len(progs_done), "sig": "summary"}) + "\n")
    ctx.viol = vlib.tlc_trace(ctx, "Concur_Trace", "Concur_Trace", trace)
    ctx.cov["evaluations"] = len(progs_done)
    ctx.cov["race_reports_distinct"] = len(races)
    ctx.cov["traces_validated_against_impl"] = len(progs_done)
    ctx.cov["samples"] = progs[:2]
    return vlib.finish(
        ctx, "exploration",
        rule="programs = seeded TLC sample of ConcProg.tla (2-4 workers x 3 calls each from the property's alphabet x repetitions x "
             "release phase of the signaling exchange x Close at the end), run on real pairs built with -race; distinct = programs; "
             "LockOrder.tla checked exhaustively for deadlock among 3 concurrent calls",
        distinct_nontrivial=len({vlib.canon(p) for p in progs}), exhaustive=False,
        replay_of=lambda v: {"program": progs[v["trace"]] if v.get("pred") == "EveryCallReturns" and v["trace"] < len(progs) else None,
                             "race_log_excerpt": text[-3000:] if v.get("pred", "").startswith("NoRace") else None})
