"""C23 — media written to a local track arrives intact on the negotiated stream (spec/Media.tla; vectors on real pairs)."""
import os
import vlib


def run(ctx):
    res = vlib.tlc_model(ctx, "Media", "Media", workers=4)
    vecs, seen = [], set()
    for v in res.tag("VERIF_VEC"):
        k = vlib.canon(v[0])
        if k not in seen:
            seen.add(k)
            vecs.append(v[0])
    if ctx.quick:
        ctx.rng.shuffle(vecs)
        keep, codecs = [], {}
        for v in vecs:
            if codecs.get(v["codec"], 0) < 3:
                codecs[v["codec"]] = codecs.get(v["codec"], 0) + 1
                keep.append(v)
        vecs = keep
    else:
        vecs = vecs * 3
    ctx.log("%d vectors" % len(vecs))
    binary = vlib.go_build(ctx, "mediaflow")
    infile = vlib.write_json(os.path.join(ctx.work, "vecs.json"), vecs)
    trace = os.path.join(ctx.work, "trace.ndjson")
    vlib.go_run(ctx, binary, "TestVerifMediaFlow", infile, trace, timeout=2400)
    ctx.viol = vlib.tlc_trace(ctx, "Media_Trace", "Media_Trace", trace)
    pr = ctx.cov["predicates"]
    if not pr.get("PayloadUnchanged") or not pr.get("SsrcAnnounced"):
        raise vlib.NoVerdict("predicates not exercised: %s" % pr)
    lines = vlib.read_ndjson(trace)
    resent = [l for l in lines if l["ev"] == "rtp" and l.get("rtx")]
    ends = [l for l in lines if l["ev"] == "end" and l.get("rtxOn") and l.get("asked")]
    ctx.cov["retransmissions_read"] = len(resent)
    ctx.cov["runs_with_retransmission_requests"] = len(ends)
    if not resent or not any(l["askedForms"] == 15 and l["resent"] for l in ends):
        raise vlib.NoVerdict("no run asked for retransmissions of all four header forms and read some from the repair stream")
    ctx.cov["evaluations"] = sum(1 for l in lines if l["ev"] == "rtp")
    ctx.cov["traces_validated_against_impl"] = len(vecs)
    ctx.cov["samples"] = vecs[:2] + [l for l in lines if l["ev"] == "end"][:1]
    return vlib.finish(
        ctx, "exploration",
        rule="vectors = TLC enumeration of Media.tla (codec x RTX registered x single track or audio+video+data bundle x offering "
             "side; quick: three per codec), each on a real connected pair over loopback with seeded RTP payloads written to a "
             "TrackLocalStaticRTP, the packets cycling through four header forms (plain, CSRC list, header extension, both); "
             "with RTX negotiated the receiver NACKs sixteen packets and reads the copies that come over the repair stream; "
             "loss is allowed, arrival of anything that was not written is not",
        distinct_nontrivial=len({vlib.canon(v) for v in vecs}), exhaustive=not ctx.quick,
        replay_of=lambda v: {"vector": vecs[v["trace"]] if v["trace"] < len(vecs) else None})
