import os, sys
sys.path.insert(0, os.path.dirname(os.path.abspath(__file__)))
import sdp_common


def run(ctx):
    return sdp_common.run_sdp(ctx, "C12", ['default','alwaysdc','alwaysdcA','fallback','rtxfec','feconly','nortx'], 150, 4000, ['OneSectionPerTransceiver','KindMidDirection','Msid','Ssrcs','ApplicationIff'])
