"""C27 — transport demultiplexing: RFC 7983 classification (exhaustive) and delivery order (schedules)."""
import os
import re
import vlib


def run(ctx):
    quick = ctx.quick
    res = vlib.tlc_model(ctx, "Mux", "Mux_fixed", workers=1)       # repaired protocol: invariants hold
    gfix = vlib.graph_from(res)
    r = vlib.tlc_expect_violation(ctx, "Mux", "Mux_asis_cex", workers=1)
    ctx.cov["asis_model"] = "counterexample found by TLC" if r.rc == 12 else "rc=%s" % r.rc
    gasis = vlib.graph_from(vlib.tlc_model(ctx, "Mux", "Mux_asis", workers=1))
    beh = []
    for g in (gfix, gasis):
        paths = g.all_paths(40, 3000 if quick else 200000)
        if paths is None:
            paths = g.edge_cover(ctx.rng, 40, maximal=True) + g.random_walks(ctx.rng, 500, 40)
        for p in paths:
            beh.append({"id": len(beh), "nbefore": 2, "nafter": 2, "steps": [a for _, a, _ in p], "free": False})
    nsched = len(beh)
    for j in range(100 if quick else 3000):
        beh.append({"id": len(beh), "nbefore": ctx.rng.randrange(0, 6), "nafter": ctx.rng.randrange(1, 6),
                    "steps": [], "free": True})
    ctx.log("%d schedules (all maximal paths of both variants) + %d free-running runs" % (nsched, len(beh) - nsched))
    binary = vlib.go_build(ctx, "mux")
    t1 = os.path.join(ctx.work, "class.ndjson")
    vlib.go_run(ctx, binary, "TestVerifMuxClass", None, t1, timeout=300)
    infile = vlib.write_json(os.path.join(ctx.work, "behaviours.json"), beh)
    t2 = os.path.join(ctx.work, "order.ndjson")
    rc, out = vlib.go_run(ctx, binary, "TestVerifMuxOrder", infile, t2, timeout=900)
    m = re.search(r"VERIF_STAT behaviours=(\d+) not_driven=(\d+)", out)
    ctx.cov["schedules_not_driven"] = int(m.group(2)) if m else -1
    if m and int(m.group(2)) >= nsched:
        raise vlib.NoVerdict("no schedule could be driven")
    ctx.viol = vlib.tlc_trace(ctx, "Mux_Trace", "Mux_Trace", t1) + vlib.tlc_trace(ctx, "Mux_Trace", "Mux_Trace", t2)
    pr = ctx.cov["predicates"]
    if not pr.get("Rfc7983Class") or not pr.get("PendingFirstInOrder"):
        raise vlib.NoVerdict("predicates not exercised: %s" % pr)
    lines = vlib.read_ndjson(t2)
    reads = [l for l in lines if l["ev"] == "read"]
    ctx.cov["evaluations"] = 256 * 256 * 5 + pr.get("RoutedByClass", 0) + len(reads)
    ctx.cov["traces_validated_against_impl"] = len(reads) + 2
    ctx.cov["classification_cases"] = 256 * 256 * 5
    ctx.cov["samples"] = [{"schedule": beh[0]["steps"]}, {"read": reads[0]}]
    distinct = {tuple((s["proc"], s["label"]) for s in b["steps"]) for b in beh if not b["free"]}
    bytrace = {}
    for l in lines:
        bytrace.setdefault(l["t"], []).append(l)

    def replay_of(v):
        if v.get("pred") in ("PendingFirstInOrder", "ArrivalOrder", "QueuedAreDelivered"):
            return {"behaviour": beh[v["trace"]], "recorded": bytrace.get(v["trace"], [])}
        return {"line": v.get("line")}

    return vlib.finish(
        ctx, "model_checking",
        rule="classification: every (first byte, second byte, length class 1..5) through the three match functions "
             "(exhaustive) and a boundary subset through a real Mux; order: every maximal path of the TLC state graphs of "
             "Mux.tla (2 datagrams before, 2 after endpoint creation; as-is and repaired variant) driven with gates on "
             "a real Mux, plus free-running runs; distinct = distinct schedules + classification cases",
        distinct_nontrivial=len(distinct) + 256 * 256 * 5, exhaustive=True, replay_of=replay_of)
