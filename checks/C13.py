"""C13 — complementary ICE and DTLS roles: all 36 configurations (spec/Roles.tla) on real pairs."""
import os
import vlib


def run(ctx):
    res = vlib.tlc_model(ctx, "Roles", "Roles_MC", workers=1)           # intended selection satisfies RolesOps on all 36
    r = vlib.tlc_expect_violation(ctx, "Roles", "Roles_asis", workers=1)
    ctx.cov["asis_model"] = "counterexample found by TLC" if r.rc == 12 else "rc=%s" % r.rc
    vecs = [v[0] for v in res.tag("VERIF_VEC")]
    if len(vecs) != 36:
        raise vlib.NoVerdict("expected 36 vectors, got %d" % len(vecs))
    binary = vlib.go_build(ctx, "roles")
    infile = vlib.write_json(os.path.join(ctx.work, "vecs.json"), vecs)
    trace = os.path.join(ctx.work, "trace.ndjson")
    reps = 1 if ctx.quick else 5
    vlib.go_run(ctx, binary, "TestVerifRoles", infile, trace, timeout=1500, env={"VERIF_REPS": reps})
    ctx.viol = vlib.tlc_trace(ctx, "Roles_Trace", "Roles_Trace", trace)
    pr = ctx.cov["predicates"]
    if not pr.get("AnswerNotActpass") or not pr.get("IceRolePerRfc8445") or not pr.get("DtlsOpposite"):
        raise vlib.NoVerdict("predicates not exercised: %s" % pr)
    lines = [l for l in vlib.read_ndjson(trace) if l["ev"] == "roles"]
    drift = 0
    for l, v in zip(lines, vecs * reps):
        if l["setups"] and l["setups"][0] != v["setup"]:
            drift += 1
    ctx.cov["model_drift_vectors"] = drift
    ctx.cov["evaluations"] = len(lines)
    ctx.cov["traces_validated_against_impl"] = len(lines)
    ctx.cov["dtls_roles_observed"] = sum(1 for l in lines if l["dtlsKnown"])
    ctx.cov["samples"] = lines[:2]
    return vlib.finish(
        ctx, "model_checking",
        rule="all 36 vectors (ICE-lite on each side x answerer's configured DTLS role x offered a=setup) of Roles.tla, each "
             "run on a real pair (the offered a=setup is rewritten on the copy given to the answerer); distinct = vectors; "
             "DTLS predicates need both transports started (not the case when both agents are lite)",
        distinct_nontrivial=len({l["sig"] for l in lines}), exhaustive=True,
        replay_of=lambda v: {"recorded": [l for l in lines if l["t"] == v["trace"]]})
