"""C24 — ICE candidates once, then exactly one end-of-gathering (spec/Gatherer.tla, gates in icegatherer.go)."""
import os
import re
import vlib


def run(ctx):
    quick = ctx.quick
    beh = []
    for pool in (0, 1):
        res = vlib.tlc_model(ctx, "Gatherer", "Gatherer_fixed_p%d" % pool, workers=1)   # repaired protocol holds
        gfix = vlib.graph_from(res)
        r = vlib.tlc_expect_violation(ctx, "Gatherer", "Gatherer_asis_cex_p%d" % pool, workers=1)
        ctx.cov.setdefault("asis_model", {})["pool%d" % pool] = "counterexample" if r.rc == 12 else "rc=%s" % r.rc
        gasis = vlib.graph_from(vlib.tlc_model(ctx, "Gatherer", "Gatherer_asis_p%d" % pool, workers=1))
        for g in (gfix, gasis):
            paths = g.all_paths(60, 400 if quick else 50000)
            if paths is None:
                paths = g.edge_cover(ctx.rng, 60, maximal=True) + g.random_walks(ctx.rng, 80 if quick else 2000, 60)
            for p in paths:
                # the exit test of a PlusCal while loop is a model step of its own with no counterpart in the code
                steps = [a for f, a, _ in map(lambda e: (g.nodes[e[0]], e[1], e[2]), p)
                         if not (a["label"] == "aCand" and f["j"] > 1)
                         and not (a["label"] == "sEmit" and f["mine"][a["proc"]] == [])]
                beh.append({"id": len(beh), "pool": pool, "steps": steps, "free": False, "restart": len(beh) % 3 == 0})
    # the ICE restart (second gathering) as a model of its own: every interleaving of the second gathering's
    # callbacks with the flush of the restarting offer; a Gather() that does not re-arm gatheringDone is refuted
    for pool in (0, 1):
        vlib.tlc_model(ctx, "GathererRestart", "GathererRestart_current_p%d" % pool, workers=1)
        r = vlib.tlc_expect_violation(ctx, "GathererRestart", "GathererRestart_stale_p%d" % pool, workers=1)
        ctx.cov.setdefault("restart_stale_model", {})["pool%d" % pool] = "counterexample" if r.rc == 12 else "rc=%s" % r.rc
    nsched = len(beh)
    for j in range(60 if quick else 1500):
        beh.append({"id": len(beh), "pool": j % 2, "steps": [], "free": True, "restart": j % 2 == 0})
    ctx.log("%d schedules + %d free-running runs" % (nsched, len(beh) - nsched))
    binary = vlib.go_build(ctx, "gatherer")
    infile = vlib.write_json(os.path.join(ctx.work, "behaviours.json"), beh)
    trace = os.path.join(ctx.work, "trace.ndjson")
    rc, out = vlib.go_run(ctx, binary, "TestVerifGatherer", infile, trace, timeout=1500)
    m = re.search(r"VERIF_STAT behaviours=(\d+) not_driven=(\d+)", out)
    ctx.cov["schedules_not_driven"] = int(m.group(2)) if m else -1
    if m and int(m.group(2)) >= nsched:
        raise vlib.NoVerdict("no schedule could be driven")
    ctx.viol = vlib.tlc_trace(ctx, "Gatherer_Trace", "Gatherer_Trace", trace)
    pr = ctx.cov["predicates"]
    if not pr.get("NilReported") or not pr.get("CandidateOnce"):
        raise vlib.NoVerdict("predicates not exercised: %s" % pr)
    lines = vlib.read_ndjson(trace)
    rs = [l for l in lines if l["ev"] == "end" and "restart" in l.get("sig", "")]
    ctx.cov["restart_phases"] = len(rs)
    ctx.cov["restart_phases_flushed_while_gathering_held"] = sum(1 for l in rs if l.get("sldErr") == "" and l.get("driven"))
    if rs and not ctx.cov["restart_phases_flushed_while_gathering_held"]:
        raise vlib.NoVerdict("no ICE-restart phase got as far as the flush")
    ctx.cov["evaluations"] = len(beh)
    ctx.cov["traces_validated_against_impl"] = len(beh)
    distinct = {(b["pool"],) + tuple((s["proc"], s["label"]) for s in b["steps"]) for b in beh if not b["free"]}
    bytrace = {}
    for l in lines:
        bytrace.setdefault(l["t"], []).append(l)
    ctx.cov["samples"] = [{"schedule": beh[0]}, {"recorded": bytrace.get(0, [])}]

    def replay_of(v):
        return {"behaviour": beh[v["trace"]], "recorded": bytrace.get(v["trace"], [])}

    return vlib.finish(
        ctx, "model_checking",
        rule="schedules = maximal paths of the TLC state graphs of Gatherer.tla (1 candidate, pool 0 and 1, two successive "
             "SetLocalDescription calls; as-is and repaired variant), driven with gates on a real PeerConnection over a "
             "virtual network; plus free-running runs with seeded delays; distinct = distinct (pool, schedule)",
        distinct_nontrivial=len(distinct), exhaustive=quick is False, replay_of=replay_of)
