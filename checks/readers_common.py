"""Helpers shared by the plans of the media-container families (C36 RtpDump, C37 Readers)."""
import os
import re
import threading

import vlib


class _Sub:
    """A private working directory for one TLC run so that several can run at the same time
    (vlib.run_tlc numbers its scratch directories by counting, which is not safe concurrently)."""

    def __init__(self, ctx, name):
        self.work = os.path.join(ctx.work, name)
        os.makedirs(self.work, exist_ok=True)
        self.seed = ctx.seed
        self.cov = {"tlc_runs": []}


def run_parallel(ctx, tlc_jobs, other_jobs=()):
    """tlc_jobs: list of (name, spec, cfg, kwargs) -> {name: TlcResult}; other_jobs: list of (name, callable)
    run at the same time -> their return values under the same dict. The first NoVerdict is re-raised."""
    out, errs = {}, {}

    def tlc(name, spec, cfg, kw):
        sub = _Sub(ctx, "par-" + name)
        try:
            out[name] = vlib.run_tlc(sub, spec, cfg, quiet_ok=True, **kw)
        except BaseException as e:  # noqa: BLE001
            errs[name] = e
        finally:
            ctx.cov["tlc_runs"].extend(sub.cov["tlc_runs"])

    def other(name, fn):
        try:
            out[name] = fn()
        except BaseException as e:  # noqa: BLE001
            errs[name] = e

    th = [threading.Thread(target=tlc, args=j) for j in tlc_jobs] + \
         [threading.Thread(target=other, args=j) for j in other_jobs]
    for t in th:
        t.start()
    for t in th:
        t.join()
    for name, e in sorted(errs.items()):
        if isinstance(e, vlib.NoVerdict):
            raise e
        raise vlib.NoVerdict("job %s failed: %r" % (name, e))
    return out


def counterexample(res, var="vec"):
    """(violated invariant, one-line value of `var` in the last state) of a TLC error trace."""
    m = re.search(r"Invariant (\w+) is violated", res.stdout)
    inv = m.group(1) if m else None
    states = re.split(r"\nState \d+:", res.stdout)
    val = None
    if len(states) > 1:
        last = states[-1].split("\n\n")[0]
        mm = re.search(r"/\\ %s = (.*?)(?=\n/\\ |\Z)" % re.escape(var), last, re.S)
        if mm:
            val = re.sub(r"\s+", " ", mm.group(1))[:600]
    return inv, val
