"""SDP family (C06, C07, C08, C09, C10, C12, C16): PeerConn.tla histories + SynthOffer.tla vectors, one driver, one trace spec."""
import os
import vlib

AUDIO = {"supported": ["opus/111"], "unsupported": ["bar/121"], "mixed": ["bar/121", "opus/109", "pcmu/0"], "subset": ["pcmu/0"],
         "renumbered": ["opus/109", "pcmu/0"], "twice": ["opus/111", "opus/109"]}
VIDEO = {"supported": ["vp8/96", "rtx96/97", "h264/102"], "unsupported": ["foo/120"],
         "mixed": ["foo/120", "vp8/100", "h264/125"], "subset": ["vp8/100"],
         # the peer's numbering collides with pion's defaults: 98/99 are VP9 + its RTX there, 96/97 VP8 + its RTX
         "renumbered": ["vp8/98", "rtx98/99"], "renumbered2": ["h264/96", "rtx96b/97", "vp8/98", "rtx98/99"],
         # one codec under two payload types
         "twice": ["vp8/96", "vp8/100"]}
PRE = {"none": [],
       "audio-sendrecv-track": [{"op": "addTrack", "who": "A", "kind": "audio"}],
       "video-recvonly": [{"op": "addTransceiver", "who": "A", "kind": "video", "dir": "recvonly"}],
       "audio+video-tracks": [{"op": "addTrack", "who": "A", "kind": "audio"}, {"op": "addTrack", "who": "A", "kind": "video"}],
       "video-prefs-vp9rtx": [{"op": "addTransceiver", "who": "A", "kind": "video", "dir": "sendrecv"},
                              {"op": "setPrefs", "who": "A", "n": 0, "prefs": ["vp9", "rtx-vp9"]}],
       "video-prefs-vp8rtx-h264": [{"op": "addTransceiver", "who": "A", "kind": "video", "dir": "sendrecv"},
                                   {"op": "setPrefs", "who": "A", "n": 0, "prefs": ["vp8", "rtx-vp8", "h264", "rtx-h264"]}],
       "video-prefs-rtxfirst": [{"op": "addTransceiver", "who": "A", "kind": "video", "dir": "recvonly"},
                                {"op": "setPrefs", "who": "A", "n": 0, "prefs": ["rtx-h264", "h264", "vp9", "rtx-vp9"]}],
       "video-prefs-nopt": [{"op": "addTransceiver", "who": "A", "kind": "video", "dir": "recvonly"},
                            {"op": "setPrefs", "who": "A", "n": 0, "prefs": ["h264-nopt", "vp8-nopt"]}],
       "audio-prefs-nopt": [{"op": "addTransceiver", "who": "A", "kind": "audio", "dir": "sendrecv"},
                            {"op": "setPrefs", "who": "A", "n": 0, "prefs": ["opus-nopt"]}],
       "two-video": [{"op": "addTransceiver", "who": "A", "kind": "video", "dir": "sendrecv"},
                     {"op": "addTransceiver", "who": "A", "kind": "video", "dir": "sendrecv"}]}


def concrete(sec, dir_override=None):
    k = sec["kind"]
    codecs = []
    if k == "audio":
        codecs = AUDIO[sec["codecs"] if sec["codecs"] in AUDIO else "renumbered"]
    elif k == "video":
        codecs = VIDEO[sec["codecs"]]
    elif k != "application":
        codecs = ["t140/98"]
    d = sec["dir"]
    if dir_override and k in ("audio", "video"):
        d = dir_override
    return {"kind": k, "mid": sec["mid"], "dir": d, "codecs": codecs, "port0": False}


def synth_behaviour(vec, bid, cfg):
    steps = list(PRE[vec["pre"]])
    steps.append({"op": "remoteOffer", "who": "A", "offer": [concrete(s) for s in vec["offer"]], "session": vec["place"]})
    post = vec["post"]
    if post == "dc+offer":
        steps += [{"op": "createDC", "who": "A"}, {"op": "offerOnly", "who": "A"}]
    elif post == "track+offer":
        steps += [{"op": "addTrack", "who": "A", "kind": "video"}, {"op": "offerOnly", "who": "A"}]
    elif post.startswith("reoffer-"):
        # every other re-offer is answered provisionally first (pranswer), then finally
        steps.append({"op": "remoteOffer", "who": "A", "offer": [concrete(s, post.split("-", 1)[1]) for s in vec["offer"]],
                      "session": vec["place"], "follow": "pranswer" if bid % 2 else "answer+sld"})
    return {"id": bid, "config": cfg, "steps": steps, "vec": vec}


def split_walks(res):
    """-simulate: every behaviour prints the actions it took (history variable `path`) when it ends."""
    seen, walks = set(), []
    for v in res.tag("VERIF_PATH"):
        k = vlib.canon(v[0])
        if k not in seen and v[0]:
            seen.add(k)
            walks.append(v[0])
    return walks


OBSERVE = ("negotiate", "offerOnly")


def walk_features(w, observe=OBSERVE):
    """What a history exercises, for selection: ordered pairs of calls, and pairs of calls followed
    (not necessarily at once) by a call that generates descriptions, each with who-made-it relative
    to the first call of the tuple."""
    ks = [(s.get("op"), s.get("who")) for s in w]
    f = set()
    for i in range(len(ks)):
        for j in range(i + 1, len(ks)):
            same_ij = ks[i][1] == ks[j][1]
            f.add((ks[i][0], ks[j][0], same_ij))
            for k in range(j + 1, len(ks)):
                if observe is None or ks[k][0] in observe:
                    f.add((ks[i][0], ks[j][0], ks[k][0], same_ij, ks[i][1] == ks[k][1]))
    return f


def select_walks(walks, n, rng, observe=OBSERVE):
    """Greedy cover: keep the histories that add most not-yet-seen features, then fill up at random."""
    feats = [walk_features(w, observe) for w in walks]
    order = list(range(len(walks)))
    rng.shuffle(order)
    # lazy greedy: gains only shrink, so a stale entry whose re-computed gain still tops the heap is the best
    import heapq
    heap = [(-len(feats[i]), pos, i) for pos, i in enumerate(order)]
    heapq.heapify(heap)
    seen, chosen, taken = set(), [], set()
    while len(chosen) < n and heap:
        g, pos, i = heapq.heappop(heap)
        real = len(feats[i] - seen)
        if real == 0:
            continue
        if heap and -real > heap[0][0]:
            heapq.heappush(heap, (-real, pos, i))
            continue
        chosen.append(i)
        taken.add(i)
        seen |= feats[i]
    rest = [i for i in order if i not in taken]
    chosen += rest[:max(0, n - len(chosen))]
    allf = set().union(*feats) if feats else set()
    return [walks[i] for i in chosen], len(seen), len(allf)


def run_sdp(ctx, prop, configs, nwalk_q, nwalk_t, own_preds):
    r = sdp_traces(ctx, configs, nwalk_q, nwalk_t, own_preds)
    return vlib.finish(ctx, "model_checking", rule=RULE, distinct_nontrivial=r["shapes"], exhaustive=False, replay_of=r["replay_of"])


RULE = ("histories = seeded TLC simulation of PeerConn.tla (pair of endpoints; add/remove track, add transceiver, stop, "
        "data channel, exchanges started by either side, unapplied offers) under several configurations, plus "
        "TLC-sampled synthetic remote offers (SynthOffer.tla) with local pre-state and follow-up; every description "
        "returned by CreateOffer/CreateAnswer on the real pair is judged by TLC; distinct = distinct (operation, "
        "configuration, section shape) of the judged descriptions")


def sdp_traces(ctx, configs, nwalk_q, nwalk_t, own_preds):
    """Generate, replay and validate the SDP family; sets ctx.viol and the coverage numbers, returns what finish needs."""
    quick = ctx.quick
    # 1. exhaustive check of the intended bookkeeping on the generative model
    vlib.tlc_model(ctx, "PeerConn", "PeerConn_MC", workers=12, timeout=1500)
    # 2. histories: TLC simulation of the same model (larger bounds), seeded
    nwalk = nwalk_q if quick else nwalk_t
    # many more than are replayed: the replayed ones are selected for what they exercise
    nsim = max(1500, nwalk)
    sim = vlib.run_tlc(ctx, "PeerConn", "PeerConn_Sim", workers=1, simulate="num=%d" % nsim, depth=8, timeout=900)
    if sim.rc != 0:
        raise vlib.NoVerdict("simulation failed: %s" % sim.error)
    walks = split_walks(sim)
    nsimulated = len(walks)
    walks, fcov, fall = select_walks(walks, nwalk, ctx.rng)
    ctx.cov["history_selection"] = {"simulated": nsimulated, "replayed": len(walks), "call_tuples_covered": fcov,
                                    "call_tuples_in_simulated": fall}
    ctx.log("histories: %d simulated, %d selected covering %d of %d call tuples" % (nsimulated, len(walks), fcov, fall))
    beh = []
    for i, w in enumerate(walks):
        beh.append({"id": len(beh), "config": configs[i % len(configs)], "steps": w})
    nwalks = len(beh)
    # 3. synthetic remote offers
    res = vlib.tlc_model(ctx, "SynthOffer", "SynthOffer" if quick else "SynthOffer_T", workers=1, timeout=900)
    vecs = [v[0] for v in res.tag("VERIF_VEC")]
    for j, vec in enumerate(vecs):
        cfg = "default" if configs == ["default"] or j % 3 else configs[j % len(configs)]
        if cfg in ("rtxorphan",):
            cfg = "default"
        beh.append(synth_behaviour(vec, len(beh), cfg))
    # 4. exhaustive first-exchange direction matrix (DirMatrix.tla), under every configuration of the check
    dm = vlib.tlc_model(ctx, "DirMatrix", "DirMatrix", workers=1, timeout=300)
    ndm = 0
    for v in [x[0] for x in dm.tag("VERIF_VEC")]:
        for cfg in configs:
            if cfg in ("rtxorphan", "manyext", "novideoB") and ctx.quick:
                continue
            steps = [{"op": "addTransceiverTrack" if v["otrack"] else "addTransceiver", "who": "A", "kind": v["kind"], "dir": v["odir"]}]
            if v["adir"] != "none":
                steps.append({"op": "addTransceiverTrack" if v["atrack"] else "addTransceiver", "who": "B",
                              "kind": v["kind"], "dir": v["adir"]})
            steps.append({"op": "negotiate", "who": "A"})
            if v["back"]:
                steps.append({"op": "negotiate", "who": "B"})
            beh.append({"id": len(beh), "config": cfg, "steps": steps})
            ndm += 1
    ctx.log("%d simulated histories + %d synthetic-offer vectors + %d direction-matrix exchanges" % (nwalks, len(vecs), ndm))
    infile = vlib.write_json(os.path.join(ctx.work, "behaviours.json"), beh)
    trace = os.path.join(ctx.work, "trace.ndjson")
    binary = vlib.go_build(ctx, "sdp")
    vlib.go_run(ctx, binary, "TestVerifSdp", infile, trace, timeout=1500, env={"VERIF_WORKERS": "12"})
    ctx.viol = vlib.tlc_trace(ctx, "Sdp_Trace", "Sdp_Trace", trace, chunk=4000)
    pr = ctx.cov["predicates"]
    def count(p):   # predicates with a detail are counted as "name:detail"
        return sum(n for k, n in pr.items() if k == p or k.startswith(p + ":"))
    missing = [p for p in own_preds if not count(p)]
    if missing:
        raise vlib.NoVerdict("predicates not exercised: %s" % missing)
    lines = vlib.read_ndjson(trace)
    descs = [l for l in lines if l["ev"] == "desc"]
    ctx.cov["evaluations"] = sum(count(p) for p in own_preds)
    ctx.cov["descriptions_judged"] = len(descs)
    ctx.cov["traces_validated_against_impl"] = len(beh)
    shapes = {(l["op"], l["cfg"], tuple((s["kind"], s["mid"], s["port"] != 0, tuple(s["dirs"])) for s in l["d"]["sections"]))
              for l in descs}
    ctx.cov["samples"] = [{"history": beh[0]["steps"]}, {"synthetic": beh[nwalks]["steps"] if len(beh) > nwalks else None}]
    bytrace = {}
    for l in lines:
        bytrace.setdefault(l["t"], []).append(l)

    def replay_of(v):
        ls = bytrace.get(v["trace"], [])
        slim = [{k: x for k, x in l.items() if k not in ("d", "offer")} for l in ls]
        bad = [l for l in ls if l.get("seq") and l["ev"] == "desc"][-3:]
        return {"behaviour": beh[v["trace"]], "recorded": slim, "last_descriptions": bad}

    return {"shapes": len(shapes), "replay_of": replay_of, "beh": beh, "lines": lines}
