"""C05 — operations queue: PlusCal model (spec/OpsQueue.tla), schedules replayed through gates."""
import os
import re
import vlib

CONSTS = {"enqs": ["a", "b"], "selfenq": ["a"], "waiters": ["w"], "closers": ["c"]}


def run(ctx):
    quick = ctx.quick
    # 1. design check: the repaired protocol satisfies every normative property incl. liveness
    #    (the same run emits its labelled state graph = the schedule space)
    res = vlib.tlc_model(ctx, "OpsQueue", "OpsQueue_fixed", workers=1)
    gfix = vlib.graph_from(res)
    if not quick:
        vlib.tlc_model(ctx, "OpsQueue", "OpsQueue_fixed_big", workers=16, timeout=1500)
    # 1b. the protocol as it was pinned: TLC exhibits the abandoned-waiter / Done-on-closed counterexample
    r = vlib.tlc_expect_violation(ctx, "OpsQueue", "OpsQueue_asis", workers=4)
    ctx.cov["asis_model"] = "counterexample found by TLC" if r.rc == 12 else "rc=%s" % r.rc
    # 2. schedules: the as-is variant's graph contributes the interleavings around the close window
    gasis = vlib.graph_from(vlib.tlc_model(ctx, "OpsQueue", "OpsQueue_graph_asis", workers=1))
    paths = []
    for g, nwalk, cover in ((gfix, 150 if quick else 6000, True), (gasis, 100 if quick else 3000, not quick)):
        ctx.log("schedule graph: %d states, %d edges" % (len(g.nodes), g.nedges))
        if cover:
            paths += g.edge_cover(ctx.rng, 60, maximal=True)
        paths += g.random_walks(ctx.rng, nwalk, 60)
    beh = []
    for i, p in enumerate(paths):
        b = dict(CONSTS)
        b.update({"id": i, "steps": [a for _, a, _ in p], "free": False})
        beh.append(b)
    nfree = 200 if quick else 5000
    for j in range(nfree):
        b = {"enqs": ["a", "b", "d"], "selfenq": ["a", "d"], "waiters": ["w", "v"], "closers": ["c"],
             "id": len(beh), "steps": [], "free": True}
        beh.append(b)
    for j in range(12 if quick else 200):
        beh.append({"id": len(beh), "enqs": [], "selfenq": [], "waiters": [], "closers": [], "steps": [], "free": True, "churn": 1 + j % 4})
    ctx.log("%d gate-driven schedules (%d steps) + %d free-running stress runs" %
            (len(paths), sum(len(p) for p in paths), nfree))
    infile = vlib.write_json(os.path.join(ctx.work, "behaviours.json"), beh)
    trace = os.path.join(ctx.work, "trace.ndjson")
    # 3. replay
    binary = vlib.go_build(ctx, "opsqueue")
    rc, out = vlib.go_run(ctx, binary, "TestVerifOpsQueue", infile, trace, timeout=1200)
    m = re.search(r"VERIF_STAT behaviours=(\d+) not_driven=(\d+)", out)
    not_driven = int(m.group(2)) if m else -1
    ctx.cov["schedules_not_driven"] = not_driven
    if m and not_driven >= len(paths) > 0:
        raise vlib.NoVerdict("no schedule could be driven")
    # 4. validate
    ctx.viol = vlib.tlc_trace(ctx, "OpsQueue_Trace", "OpsQueue_Trace", trace)
    lines = vlib.read_ndjson(trace)
    starts = sum(1 for l in lines if l["ev"] == "start")
    ctx.cov["evaluations"] = len(beh)
    ctx.cov["traces_validated_against_impl"] = len(beh)
    ctx.cov["items_run"] = starts
    distinct = {tuple((s["proc"], s["label"]) for s in b["steps"]) for b in beh if not b["free"]}
    ctx.cov["samples"] = [{"schedule": beh[0]["steps"][:12]},
                          {"recorded": [{k: v for k, v in l.items() if k not in ("seq",)} for l in lines[:10]]}]
    if not ctx.cov["predicates"].get("Fifo"):
        raise vlib.NoVerdict("no item was observed starting")
    bytrace = {}
    for l in lines:
        bytrace.setdefault(l["t"], []).append(l)

    def replay_of(v):
        b = beh[v["trace"]]
        return {"behaviour": b, "recorded": bytrace.get(v["trace"], [])}

    return vlib.finish(
        ctx, "model_checking",
        rule="schedules = edge cover + seeded random maximal walks of the TLC state graphs of OpsQueue.tla (as-is and "
             "repaired variant; 2 enqueuers, one self-enqueuing item, Done, GracefulClose), each driven through the "
             "real operations value with gates at the yield points; plus free-running perturbed runs with more actors; "
             "distinct = distinct gate schedules",
        distinct_nontrivial=len(distinct), exhaustive=False, replay_of=replay_of)
