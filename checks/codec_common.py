"""Shared by C17 and C15 (family Codec): reading the default codec list from the real code."""
import os
import vlib


def real_default_codecs(ctx):
    """Run TestVerifCodecDefaults (harness/codecdefaults, root package): the codecs that
    RegisterDefaultCodecs registers in the tree under test, as a list of dicts."""
    binary = vlib.go_build(ctx, "codecdefaults")
    out = os.path.join(ctx.work, "defaults.ndjson")
    vlib.go_run(ctx, binary, "TestVerifCodecDefaults", None, out, timeout=120)
    lines = [l for l in vlib.read_ndjson(out) if l.get("ev") == "defaultcodec"]
    if not lines:
        raise vlib.NoVerdict("RegisterDefaultCodecs dump is empty")
    return [{k: l[k] for k in ("kind", "mime", "clock", "ch", "line", "pt", "fb")} for l in lines]


def tlc_trace_parallel(ctx, spec, cfg, trace, jobs=4, timeout=900):
    """vlib.tlc_trace for long traces: the file is cut at 'reset' lines into `jobs` pieces which are
    validated by concurrent TLC processes (each piece is a complete sequence of behaviours; the trace
    spec keeps no state across a reset).  Same result format as vlib.tlc_trace."""
    import shutil
    import subprocess
    import time
    from concurrent.futures import ThreadPoolExecutor

    lines = [l for l in open(trace).read().splitlines() if l.strip()]
    if not lines:
        raise vlib.NoVerdict("empty trace %s" % trace)
    starts = [i for i, l in enumerate(lines) if '"ev":"reset"' in l.replace(" ", "")]
    if not starts or starts[0] != 0:
        starts = [0] + starts
    per = max(1, (len(starts) + jobs - 1) // jobs)
    cuts = [starts[i] for i in range(0, len(starts), per)] + [len(lines)]
    pieces = [lines[cuts[i]:cuts[i + 1]] for i in range(len(cuts) - 1)]

    def one(i):
        d = os.path.join(ctx.work, "ptlc-%s-%d" % (spec, i))
        os.makedirs(d)
        for f in os.listdir(vlib.SPEC):
            if f.endswith(".tla") or f.endswith(".cfg"):
                shutil.copy(os.path.join(vlib.SPEC, f), d)
        p = os.path.join(d, "piece.ndjson")
        with open(p, "w") as fh:
            fh.write("\n".join(pieces[i]) + "\n")
        env = dict(os.environ)
        env["VERIF_TRACE"] = p
        cmd = ["timeout", str(timeout), "tlc", "-metadir", os.path.join(d, "meta"), "-workers", "1",
               "-config", cfg + ".cfg", "-seed", str(ctx.seed), spec + ".tla"]
        t0 = time.time()
        r = subprocess.run(cmd, cwd=d, env=env, stdout=subprocess.PIPE, stderr=subprocess.STDOUT, text=True,
                           errors="replace")
        printed = {}
        for line in r.stdout.splitlines():
            if line.startswith('<<"VERIF_'):
                pr = vlib._parse_printed(line)
                if pr:
                    printed.setdefault(pr[0], []).append(pr[1])
        if not os.environ.get("VERIF_KEEP"):
            shutil.rmtree(d, ignore_errors=True)
        return i, r.returncode, printed, r.stdout, time.time() - t0

    viol, counts, total = [], {}, 0
    with ThreadPoolExecutor(max_workers=jobs) as ex:
        results = list(ex.map(one, range(len(pieces))))
    for i, rc, printed, out, wall in results:
        if rc == 124:
            raise vlib.NoVerdict("trace validation %s timed out after %ss" % (spec, timeout))
        rep = printed.get("VERIF_VIOL")
        if rc != 0 or not rep:
            raise vlib.NoVerdict("trace validation %s/%s did not complete (rc=%s):\n%s" %
                                 (spec, cfg, rc, "\n".join(out.splitlines()[-30:])))
        last = rep[-1]
        if (last[2] if len(last) > 2 else None) != len(pieces[i]):
            raise vlib.NoVerdict("trace spec consumed %s of %d lines" % (last[2:], len(pieces[i])))
        for r in (last[0] if isinstance(last[0], list) else []):
            r = dict(r)
            r["chunk"] = i
            viol.append(r)
        for c in printed.get("VERIF_COUNT", []):
            for k, n in (c[0] or {}).items():
                counts[k] = counts.get(k, 0) + n
        total += len(pieces[i])
        ctx.cov["tlc_runs"].append({"spec": spec, "cfg": cfg, "rc": rc, "piece": i, "lines": len(pieces[i]),
                                    "wall_s": round(wall, 2)})
    ctx.cov["trace_lines_validated"] = ctx.cov.get("trace_lines_validated", 0) + total
    for k, n in counts.items():
        ctx.cov["predicates"][k] = ctx.cov["predicates"].get(k, 0) + n
    ctx.log("TLC trace %s: %d lines in %d concurrent pieces, %d violation records" % (spec, total, len(pieces), len(viol)))
    return viol


def tlc_models_parallel(ctx, spec, cfg, seeds, timeout=560):
    """Run the same single-worker emission model concurrently with several seeds (vlib.tlc_model is
    not re-entrant).  Each run must succeed (its invariants hold on the model); returns, per seed, the
    list of VERIF_VEC values.  States/transitions are added to the evidence like vlib.tlc_model does."""
    import re
    import shutil
    import subprocess
    import time
    from concurrent.futures import ThreadPoolExecutor

    def one(seed):
        d = os.path.join(ctx.work, "mtlc-%s-%d" % (cfg, seed))
        os.makedirs(d)
        for f in os.listdir(vlib.SPEC):
            if f.endswith(".tla") or f.endswith(".cfg"):
                shutil.copy(os.path.join(vlib.SPEC, f), d)
        cmd = ["timeout", str(timeout), "tlc", "-metadir", os.path.join(d, "meta"), "-workers", "1",
               "-config", cfg + ".cfg", "-seed", str(seed), spec + ".tla"]
        t0 = time.time()
        r = subprocess.run(cmd, cwd=d, stdout=subprocess.PIPE, stderr=subprocess.STDOUT, text=True, errors="replace")
        vecs, gen, dist = [], 0, 0
        for line in r.stdout.splitlines():
            if line.startswith('<<"VERIF_VEC"'):
                pr = vlib._parse_printed(line)
                if pr:
                    vecs.append(pr[1][0])
                continue
            m = re.match(r"^(\d+) states generated, (\d+) distinct states found", line)
            if m:
                gen, dist = int(m.group(1)), int(m.group(2))
        if not os.environ.get("VERIF_KEEP"):
            shutil.rmtree(d, ignore_errors=True)
        return seed, r.returncode, vecs, gen, dist, r.stdout, time.time() - t0

    with ThreadPoolExecutor(max_workers=len(seeds)) as ex:
        results = list(ex.map(one, seeds))
    out = []
    for seed, rc, vecs, gen, dist, stdout, wall in results:
        if rc == 124:
            raise vlib.NoVerdict("TLC timed out after %ss on %s/%s" % (timeout, spec, cfg))
        if rc != 0:
            raise vlib.NoVerdict("model check %s/%s (seed %d) failed (rc=%s):\n%s" %
                                 (spec, cfg, seed, rc, "\n".join(stdout.splitlines()[-40:])))
        ctx.cov["states"] += dist
        ctx.cov["transitions"] += gen
        ctx.cov["tlc_runs"].append({"spec": spec, "cfg": cfg, "rc": rc, "seed": seed, "generated": gen,
                                    "distinct": dist, "wall_s": round(wall, 2)})
        out.append(vecs)
    ctx.log("TLC model %s/%s x %d seeds: %d vectors" % (spec, cfg, len(seeds), sum(len(v) for v in out)))
    return out
