"""Shared by C17 and C15 (family Codec): reading the default codec list from the real code."""
import os
import vlib


def real_default_codecs(ctx):
    """Run TestVerifCodecDefaults (harness/codecdefaults, root package): the codecs that
    RegisterDefaultCodecs registers in the tree under test, as a list of dicts."""
    binary = vlib.go_build(ctx, "codecdefaults")
    out = os.path.join(ctx.work, "defaults.ndjson")
    vlib.go_run(ctx, binary, "TestVerifCodecDefaults", None, out, timeout=120)
    lines = [l for l in vlib.read_ndjson(out) if l.get("ev") == "defaultcodec"]
    if not lines:
        raise vlib.NoVerdict("RegisterDefaultCodecs dump is empty")
    return [{k: l[k] for k in ("kind", "mime", "clock", "ch", "line", "pt", "fb")} for l in lines]
