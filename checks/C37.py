"""C37 - container readers never crash or hang on arbitrary bytes (structural input space).

spec/ReadersOps.tla (contract), spec/Readers.tla (file layouts, mutation space, transcribed readers, contract
automaton), harness/rd_{ivf,ogg,h264,h265,rtpdump} (drivers, one test binary per reader package),
spec/Readers_Trace.tla (trace spec)."""
import json
import os
import re
import sys
import threading

sys.path.insert(0, os.path.dirname(os.path.abspath(__file__)))
import vlib  # noqa: E402
from readers_common import run_parallel, counterexample  # noqa: E402

HARNESS = {"ivf": "rd_ivf", "ogg": "rd_ogg", "opushead": "rd_ogg", "opustags": "rd_ogg",
           "h264": "rd_h264", "h265": "rd_h265", "rtpdump": "rd_rtpdump"}
MODES = ["full", "byte", "eofdata"]
BATCH = 1000
# per-vector deadline inside a batch process (typical vector: microseconds, slowest seen: 0.1 s) and, six times
# longer, when a vector that exceeded it is re-run alone
HANG_BATCH_S = int(os.environ.get("VERIF_CALL_DEADLINE_S") or 20)
HANG_CONFIRM_S = 6 * HANG_BATCH_S
MAX_CRASHES = 3000          # per run; beyond that the run is abandoned (no verdict)
OOM_RE = re.compile(r"out of memory|cannot allocate memory|runtime: cannot allocate")
FATAL_RE = re.compile(r"^(fatal error: .*|panic: .*|SIG[A-Z]+: .*)$", re.M)


def _norm(msg):
    return re.sub(r"\s+", "_", re.sub(r"[0-9]+", "N", msg.strip()))[:80]


def classify_death(rc, out):
    """How a child process that did not finish died: ("oom"|"panic", message class) or None (not a crash)."""
    if rc in (124, 137):
        return None
    if OOM_RE.search(out):
        return "oom", ""
    m = FATAL_RE.search(out)
    if m:
        return "panic", _norm(m.group(1))
    return None


class Harness:
    """Runs a slice of the vectors of one reader package in child processes, batch by batch. The driver flushes a
    mark line before every call and a run line after every vector, so when a child dies the vector and the call
    in flight are known; the run is resumed behind that vector. The first crashes of each kind are re-run alone
    in a process of their own to confirm that the vector itself (not what ran before it) kills the process."""

    CONFIRM = 3

    def __init__(self, ctx, name, shard, binary, bases, vecs):
        self.ctx, self.name, self.binary, self.bases, self.vecs = ctx, name, binary, bases, vecs
        self.lines = {}          # id -> recorded (or, for a crash, reconstructed) run line
        self.children = 0
        self.crashes = []        # (id, kind, msg, confirmed alone: True / False / None = not re-run)
        self.hangs = []          # (id, sig, hung again alone: True / False / None = not re-run)
        self.limit = None
        self.dir = os.path.join(ctx.work, "h-%s-%d" % (name, shard))
        os.makedirs(self.dir, exist_ok=True)

    def _child(self, vecs, env=None):
        self.children += 1
        tag = "%s-%d" % (self.name, self.children)
        infile = vlib.write_json(os.path.join(self.dir, tag + ".in.json"), {"bases": self.bases, "vecs": vecs})
        outfile = os.path.join(self.dir, tag + ".ndjson")
        rc, out = vlib.go_run(self.ctx, self.binary, "TestVerifReaders", infile, outfile, env=env, timeout=900,
                              allow_fail=True)
        lines = []
        if os.path.exists(outfile):
            for ln in open(outfile, errors="replace").read().splitlines():
                try:
                    lines.append(json.loads(ln))
                except ValueError:
                    pass             # a torn last line of a process that died
        os.remove(infile)
        if not os.environ.get("VERIF_KEEP") and os.path.exists(outfile):
            os.remove(outfile)
        for ln in lines:
            if ln.get("ev") == "start":
                self.limit = ln.get("limit")
                if not ln.get("basecrc", False):
                    raise vlib.NoVerdict("%s: the page checksums in the layouts of Readers.tla are not valid "
                                         "(layout constants out of date)" % self.name)
        return rc, out, lines

    @staticmethod
    def _reconstruct(v, kind, msg, marks):
        nxt = [m for m in marks if m["call"] == "next"]
        call = marks[-1]["call"] if marks else "open"
        return {"ev": "run", "t": v["id"], "sig": "%s.%s" % (v["fmt"], call), "fmt": v["fmt"], "n": -1,
                "mode": v["mode"], "open": "value" if nxt else kind,
                "pos0": nxt[0]["pos"] if nxt else 0, "calls": [m["pos"] for m in nxt[1:]],
                "end": kind, "msg": msg, "seq": 0, "reconstructed": True}

    def _crashed(self, v, kind, msg, marks):
        """The process died while vector v was in flight."""
        same = sum(1 for c in self.crashes if (c[1], c[2]) == (kind, msg))
        if same >= self.CONFIRM:
            self.crashes.append((v["id"], kind, msg, None))
            return self._reconstruct(v, kind, msg, marks)
        rc, out, lines = self._child([v])
        runs = [ln for ln in lines if ln.get("ev") == "run"]
        if runs:                              # it survived alone: use what it did, say so
            self.ctx.notes.append("%s: vector %d killed the batch process (%s) but not a process of its own" %
                                  (self.name, v["id"], kind))
            self.crashes.append((v["id"], kind, msg, False))
            return runs[0]
        again = classify_death(rc, out)
        if again is None:
            raise vlib.NoVerdict("%s: re-running vector %d alone ended rc=%s without a crash report:\n%s" %
                                 (self.name, v["id"], rc, out[-1500:]))
        self.crashes.append((v["id"], again[0], again[1], True))
        return self._reconstruct(v, again[0], again[1], [ln for ln in lines if ln.get("ev") == "mark"])

    def _hung(self, line, vs):
        """A call exceeded the in-batch deadline. On a loaded machine a process can be starved for seconds, so
        the vector is re-run alone with a six times longer deadline; only a hang that shows again is kept
        (after two confirmed hangs of the same signature further ones are taken as they are)."""
        confirmed = sum(1 for h in self.hangs if h[1] == line["sig"] and h[2])
        if confirmed >= 2 or not vs:
            self.hangs.append((line["t"], line["sig"], None))
            return
        rc, out, lines = self._child(vs, env={"VERIF_CALL_DEADLINE_S": str(HANG_CONFIRM_S)})
        runs = [ln for ln in lines if ln.get("ev") == "run"]
        if not runs:
            raise vlib.NoVerdict("%s: re-running hung vector %d alone gave no run line (rc=%s):\n%s" %
                                 (self.name, line["t"], rc, out[-1500:]))
        again = runs[0].get("end") == "hang"
        self.hangs.append((line["t"], line["sig"], again))
        if not again:
            self.lines[line["t"]] = runs[0]
            self.ctx.notes.append("%s: vector %d exceeded the %d s deadline in its batch but returned when re-run alone" %
                                  (self.name, line["t"], HANG_BATCH_S))

    def run(self):
        todo = list(self.vecs)
        while todo:
            batch, todo = todo[:BATCH], todo[BATCH:]
            while batch:
                rc, out, lines = self._child(batch, env={"VERIF_CALL_DEADLINE_S": str(HANG_BATCH_S)})
                got = {ln["t"]: ln for ln in lines if ln.get("ev") == "run"}
                self.lines.update(got)
                rest = [v for v in batch if v["id"] not in got]
                if rc == 0:
                    if rest:
                        raise vlib.NoVerdict("%s: driver ended normally without %d vectors" % (self.name, len(rest)))
                    break
                if rc == 3 and lines and lines[-1].get("end") == "hang":     # the driver reported a hang and left
                    self._hung(lines[-1], [v for v in batch if v["id"] == lines[-1]["t"]])
                    batch = rest
                    continue
                death = classify_death(rc, out)
                if death is None or not rest:
                    raise vlib.NoVerdict("%s: driver failed rc=%s:\n%s" % (self.name, rc, out[-3000:]))
                culprit = rest[0]                                             # the first vector without a run line
                marks = [ln for ln in lines if ln.get("ev") == "mark" and ln["t"] == culprit["id"]]
                self.lines[culprit["id"]] = self._crashed(culprit, death[0], death[1], marks)
                if len(self.crashes) > MAX_CRASHES:
                    raise vlib.NoVerdict("%s: more than %d crashing vectors" % (self.name, MAX_CRASHES))
                batch = rest[1:]


def run(ctx):
    quick = ctx.quick
    names = sorted(set(HARNESS.values()))
    # 1. TLC (model check of the intended readers, refutation of the pinned ("asis") IVF reader, emission of the
    #    vector space with the predictions of the transcription of the code as it is now, Impl "current") and
    #    the five test binaries, all at the same time
    jobs = [("mc", "Readers", "Readers_MC" if quick else "Readers_MCT", dict(workers=4 if quick else 8, timeout=560)),
            ("asis", "Readers", "Readers_asis", dict(workers=1, timeout=300)),
            ("emit", "Readers", "Readers_emit" if quick else "Readers_emitT", dict(workers=1 if quick else 1, timeout=560))]
    r = run_parallel(ctx, jobs, [("bin-" + n, (lambda n=n: vlib.go_build(ctx, n))) for n in names])
    mc = r["mc"]
    if mc.rc != 0:
        raise vlib.NoVerdict("model check of Readers (intended) failed rc=%s:\n%s" % (mc.rc, mc.error or mc.stdout[-3000:]))
    ctx.cov["states"] += mc.distinct
    ctx.cov["transitions"] += mc.generated
    ctx.log("TLC model Readers (intended): %d states, depth %d, %.1fs: NoPanic, ProgressOrStop, termination, "
            "positions inside the input, base files valid" % (mc.distinct, mc.depth, mc.wall))
    a = r["asis"]
    ctx.cov["states"] += a.distinct
    ctx.cov["transitions"] += a.generated
    inv, vec = counterexample(a)
    ctx.cov["asis_counterexample"] = {"rc": a.rc, "violated": inv, "vector": vec}
    ctx.log("TLC as-is (pinned) IVF reader: rc=%s violated=%s" % (a.rc, inv))
    if a.rc == 0:
        ctx.notes.append("model drift: the as-is IVF reader model is no longer refuted by TLC")
    emit = r["emit"]
    if emit.rc != 0:
        raise vlib.NoVerdict("vector emission failed rc=%s:\n%s" % (emit.rc, emit.error or emit.stdout[-3000:]))
    ctx.cov["states"] += emit.distinct
    ctx.cov["transitions"] += emit.generated
    bases = [b[0] for b in emit.tag("VERIF_BASE")]
    raw = [v[0] for v in emit.tag("VERIF_VEC")]
    raw.sort(key=vlib.canon)
    if not raw or not bases:
        raise vlib.NoVerdict("TLC emitted no vectors")

    # 2. delivery mode of the counting io.Reader: single mutations / truncations run in all three modes (quick
    #    tier: Ogg and IVF vectors in one mode each, rotating), double mutations in one (seeded)
    vecs = []
    for i, v in enumerate(raw):
        double = len(v["patches"]) + (1 if v["trunc"] >= 0 else 0) > 1
        if v["fmt"] in ("opushead", "opustags"):
            modes = ["full"]                                  # no stream involved
        elif double:
            modes = [MODES[ctx.rng.randrange(3)]]
        elif quick and v["fmt"] in ("ogg", "ivf"):
            modes = [MODES[(i + ctx.seed) % 3]]               # these read with io.ReadFull straight from the stream
        else:
            modes = MODES
        for m in modes:
            vecs.append({"id": len(vecs), "fmt": v["fmt"], "base": v["base"], "patches": v["patches"], "trunc": v["trunc"],
                         "fix": v["fix"], "mode": m, "n": v["n"], "exp": v["exp"]})
    per_fmt = {}
    for v in vecs:
        per_fmt[v["fmt"]] = per_fmt.get(v["fmt"], 0) + 1
    ctx.log("%d structural vectors from TLC -> %d runs %s" % (len(raw), len(vecs), per_fmt))

    # 3. replay in child processes, one harness per reader package, in parallel
    hs = []
    shards = 1 if quick else 4
    for n in names:
        mine = [{k: v[k] for k in ("id", "fmt", "base", "patches", "trunc", "fix", "mode")}
                for v in vecs if HARNESS[v["fmt"]] == n]
        fm = {f for f, h in HARNESS.items() if h == n}
        step = (len(mine) + shards - 1) // shards or 1
        for k in range(shards):
            part = mine[k * step:(k + 1) * step]
            if part:
                hs.append(Harness(ctx, n, k, r["bin-" + n], [b for b in bases if b["fmt"] in fm], part))
    errs = []

    def go(h):
        try:
            h.run()
        except BaseException as e:  # noqa: BLE001
            errs.append(e)

    th = [threading.Thread(target=go, args=(h,)) for h in hs]
    for t in th:
        t.start()
    for t in th:
        t.join()
    for e in errs:
        if isinstance(e, vlib.NoVerdict):
            raise e
        raise vlib.NoVerdict("driver orchestration failed: %r" % (e,))
    lines = {}
    for h in hs:
        lines.update(h.lines)
    missing = [v["id"] for v in vecs if v["id"] not in lines]
    if missing:
        raise vlib.NoVerdict("%d vectors were not run (first: %s)" % (len(missing), missing[:5]))
    crashes = [c for h in hs for c in h.crashes]
    ctx.cov["child_processes"] = sum(h.children for h in hs)
    ctx.cov["address_space_limit_bytes"] = max([h.limit or 0 for h in hs])
    ctx.cov["process_deaths"] = len(crashes)
    ctx.cov["process_deaths_confirmed_alone"] = sum(1 for c in crashes if c[3] is True)
    ctx.cov["process_deaths_not_reproduced_alone"] = sum(1 for c in crashes if c[3] is False)
    hangs = [x for h in hs for x in h.hangs]
    ctx.cov["deadline_expiries"] = len(hangs)
    ctx.cov["deadline_expiries_not_reproduced_alone"] = sum(1 for x in hangs if x[2] is False)
    ctx.log("replayed %d runs in %d child processes; %d process deaths (%d re-run alone: %d died again)" %
            (len(vecs), ctx.cov["child_processes"], len(crashes), sum(1 for c in crashes if c[3] is not None),
             ctx.cov["process_deaths_confirmed_alone"]))

    # 4. TLC judges the recorded runs
    trace = os.path.join(ctx.work, "trace.ndjson")
    with open(trace, "w") as fh:
        for i, v in enumerate(vecs):
            if i % 5000 == 0:
                fh.write(json.dumps({"ev": "reset", "t": v["id"], "sig": "reset"}) + "\n")
            fh.write(json.dumps(lines[v["id"]]) + "\n")
    ctx.viol = vlib.tlc_trace(ctx, "Readers_Trace", "Readers_Trace", trace, timeout=900)

    # 5. model drift (transcription of the current code vs pion), coverage, vacuity
    drift, samples, compared = 0, [], 0
    for v in vecs:
        if v["mode"] == "eofdata" and v["fmt"] in ("h264", "h265"):
            continue        # their read() drops the bytes delivered together with io.EOF: not modelled
        ln, exp = lines[v["id"]], v["exp"]
        compared += 1
        got = (ln["open"], ln["pos0"], list(ln["calls"]), ln["end"])
        want = (exp["open"], exp["pos0"], list(exp["calls"]), exp["end"])
        if got != want:
            drift += 1
            if len(samples) < 3:
                samples.append({"vector": {k: v[k] for k in ("fmt", "base", "patches", "trunc", "fix", "mode")},
                                "model": want, "pion": got})
    ctx.cov["model_drift_runs"] = drift
    ctx.cov["model_drift_compared"] = compared
    if samples:
        ctx.cov["model_drift_samples"] = samples
        ctx.notes.append("model drift: %d of %d runs differ from the transcription of the current code (not a verdict)" % (drift, compared))
    ctx.log("transcription of the current code vs pion: %d of %d runs differ" % (drift, compared))

    preds = ctx.cov["predicates"]
    nopanic = sum(n for k, n in preds.items() if k.startswith("NoPanic"))
    progress = sum(n for k, n in preds.items() if k.startswith("ProgressOrStop"))
    if not nopanic or not progress:
        raise vlib.NoVerdict("predicates never exercised (NoPanic %d, ProgressOrStop %d)" % (nopanic, progress))
    seen_fmt = {ln["fmt"] for ln in lines.values()}
    if seen_fmt != set(HARNESS):
        raise vlib.NoVerdict("formats not exercised: %s" % sorted(set(HARNESS) - seen_fmt))
    ends = {}
    for ln in lines.values():
        k = "%s:%s" % (ln["fmt"], ln["end"])
        ends[k] = ends.get(k, 0) + 1
    ctx.cov["runs_by_format_and_end"] = dict(sorted(ends.items()))
    ctx.cov["read_calls_returning_values"] = sum(len(ln["calls"]) for ln in lines.values())
    ctx.cov["evaluations"] = nopanic + progress
    ctx.cov["traces_validated_against_impl"] = len(vecs)
    some = [v for v in vecs if v["patches"] and v["fmt"] == "ivf"][:1] + [v for v in vecs if v["fmt"] == "ogg" and v["trunc"] > 60][:1]
    ctx.cov["samples"] = [{"vector": {k: v[k] for k in ("fmt", "base", "patches", "trunc", "fix", "mode")},
                           "model_prediction": v["exp"],
                           "recorded": {k: lines[v["id"]][k] for k in ("open", "pos0", "calls", "end", "msg")}} for v in some] + \
        [{"crash": {"fmt": lines[c[0]]["fmt"], "end": c[1], "msg": c[2], "confirmed_alone": c[3],
                    "vector": {k: vecs[c[0]][k] for k in ("fmt", "base", "patches", "trunc", "fix", "mode")}}} for c in crashes[:2]]
    ctx.assumptions += [
        "input space is structural (DESIGN 6): base files of spec/Readers.tla, every truncation, every field x boundary "
        "value%s; not arbitrary bytes" % ("" if quick else ", seeded samples of double mutations and mutation + truncation"),
        "each reader process limits its own address space (RLIMIT_AS) to what it uses at start + 1 GiB; inputs are below 1 KiB, "
        "so the runtime's fatal out-of-memory error means a length field drove an allocation of about 1 GiB or more",
        "a vector whose calls do not return within %d s in its batch process and again within %d s in a process of "
        "its own is a hang (typical vector: microseconds; slowest seen: 0.1 s)" % (HANG_BATCH_S, HANG_CONFIRM_S),
        "consumed-byte counter = bytes the reader took from the io.Reader minus bytes still unread in its own buffer "
        "(bufio.Reader of the rtpdump reader, readBuffer of the Annex-B readers)",
        "io.Reader delivery modes: full, one byte per Read, io.EOF returned together with the last bytes",
    ]
    byid = {v["id"]: v for v in vecs}

    def replay_of(v):
        c = byid.get(v["trace"])
        return {"vector": {k: c[k] for k in ("fmt", "base", "patches", "trunc", "fix", "mode")} if c else None,
                "base_bytes": next((b["bytes"] for b in bases if c and b["fmt"] == c["fmt"] and b["base"] == c["base"]), None),
                "model_prediction": c["exp"] if c else None, "recorded": lines.get(v["trace"])}

    distinct = {vlib.canon([v[k] for k in ("fmt", "base", "patches", "trunc", "fix", "mode")]) for v in vecs}
    # level: the structural space is enumerated (and, in the quick tier, exhausted) by TLC, but the property
    # speaks of every byte stream: DESIGN 4 C37 / 6 claim it at exploration level
    return vlib.finish(
        ctx, "exploration",
        rule="vectors = every terminal state of the TLC run of Readers.tla: per base file the intact file, every truncation "
             "offset and every (field, boundary value) mutation%s, each run under the stated io.Reader delivery modes; one "
             "evaluation = NoPanic / ProgressOrStop judged by TLC on the recorded run of one vector; distinct = distinct "
             "(format, base, mutation, truncation, checksum repair, delivery mode)"
             % ("" if quick else " plus seeded samples of double mutations"),
        distinct_nontrivial=len(distinct), exhaustive=quick, replay_of=replay_of)
