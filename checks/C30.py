"""C30 — no remote input can crash the process (spec/RemoteInput.tla; vectors in crash-isolated child processes)."""
import json
import os
import vlib


def run(ctx):
    res = vlib.tlc_model(ctx, "RemoteInput", "RemoteInput" if ctx.quick else "RemoteInput_T", workers=1, timeout=1500)
    vecs = [v[0] for v in res.tag("VERIF_VEC")]
    ctx.rng.shuffle(vecs)
    ctx.log("%d structural vectors (%d descriptions, %d candidates)" %
            (len(vecs), sum(1 for v in vecs if v["kind"] == "sdp"), sum(1 for v in vecs if v["kind"] == "cand")))
    binary = vlib.go_build(ctx, "hostile")
    infile = vlib.write_json(os.path.join(ctx.work, "vecs.json"), vecs)
    final = os.path.join(ctx.work, "trace.ndjson")
    out_lines = []
    start, crashes, rounds = 0, 0, 0
    nshard = 8
    # shards run one after the other inside this loop; each child is restarted behind a vector that killed it
    import concurrent.futures

    def run_range(lo, hi, tag):
        lines, pos, dead, budget_hits = [], lo, 0, 0
        top = hi
        while pos < top:
            # one child process per slice of at most 1000 vectors (well inside the time budget of a child)
            hi = min(top, pos + 1000)
            part = os.path.join(ctx.work, "part-%s-%d-%d.ndjson" % (tag, pos, budget_hits))
            rc, out = vlib.go_run(ctx, binary, "TestVerifHostile", infile, part, timeout=1200,
                                  env={"VERIF_START": pos, "VERIF_STOP": hi}, allow_fail=True)
            got = vlib.read_ndjson(part) if os.path.exists(part) else []
            done = [l for l in got if l["ev"] == "vec"]
            lines += done
            begun = [l["t"] for l in got if l["ev"] == "begin"]
            finished = {l["t"] for l in done}
            if rc == 0 and (not begun or begun[-1] in finished) and (not begun or begun[-1] == hi - 1):
                pos = hi
                continue
            inflight = [t for t in begun if t not in finished]
            if rc in (124, 137):
                # the child was stopped by this check's own time budget: that is not a death of the process under
                # test; go on with the vector that was in flight (no outcome is recorded for it from this child)
                budget_hits += 1
                if budget_hits > 5:
                    raise vlib.NoVerdict("hostile driver children keep running into the time budget")
                pos = inflight[-1] if inflight else (begun[-1] + 1 if begun else pos)
                continue
            if inflight:
                t = inflight[-1]
                v = vecs[t]
                sig = "crash(%s)" % json.dumps({k: v[k] for k in sorted(v) if k != "secs"}, sort_keys=True)[:200]
                lines.append({"ev": "vec", "t": t, "kind": v["kind"], "outcome": "crashed", "sig": sig,
                              "stderr": out[-1500:]})
                dead += 1
                pos = t + 1
            elif begun:
                pos = begun[-1] + 1
            else:
                raise vlib.NoVerdict("hostile driver produced nothing: %s" % out[-800:])
            if dead > 200:
                break
        return lines, dead

    step = (len(vecs) + nshard - 1) // nshard
    with concurrent.futures.ThreadPoolExecutor(max_workers=nshard) as ex:
        futs = [ex.submit(run_range, i * step, min(len(vecs), (i + 1) * step), "s%d" % i) for i in range(nshard)]
        for f in futs:
            l, d = f.result()
            out_lines += l
            crashes += d
    out_lines.sort(key=lambda l: l["t"])
    with open(final, "w") as fh:
        fh.write(json.dumps({"ev": "reset", "t": 0, "sig": "reset"}) + "\n")
        for l in out_lines:
            l.pop("seq", None)
            fh.write(json.dumps(l) + "\n")
    if len(out_lines) < len(vecs):
        raise vlib.NoVerdict("only %d of %d vectors have an outcome" % (len(out_lines), len(vecs)))
    ctx.viol = vlib.tlc_trace(ctx, "RemoteInput_Trace", "RemoteInput_Trace", final)
    ctx.cov["evaluations"] = len(out_lines)
    ctx.cov["child_process_deaths"] = crashes
    ctx.cov["descriptions_accepted"] = sum(1 for l in out_lines if l.get("steps", "").startswith("srd:true"))
    ctx.cov["renegotiations_on_connected_pairs"] = sum(1 for l in out_lines if l.get("connected"))
    ctx.cov["traces_validated_against_impl"] = len(out_lines)
    ctx.cov["samples"] = vecs[:2]
    return vlib.finish(
        ctx, "exploration",
        rule="vectors = seeded TLC sample of RemoteInput.tla's structural space (descriptions of 1-3 sections with per-attribute "
             "defect classes x SDPSemantics x registered kinds x BUNDLE/fingerprint form x follow-up x first description or "
             "renegotiation on a connected pair; candidate strings by field class), each fed to real PeerConnections in "
             "child processes; the vector in flight when a child dies is the crash",
        distinct_nontrivial=len({l["sig"] for l in out_lines}), exhaustive=False,
        replay_of=lambda v: {"vector": vecs[v["trace"]] if v["trace"] < len(vecs) else None,
                             "stderr": next((l.get("stderr") for l in out_lines if l["t"] == v["trace"]), None)})
