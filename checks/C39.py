"""C39 - SetConfiguration never changes immutable settings; rejected calls are atomic.

spec/ConfigOps.tla (normative), spec/Config.tla (SetConfiguration transcribed in code order over the space
init x history position x per-field class x certificate class x ICE-server class; TLC checks the
normative predicates on every vector and emits them), harness/config (public-API driver),
spec/Config_Trace.tla (verdicts)."""
import concurrent.futures
import os
import sys
sys.path.insert(0, os.path.dirname(os.path.abspath(__file__)))
import vlib  # noqa: E402

SPACE = 56133   # |Space| of Config.tla: 3 positions x 3^5 x 7 server classes x (4 certificate classes with one certificate + 7 with two)


def run(ctx):
    quick = ctx.quick
    pool = concurrent.futures.ThreadPoolExecutor(1)
    build = pool.submit(vlib.go_build, ctx, "config")

    # 1. model. thorough: the whole space is checked and emitted (call made twice per vector).
    #    quick: a seeded sample plus the single-deviation vectors is checked and emitted.
    res = vlib.tlc_model(ctx, "Config", "Config_quick" if quick else "Config_MC", workers=1)
    vecs = [v[0] for v in res.tag("VERIF_VEC")]
    if not vecs or (not quick and len(vecs) != SPACE):
        raise vlib.NoVerdict("TLC emitted %d vectors" % len(vecs))
    # 1b. the hypothetical order (assign before validating the servers) breaks atomicity: TLC shows it
    early = vlib.tlc_expect_violation(ctx, "Config", "Config_early", workers=1)
    ctx.cov["early_variant_model_rc"] = early.rc
    ctx.cov["early_variant_counterexample_found"] = "Invariant ModelHolds is violated" in early.stdout

    # the call is repeated on the same connection only where the model says the first one is accepted
    # (a rejected call leaves the state as it was, so repeating it would repeat the same observation)
    cases = [{"id": i, "v": v["v"], "exp": v["exp"], "kind": v["kind"],
              "calls": len(v["exp"]) if v["exp"][0] == "ok" else 1}
             for i, v in enumerate(vecs)]
    ncalls = sum(c["calls"] for c in cases)
    ctx.log("%d vectors, %d calls" % (len(cases), ncalls))
    infile = vlib.write_json(os.path.join(ctx.work, "vectors.json"), cases)
    trace = os.path.join(ctx.work, "trace.ndjson")

    # 2. replay through the public API
    binary = build.result()
    vlib.go_run(ctx, binary, "TestVerifConfig", infile, trace, timeout=500)
    lines = [l for l in vlib.read_ndjson(trace) if l.get("ev") == "set"]
    if len(lines) != ncalls:
        raise vlib.NoVerdict("driver recorded %d of %d calls" % (len(lines), ncalls))

    # 3. TLC judges
    ctx.viol = vlib.tlc_trace(ctx, "Config_Trace", "Config_Trace", trace, chunk=15000)

    drift = [l for l in lines if l["exp"] and (l["exp"] != l["res"] or l["expKind"] != l["kind"])]
    distinct = {(l["sig"], l["res"], l["kind"]) for l in lines}
    ctx.cov["evaluations"] = len(lines)
    ctx.cov["traces_validated_against_impl"] = len(cases)
    ctx.cov["vectors_in_space"] = SPACE
    ctx.cov["vectors_replayed"] = len(cases)
    ctx.cov["results_seen"] = {k: sum(1 for l in lines if (l["res"] + ":" + l["kind"]) == k)
                               for k in sorted({l["res"] + ":" + l["kind"] for l in lines})}
    ctx.cov["model_drift_steps"] = len(drift)
    if drift:
        ctx.cov["model_drift_examples"] = [{"sig": l["sig"], "exp": [l["exp"], l["expKind"]], "got": [l["res"], l["kind"]]}
                                           for l in drift[:5]]
    ctx.cov["samples"] = [{k: l[k] for k in ("sig", "arg", "before", "after", "res", "kind")} for l in lines[:2]] + \
        [{k: l[k] for k in ("sig", "res", "kind", "err")} for l in lines if l["res"] == "err"][:3]
    ctx.assumptions += [
        "a zero-valued field of the argument (BundlePolicyUnknown, RTCPMuxPolicyUnknown, \"\", no certificates, 0) means 'not specified' and is not an attempt to change the setting",
        "certificates are compared by the SHA-256 of their DER encoding, ICE servers by a rendering of all four fields",
        "invalid ICE servers = the four classes the driver builds (bad URL scheme, TURN without credentials, TURN with a non-string password, valid server followed by an invalid one)",
        "on a closed connection InvalidStateError is accepted where the property text says InvalidModificationError (W3C step 2 precedes the comparison)",
    ]
    need = ["RejectsImmutableChange", "ErrorKind", "ImmutableNeverChanges", "ErrorAtomic", "BadServersRejected",
            "BadServersNoPartialChange"]
    missing = [p for p in need if not ctx.cov["predicates"].get(p)]
    if missing:
        raise vlib.NoVerdict("predicates not exercised: %s" % missing)

    byid = {}
    for l in lines:
        byid.setdefault(l["t"], []).append(l)

    def replay_of(v):
        t = v.get("trace")
        return {"vector": cases[t] if isinstance(t, int) and t < len(cases) else None, "recorded": byid.get(t, [])}

    return vlib.finish(
        ctx, "model_checking",
        rule="TLC checks the six normative predicates on the transcription of SetConfiguration for every vector it emits "
             "(space: 45927 vectors = construction x history position x per-field class x certificate class x server class; "
             "thorough: the whole space, an accepted call made a second time; quick: a seeded sample plus all single-deviation vectors); "
             "every emitted vector is replayed through "
             "NewPeerConnection/SetLocalDescription/Close/SetConfiguration/GetConfiguration; each call is judged by TLC. "
             "distinct = distinct (vector, call number, result, error type)",
        distinct_nontrivial=len(distinct), exhaustive=not quick, replay_of=replay_of)
