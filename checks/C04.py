"""C04 — negotiationneeded fires only when stable, once per needed negotiation (spec/NegNeeded.tla)."""
import os
import sys
sys.path.insert(0, os.path.dirname(os.path.abspath(__file__)))
import vlib


def run(ctx):
    quick = ctx.quick
    vlib.tlc_model(ctx, "NegNeeded", "NegNeeded_MC", workers=8)
    nwalk = 300 if quick else 3000
    sim = vlib.run_tlc(ctx, "NegNeeded", "NegNeeded_Sim", workers=1, simulate="num=%d" % (3 * nwalk), depth=11, timeout=900)
    if sim.rc != 0:
        raise vlib.NoVerdict("simulation failed: %s" % sim.error)
    import sdp_common
    walks = sdp_common.split_walks(sim)
    nsim = len(walks)
    # every call is followed by a drain and judged: select the histories for the ordered call triples they contain
    walks, fcov, fall = sdp_common.select_walks(walks, nwalk, ctx.rng, observe=None)
    ctx.cov["history_selection"] = {"simulated": nsim, "replayed": len(walks), "call_tuples_covered": fcov, "call_tuples_in_simulated": fall}
    beh = [{"id": i, "steps": w} for i, w in enumerate(walks)]
    ctx.log("%d histories (%d calls)" % (len(beh), sum(len(b["steps"]) for b in beh)))
    binary = vlib.go_build(ctx, "negneeded")
    infile = vlib.write_json(os.path.join(ctx.work, "behaviours.json"), beh)
    trace = os.path.join(ctx.work, "trace.ndjson")
    vlib.go_run(ctx, binary, "TestVerifNegNeeded", infile, trace, timeout=2400)
    ctx.viol = vlib.tlc_trace(ctx, "NegNeeded_Trace", "NegNeeded_Trace", trace)
    pr = ctx.cov["predicates"]
    if not pr.get("OnlyWhenStableOpen") or not pr.get("FiresWhenNeeded"):
        raise vlib.NoVerdict("predicates not exercised: %s" % pr)
    lines = vlib.read_ndjson(trace)
    ctx.cov["evaluations"] = sum(pr.values())
    ctx.cov["fires_observed"] = sum(1 for l in lines if l["ev"] == "fire")
    ctx.cov["not_drained"] = sum(1 for l in lines if l["ev"] == "drained" and not l["drained"])
    ctx.cov["traces_validated_against_impl"] = len(beh)
    bytrace = {}
    for l in lines:
        bytrace.setdefault(l["t"], []).append(l)
    ctx.cov["samples"] = [{"history": beh[0]["steps"]}, {"recorded": bytrace.get(0, [])[:12]}]
    distinct = {tuple((s["op"], s.get("who"), s.get("kind")) for s in b["steps"]) for b in beh}
    return vlib.finish(
        ctx, "model_checking",
        rule="histories = seeded TLC simulation of NegNeeded.tla (changes on either endpoint, offers, provisional answers, completed exchanges, close), "
             "replayed on a real connected pair with both operations queues drained after every call; one evaluation = one "
             "predicate instance on a fire / drained line; distinct = distinct histories",
        distinct_nontrivial=len(distinct), exhaustive=False,
        replay_of=lambda v: {"behaviour": beh[v["trace"]], "recorded": bytrace.get(v["trace"], [])})
