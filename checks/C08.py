import os, sys
sys.path.insert(0, os.path.dirname(os.path.abspath(__file__)))
import sdp_common


def run(ctx):
    return sdp_common.run_sdp(ctx, "C08", ['default', 'planb', 'fallback'], 150, 4000, ['LegalAnswerDir','NoSendWithoutRecv','NoRecvWithoutSend'])
