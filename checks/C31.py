"""C31 - SampleBuilder emits only well-formed samples, in order, each once; completeness after Flush.

spec/SampleBuilderOps.tla   normative, result-oriented operators (+ failure shapes, completeness premise)
spec/SampleBuilder.tla      session generator; normative machine (Algo = "abstract"); transcription of the
                            ring-buffer algorithm (Algo = "ring", Impl = "asis" | "fixAB" | "fixABC")
harness/samplebuilder       driver on the real samplebuilder.SampleBuilder (fake depacketizer carrying tags)
spec/SampleBuilder_Trace.tla  trace spec, one line per session
"""
import os
import re
import sys

sys.path.insert(0, os.path.dirname(os.path.abspath(__file__)))
sys.path.insert(0, os.path.join(os.path.dirname(os.path.dirname(os.path.abspath(__file__))), "tools"))
import vlib  # noqa: E402

BASE = ["CallsReturn", "ContiguousSameTs", "StartsAtHead", "InOrder", "NoPacketTwice", "CompleteAfterFlush"]


def simulate(ctx, cfg, num, depth=260):
    res = vlib.run_tlc(ctx, "SampleBuilder", cfg, workers=1, simulate="num=%d" % num, depth=depth, timeout=500)
    m = re.search(r"The number of states generated: (\d+)", res.stdout)
    if res.rc != 0 or not m:
        raise vlib.NoVerdict("simulation %s failed (rc=%s):\n%s" % (cfg, res.rc, "\n".join(res.stdout.splitlines()[-30:])))
    n = int(m.group(1))
    ctx.cov["states"] += n
    ctx.cov["transitions"] += n
    vecs = [v[0] for v in res.tag("VERIF_VEC")]
    ctx.log("TLC simulate %s: %d sessions, %d states, %.1fs" % (cfg, len(vecs), n, res.wall))
    return vecs


def tree_variant():
    """Which variant of the transcription describes the tree under test: "pinned" (the ring buffer as it was when
    the findings were recorded) or "current" (with the repairs CurrentRepairs of spec/SampleBuilder.tla).  The
    repaired samplebuilder.go is recognised by the field the repair introduces; VERIF_C31_IMPL overrides.  The
    choice only selects the model the conformance replay is compared with (drift): verdicts do not depend on it."""
    v = os.environ.get("VERIF_C31_IMPL")
    if v in ("pinned", "current"):
        return v
    try:
        src = open(os.path.join(vlib.REPO, "pkg", "media", "samplebuilder", "samplebuilder.go")).read()
    except OSError:
        return "pinned"
    return "current" if "consumedTail" in src else "pinned"


def classes_of(results, classes):
    for r in results:
        for v in r.tag("VERIF_CLASS"):
            v = v[0]
            k = "%s dups=%s" % (v["class"], "yes" if v["dups"] else "no")
            if v["vec"].get("eager"):
                k += " eager"
            if v["vec"].get("heads"):
                k += " all-heads"
            if k not in classes or len(v["vec"]["script"]) < len(classes[k]["script"]):
                classes[k] = v["vec"]


def run(ctx):
    quick = ctx.quick
    q = "Q" if quick else ""
    variant = tree_variant()
    ctx.cov["transcription_variant_for_this_tree"] = variant
    ctx.log("transcription variant describing this tree: %s" % variant)
    # 1. normative machine: the legality guards imply InOrder and NoPacketTwice (modulus 16)
    vlib.tlc_model(ctx, "SampleBuilder", "SampleBuilder_Abstract" + q, workers=6)
    # 2. the ring-buffer algorithm of the pinned tree, transcribed (modulus 16) -- the documented counterexample:
    #    ContiguousSameTs, StartsAtHead and completeness hold on every explored session; TLC prints one example
    #    per failure class of InOrder / NoPacketTwice.  These examples are replayed on the tree under test.
    pinned_cfgs = ["Ring" + q] if (quick or variant == "pinned") else ["RingQ"]
    if not quick and variant == "pinned":
        # time-based purging (tooOld path); a receiver that pops after every push; every packet a partition head;
        # a window that a single frame cannot overflow (maxLate 4)
        pinned_cfgs += ["RingDelay", "RingEager", "RingHeads", "RingWide"]
    elif not quick:
        pinned_cfgs += ["RingHeads"]
    pinned = {c: vlib.tlc_model(ctx, "SampleBuilder", "SampleBuilder_" + c, workers=8) for c in pinned_cfgs}
    classes = {}
    classes_of(pinned.values(), classes)
    ctx.cov["pinned_model_failure_classes"] = sorted(classes)
    if not classes:
        ctx.notes.append("the pinned transcription no longer exhibits a failure class")
    if "RingWide" in pinned:
        # the recorded defect's precondition, on the models: with maxLate >= 4 no failure without a Flush before
        ctx.cov["pinned_model_classes_window_without_flush"] = sorted(k for k in classes if "/no-flush-yet:window" in k)
    # 3. the algorithm with the repairs of the current samplebuilder.go (CurrentRepairs) satisfies all five
    #    predicates and keeps its ring locations sane, on the same bounds
    cur_cfgs = ["Ring" + q + "_cur"]
    if not quick:
        cur_cfgs += ["RingQ_cur", "RingDelay_cur", "RingEager_cur", "RingHeads_cur"]
    current = {c: vlib.tlc_model(ctx, "SampleBuilder", "SampleBuilder_" + c, workers=8) for c in cur_cfgs}
    # every finished session of the exhaustive runs of the variant that describes this tree, with the samples the
    # transcription predicts
    done = []
    for r in (pinned if variant == "pinned" else current).values():
        done += list(r.tag("VERIF_DONE"))
    conf = []
    for v in done:
        c = dict(v[0]["vec"])
        c["expect"] = v[0]["out"]
        c["mode"] = "model:exhaustive"
        conf.append(c)
    if not conf:
        raise vlib.NoVerdict("the exhaustive run printed no finished session")
    # 4. pinned: one purgeBuffers call can iterate over the whole ring (filled.head overtakes filled.tail)
    if not quick:
        ov = vlib.tlc_expect_violation(ctx, "SampleBuilder", "SampleBuilder_RingOvershoot", workers=2)
        ctx.cov["pinned_model_overshoot"] = next((ln for ln in ov.stdout.splitlines() if ln.startswith("Error: Invariant")),
                                                 "none (rc=%s)" % ov.rc)

    # 5. sessions: TLC's counterexamples first, then seeded -simulate runs of the generator (modulus 2^16)
    vecs = []
    for k in sorted(classes):
        v = dict(classes[k])
        v["mode"] = "model:" + k
        vecs.append(v)
        w = dict(v)            # the same counterexample far away from the sequence-number wrap
        w["startBack"] = 30000
        vecs.append(w)
    # the model's counterexamples are many now (one per label): keep the replayed ones bounded
    if len(vecs) > 160:
        ctx.rng.shuffle(vecs)
        vecs = vecs[:160]
    # a seeded subset of the exhaustively enumerated sessions is judged by TLC like all others
    sub = list(conf)
    ctx.rng.shuffle(sub)
    vecs += [dict(c) for c in [c for c in sub if c["delay"] == 0][:150 if quick else 1100]]
    vecs += [dict(c) for c in [c for c in sub if c["delay"] > 0][:60]]
    n_model = len(vecs)
    vecs += simulate(ctx, "SampleBuilder_SimMix", 450 if quick else 2500)
    if not quick:
        vecs += simulate(ctx, "SampleBuilder_SimClean", 2000)
    vecs += simulate(ctx, "SampleBuilder_SimDelay", 8 if quick else 60)
    # loss-free in-order streams that span less than the configured time delay: nothing is ever too old, so every
    # complete frame must come out (CompleteAfterFlush applies); these take every timestamp start in turn
    n_before_cd = len(vecs)
    vecs += simulate(ctx, "SampleBuilder_SimCleanDelay", 18 if quick else 90)
    tsbacks = [0, 1, 2999, 3000, 3001, 9000, 45000, 100000, 10 ** 9]
    for v in vecs:
        v.pop("expect", None)
    for i, v in enumerate(vecs):
        v["id"] = i
        v["tsBack"] = tsbacks[ctx.rng.randrange(len(tsbacks))] if i < n_before_cd else tsbacks[i % len(tsbacks)]
    ctx.log("%d sessions (%d from model counterexamples), %d script steps" %
            (len(vecs), n_model, sum(len(v["script"]) for v in vecs)))
    infile = vlib.write_json(os.path.join(ctx.work, "sessions.json"), vecs)
    trace = os.path.join(ctx.work, "trace.ndjson")

    binary = vlib.go_build(ctx, "samplebuilder")
    vlib.go_run(ctx, binary, "TestVerifSampleBuilder", infile, trace, timeout=1500)

    # 5b. conformance of the transcription: ALL finished sessions of the exhaustive run are replayed and pion's
    #     (a seeded subset of 20 000 when there are more) output is compared with the model's prediction.  A difference
    #     is model drift (reported in the evidence), never a verdict: verdicts come from the normative predicates only.
    ctx.cov["exhaustive_sessions_enumerated"] = len(conf)
    # seeded subset when there are many; sessions with WithMaxTimeDelay are kept few because Flush can take about
    # a second on them (it walks the whole 16-bit ring, see the model's ModelFilledSane); the numbers replayed are
    # stated in the evidence
    slow = [c for c in sub if c["delay"] > 0][:150]
    conf = [c for c in sub if c["delay"] == 0][:20000] + slow
    ctx.cov["conformance_sessions_with_time_delay"] = len(slow)
    for i, c in enumerate(conf):
        c["id"] = i
        c["tsBack"] = tsbacks[i % len(tsbacks)]
    cin = vlib.write_json(os.path.join(ctx.work, "conf.json"), conf)
    ctrace = os.path.join(ctx.work, "conf.ndjson")
    vlib.go_run(ctx, binary, "TestVerifSampleBuilder", cin, ctrace, timeout=1500)
    got = {ln["t"]: [x["tags"] for x in ln["samples"]] for ln in vlib.read_ndjson(ctrace) if ln.get("ev") == "session"}
    drift = [c for c in conf if got.get(c["id"]) != c["expect"]]
    ctx.cov["conformance_sessions_replayed"] = len(conf)
    ctx.cov["conformance_sessions_where_pion_differs_from_model"] = len(drift)
    ctx.cov["conformance_first_differences"] = [
        {"session": {k: c[k] for k in ("maxLate", "delay", "startBack", "markers", "frames", "same", "script")},
         "model": c["expect"], "pion": got.get(c["id"])} for c in drift[:3]]
    ctx.log("conformance: %d exhaustively enumerated sessions replayed, pion differs from the model on %d" %
            (len(conf), len(drift)))

    ctx.viol = vlib.tlc_trace(ctx, "SampleBuilder_Trace", "SampleBuilder_Trace", trace, chunk=1200)
    bysig = {}
    for v in ctx.viol:
        d = bysig.setdefault(v.get("sig", ""), {"model_counterexamples": 0, "sampled_sessions": 0, "maxLate": set()})
        d["model_counterexamples" if v["trace"] < n_model else "sampled_sessions"] += 1
        if v["trace"] < len(vecs):
            d["maxLate"].add(vecs[v["trace"]]["maxLate"])
    for d in bysig.values():
        d["maxLate"] = sorted(d["maxLate"])
    ctx.cov["violations_by_signature"] = bysig
    lines = vlib.read_ndjson(trace)
    sess = [ln for ln in lines if ln.get("ev") == "session"]
    hangs = [ln for ln in lines if ln.get("ev") == "hang"]
    skipped = [ln for ln in lines if ln.get("ev") == "skipped"]
    if not sess:
        raise vlib.NoVerdict("no session was run")
    if len(skipped) > len(sess):
        raise vlib.NoVerdict("most sessions were skipped after repeated hangs")
    preds = ctx.cov["predicates"]
    by_base = {b: sum(n for k, n in preds.items() if k == b or k.startswith(b + ":")) for b in BASE}
    ctx.cov["predicates_by_base"] = by_base
    missing = [b for b, n in by_base.items() if not n]
    if missing:
        raise vlib.NoVerdict("predicates never exercised: %s" % missing)
    ctx.cov["evaluations"] = len(sess)
    ctx.cov["traces_validated_against_impl"] = len(sess)
    ctx.cov["samples_popped"] = sum(len(s["samples"]) for s in sess)
    ctx.cov["packets_pushed"] = sum(len(s["pushes"]) for s in sess)
    ctx.cov["sessions_crossing_seq_wrap"] = sum(1 for s in sess if 0 < s["startBack"] < len(s["stream"]))
    ctx.cov["sessions_under_completeness_premise"] = by_base["CompleteAfterFlush"]
    ctx.cov["hangs"] = len(hangs)
    ctx.cov["model_counterexamples_replayed"] = n_model
    ctx.cov["samples"] = [{k: vecs[0][k] for k in ("maxLate", "delay", "startBack", "markers", "frames", "script", "mode")}] + \
        [{"sig": s["sig"], "maxLate": s["maxLate"], "pushed": [p["tag"] for p in s["pushes"]][:30],
          "samples": [x["tags"] for x in s["samples"]][:12]} for s in sess[n_model:n_model + 2]]
    keep = {ln["t"]: ln for ln in lines if ln.get("ev") in ("session", "hang")}

    def replay_of(v):
        t = v["trace"]
        return {"session": vecs[t] if t < len(vecs) else None, "recorded": keep.get(t)}

    distinct = {(s["maxLate"], s["delay"], s["markers"], s["mode"], s["sig"], min(s["startBack"], 40)) for s in sess}
    ctx.assumptions.append("completeness is judged under the frame-level premise of SampleBuilderOps.CompletenessPremise")
    return vlib.finish(
        ctx, "model_checking",
        rule="TLC: normative machine and transcribed ring-buffer algorithm (as is / repaired) checked exhaustively on "
             "modulus 16 for streams of <= %d packets; sessions replayed = TLC's counterexamples of the as-is model + "
             "seeded TLC -simulate runs of the session generator (frames of 1-3 packets, <= 60 packets, loss, "
             "duplicates, bounded reordering, interleaved Pop, start 0..39 packets before the sequence wrap, timestamp "
             "wrap, maxLate 2/5/50, WithMaxTimeDelay); one evaluation = one session on a real SampleBuilder judged by "
             "TLC; distinct = distinct (maxLate, delay, markers, mode, duplicates, start offset)" % (4 if quick else 5),
        distinct_nontrivial=len(distinct), exhaustive=False, replay_of=replay_of)
