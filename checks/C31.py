"""C31 - SampleBuilder emits only well-formed samples, in order, each once; completeness after Flush.

spec/SampleBuilderOps.tla   normative, result-oriented operators (+ failure shapes, completeness premise)
spec/SampleBuilder.tla      session generator; normative machine (Algo = "abstract"); transcription of the
                            ring-buffer algorithm (Algo = "ring", Impl = "asis" | "fixAB" | "fixABC")
harness/samplebuilder       driver on the real samplebuilder.SampleBuilder (fake depacketizer carrying tags)
spec/SampleBuilder_Trace.tla  trace spec, one line per session
"""
import os
import re
import sys

sys.path.insert(0, os.path.dirname(os.path.abspath(__file__)))
sys.path.insert(0, os.path.join(os.path.dirname(os.path.dirname(os.path.abspath(__file__))), "tools"))
import vlib  # noqa: E402

BASE = ["CallsReturn", "ContiguousSameTs", "StartsAtHead", "InOrder", "NoPacketTwice", "CompleteAfterFlush"]


def simulate(ctx, cfg, num, depth=260):
    res = vlib.run_tlc(ctx, "SampleBuilder", cfg, workers=1, simulate="num=%d" % num, depth=depth, timeout=500)
    m = re.search(r"The number of states generated: (\d+)", res.stdout)
    if res.rc != 0 or not m:
        raise vlib.NoVerdict("simulation %s failed (rc=%s):\n%s" % (cfg, res.rc, "\n".join(res.stdout.splitlines()[-30:])))
    n = int(m.group(1))
    ctx.cov["states"] += n
    ctx.cov["transitions"] += n
    vecs = [v[0] for v in res.tag("VERIF_VEC")]
    ctx.log("TLC simulate %s: %d sessions, %d states, %.1fs" % (cfg, len(vecs), n, res.wall))
    return vecs


def run(ctx):
    quick = ctx.quick
    q = "Q" if quick else ""
    # 1. normative machine: the legality guards imply InOrder and NoPacketTwice (modulus 16)
    vlib.tlc_model(ctx, "SampleBuilder", "SampleBuilder_Abstract" + q, workers=6)
    # 2. the ring-buffer algorithm as it is, transcribed (modulus 16): ContiguousSameTs, StartsAtHead and
    #    completeness hold on every explored session; TLC prints one example per failure class of the others
    res = vlib.tlc_model(ctx, "SampleBuilder", "SampleBuilder_Ring" + q, workers=8)
    classes = {}
    for v in res.tag("VERIF_CLASS"):
        v = v[0]
        k = "%s dups=%s" % (v["class"], "yes" if v["dups"] else "no")
        if v["vec"].get("eager"):
            k += " eager"
        if k not in classes or len(v["vec"]["script"]) < len(classes[k]["script"]):
            classes[k] = v["vec"]
    ctx.cov["asis_model_failure_classes"] = sorted(classes)
    # every finished session of the exhaustive run, with the samples the transcription predicts
    done = list(res.tag("VERIF_DONE"))
    if not quick:
        # same, with time-based purging (WithMaxTimeDelay) in play: the tooOld path of purgeBuffers
        resd = vlib.tlc_model(ctx, "SampleBuilder", "SampleBuilder_RingDelay", workers=6)
        done += list(resd.tag("VERIF_DONE"))
        # same, with a receiver that pops after every push (4 packets)
        rese = vlib.tlc_model(ctx, "SampleBuilder", "SampleBuilder_RingEager", workers=6)
        done += list(rese.tag("VERIF_DONE"))
        # same, with a window that a single frame cannot overflow (maxLate 4): which failure classes remain
        resw = vlib.tlc_model(ctx, "SampleBuilder", "SampleBuilder_RingWide", workers=8)
        for r2 in (resd, rese, resw):
            for v in r2.tag("VERIF_CLASS"):
                v = v[0]
                k = "%s dups=%s" % (v["class"], "yes" if v["dups"] else "no")
                if v["vec"].get("eager"):
                    k += " eager"
                if k not in classes or len(v["vec"]["script"]) < len(classes[k]["script"]):
                    classes[k] = v["vec"]
        ctx.cov["asis_model_failure_classes"] = sorted(classes)
        # the recorded defect's precondition, on the models: with maxLate >= 4 no failure without a Flush before
        ctx.cov["asis_model_classes_window_without_flush"] = sorted(k for k in classes if "/no-flush-yet:window" in k)
    conf = []
    for v in done:
        c = dict(v[0]["vec"])
        c["expect"] = v[0]["out"]
        c["mode"] = "model:exhaustive"
        conf.append(c)
    if not conf:
        raise vlib.NoVerdict("the exhaustive run printed no finished session")
    # 3. the same algorithm with the three named repairs satisfies all five predicates (same bounds)
    vlib.tlc_model(ctx, "SampleBuilder", "SampleBuilder_RingABC" + q, workers=8)
    if not quick:
        vlib.tlc_model(ctx, "SampleBuilder", "SampleBuilder_RingABCQ", workers=6)   # incl. the eager receiver
    # 4. as is, one purgeBuffers call can iterate over the whole ring (filled.head overtakes filled.tail)
    if not quick:
        ov = vlib.tlc_expect_violation(ctx, "SampleBuilder", "SampleBuilder_RingOvershoot", workers=2)
        ctx.cov["asis_model_overshoot"] = next((ln for ln in ov.stdout.splitlines() if ln.startswith("Error: Invariant")),
                                               "none (rc=%s)" % ov.rc)

    # 5. sessions: TLC's counterexamples first, then seeded -simulate runs of the generator (modulus 2^16)
    vecs = []
    for k in sorted(classes):
        v = dict(classes[k])
        v["mode"] = "model:" + k
        vecs.append(v)
        w = dict(v)            # the same counterexample far away from the sequence-number wrap
        w["startBack"] = 30000
        vecs.append(w)
    # the model's counterexamples are many now (one per label): keep the replayed ones bounded
    if len(vecs) > 160:
        ctx.rng.shuffle(vecs)
        vecs = vecs[:160]
    # a seeded subset of the exhaustively enumerated sessions is judged by TLC like all others
    sub = list(conf)
    ctx.rng.shuffle(sub)
    vecs += [dict(c) for c in [c for c in sub if c["delay"] == 0][:150 if quick else 1100]]
    vecs += [dict(c) for c in [c for c in sub if c["delay"] > 0][:60]]
    n_model = len(vecs)
    vecs += simulate(ctx, "SampleBuilder_SimMix", 450 if quick else 2500)
    if not quick:
        vecs += simulate(ctx, "SampleBuilder_SimClean", 2000)
    vecs += simulate(ctx, "SampleBuilder_SimDelay", 8 if quick else 60)
    tsbacks = [0, 1, 2999, 3000, 3001, 9000, 45000, 100000, 10 ** 9]
    for v in vecs:
        v.pop("expect", None)
    for i, v in enumerate(vecs):
        v["id"] = i
        v["tsBack"] = tsbacks[ctx.rng.randrange(len(tsbacks))]
    ctx.log("%d sessions (%d from model counterexamples), %d script steps" %
            (len(vecs), n_model, sum(len(v["script"]) for v in vecs)))
    infile = vlib.write_json(os.path.join(ctx.work, "sessions.json"), vecs)
    trace = os.path.join(ctx.work, "trace.ndjson")

    binary = vlib.go_build(ctx, "samplebuilder")
    vlib.go_run(ctx, binary, "TestVerifSampleBuilder", infile, trace, timeout=1500)

    # 5b. conformance of the transcription: ALL finished sessions of the exhaustive run are replayed and pion's
    #     (a seeded subset of 20 000 when there are more) output is compared with the model's prediction.  A difference is model drift (reported in the
    #     evidence), never a verdict: verdicts come from the normative predicates only.
    ctx.cov["exhaustive_sessions_enumerated"] = len(conf)
    # seeded subset when there are many; sessions with WithMaxTimeDelay are kept few because Flush can take about
    # a second on them (it walks the whole 16-bit ring, see the model's ModelFilledSane); the numbers replayed are
    # stated in the evidence
    slow = [c for c in sub if c["delay"] > 0][:150]
    conf = [c for c in sub if c["delay"] == 0][:20000] + slow
    ctx.cov["conformance_sessions_with_time_delay"] = len(slow)
    for i, c in enumerate(conf):
        c["id"] = i
        c["tsBack"] = tsbacks[i % len(tsbacks)]
    cin = vlib.write_json(os.path.join(ctx.work, "conf.json"), conf)
    ctrace = os.path.join(ctx.work, "conf.ndjson")
    vlib.go_run(ctx, binary, "TestVerifSampleBuilder", cin, ctrace, timeout=1500)
    got = {ln["t"]: [x["tags"] for x in ln["samples"]] for ln in vlib.read_ndjson(ctrace) if ln.get("ev") == "session"}
    drift = [c for c in conf if got.get(c["id"]) != c["expect"]]
    ctx.cov["conformance_sessions_replayed"] = len(conf)
    ctx.cov["conformance_sessions_where_pion_differs_from_model"] = len(drift)
    ctx.cov["conformance_first_differences"] = [
        {"session": {k: c[k] for k in ("maxLate", "delay", "startBack", "markers", "frames", "same", "script")},
         "model": c["expect"], "pion": got.get(c["id"])} for c in drift[:3]]
    ctx.log("conformance: %d exhaustively enumerated sessions replayed, pion differs from the model on %d" %
            (len(conf), len(drift)))

    ctx.viol = vlib.tlc_trace(ctx, "SampleBuilder_Trace", "SampleBuilder_Trace", trace, chunk=1200)
    bysig = {}
    for v in ctx.viol:
        d = bysig.setdefault(v.get("sig", ""), {"model_counterexamples": 0, "sampled_sessions": 0, "maxLate": set()})
        d["model_counterexamples" if v["trace"] < n_model else "sampled_sessions"] += 1
        if v["trace"] < len(vecs):
            d["maxLate"].add(vecs[v["trace"]]["maxLate"])
    for d in bysig.values():
        d["maxLate"] = sorted(d["maxLate"])
    ctx.cov["violations_by_signature"] = bysig
    lines = vlib.read_ndjson(trace)
    sess = [ln for ln in lines if ln.get("ev") == "session"]
    hangs = [ln for ln in lines if ln.get("ev") == "hang"]
    skipped = [ln for ln in lines if ln.get("ev") == "skipped"]
    if not sess:
        raise vlib.NoVerdict("no session was run")
    if len(skipped) > len(sess):
        raise vlib.NoVerdict("most sessions were skipped after repeated hangs")
    preds = ctx.cov["predicates"]
    by_base = {b: sum(n for k, n in preds.items() if k == b or k.startswith(b + ":")) for b in BASE}
    ctx.cov["predicates_by_base"] = by_base
    missing = [b for b, n in by_base.items() if not n]
    if missing:
        raise vlib.NoVerdict("predicates never exercised: %s" % missing)
    ctx.cov["evaluations"] = len(sess)
    ctx.cov["traces_validated_against_impl"] = len(sess)
    ctx.cov["samples_popped"] = sum(len(s["samples"]) for s in sess)
    ctx.cov["packets_pushed"] = sum(len(s["pushes"]) for s in sess)
    ctx.cov["sessions_crossing_seq_wrap"] = sum(1 for s in sess if 0 < s["startBack"] < len(s["stream"]))
    ctx.cov["sessions_under_completeness_premise"] = by_base["CompleteAfterFlush"]
    ctx.cov["hangs"] = len(hangs)
    ctx.cov["model_counterexamples_replayed"] = n_model
    ctx.cov["samples"] = [{k: vecs[0][k] for k in ("maxLate", "delay", "startBack", "markers", "frames", "script", "mode")}] + \
        [{"sig": s["sig"], "maxLate": s["maxLate"], "pushed": [p["tag"] for p in s["pushes"]][:30],
          "samples": [x["tags"] for x in s["samples"]][:12]} for s in sess[n_model:n_model + 2]]
    keep = {ln["t"]: ln for ln in lines if ln.get("ev") in ("session", "hang")}

    def replay_of(v):
        t = v["trace"]
        return {"session": vecs[t] if t < len(vecs) else None, "recorded": keep.get(t)}

    distinct = {(s["maxLate"], s["delay"], s["markers"], s["mode"], s["sig"], min(s["startBack"], 40)) for s in sess}
    ctx.assumptions.append("completeness is judged under the frame-level premise of SampleBuilderOps.CompletenessPremise")
    return vlib.finish(
        ctx, "exploration",
        rule="TLC: normative machine and transcribed ring-buffer algorithm (as is / repaired) checked exhaustively on "
             "modulus 16 for streams of <= %d packets; sessions replayed = TLC's counterexamples of the as-is model + "
             "seeded TLC -simulate runs of the session generator (frames of 1-3 packets, <= 60 packets, loss, "
             "duplicates, bounded reordering, interleaved Pop, start 0..39 packets before the sequence wrap, timestamp "
             "wrap, maxLate 2/5/50, WithMaxTimeDelay); one evaluation = one session on a real SampleBuilder judged by "
             "TLC; distinct = distinct (maxLate, delay, markers, mode, duplicates, start offset)" % (4 if quick else 5),
        distinct_nontrivial=len(distinct), exhaustive=False, replay_of=replay_of)
