"""C20 — DataChannel readyState moves forward only (spec/DcState.tla, gates in datachannel.go / peerconnection.go)."""
import os
import re
import vlib


def run(ctx):
    quick = ctx.quick
    beh = []
    r = vlib.tlc_expect_violation(ctx, "DcState", "DcState_asis_cex", workers=1)
    ctx.cov["asis_model"] = "counterexample found by TLC" if r.rc == 12 else "rc=%s" % r.rc
    r = vlib.tlc_expect_violation(ctx, "DcState", "DcState_loadstore_cex", workers=1)
    ctx.cov["load_then_store_model"] = "counterexample found by TLC" if r.rc == 12 else "rc=%s" % r.rc
    for start in ("connecting", "open"):
        for withp in (True, False):
            for v in ("fixed", "asis"):
                res = vlib.tlc_model(ctx, "DcState", "DcState_%s_%s_%s" % (v, start, "TRUE" if withp else "FALSE"), workers=1)
                g = vlib.graph_from(res)
                paths = g.all_paths(40, 150 if quick else 20000)
                if paths is None:
                    paths = g.edge_cover(ctx.rng, 40, maximal=True) + g.random_walks(ctx.rng, 40 if quick else 1500, 40)
                seen = set()
                for p in paths:
                    steps = [a for _, a, _ in p]
                    key = tuple((s["proc"], s["label"]) for s in steps)
                    if key in seen:
                        continue
                    seen.add(key)
                    beh.append({"id": len(beh), "start": start, "withp": withp, "steps": steps, "free": False})
    if quick:   # a seeded sample of the schedules; the thorough tier drives all of them
        ctx.cov["quick_sample_of_schedules"] = {"kept": min(300, len(beh)), "of": len(beh)}
        ctx.rng.shuffle(beh)
        beh = beh[:300]
        for i, b in enumerate(beh):
            b["id"] = i
    # a PeerConnection that never gets an SCTP association: Close / PeerConnection.Close in both orders, with and
    # without a half-done exchange (the transport is "gone" from the start)
    for half in (False, True):
        for order in (["C", "P"], ["P", "C"], ["P"]):
            beh.append({"id": len(beh), "start": "noassoc", "withp": half, "steps": [{"proc": x, "label": "seq"} for x in order],
                        "free": False})
    nsched = len(beh)
    for j in range(40 if quick else 1000):
        beh.append({"id": len(beh), "start": ("connecting", "open")[j % 2], "withp": j % 4 < 2, "steps": [], "free": True})
    # schedules that end the pair (PeerConnection.Close) cost a fresh pair each: keep them last in each group
    ctx.log("%d schedules + %d free-running runs" % (nsched, len(beh) - nsched))
    binary = vlib.go_build(ctx, "dcstate")
    infile = vlib.write_json(os.path.join(ctx.work, "behaviours.json"), beh)
    trace = os.path.join(ctx.work, "trace.ndjson")
    rc, out = vlib.go_run(ctx, binary, "TestVerifDcState", infile, trace, timeout=2400)
    m = re.search(r"VERIF_STAT behaviours=(\d+) not_driven=(\d+)", out)
    ctx.cov["schedules_not_driven"] = int(m.group(2)) if m else -1
    if m and int(m.group(2)) >= nsched:
        raise vlib.NoVerdict("no schedule could be driven")
    ctx.viol = vlib.tlc_trace(ctx, "DcState_Trace", "DcState_Trace", trace)
    pr = ctx.cov["predicates"]
    if not pr.get("Monotone") or not pr.get("EndsClosed"):
        raise vlib.NoVerdict("predicates not exercised: %s" % pr)
    lines = vlib.read_ndjson(trace)
    ctx.cov["evaluations"] = len(beh)
    ctx.cov["traces_validated_against_impl"] = len(beh)
    bytrace = {}
    for l in lines:
        bytrace.setdefault(l["t"], []).append(l)
    ctx.cov["samples"] = [{"schedule": beh[0]}, {"recorded": bytrace.get(0, [])}]
    distinct = {(b["start"], b["withp"]) + tuple((s["proc"], s["label"]) for s in b["steps"]) for b in beh if not b["free"]}

    def replay_of(v):
        return {"behaviour": beh[v["trace"]], "recorded": bytrace.get(v["trace"], [])}

    return vlib.finish(
        ctx, "model_checking",
        rule="schedules = maximal paths of the TLC state graphs of DcState.tla (handleOpen, Close, PeerConnection.Close, read "
             "loop end; channel starting connecting or open; with and without PeerConnection.Close; as-is and repaired "
             "variant), driven with gates on a channel of a real connected pair; plus free-running runs; "
             "distinct = distinct (start, participants, schedule)",
        distinct_nontrivial=len(distinct), exhaustive=not quick, replay_of=replay_of)
