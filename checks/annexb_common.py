"""C34 and C35 share the Annex-B family: spec/AnnexBOps.tla (normative), AnnexBReader.tla / AnnexB.tla /
AnnexBVec.tla (reader models, C34), AnnexBWriter.tla (payloader + writer model, C35), AnnexB_Trace.tla,
drivers harness/annexb_h264|annexb_h265 (TestVerifAnnexB) and harness/nalwriter_h264|nalwriter_h265
(TestVerifNalWriter)."""
import copy
import json
import os
import threading

import vlib

JVM = "-XX:ParallelGCThreads=2"   # many short TLC runs side by side: keep each JVM small
H265_ID_OFFSET = 10_000_000     # behaviour numbers of the H.265 driver are shifted so that `t` is unique


# ---------------------------------------------------------------------------------------------
# local helpers (work-arounds that stay inside this family)

def _sub(ctx, name):
    """A shallow clone of ctx with its own scratch directory and coverage dict, so that several
    vlib stages can run in threads (vlib.run_tlc numbers its directories by listing ctx.work)."""
    c = copy.copy(ctx)
    c.work = os.path.join(ctx.work, name)
    os.makedirs(c.work, exist_ok=True)
    c.cov = {"states": 0, "transitions": 0, "tlc_runs": [], "predicates": {}}
    return c


def parallel(jobs):
    """jobs: list of callables; run them in threads, re-raise the first exception; return results."""
    res, err = [None] * len(jobs), []

    def wrap(i, f):
        try:
            res[i] = f()
        except BaseException as e:  # noqa: BLE001
            err.append(e)

    th = [threading.Thread(target=wrap, args=(i, f)) for i, f in enumerate(jobs)]
    for t in th:
        t.start()
    for t in th:
        t.join()
    if err:
        nv = [e for e in err if isinstance(e, vlib.NoVerdict)]
        raise (nv[0] if nv else err[0])
    return res


def tlc_trace_parallel(ctx, spec, cfg, traces, nproc=10, timeout=900):
    """Validate ndjson traces (list of files) with a trace spec: the lines are cut at 'reset' lines into
    about nproc parts that are validated by concurrent TLC runs. Returns the violation records; merges the
    predicate counts into ctx.cov like vlib.tlc_trace does."""
    lines = []
    for t in traces:
        lines += [l for l in open(t).read().splitlines() if l.strip()]
    if not lines:
        raise vlib.NoVerdict("empty trace")
    per = max(200, (len(lines) + nproc - 1) // nproc)
    parts, cur = [], []
    for l in lines:
        if len(cur) >= per and '"ev":"reset"' in l:
            parts.append(cur)
            cur = []
        cur.append(l)
    if cur:
        parts.append(cur)
    subs, files = [], []
    for i, p in enumerate(parts):
        s = _sub(ctx, "trace-part-%d" % i)
        f = os.path.join(s.work, "part.ndjson")
        with open(f, "w") as fh:
            fh.write("\n".join(p) + "\n")
        subs.append(s)
        files.append(f)
    old = os.environ.get("JAVA_TOOL_OPTIONS")
    os.environ["JAVA_TOOL_OPTIONS"] = JVM
    try:
        res = parallel([(lambda s=s, f=f: vlib.tlc_trace(s, spec, cfg, f, timeout=timeout, chunk=10 ** 9))
                        for s, f in zip(subs, files)])
    finally:
        if old is None:
            os.environ.pop("JAVA_TOOL_OPTIONS", None)
        else:
            os.environ["JAVA_TOOL_OPTIONS"] = old
    viol, off = [], 0
    for i, (s, v, p) in enumerate(zip(subs, res, parts)):
        for r in v:
            r = dict(r)
            r["line"] = r.get("line", 0) + off
            r["chunk"] = i
            viol.append(r)
        off += len(p)
        for k, n in s.cov["predicates"].items():
            ctx.cov["predicates"][k] = ctx.cov["predicates"].get(k, 0) + n
        ctx.cov["tlc_runs"] += s.cov["tlc_runs"]
    ctx.cov["trace_lines_validated"] = ctx.cov.get("trace_lines_validated", 0) + len(lines)
    ctx.log("TLC trace %s: %d lines in %d concurrent parts, %d violation records" %
            (spec, len(lines), len(parts), len(viol)))
    return viol


def own_exercised(ctx, names):
    miss = [n for n in names if not ctx.cov["predicates"].get(n)]
    if miss:
        raise vlib.NoVerdict("predicate(s) never exercised: %s" % ", ".join(miss))


# ---------------------------------------------------------------------------------------------
# C34

CHUNKS = ["1", "2", "3", "5", "4096", "rnd", "cyc"]


def run_c34(ctx):
    quick = ctx.quick
    # 1. the online model: reader + read() as they are now (end-of-stream path "current", i.e. with the repair
    #    7b855c6) against every valid framed stream (unbounded number of units), every chunking: Exact must
    #    hold.  Documented counterexamples: the pinned end-of-stream path (AnnexB_pinned / AnnexBVec_pinned) and
    #    read() as it is when the final chunk comes together with io.EOF (AnnexB_asis_eof, outside C34's assumption).
    mc_cfg = "AnnexB_MC" if quick else "AnnexB_MC_big"
    vec_cfgs = ["AnnexBVec_q"] if quick else ["AnnexBVec_t1", "AnnexBVec_t2", "AnnexBVec_t3"]
    jobs = [lambda: vlib.tlc_model(_sub(ctx, "mc"), "AnnexB", mc_cfg, workers=4 if quick else 8, tool_opts=JVM),
            lambda: vlib.tlc_expect_violation(_sub(ctx, "pinned"), "AnnexB", "AnnexB_pinned", workers=1, tool_opts=JVM),
            lambda: vlib.tlc_expect_violation(_sub(ctx, "asis-eof"), "AnnexB", "AnnexB_asis_eof", workers=1, tool_opts=JVM),
            lambda: vlib.tlc_expect_violation(_sub(ctx, "vec-pinned"), "AnnexBVec", "AnnexBVec_pinned", workers=1, tool_opts=JVM),
            lambda: vlib.go_build(ctx, "annexb_h264"),
            lambda: vlib.go_build(ctx, "annexb_h265")]
    jobs += [(lambda c=c: vlib.tlc_model(_sub(ctx, c), "AnnexBVec", c, workers=1, tool_opts=JVM)) for c in vec_cfgs]
    if not quick:   # the repaired read() keeps the property even when the final chunk comes with io.EOF
        jobs.append(lambda: vlib.tlc_model(_sub(ctx, "mc-eof"), "AnnexB", "AnnexB_MC_eof", workers=4, tool_opts=JVM))
    res = parallel(jobs)
    mc, pinned, asis_eof, vec_pinned, bin264, bin265 = res[:6]
    vec_runs = res[6:6 + len(vec_cfgs)]
    extra = [("AnnexB/AnnexB_MC_eof", r) for r in res[6 + len(vec_cfgs):]]
    for r in [mc] + vec_runs + [r for _, r in extra]:
        ctx.cov["states"] += r.distinct
        ctx.cov["transitions"] += r.generated
    for name, r in [("AnnexB/" + mc_cfg, mc), ("AnnexB/AnnexB_pinned", pinned), ("AnnexB/AnnexB_asis_eof", asis_eof),
                    ("AnnexBVec/AnnexBVec_pinned", vec_pinned)] + \
            [("AnnexBVec/" + c, r) for c, r in zip(vec_cfgs, vec_runs)] + extra:
        ctx.cov["tlc_runs"].append({"spec": name, "rc": r.rc, "generated": r.generated, "distinct": r.distinct,
                                    "depth": r.depth, "wall_s": round(r.wall, 2)})
    ctx.log("online model %s: %d distinct states, depth %d (any number of units, every chunking): Exact holds" %
            (mc_cfg, mc.distinct, mc.depth))
    ctx.cov["online_model_states"] = mc.distinct
    ctx.cov["documented_counterexamples"] = {"pinned_code_sei_last_returned": pinned.rc == 12,
                                             "pinned_code_bounded_vector_model": vec_pinned.rc == 12,
                                             "read_as_is_final_chunk_with_eof_lost": asis_eof.rc == 12}
    if pinned.rc != 12 or vec_pinned.rc != 12:
        ctx.notes.append("the pinned-code reader model no longer yields the SEI-last counterexample (rc=%s/%s)" %
                         (pinned.rc, vec_pinned.rc))

    # 2. vectors: every stream TLC enumerated, plus stretched copies (long units up to 10 KiB)
    vecs = [v[0] for r in vec_runs for v in r.tag("VERIF_VEC")]
    if not vecs:
        raise vlib.NoVerdict("AnnexBVec emitted no vectors")
    cases = [{"id": i, "units": v["units"]} for i, v in enumerate(vecs)]
    nlong = 150 if quick else 3000
    rng = ctx.rng
    for _ in range(nlong):
        v = vecs[rng.randrange(len(vecs))]
        units = []
        for u in v["units"]:
            u = dict(u)
            if rng.random() < 0.7:
                u["len"] = rng.choice([7, 64, 300, 4093, 4096, 4099, 8192, 10240, rng.randrange(4, 10241)])
            units.append(u)
        # a few more units so that SEI appears at every position of longer streams
        extra = [dict(vecs[rng.randrange(len(vecs))]["units"][0]) for _ in range(rng.randrange(0, 4))]
        cases.append({"id": len(cases), "units": units + extra, "long": True})
    ctx.log("%d streams from TLC (%s), %d stretched to long units" % (len(vecs), ", ".join(vec_cfgs), nlong))
    eofdata = 8 if quick else 20      # every n-th stream is also delivered with final-chunk+EOF
    traces = []

    def drive(binary, codec, off):
        cs = [dict(c, id=c["id"] + off) for c in cases]
        inp = vlib.write_json(os.path.join(ctx.work, "in-%s.json" % codec),
                              {"cases": cs, "chunks": CHUNKS, "eofdata": eofdata})
        out = os.path.join(ctx.work, "trace-%s.ndjson" % codec)
        vlib.go_run(ctx, binary, "TestVerifAnnexB", inp, out, timeout=900)
        return out

    traces = parallel([lambda: drive(bin264, "h264", 0), lambda: drive(bin265, "h265", H265_ID_OFFSET)])
    ctx.log("drivers done")

    # 3. TLC judges what the readers did
    ctx.viol = tlc_trace_parallel(ctx, "AnnexB_Trace", "AnnexB_Trace", traces, nproc=4 if quick else 10)
    own_exercised(ctx, ["ExactNals", "SeiSkippedEverywhere", "HeaderFields"])

    # 4. evidence
    lines = [l for t in traces for l in vlib.read_ndjson(t) if l.get("ev") == "rd"]
    ctx.cov["evaluations"] = len(lines)
    ctx.cov["reader_runs"] = len(lines) * len(CHUNKS)
    ctx.cov["traces_validated_against_impl"] = len(lines)
    distinct = {(l["codec"], l["sei"], tuple(n["d"] if n["n"] <= 6 else n["n"] for n in l["nals"])) for l in lines}
    ctx.cov["bytes_fed"] = sum(l["bytes"] for l in lines) * len(CHUNKS)
    ctx.cov["chunk_dependent_observations"] = sum(1 for l in lines if len(l["runs"]) > 1)
    # model drift: what the model of the code as it is ("current") predicts, against the real readers
    drift = 0
    for l in lines:
        i = l["t"] % H265_ID_OFFSET
        if i < len(vecs):
            want = vecs[i]["curOn" if l["sei"] else "curOff"]
            if any([o["n"] for o in r["out"]] != [len(u) for u in want] for r in l["runs"]):
                drift += 1
    ctx.cov["model_drift_cases"] = drift
    ctx.cov["samples"] = [{"vector": vecs[0]}, {"vector": vecs[len(vecs) // 2]}] + \
        [{k: l[k] for k in ("codec", "sei", "nals", "runs", "sig")} for l in lines[:2]]
    ctx.assumptions += [
        "streams satisfy the property's preconditions by construction (no 00 00 01 inside a unit, no trailing 00)",
        "the io.Reader returns (n>0, nil) chunks and then (0, io.EOF); the final-chunk-with-EOF delivery is "
        "replayed too but judged under the separate id C34io (listed under incidental_other_properties)",
    ]
    bycase = {}
    for l in lines:
        bycase.setdefault(l["t"], []).append(l)

    def replay_of(v):
        t = v["trace"]
        return {"case": cases[t % H265_ID_OFFSET] if t % H265_ID_OFFSET < len(cases) else None,
                "codec": "h265" if t >= H265_ID_OFFSET else "h264", "recorded": bycase.get(t, [])[:4]}

    return vlib.finish(
        ctx, "model_checking",
        rule="TLC checks the transcribed reader (prefix detection, processByte, SEI filter, end-of-stream path, read()) "
             "against every valid framed stream with any number of units and every chunking (online model), and "
             "enumerates every stream of the bounded vector model; each enumerated stream (and seeded stretched "
             "copies with units up to 10 KiB) is expanded to bytes and read by the real H.264 and H.265 readers "
             "with SEI inclusion off/on under 7 chunk-size patterns; one evaluation = one (stream, codec, inclusion) "
             "judged by TLC over all chunk patterns; distinct = distinct (codec, inclusion, unit bytes)",
        distinct_nontrivial=len(distinct), exhaustive=True, replay_of=replay_of)


# ---------------------------------------------------------------------------------------------
# C35

RAND_TYPES = {"h264": [1, 1, 1, 2, 3, 4, 5, 5, 6, 7, 7, 8, 8, 9, 10, 11, 12, 13, 19],
              "h265": [0, 1, 1, 1, 2, 3, 4, 5, 6, 7, 8, 9, 16, 17, 18, 19, 19, 20, 21, 32, 32, 33, 33, 34, 34,
                       35, 36, 37, 38, 39, 39, 40]}


def run_c35(ctx):
    quick = ctx.quick
    # generative runs (intended variant must satisfy Correct; each emits its input sequences as vectors):
    #   MC      structure: all types x {small, fragmented} x call boundaries, depth 3, MTU 128
    #   MC_frag size boundaries of the fragmentation / aggregation arithmetic (mtu-1, mtu, mtu+1, last fragment
    #           of 1, 2, full bytes, 2..4 fragments), MTU 40 and 128, with and without a parameter-set opener
    #   MC_len  two-byte length fields: units of 255/256/257/300/700 bytes aggregated at MTU 1200
    gen = ["AnnexBWriter_MC", "AnnexBWriter_MC_frag", "AnnexBWriter_MC_len", "AnnexBWriter_MC_len3"]
    if not quick:
        gen += ["AnnexBWriter_MC_t", "AnnexBWriter_MC_t264", "AnnexBWriter_MC_frag3", "AnnexBWriter_MC_len_t"]
    jobs = [lambda: vlib.tlc_expect_violation(_sub(ctx, "asis"), "AnnexBWriter", "AnnexBWriter_asis", workers=1, tool_opts=JVM),
            lambda: vlib.tlc_expect_violation(_sub(ctx, "pktfix"), "AnnexBWriter", "AnnexBWriter_pktfix", workers=1, tool_opts=JVM),
            lambda: vlib.go_build(ctx, "nalwriter_h264"),
            lambda: vlib.go_build(ctx, "nalwriter_h265")]
    jobs += [(lambda c=c: vlib.tlc_model(_sub(ctx, c), "AnnexBWriter", c, workers=1, timeout=500, tool_opts=JVM)) for c in gen]
    res = parallel(jobs)
    asis, pktfix, bin264, bin265 = res[:4]
    models = [("AnnexBWriter/" + c, r) for c, r in zip(gen, res[4:])]
    for name, r in models:
        ctx.cov["states"] += r.distinct
        ctx.cov["transitions"] += r.generated
    for name, r in models + [("AnnexBWriter/AnnexBWriter_asis", asis), ("AnnexBWriter/AnnexBWriter_pktfix", pktfix)]:
        ctx.cov["tlc_runs"].append({"spec": name, "rc": r.rc, "generated": r.generated, "distinct": r.distinct,
                                    "depth": r.depth, "wall_s": round(r.wall, 2)})
    ctx.cov["asis_model_counterexample"] = {"asis": asis.rc == 12, "packet_level_repair_only": pktfix.rc == 12}
    if asis.rc != 12:
        ctx.notes.append("model drift: the as-is writer model no longer yields a counterexample (rc=%s)" % asis.rc)

    # vectors -> cases: MTU and every unit length are the model's numbers
    rng = ctx.rng
    vecs = [v[0] for _, r in models for v in r.tag("VERIF_VEC")]
    if not vecs:
        raise vlib.NoVerdict("AnnexBWriter emitted no vectors")
    ctx.cov["vectors_per_model"] = {name: len(r.tag("VERIF_VEC")) for name, r in models}
    cases = {"h264": [], "h265": []}
    meta = {}
    nid = 0
    for v in vecs:
        units = [{"ty": u["ty"], "len": u["len"], "eos": u["eos"]} for u in v["inp"]]
        cases[v["codec"]].append({"id": nid, "mtu": v["mtu"], "agg": v["agg"], "raw": False, "units": units})
        meta[nid] = v
        nid += 1
    nvec = nid
    # seeded random sequences: all unit types, lengths up to 10 KiB, MTUs that force every packet kind;
    # judged by the normative predicates only (no model prediction)
    nrand = 1500 if quick else 60000
    for _ in range(nrand):
        codec = rng.choice(["h264", "h265"])
        mtu = rng.choice([20, 40, 64, 100, 128, 300, 1200, 1200, 1400, rng.randrange(16, 1500)])
        hdr, sl = (1, mtu - 2) if codec == "h264" else (2, mtu - 3)
        units = []
        for _ in range(rng.randrange(1, 13)):
            ty = rng.choice(RAND_TYPES[codec])
            k = rng.random()
            if k < 0.45:
                ln = rng.randrange(5, 40)
            elif k < 0.60:
                ln = max(5, mtu + rng.randrange(-8, 9))
            elif k < 0.72:      # last fragment carries 0, 1 or 2 bytes more than whole slices
                ln = hdr + rng.randrange(1, 6) * sl + rng.randrange(0, 3)
            elif k < 0.82:      # around the two-byte length fields of aggregation packets
                ln = rng.choice([254, 255, 256, 257, 258, 300, 511, 512, 513, 700, 1023, 1024])
            elif k < 0.97:
                ln = rng.randrange(mtu + 1, 4 * mtu + 2)
            else:
                ln = rng.randrange(4000, 10241)
            ln = max(5, ln)
            units.append({"ty": ty, "len": ln, "eos": rng.random() < 0.4})
        cases[codec].append({"id": nid, "mtu": mtu, "agg": rng.random() < 0.75, "raw": rng.random() < 0.5,
                             "units": units})
        nid += 1
    ctx.log("%d sequences from TLC, %d seeded random sequences" % (nvec, nrand))

    def drive(binary, codec):
        inp = vlib.write_json(os.path.join(ctx.work, "in-%s.json" % codec), {"cases": cases[codec]})
        out = os.path.join(ctx.work, "trace-%s.ndjson" % codec)
        vlib.go_run(ctx, binary, "TestVerifNalWriter", inp, out, timeout=900)
        return out

    traces = parallel([lambda: drive(bin264, "h264"), lambda: drive(bin265, "h265")])
    ctx.log("drivers done")
    ctx.viol = tlc_trace_parallel(ctx, "AnnexB_Trace", "AnnexB_Trace", traces, nproc=6 if quick else 10)
    own_exercised(ctx, ["FromFirstKey-KeyKept", "FromFirstKey-NothingBefore", "OrderAndBytes"])

    lines = [l for t in traces for l in vlib.read_ndjson(t) if l.get("ev") == "wr"]
    ctx.cov["evaluations"] = len(lines)
    ctx.cov["traces_validated_against_impl"] = len(lines)
    ctx.cov["rtp_packets_written"] = sum(l["npkt"] for l in lines)
    ctx.cov["packet_kinds_seen"] = sorted({"%s:%s" % (l["codec"], p["k"]) for l in lines for p in l["pk"]})
    ctx.cov["signatures_seen"] = len({l["sig"] for l in lines})
    ctx.cov["writer_errors"] = sum(1 for l in lines if l["werr"])
    ctx.cov["payloader_dropped_units"] = sum(len(l["in"]) - len(l["pk"]) for l in lines)
    # model drift: model's packetization and as-is output against the real payloader / writer
    drift_pk = drift_out = 0
    drift_ex = []
    for l in lines:
        v = meta.get(l["t"])
        if v is None:
            continue
        idx = {d: i + 1 for i, d in enumerate(l["in"])}
        if [(idx.get(p["d"], 0), p["k"]) for p in l["pk"]] != [(p["id"], p["k"]) for p in v["pk"]]:
            drift_pk += 1
            if len(drift_ex) < 3:
                drift_ex.append({"vector": v, "real_pk": [(idx.get(p["d"], 0), p["k"]) for p in l["pk"]], "mtu": l["mtu"]})
        elif [idx.get(o["d"], 0) for o in l["out"]] != v["asis"]:
            drift_out += 1
    ctx.cov["model_drift_cases"] = {"packetization": drift_pk, "asis_writer_output": drift_out}
    if drift_ex:
        ctx.cov["model_drift_examples"] = drift_ex
    distinct = {(l["codec"], l["agg"], tuple((p["ty"], p["k"]) for p in l["pk"])) for l in lines}
    ctx.cov["samples"] = [{"vector": vecs[len(vecs) // 3]}, {"vector": vecs[-1]}] + \
        [{k: l[k] for k in ("codec", "mtu", "agg", "pk", "out", "sig")} for l in lines[:2]]
    ctx.assumptions += [
        "expected output = the units the RTP packets carry (driver's own RFC 6184 / RFC 7798 parse of the payloads); "
        "units pion/rtp's payloader drops or withholds (AUD, filler, cached parameter sets) are outside C35",
        "units are at least 5 bytes long (isKeyFrame of h264writer reads a 32-bit word)",
        "read back with the matching reader with SEI inclusion on, so that the C34 defect cannot leak in",
    ]
    bycase = {l["t"]: l for l in lines}
    allcases = {c["id"]: c for cs in cases.values() for c in cs}

    def replay_of(v):
        return {"case": allcases.get(v["trace"]), "recorded": bycase.get(v["trace"])}

    return vlib.finish(
        ctx, "exploration",
        rule="TLC explores every input sequence of the payloader+writer model up to the bound (intended variant "
             "satisfies the property, as-is and packet-level-repair variants give counterexamples); every sequence "
             "is built from real bytes, packetized by pion/rtp's payloader, written by the real writer, read back by "
             "the matching reader and judged by TLC, plus seeded random sequences (all unit types, lengths to 10 KiB, "
             "random MTUs); one evaluation = one sequence; distinct = distinct (codec, aggregation, carried unit "
             "types and packet kinds)",
        distinct_nontrivial=len(distinct), exhaustive=False, replay_of=replay_of)
