"""C33 (Ogg/Opus writers: valid pages, stream structure, granules, packets and header fields read back)."""
import os

import vlib
from ivf_common import start_models, finish_models, sim_vectors, par_tlc_trace, SubCtx, Job

STREAM_PREDS = ("Bos", "TagsSecond", "SeqFromZero", "LastPageEos", "GranuleExact", "GranuleMonotone",
                "PacketLengths", "PacketsRoundTrip", "HeaderFields")


def run_ogg(ctx):
    quick = ctx.quick
    # 1. exhaustive model checks of the transcribed page construction / writers (Impl = "current", the code as it is): the normative
    #    operators hold on every reachable state; the module's assumption LacingHolds covers every packet length
    #    around k*255, 255*255 and 2*255*255
    models = [("Ogg_MC", "Ogg_MC")] if quick else \
             [("Ogg_MC", "Ogg_MCt"), ("Ogg_MC", "Ogg_MC3"), ("Ogg_MC", "Ogg_MCtr")]
    mc = start_models(ctx, models, workers=4)
    # 1b. the variant of the originally pinned code (legacy writer on a plain io.Writer, repaired since by ada877e):
    #     TLC itself exhibits the missing EOS - documented counterexample, not a statement about the current code
    pinned_ctx = SubCtx(ctx, "pinned")
    pinned_job = Job(lambda: vlib.run_tlc(pinned_ctx, "Ogg_MC", "Ogg_pinned", workers=1, quiet_ok=True, timeout=300))

    # 2. vectors from TLC's simulator over the full alphabet (all TOC bytes, boundary and random sizes, 1-3 tracks)
    nvec = 250 if quick else 5000
    vecs = sim_vectors(ctx, "Ogg_MC", "Ogg_Sim" if quick else "Ogg_Simt", nvec, 2 if quick else 8)
    for i, v in enumerate(vecs):
        v["id"] = i
    if not vecs:
        raise vlib.NoVerdict("the simulation produced no vector")
    infile = vlib.write_json(os.path.join(ctx.work, "vectors.json"), vecs)
    trace = os.path.join(ctx.work, "trace.ndjson")

    # 3. replay on the real writers, parse with the independent parser and with OggReader
    binary = vlib.go_build(ctx, "ogg")
    vlib.go_run(ctx, binary, "TestVerifOgg", infile, trace, timeout=500)

    # 4. TLC judges
    ctx.viol = par_tlc_trace(ctx, "Ogg_Trace", "Ogg_Trace", trace, 2 if quick else 8)
    ctx.log("TLC trace Ogg_Trace: %d lines, %d violation records" % (ctx.cov.get("trace_lines_validated", 0), len(ctx.viol)))
    finish_models(ctx, mc)
    pinned = pinned_job.result()
    ctx.cov["tlc_runs"] += pinned_ctx.cov["tlc_runs"]
    ctx.cov["pinned_model_rc"] = pinned.rc
    ctx.cov["pinned_model_counterexample"] = "Invariant ModelEos is violated" in pinned.stdout
    ctx.cov["states"] += pinned.distinct
    ctx.cov["transitions"] += pinned.generated
    if not ctx.cov["pinned_model_counterexample"]:
        ctx.notes.append("the pinned-code variant of the model did not exhibit the missing-EOS counterexample")

    lines = vlib.read_ndjson(trace)
    pages = [l for l in lines if l["ev"] == "page"]
    streams = [l for l in lines if l["ev"] == "stream"]
    files = [l for l in lines if l["ev"] == "file"]
    pc = ctx.cov["predicates"]
    for need in ("CrcValid", "ReaderAcceptsPage", "OnlyPages") + STREAM_PREDS:
        if not pc.get(need):
            raise vlib.NoVerdict("predicate %s was not exercised" % need)
    apis = {l["api"] for l in files}
    if not quick and apis != {"New", "NewWith", "Writer", "WriterSeek"}:
        raise vlib.NoVerdict("not every writer API was exercised: %s" % sorted(apis))
    ctx.cov["evaluations"] = sum(pc.values())
    ctx.cov["traces_validated_against_impl"] = len(files)
    ctx.cov["pages_parsed"] = len(pages)
    ctx.cov["continued_pages"] = sum(1 for p in pages if p["cont"])
    ctx.cov["logical_streams"] = len(streams)
    ctx.cov["packets_written"] = sum(len(s["wr"]) for s in streams)
    ctx.cov["packets_spanning_pages"] = sum(1 for s in streams for w in s["wr"] if w["n"] >= 65025)
    ctx.cov["toc_bytes_seen"] = len({w["toc"] for s in streams for w in s["wr"]})
    ctx.cov["apis_and_sinks"] = sorted({"%s/%s" % (l["api"], l["sink"]) for l in files})
    ctx.cov["multi_page_opustags_streams"] = sum(1 for s in streams if s["tag"] == "big")
    ctx.cov["constructor_errors"] = sum(1 for l in lines if l["ev"] == "ctor_err")
    ctx.cov["write_errors"] = sum(l["werrs"] for l in files)
    # generative model vs code, outside any verdict: pages other than those of the OpusHead / OpusTags packets (whose
    # sizes are abstract in the model) predicted by the model vs found in the output
    ctx.cov["model_drift_behaviours"] = sum(1 for l in files if l["model_data_pages"] != l["ndata"] or l["accept_drift"])
    ctx.cov["packets_refused_or_ignored"] = sum(s["refused"] for s in streams)
    ctx.cov["streams_with_refused_packet_then_more_pages"] = sum(1 for s in streams if s["refused"] and s["wr"])
    ctx.cov["shared_buffer_behaviours"] = sum(1 for l in files if l["buf"] == "shared")
    ctx.cov["shared_buffer_rewritable_streams_with_packets"] = sum(
        1 for s in streams if s["buf"] == "shared" and s["api"] in ("New", "WriterSeek") and s["wr"])
    ctx.cov["header_page_count_differences"] = sum(1 for l in files if l["model_pages"] != l["npages"])
    ctx.cov["samples"] = [{"vector": v} for v in vecs[:2]] + \
        [{k: p[k] for k in ("sig", "tr", "pseq", "bos", "cont", "eos", "gran", "crc_ok", "segs", "rd")} for p in pages[:2]] + \
        [{k: s[k] for k in ("sig", "sink", "tr", "npages", "nrec", "hdr_got")} for s in streams[:1]]
    ctx.assumptions += [
        "the packet domain includes packets the writers refuse (code 3 with missing / zero / over-long frame count) or ignore (empty payload); granule and round-trip predicates are computed from the packets the writer accepted (WriteRTP returned nil for a non-empty payload)",
        "the page -> logical stream mapping uses the serial numbers read from the writer objects (in-package read access)",
        "OggReader exposes page payloads only; continued pages are joined by the projector from the independently parsed "
        "segment tables after TLC has checked that OggReader returned the same payload, granule and serial for every page"]
    bytrace = {}
    for l in lines:
        if l["ev"] != "page" or len(bytrace.get(l["t"], [])) < 60:
            bytrace.setdefault(l["t"], []).append(l)

    def replay_of(v):
        t = v["trace"]
        return {"vector": vecs[t] if t < len(vecs) else None, "recorded": bytrace.get(t, [])[:80]}

    distinct = {(s["api"], s["sink"], s["ch"], s["tag"], s["ntracks"], tuple(min(w["n"], 66000) for w in s["wr"]))
                for s in streams}
    return vlib.finish(
        ctx, "model_checking",
        rule="TLC exhausts the transcribed page construction and both writer APIs for the bounds of Ogg_MC* (normative operators "
             "as invariants, lacing round trip for every length around the boundaries) and exhibits the missing EOS on the variant "
             "of the originally pinned code; vectors = closed behaviours of the same machine drawn by TLC's simulator over the full alphabet; one "
             "evaluation = one normative predicate applied by TLC to a page / logical stream / file of the real writers; "
             "distinct = distinct (api, sink, channel cfg, tags cfg, tracks, packet sizes) among judged streams",
        distinct_nontrivial=len(distinct), exhaustive=False, replay_of=replay_of)
