"""C18 — data-channel stream ids (spec/DcIds.tla): TLC-simulated histories on both endpoints of real pairs."""
import os
import sys
sys.path.insert(0, os.path.dirname(os.path.abspath(__file__)))
import vlib


def run(ctx):
    quick = ctx.quick
    vlib.tlc_model(ctx, "DcIds", "DcIds_MC", workers=8, timeout=900)
    nwalk = 40 if quick else 600
    sim = vlib.run_tlc(ctx, "DcIds", "DcIds_Sim", workers=1, simulate="num=%d" % nwalk, depth=10, timeout=600)
    if sim.rc != 0:
        raise vlib.NoVerdict("simulation failed: %s" % sim.error)
    import sdp_common
    walks = sdp_common.split_walks(sim)
    beh = []
    ctx.rng.shuffle(walks)
    for i, w in enumerate(walks[:(120 if quick else 1500)]):
        beh.append({"id": i, "steps": w, "burst": 3 if i % 3 == 0 else 0})
    ctx.log("%d histories" % len(beh))
    binary = vlib.go_build(ctx, "dcids")
    infile = vlib.write_json(os.path.join(ctx.work, "behaviours.json"), beh)
    trace = os.path.join(ctx.work, "trace.ndjson")
    # the driver may die (a change that opens a channel twice ends in a double close): what it recorded until then is judged
    rc, out = vlib.go_run(ctx, binary, "TestVerifDcIds", infile, trace, timeout=2400, allow_fail=True)
    ctx.cov["driver_exit"] = rc
    if not os.path.exists(trace) or os.path.getsize(trace) == 0:
        raise vlib.NoVerdict("driver TestVerifDcIds failed rc=%d:\n%s" % (rc, out[-3000:]))
    ctx.viol = vlib.tlc_trace(ctx, "DcIds_Trace", "DcIds_Trace", trace)
    if rc != 0 and not [v for v in ctx.viol if v.get("prop") == "C18"]:
        raise vlib.NoVerdict("driver TestVerifDcIds failed rc=%d and nothing it recorded violates a predicate:\n%s" % (rc, out[-3000:]))
    pr = ctx.cov["predicates"]
    if not pr.get("Parity") or not pr.get("UniqueAssigned"):
        raise vlib.NoVerdict("predicates not exercised: %s" % pr)
    lines = [l for l in vlib.read_ndjson(trace) if l["ev"] == "ids"]
    ctx.cov["evaluations"] = len(lines)
    ctx.cov["traces_validated_against_impl"] = len(beh)
    ctx.cov["ids_assigned_observed"] = len({(l["t"], l["who"], c["k"]) for l in lines for c in l["chans"]
                                            if c["id"] >= 0 and not c["explicit"] and c["origin"] == "local"})
    ctx.cov["samples"] = [{"history": beh[0]["steps"]}, lines[-1] if lines else {}]
    distinct = {tuple((s["op"], s.get("who"), s.get("eid")) for s in b["steps"]) for b in beh}
    bytrace = {}
    for l in lines:
        bytrace.setdefault(l["t"], []).append(l)
    return vlib.finish(
        ctx, "model_checking",
        rule="histories = seeded TLC simulation of DcIds.tla (creation with/without explicit id, negotiated channels created on "
             "both sides, before and after the association is up, closes), replayed on both endpoints of a real connected pair "
             "(offerer = DTLS server, answerer = DTLS client), every third one followed by concurrent creators on both sides; "
             "distinct = distinct histories",
        distinct_nontrivial=len(distinct), exhaustive=False,
        replay_of=lambda v: {"behaviour": beh[v["trace"]], "recorded": bytrace.get(v["trace"], [])})
