"""C17 - codec compatibility is symmetric and case-insensitive; default codecs match themselves.

Model: spec/CodecOps.tla (internal/fmtp transcribed) + spec/CodecMatch.tla (descriptor domain).
Replay: harness/fmtp (fmtp.Parse(..).Match(..), both orders, both letter cases), default codec list
read at run time by harness/codecdefaults.  Oracle: spec/CodecMatch_Trace.tla."""
import os
import sys

sys.path.insert(0, os.path.dirname(os.path.abspath(__file__)))
import codec_common  # noqa: E402
import vlib  # noqa: E402


def run(ctx):
    quick = ctx.quick
    # 1. TLC: the transcribed Match is symmetric and case-insensitive on every pair of the descriptor
    #    domain and every default codec matches itself (intended variant; the quick tier exhausts
    #    the domain with fewer clock rates / channel counts, the thorough tier the whole domain)
    mc = vlib.tlc_model(ctx, "CodecMatch", "CodecMatch_MCQ" if quick else "CodecMatch_MC", workers=16, timeout=400)
    ctx.cov["model_descriptors_exhausted"] = max(0, mc.distinct - 16)
    # 1b. the variant of the pinned code before the repair of fmtp.go (defaults keyed by ToLower,
    #     comparison by EqualFold): TLC exhibits the counterexample to symmetry that was found with it.
    #     Documentation only; nothing below depends on it.
    asis = vlib.tlc_expect_violation(ctx, "CodecMatch", "CodecMatch_asis", workers=16, timeout=400)
    ctx.cov["pinned_code_variant_model_rc"] = asis.rc
    ctx.cov["pinned_code_variant_counterexample"] = "Invariant ModelSymmetric is violated" in asis.stdout

    # 2. the pairs to replay, with the codes the transcription of the current code predicts
    #    (Impl = "intended": defaults keyed with the same folding as the mime comparison)
    em = vlib.tlc_model(ctx, "CodecMatch", "CodecMatch_EmitQ" if quick else "CodecMatch_EmitT", workers=1, timeout=500)
    rows = sorted((v[0] for v in em.tag("VERIF_VEC")), key=lambda r: r["a"])
    if not rows or [r["a"] for r in rows] != list(range(1, len(rows) + 1)):
        raise vlib.NoVerdict("the model did not emit one row per descriptor")
    domain = [r["d"] for r in rows]
    npairs = sum(len(r["bs"]) for r in rows)
    ctx.log("%d descriptors, %d pairs to replay" % (len(domain), npairs))

    # 3. default codecs of the tree under test, then the replay
    defaults = codec_common.real_default_codecs(ctx)
    model_defaults = [r["d"] for r in rows if r.get("isdefault")]
    key = lambda d: (d["mime"], d["clock"], d["ch"], d["line"])  # noqa: E731
    ctx.cov["default_codecs_real"] = len(defaults)
    ctx.cov["default_codecs_not_in_model"] = sorted(
        "%s|%d|%d|%s" % key(d) for d in defaults if key(d) not in {key(m) for m in model_defaults})
    ctx.cov["model_defaults_not_registered"] = sorted(
        "%s|%d|%d|%s" % key(m) for m in model_defaults if key(m) not in {key(d) for d in defaults})
    infile = vlib.write_json(os.path.join(ctx.work, "pairs.json"), {
        "domain": domain,
        "rows": [{"a": r["a"], "bs": r["bs"]} for r in rows],
        "defaults": [{k: d[k] for k in ("mime", "clock", "ch", "line")} for d in defaults]})
    trace = os.path.join(ctx.work, "trace.ndjson")
    binary = vlib.go_build(ctx, "fmtp")
    vlib.go_run(ctx, binary, "TestVerifFmtp", infile, trace, timeout=500)

    # 4. TLC judges the real results
    ctx.viol = vlib.tlc_trace(ctx, "CodecMatch_Trace", "CodecMatch_Trace", trace, timeout=800)

    # 5. evidence
    lines = vlib.read_ndjson(trace)
    real = {l["a"]: l for l in lines if l.get("ev") == "row"}
    drift, evaluated, codes_seen, drift_samples = 0, 0, {}, []
    for r in rows:
        got = real.get(r["a"])
        if got is None or got["bs"] != r["bs"]:
            raise vlib.NoVerdict("row %d was not replayed" % r["a"])
        for b, exp, c in zip(r["bs"], r["exp"], got["codes"]):
            evaluated += 1
            codes_seen[c] = codes_seen.get(c, 0) + 1
            if exp != c:
                drift += 1
                if len(drift_samples) < 5:
                    drift_samples.append({"a": domain[r["a"] - 1], "b": domain[b - 1], "model_code": exp, "real_code": c})
    ndef = sum(1 for l in lines if l.get("ev") == "default")
    preds = ctx.cov["predicates"]
    if not (preds.get("Symmetric") and preds.get("CaseInsensitive") and preds.get("DefaultsSelfMatch")):
        raise vlib.NoVerdict("a C17 predicate was not exercised: %s" % preds)
    if preds["Symmetric"] != npairs or preds["DefaultsSelfMatch"] != len(defaults):
        raise vlib.NoVerdict("not every pair / default codec was judged")
    ctx.cov["evaluations"] = evaluated + ndef
    ctx.cov["traces_validated_against_impl"] = len(rows) + ndef
    ctx.cov["pairs_replayed"] = evaluated
    ctx.cov["pairs_matching_in_some_variant"] = evaluated - codes_seen.get(0, 0)
    ctx.cov["result_codes_seen"] = {str(k): v for k, v in sorted(codes_seen.items())}
    ctx.cov["model_drift_pairs"] = drift
    ctx.cov["model_drift_samples"] = drift_samples
    some = [r for r in rows if any(r["exp"])][:2]
    ctx.cov["samples"] = [{"a": r["d"], "b": domain[r["bs"][k] - 1], "real_code": real[r["a"]]["codes"][k]}
                          for r in some for k in range(len(r["bs"])) if real[r["a"]]["codes"][k]][:4] + \
                         [l for l in lines if l.get("ev") == "default"][:2]
    ctx.assumptions += [
        "the descriptor domain of spec/CodecMatch.tla (mime spellings, clock rates, channel counts, per-codec fmtp lines) "
        "stands for 'any two codec descriptions'",
        "letter-case changes of the mime type are applied to ASCII letters only; '$' in the model denotes U+017F",
        "the default codec list is read from RegisterDefaultCodecs at run time (harness/codecdefaults)"]
    by_row = {l["a"]: l for l in lines if l.get("ev") == "row"}

    def replay_of(v):
        row = by_row.get(v.get("trace"))
        return {"descriptor": domain[v["trace"] - 1] if row else None, "detail": v.get("detail")}

    return vlib.finish(
        ctx, "model_checking",
        rule="one evaluation = one unordered pair of codec descriptors (8 real Match results: both orders, case of "
             "either mime type changed) judged by TLC, or one default codec matched against itself; "
             + ("quick: 18 seeded partners per descriptor (two thirds with the same mime type up to case)" if quick
                else "thorough: every pair of the domain"),
        distinct_nontrivial=evaluated + ndef, exhaustive=not quick, replay_of=replay_of)
