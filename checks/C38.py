"""C38 - public value types survive their JSON / text / PEM encodings.

spec/SerdeOps.tla (normative), spec/Serde.tla (field-level transcription of the hand-written codecs and
the abstract domain; TLC checks Decode(Encode(v)) = v for the intended codecs and pins down where the
code as it is fails), harness/serde (driver), spec/Serde_Trace.tla (verdicts)."""
import concurrent.futures
import os
import sys
sys.path.insert(0, os.path.dirname(os.path.abspath(__file__)))
import vlib  # noqa: E402


def run(ctx):
    quick = ctx.quick
    pool = concurrent.futures.ThreadPoolExecutor(1)
    build = pool.submit(vlib.go_build, ctx, "serde")

    # 1. model: the intended codecs round-trip on the whole abstract domain; the as-is transcription
    #    fails exactly on the vectors named by AsIsFailures; the tables are well-formed
    res = vlib.tlc_model(ctx, "Serde", "Serde_MC", workers=1)
    vecs = [v[0] for v in res.tag("VERIF_VEC")]
    if not vecs:
        raise vlib.NoVerdict("TLC emitted no vectors")
    # 1b. TLC exhibits a counterexample for the codecs as they are
    asis = vlib.tlc_expect_violation(ctx, "Serde", "Serde_asis", workers=1)
    ctx.cov["asis_model_rc"] = asis.rc
    ctx.cov["asis_counterexample_found"] = "Invariant ModelRoundTrip is violated" in asis.stdout

    # 2. concrete cases: every abstract vector, `reps` concrete instances each (rep 0 = canonical
    #    representatives, rep > 0 = seeded choices of strings, numbers and per-field classes);
    #    key generation makes certificates expensive, they get fewer instances
    reps = {"iceserver": 6, "enum": 1, "stats": 8, "sdesc": 6, "candinit": 3, "cert": 1} if quick else \
           {"iceserver": 300, "enum": 1, "stats": 800, "sdesc": 300, "candinit": 100, "cert": 24}
    cases = []
    for v in vecs:
        fam = v["v"]["fam"]
        n = reps[fam]
        if fam == "stats" and v["v"]["fill"] != "mix":
            n = max(1, n // 8)
        if fam == "cert" and v["v"]["key"] == "rsa-2048":
            n = max(1, n // 4)
        for r in range(n):
            cases.append({"id": len(cases), "v": v["v"], "exp": v["exp"], "rep": r})
    ctx.log("%d abstract vectors, %d concrete cases" % (len(vecs), len(cases)))
    infile = vlib.write_json(os.path.join(ctx.work, "cases.json"), cases)
    trace = os.path.join(ctx.work, "trace.ndjson")

    # 3. run pion's encoders and decoders
    binary = build.result()
    vlib.go_run(ctx, binary, "TestVerifSerde", infile, trace, timeout=500)
    lines = [l for l in vlib.read_ndjson(trace) if l.get("ev") == "rt"]
    if len(lines) != len(cases):
        raise vlib.NoVerdict("driver recorded %d of %d cases" % (len(lines), len(cases)))

    # 4. TLC judges
    ctx.viol = vlib.tlc_trace(ctx, "Serde_Trace", "Serde_Trace", trace, chunk=15000)

    def rt(l):
        return bool(l["encOk"] and l["decOk"] and l["otype"] == l["dtype"] and l["orig"] == l["dec"] and l["equals"])
    # the model's expectation is per abstract vector; for "mix" fills it depends on the seeded per-field choice
    mix = {c["id"] for c in cases if c["v"].get("fill") == "mix"}
    drift = [l for l in lines if l["exp"] != rt(l) and not (l["codec"] == "string" and l["sentinel"]) and l["t"] not in mix]
    table_drift = [l for l in lines if l["fam"] == "enum" and not l.get("textAsModel")]
    fams = sorted({l["fam"] for l in lines})
    ctx.cov["evaluations"] = len(lines)
    ctx.cov["traces_validated_against_impl"] = len(cases)
    ctx.cov["abstract_vectors"] = len(vecs)
    ctx.cov["cases_per_family"] = {f: sum(1 for l in lines if l["fam"] == f) for f in fams}
    ctx.cov["go_types_exercised"] = len({l["otype"] for l in lines})
    ctx.cov["distinct_encodings"] = len({(l["otype"], l["enc"]) for l in lines})
    ctx.cov["model_drift_cases"] = len(drift)
    ctx.cov["enum_table_drift"] = len(table_drift)
    if drift:
        ctx.cov["model_drift_examples"] = sorted({l["fam"] + ":" + l["sig"] for l in drift})[:8]
    ctx.cov["samples"] = [{k: l[k] for k in ("fam", "sig", "enc", "orig", "dec", "decErr")}
                          for l in (lines[:1] + [l for l in lines if l["fam"] == "stats"][:1] +
                                    [l for l in lines if not l["decOk"]][:2])]
    ctx.assumptions += [
        "domain: declared constants of the enums (incl. the zero 'Unknown' sentinel), valid UTF-8 strings, finite floats; "
        "ICEServer credentials only in the documented pairings (string with password, OAuthCredential with oauth)",
        "for String()/newX() pairs without a codec the sentinel only has to come back as a value (an error is tolerated)",
        "Stats values carry the type tag (and kind) of their Go type; all other fields range over zero/typical/extreme",
        "equality is semantic: nil = empty for slices and maps, times by instant, certificates by Equals both ways + fingerprint + expiry",
        "certificates: ECDSA P-256/P-384 and RSA-2048 keys, GenerateCertificate and NewCertificate with a custom template",
    ]
    need = ["RoundTrip:iceserver", "RoundTrip:enum", "RoundTripSentinel:enum", "RoundTrip:stats", "RoundTrip:sdesc",
            "RoundTrip:candinit", "PemRoundTrip:cert"]
    missing = [p for p in need if not ctx.cov["predicates"].get(p)]
    if missing:
        raise vlib.NoVerdict("predicates not exercised: %s" % missing)

    def replay_of(v):
        t = v.get("trace")
        return {"case": cases[t] if isinstance(t, int) and t < len(cases) else None,
                "recorded": [l for l in lines if l["t"] == t][:3]}

    return vlib.finish(
        ctx, "exploration",
        rule="TLC checks the transcribed hand-written codecs (ICEServer JSON, 20 enum tables, UnmarshalStatsJSON dispatch) on the "
             "abstract domain; every abstract vector is instantiated (several seeded concrete instances each), encoded and decoded "
             "by pion, and TLC compares the projections of original and decoded value. distinct = distinct (Go type, encoding)",
        distinct_nontrivial=len({(l["otype"], l["enc"]) for l in lines}), exhaustive=False, replay_of=replay_of)
