"""C28 - sample-based tracks timestamp and sequence RTP without drift.

spec/SampleTrackOps.tla (normative, exact integer time accounting), spec/SampleTrack.tla (generative:
WriteSample / packetizer / sequencer transcribed, remainder modelled exactly), harness/sampletrack
(driver on a real TrackLocalStaticSample), spec/SampleTrack_Trace.tla (trace spec).
"""
import os
import re
import sys

sys.path.insert(0, os.path.dirname(os.path.abspath(__file__)))
sys.path.insert(0, os.path.join(os.path.dirname(os.path.dirname(os.path.abspath(__file__))), "tools"))
import vlib  # noqa: E402

OWN = ["SameTsInSample", "TsNoDrift", "SeqPlusOne", "DropSkips", "BindingsAgree"]


def simulate(ctx, cfg, num, depth):
    res = vlib.run_tlc(ctx, "SampleTrack", cfg, workers=1, simulate="num=%d" % num, depth=depth, timeout=400)
    m = re.search(r"The number of states generated: (\d+)", res.stdout)
    if res.rc != 0 or not m:
        raise vlib.NoVerdict("simulation %s failed (rc=%s):\n%s" % (cfg, res.rc, "\n".join(res.stdout.splitlines()[-30:])))
    nstates = int(m.group(1))
    ctx.cov["states"] += nstates
    ctx.cov["transitions"] += nstates
    vecs = [v[0] for v in res.tag("VERIF_VEC")]
    ctx.log("TLC simulate %s: %d behaviours, %d states, invariants held, %.1fs" % (cfg, len(vecs), nstates, res.wall))
    return vecs


def run(ctx):
    quick = ctx.quick
    # 1. exhaustive checks of the transcribed algorithm (exact remainder) against the normative operators
    vlib.tlc_model(ctx, "SampleTrack", "SampleTrack_MC2" if quick else "SampleTrack_MC", workers=8)
    vlib.tlc_model(ctx, "SampleTrack", "SampleTrack_Deep6" if quick else "SampleTrack_Deep9", workers=4)
    alt = {}
    # bind / unbind events between samples, with and without WithRTPSequenceNumber (exhaustive, small alphabet)
    vlib.tlc_model(ctx, "SampleTrack", "SampleTrack_Rebind", workers=2)
    for cfg in ("SampleTrack_trunc", "SampleTrack_nodropdur", "SampleTrack_rebindseq"):
        r = vlib.tlc_expect_violation(ctx, "SampleTrack", cfg, workers=2)
        found = [ln for ln in r.stdout.splitlines() if ln.startswith("Error: Invariant")]
        alt[cfg] = found[0] if found else "none (rc=%s)" % r.rc
    ctx.cov["alternative_models"] = alt

    # 2. behaviours: sampled by TLC (-simulate, seeded); the model's invariants are checked on them too
    vecs = simulate(ctx, "SampleTrack_Sim200", 40 if quick else 150, 205)
    if not quick:
        vecs += simulate(ctx, "SampleTrack_Sim5000", 8, 5005)
    for i, v in enumerate(vecs):
        v["id"] = i
    nsamples = sum(1 for v in vecs for e in v["events"] if e["k"] == "sample")
    ctx.log("%d behaviours, %d samples" % (len(vecs), nsamples))
    infile = vlib.write_json(os.path.join(ctx.work, "vectors.json"), vecs)
    trace = os.path.join(ctx.work, "trace.ndjson")

    # 3. replay
    binary = vlib.go_build(ctx, "sampletrack")
    vlib.go_run(ctx, binary, "TestVerifSampleTrack", infile, trace, timeout=300)

    # 4. TLC judges
    ctx.viol = vlib.tlc_trace(ctx, "SampleTrack_Trace", "SampleTrack_Trace", trace, chunk=4000)
    lines = vlib.read_ndjson(trace)
    samples = [ln for ln in lines if ln.get("ev") == "sample"]
    ctx.cov["evaluations"] = len(samples)
    ctx.cov["packets_observed"] = sum(len(r["pk"]) for s in samples for r in s["recv"])
    ctx.cov["samples_with_two_senders"] = sum(1 for s in samples if len(s["recv"]) >= 2)
    ctx.cov["bind_unbind_events"] = sum(1 for ln in lines if ln.get("ev") in ("bind", "unbind")) - len(vecs)
    # model drift (never a verdict): with WithRTPTimestamp given, the timestamp offset the model (exact remainder)
    # predicts vs. what pion (float64 remainder) produced
    starts = {ln["t"]: ln for ln in lines if ln.get("ev") == "start"}
    cmpd = [s for s in samples if starts[s["t"]]["tsopt"] and s["recv"] and s["recv"][0]["pk"]]
    ctx.cov["model_drift_samples_compared"] = len(cmpd)
    ctx.cov["model_drift_ts_differs"] = sum(1 for s in cmpd if s["recv"][0]["pk"][0]["tsd"] != s["ets"])
    ctx.cov["model_drift_ts_differs_by_more_than_a_tick"] = sum(1 for s in cmpd if abs(s["recv"][0]["pk"][0]["tsd"] - s["ets"]) > 1)
    ctx.cov["traces_validated_against_impl"] = len(vecs)
    ctx.cov["longest_behaviour"] = max(len(v["events"]) for v in vecs)
    ctx.cov["codecs"] = sorted({ln["mime"] for ln in lines if ln.get("ev") == "start"})
    ctx.cov["samples"] = [{"rate": vecs[0]["rate"], "start": vecs[0]["start"], "seqopt": vecs[0]["seqopt"],
                           "tsopt": vecs[0]["tsopt"], "events": vecs[0]["events"][:4]}] + \
        [{k: s[k] for k in ("sig", "d", "drop", "recv")} for s in samples[:3]]
    missing = [p for p in OWN if not ctx.cov["predicates"].get(p)]
    if missing:
        raise vlib.NoVerdict("predicates never exercised: %s" % missing)
    keep = {}
    for ln in lines:
        keep.setdefault(ln["t"], []).append(ln)

    def replay_of(v):
        rec = keep.get(v["trace"], [])
        i = next((j for j, ln in enumerate(rec) if ln.get("sig") and v["sig"].endswith(ln["sig"])), 0)
        return {"vector_head": {k: vecs[v["trace"]][k] for k in ("rate", "start", "seqopt", "tsopt")} if v["trace"] < len(vecs) else None,
                "events": vecs[v["trace"]]["events"][:200] if v["trace"] < len(vecs) else None,
                "recorded_around": rec[max(0, i - 3):i + 3]}

    distinct = {(s["sig"]) for s in samples}
    ctx.assumptions.append("skipped duration = PrevDroppedPackets x the reporting sample's duration (pion's accounting)")
    return vlib.finish(
        ctx, "exploration",
        rule="TLC checks the transcribed WriteSample algorithm (exact remainder) exhaustively on short sequences and on "
             "every sampled behaviour; behaviours = TLC -simulate runs (seeded) of %s samples over 3 clock rates x 6 "
             "durations x drops {0,1,3} x sizes {0,1,3 packets} x 3 start classes x WithRTPSequenceNumber / WithRTPTimestamp "
             "given or not, with Bind / Unbind of a second sender between samples; one evaluation = one WriteSample call on "
             "a real TrackLocalStaticSample judged by TLC with exact integer time; distinct = distinct (rate, duration, "
             "drop, packets)" % ("200" if quick else "200 and 5000"),
        distinct_nontrivial=len(distinct), exhaustive=False, replay_of=replay_of)
