"""C29 - static RTP tracks fan out to each binding and leave the caller's packet intact.

spec/StaticRTP.tla (generative, transcribes bindings slice / swap-delete / writeRTP loop / pooled copy),
spec/StaticRTPOps.tla (normative), harness/staticrtp (driver), spec/StaticRTP_Trace.tla (trace spec).
"""
import os
import sys

sys.path.insert(0, os.path.dirname(os.path.abspath(__file__)))
sys.path.insert(0, os.path.join(os.path.dirname(os.path.dirname(os.path.abspath(__file__))), "tools"))
import vlib  # noqa: E402

OWN = ["EachBoundOnce", "NoneAfterUnbind", "OnlyBound", "OverlapLinearizable", "RewrittenHeader", "RestUnchanged",
       "CallerUntouched"]


def structural_paths(g, maxlen, shapes, rng, cap):
    """Every path of exactly `maxlen` steps over the structural alphabet {Bind(i), Unbind(i) of a bound
    sender, Write}; each Write gets the next packet shape of a shuffled cycle over all shapes."""
    out = []
    cyc = list(shapes)
    rng.shuffle(cyc)
    k = [0]

    def succ(n):
        res, seen_write = [], False
        for a, t in g.succ.get(n, []):
            if a["op"] == "Write":
                if not seen_write:
                    seen_write = True
                    res.append((None, t))
            elif a["exp"] == "ok" and a["op"] in ("Bind", "Unbind"):
                res.append((a, t))
        return res

    stack = [(g.inits[0], [])]
    while stack:
        n, p = stack.pop()
        if len(p) >= maxlen:
            steps = []
            for a in p:
                if a is None:
                    a = cyc[k[0] % len(cyc)]
                    k[0] += 1
                steps.append(a)
            out.append(steps)
            if len(out) > cap:
                return None
            continue
        for a, t in succ(n):
            stack.append((t, p + [a]))
    return out


def run(ctx):
    quick = ctx.quick
    # 1. exhaustive check of the transcribed algorithm against the normative operators, histories <= MaxSteps
    mc = vlib.tlc_model(ctx, "StaticRTP", "StaticRTP_MC5" if quick else "StaticRTP_MC", workers=8)
    ctx.cov["model_history_bound"] = 5 if quick else 7
    # 1b. complete labelled state graph (same model, emission on)
    res = vlib.tlc_model(ctx, "StaticRTP", "StaticRTP_Graph", workers=1)
    g = vlib.graph_from(res)
    ctx.log("graph: %d states, %d labelled edges" % (len(g.nodes), g.nedges))
    if g.nedges == 0:
        raise vlib.NoVerdict("the model emitted no edges")
    # 1c. the named wrong alternatives: TLC must exhibit each counterexample (design-level sanity of the operators)
    alt = {}
    for cfg, inv in (("StaticRTP_inplace", "ModelCallerUntouched"), ("StaticRTP_poplast", "ModelEachBoundOnce"),
                     ("StaticRTP_nopadfix", "ModelRestUnchanged"), ("StaticRTP_snapshot", "ModelLinearizable")):
        r = vlib.tlc_expect_violation(ctx, "StaticRTP", cfg, workers=2)
        found = [ln for ln in r.stdout.splitlines() if ln.startswith("Error: Invariant")]
        alt[cfg] = found[0] if found else "none (rc=%s)" % r.rc
    ctx.cov["alternative_models"] = alt

    # 2. behaviours
    shapes = []
    seen = set()
    for n in g.succ:
        for a, _ in g.succ[n]:
            if a["op"] == "Write" and vlib.canon(a) not in seen:
                seen.add(vlib.canon(a))
                shapes.append(a)
    shapes.sort(key=vlib.canon)
    paths = g.edge_cover(ctx.rng, 7, tail=1)
    nwalk = 150 if quick else 3000
    paths += g.random_walks(ctx.rng, nwalk, 7 if quick else 9)
    beh_steps = [[a for _, a, _ in p] for p in paths]
    n_cover = len(beh_steps)
    exhaustive_len = 0
    if not quick:
        allp = structural_paths(g, 6, shapes, ctx.rng, 20000)
        if allp is None:
            raise vlib.NoVerdict("more structural paths than the cap")
        beh_steps += allp
        exhaustive_len = 6
        ctx.cov["all_structural_paths_len6"] = len(allp)
    beh = [{"id": i, "steps": s} for i, s in enumerate(beh_steps)]
    ctx.log("%d behaviours (%d steps)" % (len(beh), sum(len(b["steps"]) for b in beh)))
    infile = vlib.write_json(os.path.join(ctx.work, "behaviours.json"), beh)
    trace = os.path.join(ctx.work, "trace.ndjson")

    # 3. replay on the real track
    binary = vlib.go_build(ctx, "staticrtp")
    vlib.go_run(ctx, binary, "TestVerifStaticRTP", infile, trace, timeout=500)

    # 4. TLC judges what pion did
    ctx.viol = vlib.tlc_trace(ctx, "StaticRTP_Trace", "StaticRTP_Trace", trace, chunk=4000)
    lines = vlib.read_ndjson(trace)
    writes = [ln for ln in lines if ln.get("ev") == "write"]
    calls = [ln for ln in lines if ln.get("ev") in ("write", "bind", "unbind")]
    drift = sum(1 for ln in calls if ln.get("exp") and ln["exp"] != ln["res"])
    over = [w for w in writes if w["conc"]["op"] != "none"]
    # the model says a Bind/Unbind called during a write waits for it (Lock = "held")
    drift += sum(1 for w in over if w["conc"]["during"])
    ctx.cov["overlapping_writes"] = len(over)
    ctx.cov["overlapping_calls_that_did_not_wait"] = sum(1 for w in over if w["conc"]["during"])
    ctx.cov["model_drift_steps"] = drift
    ctx.cov["evaluations"] = len(writes)
    ctx.cov["deliveries_observed"] = sum(len(w["recv"]) for w in writes)
    ctx.cov["traces_validated_against_impl"] = len(beh)
    ctx.cov["edge_cover_and_walk_behaviours"] = n_cover
    ctx.cov["samples"] = [{"behaviour": beh[0]["steps"][:5]}] + \
        [{k: w[k] for k in ("sig", "api", "in", "recv", "after")} for w in writes[:2]]
    missing = [p for p in OWN if not ctx.cov["predicates"].get(p)]
    if missing:
        raise vlib.NoVerdict("predicates never exercised: %s" % missing)
    keep = {}
    for ln in lines:
        keep.setdefault(ln["t"], []).append(ln)

    def replay_of(v):
        return {"steps": beh[v["trace"]]["steps"] if v["trace"] < len(beh) else None,
                "recorded": keep.get(v["trace"], [])[:20]}

    distinct = {w["sig"] for w in writes}
    return vlib.finish(
        ctx, "model_checking",
        rule="TLC exhausts all histories of length <= %d over 3 senders" % (5 if quick else 7) + " of the transcribed algorithm (StaticRTP_MC); "
             "behaviours = edge cover of the complete labelled state graph (16 binding sequences x every action incl. "
             "45 packet shapes x 2 write APIs) + seeded walks" +
             ("" if quick else " + every Bind/Unbind/Write history of length 6 (structural alphabet)") +
             "; one evaluation = one write call on a real TrackLocalStaticRTP judged by TLC; distinct = distinct "
             "(api, packet shape, set of bound senders)",
        distinct_nontrivial=len(distinct), exhaustive=not quick, replay_of=replay_of)
