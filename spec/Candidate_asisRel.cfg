\* the pinned code: TLC must exhibit the related address lost when its port is 0 (no duplicate keys possible here)
CONSTANTS
  Impl = "asis"
  Vias = {"new", "raw"}
  Types = {"host", "srflx", "relay"}
  Protos = {"udp"}
  AddrForms = {"v4"}
  Ports = {"1"}
  Prios = {"1"}
  Comps = {"1"}
  Founds = {"1"}
  Rels = {"none", "full1", "port0"}
  TcpTypes = {"", "passive"}
  ExtKeys = {"generation", "ufrag"}
  ExtVals = {"", "0", "OWN"}
  MaxExts = 1
INIT Init
NEXT Next
INVARIANTS ModelSplitInverse ModelJsonRoundTrip ModelAgentRoundTrip ModelAccepted ModelUfrag ModelTokens
CHECK_DEADLOCK FALSE
