------------------------------ MODULE RolesOps ------------------------------
(* Normative operators of C13: ICE role selection (RFC 8445 section 6.1.1)   *)
(* and the DTLS role algebra of a=setup (RFC 5763 section 5, RFC 4145).      *)
EXTENDS Naturals, FiniteSets

Setups == {"actpass", "active", "passive"}

\* the offering agent is controlling unless exactly one agent is lite, in which case the
\* full agent is controlling
OffererControlling(offLite, ansLite) == IF offLite = ansLite THEN TRUE ELSE ansLite
IceRoleOK(offLite, ansLite, offCtl, ansCtl) ==
  /\ offCtl # ansCtl                                   \* exactly one controlling agent
  /\ offCtl = OffererControlling(offLite, ansLite)

\* the endpoint whose a=setup is active is the DTLS client; an answer never says actpass
AnswerSetupOK(ansSetup) == ansSetup \in {"active", "passive"}
RoleOfAnswerer(ansSetup) == IF ansSetup = "active" THEN "client" ELSE "server"
RoleOfOfferer(ansSetup)  == IF ansSetup = "active" THEN "server" ELSE "client"
\* an answer must also be a legal response to the offered value
LegalAnswerSetup(offSetup, ansSetup) ==
  CASE offSetup = "actpass" -> ansSetup \in {"active", "passive"}
    [] offSetup = "active"  -> ansSetup = "passive"
    [] OTHER                -> ansSetup = "active"     \* passive
=============================================================================
