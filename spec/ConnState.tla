------------------------------ MODULE ConnState ------------------------------
(* Generative model for C22: peerconnection.go updateConnectionState and     *)
(* onConnectionStateChange, transcribed at the grain of the code:            *)
(*   - a switch over (isClosed, iceConnectionState, dtlsTransportState) in   *)
(*     the code's case order with the code's default (the local variable is  *)
(*     initialised to "new"),                                                *)
(*   - compare with the stored connectionState, return when equal,           *)
(*   - else store and dispatch the handler once with the new value.          *)
(* The machine takes an arbitrary sequence of updates (the callers are the   *)
(* ICE callback, startTransports and close); the closed flag is an input of  *)
(* each update because the driver presets isClosed.                          *)
EXTENDS ConnStateOps

CONSTANTS Impl      \* "asis": the switch of peerconnection.go; "table": the normative operator;
                    \* "comment": the older table quoted in the code's comments (disconnected only if
                    \*  no transport is connecting/checking) - TLC exhibits where it deviates

VARIABLES closed,   \* isClosed at the last update
          stored,   \* pc.connectionState
          last      \* the update performed (for graph emission)

vars == <<closed, stored, last>>
view == <<closed, stored>>
St   == [state |-> stored, closed |-> closed]

SwitchAsIs(c, i, d) ==
  IF c THEN "closed"
  ELSE IF i = "failed" \/ d = "failed" THEN "failed"
  ELSE IF i = "disconnected" THEN "disconnected"
  ELSE IF (i = "new" \/ i = "closed") /\ (d = "new" \/ d = "closed") THEN "new"
  ELSE IF (i = "new" \/ i = "checking") \/ (d = "new" \/ d = "connecting") THEN "connecting"
  ELSE IF (i = "connected" \/ i = "completed" \/ i = "closed") /\ (d = "connected" \/ d = "closed")
       THEN "connected"
  ELSE "new"    \* no case matched: connectionState := PeerConnectionStateNew

SwitchComment(c, i, d) ==
  IF c THEN "closed"
  ELSE IF i = "failed" \/ d = "failed" THEN "failed"
  ELSE IF i = "disconnected" /\ d # "connecting" THEN "disconnected"
  ELSE IF (i = "new" \/ i = "closed") /\ (d = "new" \/ d = "closed") THEN "new"
  ELSE IF (i = "new" \/ i = "checking") \/ (d = "new" \/ d = "connecting") THEN "connecting"
  ELSE IF (i = "connected" \/ i = "completed" \/ i = "closed") /\ (d = "connected" \/ d = "closed")
       THEN "connected"
  ELSE "new"

Compute(c, i, d) == CASE Impl = "asis"    -> SwitchAsIs(c, i, d)
                      [] Impl = "comment" -> SwitchComment(c, i, d)
                      [] OTHER            -> ConnState(c, i, d)

Init == closed = FALSE /\ stored = "new" /\ last = [op |-> "init"]

Update(c, i, d) ==
  LET cs == Compute(c, i, d) IN
  /\ closed' = c
  /\ stored' = IF stored = cs THEN stored ELSE cs            \* Load() == cs -> return; else Store(cs)
  /\ last'   = [op |-> "upd", closed |-> c, ice |-> i, dtls |-> d,
                exp |-> cs, notes |-> IF stored = cs THEN <<>> ELSE <<cs>>]   \* go handler(cs)

Next == \E c \in BOOLEAN, i \in ICEStates, d \in DTLSStates : Update(c, i, d)
Spec == Init /\ [][Next]_vars

TypeOK == closed \in BOOLEAN /\ stored \in ConnStates

\* C22 on the model: after every update the stored state is the aggregate of the update's inputs
\* (an action property: `last` is hidden by the VIEW, so a state invariant over it would be checked
\* on one representative per view class only)
ModelAggregate == [][/\ C22_Aggregate(last'.closed, last'.ice, last'.dtls, stored')
                     /\ stored' = ConnState(last'.closed, last'.ice, last'.dtls)]_vars
\* and the handler is dispatched exactly when the stored state changed, with the new value
ModelNotify == [][/\ C22_NotifyOnlyIfChanged(stored, stored', last'.notes)
                  /\ C22_NotifiedWhenChanged(stored, stored', last'.notes)]_vars

(* Facts about the table itself, evaluated by TLC over all 70 inputs.        *)
Differ == {x \in Inputs : ConnState(x[1], x[2], x[3]) # ConnStateED(x[1], x[2], x[3])}
TableFacts ==
  /\ \A x \in Inputs : ConnState(x[1], x[2], x[3]) \in ConnStates /\ ConnStateED(x[1], x[2], x[3]) \in ConnStates
  \* the two published wordings differ in exactly these three cells
  /\ Differ = {<<FALSE, "completed", "connected">>, <<FALSE, "completed", "closed">>, <<FALSE, "closed", "connected">>}
  \* precedence, spelled out
  /\ \A x \in Inputs : x[1] => ConnState(x[1], x[2], x[3]) = "closed"
  /\ \A x \in Inputs : ~x[1] => ConnState(x[1], x[2], x[3]) # "closed"
  /\ \A x \in Inputs : ~x[1] /\ (x[2] = "failed" \/ x[3] = "failed") => ConnState(x[1], x[2], x[3]) = "failed"
  /\ \A x \in Inputs : ~x[1] /\ x[2] = "disconnected" /\ x[3] # "failed" => ConnState(x[1], x[2], x[3]) = "disconnected"
  /\ \A x \in Inputs : ConnState(x[1], x[2], x[3]) = "connected" =>
         x[2] \in {"connected", "completed", "closed"} /\ x[3] \in {"connected", "closed"}
  /\ \A x \in Inputs : ConnState(x[1], x[2], x[3]) = "new" => x[2] \in {"new", "closed"} /\ x[3] \in {"new", "closed"}
  \* every connection state is produced by some input
  /\ {ConnState(x[1], x[2], x[3]) : x \in Inputs} = ConnStates
\* the transcribed switch computes the table (holds for "asis" and "table", fails for "comment")
SwitchIsTable == \A x \in Inputs : Compute(x[1], x[2], x[3]) = ConnState(x[1], x[2], x[3])

\* graph emission for the replay stage
EmitInitInv == (last.op = "init") => PrintT(<<"VERIF_INIT", ToJson(St)>>)
EmitEdge == PrintT(<<"VERIF_EDGE", ToJson([f |-> St, a |-> last', t |-> St'])>>)
=============================================================================
