------------------------------ MODULE Gatherer ------------------------------
(* icegatherer.go: the ICE agent's candidate callbacks (K candidates, then   *)
(* the nil end-of-gathering callback) versus flushCandidates, which every    *)
(* SetLocalDescription runs (C24).  One label per segment between yield      *)
(* points ("gather.*" hooks).                                                *)
(*   Pool = 1: gathering starts with the PeerConnection and candidates are   *)
(*             pooled until the first flush; Pool = 0: gathering starts at   *)
(*             the end of the first SetLocalDescription.                     *)
(*   Impl = "asis": flush reads the gatherer state and emits nil if it is    *)
(*             complete; the nil callback emits nil unless still pooling.    *)
(*   Impl = "fixed": gatherDone / nilSent / flushing bookkeeping under the   *)
(*             pool lock, so that nil is emitted once, after every candidate.*)
EXTENDS Naturals, Sequences, FiniteSets, TLC, Json

CONSTANTS Impl, K, Pool, NFlush

Flushers == {"S1", "S2"}   \* successive SetLocalDescription calls (S2 only if NFlush = 2)
FIdx(s) == IF s = "S1" THEN 1 ELSE 2

(* --algorithm Gatherer {
variables pooling = (Pool > 0),    \* iceCandidatePoolSize > 0 /\ candidatePool # nil
          pool = <<>>,
          state = "new",
          started = (Pool > 0),    \* the agent is gathering
          out = <<>>,              \* what OnICECandidate saw: candidate numbers, 0 = the nil marker
          flushing = 0, gatherDone = FALSE, nilSent = FALSE,     \* repaired variant only
          sdone = 0;               \* completed SetLocalDescription calls

\* the agent's notifier goroutine
fair process (A = "A") variable j = 1, emitNil = FALSE; {
  aWait: await started; state := "gathering";
  aCand: while (j <= K) {                               \* gate gather.cb.enter (candidate)
           if (pooling) { pool := Append(pool, j); j := j + 1 }
           else {
  aEmit:     out := Append(out, j); j := j + 1;         \* gate gather.cb.emit
           }
         };
  aNil:  state := "complete";                           \* gate gather.cb.enter (nil): setState, handler
  aChk:  if (Impl = "asis") { emitNil := ~pooling }     \* gate gather.cb.complete: pool test under the lock
         else { gatherDone := TRUE;
                emitNil := ~pooling /\ flushing = 0 /\ ~nilSent;
                if (~pooling /\ flushing = 0 /\ ~nilSent) { nilSent := TRUE } };
  aOut:  if (emitNil) { out := Append(out, 0) };    \* gate gather.cb.nil
}

\* flushCandidates inside the i-th SetLocalDescription (calls are sequential)
fair process (S \in Flushers) variable mine = <<>>, st = "new", send = FALSE; {
  sWait: await FIdx(self) <= NFlush /\ sdone = FIdx(self) - 1;
  sTake: mine := pool; pool := <<>>; pooling := FALSE;  \* gate gather.flush.enter: take the pool under the lock
         if (Impl = "fixed") { flushing := flushing + 1 };
  sStat: st := state;                                   \* gate gather.flush.taken: read the state
  sEmit: while (mine # <<>>) {                          \* gate gather.flush.emit (per pooled candidate)
           out := Append(out, Head(mine)); mine := Tail(mine)
         };
  sTail: if (Impl = "asis") { send := (st = "complete") }          \* gate gather.flush.tail
         else { flushing := flushing - 1;
                send := gatherDone /\ ~nilSent;
                if (gatherDone /\ ~nilSent) { nilSent := TRUE } };
  sNil:  if (send) { out := Append(out, 0) };       \* (gate gather.flush.nil in the repaired code)
         if (state = "new") { started := TRUE };        \* SetLocalDescription then calls Gather()
         sdone := sdone + 1;
}
} *)
\* BEGIN TRANSLATION
VARIABLES pc, pooling, pool, state, started, out, flushing, gatherDone, 
          nilSent, sdone, j, emitNil, mine, st, send

vars == << pc, pooling, pool, state, started, out, flushing, gatherDone, 
           nilSent, sdone, j, emitNil, mine, st, send >>

ProcSet == {"A"} \cup (Flushers)

Init == (* Global variables *)
        /\ pooling = (Pool > 0)
        /\ pool = <<>>
        /\ state = "new"
        /\ started = (Pool > 0)
        /\ out = <<>>
        /\ flushing = 0
        /\ gatherDone = FALSE
        /\ nilSent = FALSE
        /\ sdone = 0
        (* Process A *)
        /\ j = 1
        /\ emitNil = FALSE
        (* Process S *)
        /\ mine = [self \in Flushers |-> <<>>]
        /\ st = [self \in Flushers |-> "new"]
        /\ send = [self \in Flushers |-> FALSE]
        /\ pc = [self \in ProcSet |-> CASE self = "A" -> "aWait"
                                        [] self \in Flushers -> "sWait"]

aWait == /\ pc["A"] = "aWait"
         /\ started
         /\ state' = "gathering"
         /\ pc' = [pc EXCEPT !["A"] = "aCand"]
         /\ UNCHANGED << pooling, pool, started, out, flushing, gatherDone, 
                         nilSent, sdone, j, emitNil, mine, st, send >>

aCand == /\ pc["A"] = "aCand"
         /\ IF j <= K
               THEN /\ IF pooling
                          THEN /\ pool' = Append(pool, j)
                               /\ j' = j + 1
                               /\ pc' = [pc EXCEPT !["A"] = "aCand"]
                          ELSE /\ pc' = [pc EXCEPT !["A"] = "aEmit"]
                               /\ UNCHANGED << pool, j >>
               ELSE /\ pc' = [pc EXCEPT !["A"] = "aNil"]
                    /\ UNCHANGED << pool, j >>
         /\ UNCHANGED << pooling, state, started, out, flushing, gatherDone, 
                         nilSent, sdone, emitNil, mine, st, send >>

aEmit == /\ pc["A"] = "aEmit"
         /\ out' = Append(out, j)
         /\ j' = j + 1
         /\ pc' = [pc EXCEPT !["A"] = "aCand"]
         /\ UNCHANGED << pooling, pool, state, started, flushing, gatherDone, 
                         nilSent, sdone, emitNil, mine, st, send >>

aNil == /\ pc["A"] = "aNil"
        /\ state' = "complete"
        /\ pc' = [pc EXCEPT !["A"] = "aChk"]
        /\ UNCHANGED << pooling, pool, started, out, flushing, gatherDone, 
                        nilSent, sdone, j, emitNil, mine, st, send >>

aChk == /\ pc["A"] = "aChk"
        /\ IF Impl = "asis"
              THEN /\ emitNil' = ~pooling
                   /\ UNCHANGED << gatherDone, nilSent >>
              ELSE /\ gatherDone' = TRUE
                   /\ emitNil' = (~pooling /\ flushing = 0 /\ ~nilSent)
                   /\ IF ~pooling /\ flushing = 0 /\ ~nilSent
                         THEN /\ nilSent' = TRUE
                         ELSE /\ TRUE
                              /\ UNCHANGED nilSent
        /\ pc' = [pc EXCEPT !["A"] = "aOut"]
        /\ UNCHANGED << pooling, pool, state, started, out, flushing, sdone, j, 
                        mine, st, send >>

aOut == /\ pc["A"] = "aOut"
        /\ IF emitNil
              THEN /\ out' = Append(out, 0)
              ELSE /\ TRUE
                   /\ out' = out
        /\ pc' = [pc EXCEPT !["A"] = "Done"]
        /\ UNCHANGED << pooling, pool, state, started, flushing, gatherDone, 
                        nilSent, sdone, j, emitNil, mine, st, send >>

A == aWait \/ aCand \/ aEmit \/ aNil \/ aChk \/ aOut

sWait(self) == /\ pc[self] = "sWait"
               /\ FIdx(self) <= NFlush /\ sdone = FIdx(self) - 1
               /\ pc' = [pc EXCEPT ![self] = "sTake"]
               /\ UNCHANGED << pooling, pool, state, started, out, flushing, 
                               gatherDone, nilSent, sdone, j, emitNil, mine, 
                               st, send >>

sTake(self) == /\ pc[self] = "sTake"
               /\ mine' = [mine EXCEPT ![self] = pool]
               /\ pool' = <<>>
               /\ pooling' = FALSE
               /\ IF Impl = "fixed"
                     THEN /\ flushing' = flushing + 1
                     ELSE /\ TRUE
                          /\ UNCHANGED flushing
               /\ pc' = [pc EXCEPT ![self] = "sStat"]
               /\ UNCHANGED << state, started, out, gatherDone, nilSent, sdone, 
                               j, emitNil, st, send >>

sStat(self) == /\ pc[self] = "sStat"
               /\ st' = [st EXCEPT ![self] = state]
               /\ pc' = [pc EXCEPT ![self] = "sEmit"]
               /\ UNCHANGED << pooling, pool, state, started, out, flushing, 
                               gatherDone, nilSent, sdone, j, emitNil, mine, 
                               send >>

sEmit(self) == /\ pc[self] = "sEmit"
               /\ IF mine[self] # <<>>
                     THEN /\ out' = Append(out, Head(mine[self]))
                          /\ mine' = [mine EXCEPT ![self] = Tail(mine[self])]
                          /\ pc' = [pc EXCEPT ![self] = "sEmit"]
                     ELSE /\ pc' = [pc EXCEPT ![self] = "sTail"]
                          /\ UNCHANGED << out, mine >>
               /\ UNCHANGED << pooling, pool, state, started, flushing, 
                               gatherDone, nilSent, sdone, j, emitNil, st, 
                               send >>

sTail(self) == /\ pc[self] = "sTail"
               /\ IF Impl = "asis"
                     THEN /\ send' = [send EXCEPT ![self] = (st[self] = "complete")]
                          /\ UNCHANGED << flushing, nilSent >>
                     ELSE /\ flushing' = flushing - 1
                          /\ send' = [send EXCEPT ![self] = gatherDone /\ ~nilSent]
                          /\ IF gatherDone /\ ~nilSent
                                THEN /\ nilSent' = TRUE
                                ELSE /\ TRUE
                                     /\ UNCHANGED nilSent
               /\ pc' = [pc EXCEPT ![self] = "sNil"]
               /\ UNCHANGED << pooling, pool, state, started, out, gatherDone, 
                               sdone, j, emitNil, mine, st >>

sNil(self) == /\ pc[self] = "sNil"
              /\ IF send[self]
                    THEN /\ out' = Append(out, 0)
                    ELSE /\ TRUE
                         /\ out' = out
              /\ IF state = "new"
                    THEN /\ started' = TRUE
                    ELSE /\ TRUE
                         /\ UNCHANGED started
              /\ sdone' = sdone + 1
              /\ pc' = [pc EXCEPT ![self] = "Done"]
              /\ UNCHANGED << pooling, pool, state, flushing, gatherDone, 
                              nilSent, j, emitNil, mine, st, send >>

S(self) == sWait(self) \/ sTake(self) \/ sStat(self) \/ sEmit(self)
              \/ sTail(self) \/ sNil(self)

(* Allow infinite stuttering to prevent deadlock on termination. *)
Terminating == /\ \A self \in ProcSet: pc[self] = "Done"
               /\ UNCHANGED vars

Next == A
           \/ (\E self \in Flushers: S(self))
           \/ Terminating

Spec == /\ Init /\ [][Next]_vars
        /\ WF_vars(A)
        /\ \A self \in Flushers : WF_vars(S(self))

Termination == <>(\A self \in ProcSet: pc[self] = "Done")

\* END TRANSLATION

Count(x) == Cardinality({i \in 1..Len(out) : out[i] = x})
NothingAfterNil == \A i, k \in 1..Len(out) : (out[i] = 0 /\ i < k) => FALSE
NilAtMostOnce   == Count(0) <= 1
CandAtMostOnce  == \A c \in 1..K : Count(c) <= 1
AllDone == \A p \in ProcSet : pc[p] = "Done" \/ (p = "S2" /\ NFlush < 2)
Complete == AllDone => (Count(0) = 1 /\ \A c \in 1..K : Count(c) = 1)

Actor == CASE A -> "A" [] S("S1") -> "S1" [] OTHER -> "S2"
St == [pc |-> pc, pooling |-> pooling, pool |-> pool, state |-> state, out |-> out, sdone |-> sdone,
       mine |-> mine, st |-> st, j |-> j, fl |-> flushing, gd |-> gatherDone, ns |-> nilSent]
EmitInitInv == (out = <<>> /\ sdone = 0 /\ pc["A"] = "aWait" /\ pc["S1"] = "sWait") => PrintT(<<"VERIF_INIT", ToJson(St)>>)
EmitEdge == PrintT(<<"VERIF_EDGE", ToJson([f |-> St, a |-> [proc |-> Actor, label |-> pc[Actor]], t |-> St'])>>)
=============================================================================
