\* simulation (thorough tier): one random alternative per step; every closed behaviour is printed as a vector
CONSTANTS
  Impl = "current"
  Apis = {"New", "NewWith", "Writer", "WriterSeek"}
  MaxTracks = 3
  MaxPackets = 8
  Sizes <- SizesEdge
  MaxRandSize = 1500
  MaxRandBig = 140000
  TocBytes <- Bytes
  B1s <- Bytes
  Empties = TRUE
  Bufs = {"fresh", "shared"}
  ChCfgs <- ChAll
  TagCfgs <- TagAll
  Rates <- RatesAll
  Sample = TRUE
  Emit = TRUE
  InitSample = 1200
INIT Init
NEXT Next
INVARIANTS TypeOK SimInv EmitVec
CHECK_DEADLOCK FALSE
