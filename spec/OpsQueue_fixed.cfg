CONSTANTS
  Impl = "fixed"
  Enqs = {"a", "b"}
  SelfEnq = {"a"}
  Waiters = {"w"}
  Closers = {"c"}
  MaxGen = 4
SPECIFICATION Spec
INVARIANTS EmitInitInv TypeOK Serial Fifo NoDuplicates DoneCovers NothingAfterClose RunsEverythingAccepted
PROPERTIES EventuallyAllRun DoneReturns
ACTION_CONSTRAINT EmitEdge
CHECK_DEADLOCK FALSE
