\* seeded sample of the full candidate space (initial states only); VERIF_NVEC sets the size
CONSTANTS
  Impl = "asis"
  Vias = {"new", "raw"}
  Types = {"host", "srflx", "prflx", "relay"}
  Protos = {"udp", "tcp"}
  AddrForms = {"v4", "v6", "v6full", "mdns"}
  Ports = {"0", "1", "65535"}
  Prios = {"computed", "1", "2147483647", "2147483648", "4294967295"}
  Comps = {"0", "1", "2", "65535"}
  Founds = {"computed", "1", "f32", "empty"}
  Rels = {"none", "full1", "full65535", "port0"}
  TcpTypes = {"", "active", "passive", "so"}
  ExtKeys = {"generation", "network-cost", "x", "ufrag"}
  ExtVals = {"", "0", "OWN", "FOREIGN", "UTF8"}
  MaxExts = 3
INIT InitVec
NEXT NoNext
INVARIANTS EmitVec
CHECK_DEADLOCK FALSE
