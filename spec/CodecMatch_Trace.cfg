CONSTANTS
  Impl = "intended"
  LineCache <- EmptyCache
INIT Init
NEXT Next
INVARIANT Rep
CHECK_DEADLOCK FALSE
