CONSTANTS
  Impl = "intended"
  Codecs = {"h264"}
  MTUs = {128}
  Sizes = {"s", "b"}
  MaxNals = 5
  Openers = {FALSE}
  Aggs = {TRUE, FALSE}
  Types264 = {1, 5, 7, 8}
  Types265 = {1}
  Emit = TRUE
INIT Init
NEXT Next
INVARIANTS Correct TailAlways PktfixExactUnlessAggN EmitVec
CHECK_DEADLOCK FALSE
