--------------------------- MODULE SampleTrackOps ---------------------------
(* Property C28: RTP timestamps and sequence numbers produced by a          *)
(* TrackLocalStaticSample.                                                  *)
(*   - every packet of a sample carries the same RTP timestamp;             *)
(*   - a sample's timestamp is the initial timestamp plus the floor of      *)
(*     (total duration of earlier samples x clock rate), mod 2^32, within   *)
(*     one tick of rounding;                                                *)
(*   - sequence numbers increase by one per packet, except that a sample    *)
(*     reporting N previously dropped packets first skips N sequence        *)
(*     numbers and the corresponding duration (pion: N times the duration   *)
(*     of the reporting sample, track_local_static.go WriteSample).         *)
(*                                                                          *)
(* Normative operators only.  Time is accounted exactly: durations are      *)
(* integer nanoseconds (time.Duration); at clock rate R a duration of d ns  *)
(* is d*R/10^9 ticks = d*Num/Den ticks with Num/Den in lowest terms.  An    *)
(* amount of time is the record [t |-> whole ticks, f |-> units] with       *)
(* f < Den units of 1/Den tick, which keeps every intermediate value below  *)
(* 2^31 (TLC integers) for the rates and durations used (d*Num*4 < 2^31).   *)
EXTENDS Integers, Sequences, FiniteSets, TLC, Json

RECURSIVE GCD(_, _)
GCD(a, b) == IF b = 0 THEN a ELSE GCD(b, a % b)
Giga == 1000000000
RateNum(R) == R \div GCD(R, Giga)
RateDen(R) == Giga \div GCD(R, Giga)

ZeroTime == [t |-> 0, f |-> 0]
\* acc + times * d   (times in 0..4)
AddTime(acc, R, d, times) ==
  LET u == acc.f + d * RateNum(R) * times
  IN [t |-> acc.t + (u \div RateDen(R)), f |-> u % RateDen(R)]
FloorTicks(acc) == acc.t

Abs(x) == IF x < 0 THEN -x ELSE x
SeqMod == 65536

\* pk: the packets of one sample in the order they reached the writer, each
\* [seq |-> RTP sequence number, tsd |-> (RTP timestamp - initial timestamp) mod 2^32
\*  read as a signed 32-bit number] -- subtraction mod 2^32 is what makes the
\* statement "mod 2^32"; the totals used stay far below 2^31 ticks.
SameTsInSample(pk) == \A i, j \in DOMAIN pk : pk[i].tsd = pk[j].tsd

\* before: exact time elapsed before this sample (all earlier samples, all
\* skipped durations including this sample's own skip)
TsNoDrift(pk, before) == Abs(pk[1].tsd - FloorTicks(before)) <= 1

\* consecutive packets inside a sample
SeqRunPlusOne(pk) == \A i \in DOMAIN pk : i > 1 => pk[i].seq = (pk[i - 1].seq + 1) % SeqMod
\* first packet of a sample after the last packet written so far, skipping `skip` numbers
SeqAfter(pk, prevSeq, skip) == pk[1].seq = (prevSeq + 1 + skip) % SeqMod
=============================================================================
