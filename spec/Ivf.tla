--------------------------------- MODULE Ivf --------------------------------
(* Generative model for C32: IVFWriter's frame-assembly automaton per codec *)
(* (pkg/media/ivfwriter/ivfwriter.go: WriteRTP, writeVP8, writeVP9,         *)
(* writeAV1, writeFrame, writeHeader, Close), fed one RTP packet per step   *)
(* with abstractly packetised frames, and IVFReader as the inverse parser   *)
(* of the produced file (parseFileHeader / ParseNextFrame / readFramePayload:  *)
(* a frame header delimits the following payload by its length field; the  *)
(* payload is read as bytes, in one of two ways depending on its size).     *)
(*                                                                          *)
(* Payload bytes are abstracted to tokens [f, o, ty, n]: piece o of frame f *)
(* with n bytes; the "bytes" of a frame are its token sequence. The file is *)
(* a sequence of items: the 32-byte header as the tuple of its fields in    *)
(* file order, then per frame one item "fh" (length, pts) followed by one   *)
(* item "d" per token.                                                      *)
(*                                                                          *)
(* TLC checks on the model (exhaustively, for the bounds of the .cfg) that  *)
(* the normative operators of IvfOps hold: what the reader parses back is   *)
(* what the writer assembled, header fields, frame count when seekable, PTS *)
(* formula (with 32-bit wrap) - and, as model-level results, that a stream  *)
(* that starts with a key frame is assembled completely, that the first     *)
(* assembled frame is a key frame and that VP8/VP9 never emit a frame whose *)
(* first packet was lost.                                                   *)
(* In simulation mode (Sample = TRUE) the same machine draws the vectors    *)
(* that are replayed into the real writer and reader.                       *)
EXTENDS IvfOps, Json, Randomization

CONSTANTS
  Codecs,        \* subset of {"VP8", "VP9f", "VP9n", "AV1"} (VP9 payloader in flexible / non-flexible mode)
  Mtus,          \* payloader MTUs (maximum RTP payload size), >= 12
  MaxFrames,     \* a stream has 1..MaxFrames frames
  Sizes,         \* absolute frame sizes
  RelSizes,      \* BOOLEAN: add the sizes k*cap + j around the packet boundaries
  MaxRandPk,     \* 0, or: add one random size of at most MaxRandPk packets per step
  Rates,         \* set of <<numerator, denominator>> (WithFrameRate)
  Starts,        \* set of first timestamps <<h, l>> (16-bit limbs)
  Deltas,        \* per-frame timestamp increments
  MaxRandDelta,  \* 0, or: add one random increment in 1..MaxRandDelta per step
  Directs,       \* subset of BOOLEAN: WithDirectPTS
  Ctors,         \* subset of {"buf", "memseek", "file", "filewith"}
  Dims,          \* set of <<width, height>>
  Lossy,         \* BOOLEAN: inputs with a lost first packet (outside the premise of C32, model only)
  NonKeyStart,   \* BOOLEAN: the first frame may be an inter frame (outside the premise)
  Pads,          \* BOOLEAN: an empty-payload (padding) packet may follow the first packet of a frame
  Sample,        \* BOOLEAN: draw one random alternative per step instead of all (simulation)
  Emit,          \* BOOLEAN: print the vector at the end of a behaviour
  InitSample,    \* 0 = all configurations, else that many random ones
  RdLimit,       \* ivfreader.maxPreallocatedFrameSize: frames up to this size are read into a preallocated buffer,
                 \* larger ones through a limited reader (1 MiB in the code; scaled down in the exhaustive runs)
  BigDeltas,     \* frame sizes RdLimit + j, j \in BigDeltas: the class "around / beyond the reader's chunk limit"
  MaxBig         \* at most this many frames of that class per stream

VARIABLES cfg,    \* configuration of the writer and of the stream
          phase,  \* "open" | "closed"
          nfr,    \* frames handed to the packetiser so far
          pend,   \* packets of the current frame not yet written
          inp,    \* ghost: the input frames
          seen, cur, count, first,   \* IVFWriter: seenKeyFrame, currentFrame, count, firstFrameTimestamp
          file,   \* what was written to the output
          asm     \* ghost: the frames passed to writeFrame, [toks, ts]

vars == <<cfg, phase, nfr, pend, inp, seen, cur, count, first, file, asm>>

Clock == 90000          \* IVFWriter.clockRate, no option changes it
Nil   == <<>>           \* a nil / empty byte slice
Seekable(ctor) == ctor # "buf"   \* an io.WriteSeeker: in-memory seeker or *os.File
Min(a, b) == IF a < b THEN a ELSE b
Pick(S) == IF Sample /\ S # {} THEN RandomSubset(1, S) ELSE S
TsOf(t) == [h |-> t[1], l |-> t[2]]

RECURSIVE SumN(_, _)
SumN(s, i) == IF i > Len(s) THEN 0 ELSE s[i].n + SumN(s, i + 1)
Bytes(toks) == SumN(toks, 1)

CfgSpace == [codec : Codecs, mtu : Mtus, nf : 1..MaxFrames, rate : Rates, direct : Directs,
             ctor : Ctors, start : Starts, dim : Dims]

(* ---- abstract packetisation (pion/rtp payloaders) ----------------------- *)
PayloadHdr(codec, key, firstPkt) ==
  CASE codec = "VP8"  -> 1                                   \* VP8Payloader, no picture id
    [] codec = "VP9f" -> 3                                   \* flexible mode: I, F, 15-bit picture id
    [] codec = "VP9n" -> IF key /\ firstPkt THEN 11 ELSE 3   \* non-flexible: SS data on the first packet of a key frame
    [] OTHER          -> 1                                   \* AV1 aggregation header

EffSize(codec, key, size) == IF codec = "VP9n" /\ key /\ size < 9 THEN 9 ELSE size  \* a VP9 key-frame header needs 9 bytes

ChunkSizes(size, cap1, cap) ==
  LET c1    == Min(size, cap1)
      rest  == size - c1
      nrest == (rest + cap - 1) \div cap
  IN [i \in 1..(1 + nrest) |-> IF i = 1 THEN c1 ELSE IF i < 1 + nrest THEN cap ELSE rest - (nrest - 1) * cap]

Leb(n) == IF n < 128 THEN 1 ELSE IF n < 16384 THEN 2 ELSE 3
TD == [f |-> 0, o |-> 0, ty |-> "td", n |-> 2]     \* temporal delimiter OBU with size field: 0x12 0x00

\* OBUs of an AV1 frame as handed to the payloader: a sequence header on key frames, then one frame OBU
Obus(key, size) == IF key THEN <<[ty |-> "seq", body |-> 8], [ty |-> "frame", body |-> size]>>
                          ELSE <<[ty |-> "frame", body |-> size]>>
\* bytes of OBUs 1..j on the wire (header byte + body, no size field)
RECURSIVE WireEnd(_, _)
WireEnd(obus, j) == IF j = 0 THEN 0 ELSE WireEnd(obus, j - 1) + 1 + obus[j].body
\* what the depacketiser returns: the OBU with its size field restored
ObuTok(fi, obus, j) == [f |-> fi, o |-> j, ty |-> obus[j].ty, n |-> 1 + Leb(obus[j].body) + obus[j].body]

\* the tokens of frame fi as the writer is expected to assemble them
FrameToks(codec, mtu, fi, key, size0) ==
  LET size == EffSize(codec, key, size0) IN
  IF codec = "AV1"
  THEN LET obus == Obus(key, size) IN <<TD>> \o [j \in 1..Len(obus) |-> ObuTok(fi, obus, j)]
  ELSE LET cs == ChunkSizes(size, mtu - PayloadHdr(codec, key, TRUE), mtu - PayloadHdr(codec, key, FALSE))
       IN [i \in 1..Len(cs) |-> [f |-> fi, o |-> i, ty |-> "vp", n |-> cs[i]]]

Packets(codec, mtu, fi, key, size0, ts, ck) ==
  LET size == EffSize(codec, key, size0) IN
  IF codec = "AV1"
  THEN \* elements are aggregated and fragmented over packets of mtu-1 bytes; an OBU is
       \* returned by the depacketiser with the packet that carries its last byte
       LET obus  == Obus(key, size)
           cap   == mtu - 1
           total == WireEnd(obus, Len(obus))
           np    == (total + cap - 1) \div cap
           inPkt(j) == ((WireEnd(obus, j) - 1) \div cap) + 1
       IN [i \in 1..np |->
             [f |-> fi, i |-> i, start |-> i = 1, kb |-> FALSE, nbit |-> key /\ i = 1, marker |-> i = np, ts |-> ts,
              toks |-> LET js == SelectSeq([j \in 1..Len(obus) |-> j], LAMBDA j : inPkt(j) = i)
                       IN [x \in 1..Len(js) |-> ObuTok(fi, obus, js[x])],
              empty |-> FALSE]]
  ELSE LET toks == FrameToks(codec, mtu, fi, key, size0)
           np   == Len(toks)
       IN [i \in 1..np |->
             [f |-> fi, i |-> i, start |-> i = 1,
              \* the bit the key-frame gate looks at: VP8 - bit 0 of the first payload byte of *this* packet
              \* (frame tag on the first packet, a data byte on the others: ck); VP9 - not P
              kb |-> CASE codec = "VP8" -> (IF i = 1 THEN key ELSE ck) [] codec = "VP9f" -> TRUE [] OTHER -> key,
              nbit |-> FALSE, marker |-> i = np, ts |-> ts, toks |-> <<toks[i]>>, empty |-> FALSE]]

EmptyPkt(fi, ts) == [f |-> fi, i |-> 0, start |-> FALSE, kb |-> FALSE, nbit |-> FALSE, marker |-> FALSE, ts |-> ts,
                     toks |-> <<>>, empty |-> TRUE]

(* ---- the writer ---------------------------------------------------------- *)
\* writeHeader: DKIF, version, header size, FourCC, width, height, timebase denominator (offset 16),
\* timebase numerator (offset 20), frame count placeholder (offset 24), unused
HeaderFieldsOf(c) == <<"DKIF", 0, 32, FourCC(c.codec), c.dim[1], c.dim[2], c.rate[2], c.rate[1], 900, 0>>
Item(tag, n, pts, tok, f) == [tag |-> tag, n |-> n, pts |-> pts, tok |-> tok, f |-> f]
NoTok == [f |-> 0, o |-> 0, ty |-> "none", n |-> 0]

Init ==
  /\ cfg \in (IF InitSample = 0 THEN CfgSpace ELSE RandomSubset(InitSample, CfgSpace))
  /\ phase = "open" /\ nfr = 0 /\ pend = <<>> /\ inp = <<>>
  /\ seen = FALSE /\ cur = Nil /\ count = 0 /\ first = [h |-> 0, l |-> 0]
  /\ file = <<Item("hdr", 0, 0, NoTok, HeaderFieldsOf(cfg))>>
  /\ asm = <<>>

\* result of the codec-specific part of WriteRTP: new seenKeyFrame, new currentFrame, frame to write (Nil: none)
Res(s, c, out) == [seen |-> s, cur |-> c, out |-> out]

VPStep(p) ==        \* writeVP8 / writeVP9
  IF ~seen /\ ~p.kb THEN Res(seen, cur, Nil)
  ELSE IF cur = Nil /\ ~p.start THEN Res(seen, cur, Nil)
  ELSE LET c == cur \o p.toks IN
       IF ~p.marker \/ Bytes(c) = 0 THEN Res(TRUE, c, Nil) ELSE Res(TRUE, Nil, c)

AV1Step(p) ==       \* writeAV1
  LET isKey == p.nbit \/ (Len(p.toks) > 0 /\ p.toks[1].ty = "seq") IN
  IF ~seen /\ ~isKey THEN Res(seen, cur, Nil)
  ELSE LET c == cur \o p.toks IN
       IF ~p.marker THEN Res(TRUE, c, Nil) ELSE Res(TRUE, Nil, <<TD>> \o c)

\* writeFrame: 12-byte frame header (length, pts) then the frame
FrameItems(toks, pts) ==
  <<Item("fh", Bytes(toks), pts, NoTok, <<>>)>> \o [i \in 1..Len(toks) |-> Item("d", 0, 0, toks[i], <<>>)]

WriteRTP ==
  /\ phase = "open" /\ pend # <<>>
  /\ LET p == Head(pend) IN
     /\ pend' = Tail(pend)
     /\ IF p.empty
        THEN UNCHANGED <<seen, cur, count, first, file, asm>>     \* len(packet.Payload) == 0: return nil
        ELSE LET f1    == IF count = 0 THEN p.ts ELSE first
                 d     == DeltaInt(Delta32(p.ts, f1))            \* uint32 subtraction
                 stamp == IF cfg.direct THEN d ELSE Ms(d, Clock)  \* "timestamp" of WriteRTP
                 pts   == IF cfg.direct THEN stamp ELSE (stamp * cfg.rate[1]) \div cfg.rate[2]
                 r     == IF cfg.codec = "AV1" THEN AV1Step(p) ELSE VPStep(p)
             IN /\ first' = f1
                /\ seen' = r.seen /\ cur' = r.cur
                /\ IF r.out = Nil
                   THEN UNCHANGED <<count, file, asm>>
                   ELSE /\ count' = count + 1
                        /\ file' = file \o FrameItems(r.out, pts)
                        /\ asm' = Append(asm, [toks |-> r.out, ts |-> p.ts])
  /\ UNCHANGED <<cfg, phase, nfr, inp>>

Cap == cfg.mtu - PayloadHdr(cfg.codec, FALSE, FALSE)
BigSizes == {RdLimit + j : j \in BigDeltas}
NBig == Cardinality({k \in 1..Len(inp) : inp[k].size \in BigSizes})
SizeChoices ==
  Sizes \cup (IF RelSizes THEN {s \in {k * Cap + j : k \in 1..2, j \in {-1, 0, 1}} : s >= 1} ELSE {})
        \cup (IF MaxRandPk > 0 THEN RandomSubset(1, 1..(MaxRandPk * Cap)) ELSE {})
        \cup (IF NBig < MaxBig THEN BigSizes ELSE {})
DeltaChoices == Deltas \cup (IF MaxRandDelta > 0 THEN RandomSubset(1, 1..MaxRandDelta) ELSE {})

\* the first frame: a key frame (premise of C32); when NonKeyStart, exhaustively also an inter frame, and in
\* simulation an inter frame in about one stream out of eight
FirstKeyChoices ==
  IF ~NonKeyStart THEN {TRUE}
  ELSE IF Sample THEN (IF RandomSubset(1, 1..8) = {1} THEN {FALSE} ELSE {TRUE})
  ELSE BOOLEAN

Frame ==
  /\ phase = "open" /\ pend = <<>> /\ nfr < cfg.nf
  /\ \E key \in (IF nfr = 0 THEN FirstKeyChoices ELSE Pick(BOOLEAN)),
        size \in Pick(SizeChoices),
        delta \in Pick(IF nfr = 0 THEN {0} ELSE DeltaChoices),
        lost \in Pick(IF Lossy THEN BOOLEAN ELSE {FALSE}),
        ck \in Pick(IF cfg.codec = "VP8" /\ (Lossy \/ NonKeyStart) THEN BOOLEAN ELSE {FALSE}),
        pad \in Pick(IF Pads THEN BOOLEAN ELSE {FALSE}) :
       LET fi  == nfr + 1
           ts  == IF fi = 1 THEN TsOf(cfg.start) ELSE AddTs(inp[nfr].ts, delta)
           pk  == Packets(cfg.codec, cfg.mtu, fi, key, size, ts, ck)
           pk2 == IF lost THEN Tail(pk) ELSE pk
           pk3 == IF pad /\ Len(pk2) >= 1 THEN <<pk2[1], EmptyPkt(fi, ts)>> \o Tail(pk2) ELSE pk2
       IN /\ pend' = pk3
          /\ inp' = Append(inp, [key |-> key, size |-> EffSize(cfg.codec, key, size), ts |-> ts, delta |-> delta,
                                 lost |-> lost, pad |-> pad, ck |-> ck,
                                 toks |-> FrameToks(cfg.codec, cfg.mtu, fi, key, size)])
  /\ nfr' = nfr + 1
  /\ UNCHANGED <<cfg, phase, seen, cur, count, first, file, asm>>

\* Close: an io.WriteSeeker gets the frame count patched in at offset 24
Close ==
  /\ phase = "open" /\ pend = <<>> /\ nfr = cfg.nf
  /\ phase' = "closed"
  /\ file' = IF Seekable(cfg.ctor) THEN [file EXCEPT ![1].f[9] = count] ELSE file
  /\ UNCHANGED <<cfg, nfr, pend, inp, seen, cur, count, first, asm>>

Next == WriteRTP \/ Frame \/ Close
Spec == Init /\ [][Next]_vars

(* ---- the reader: inverse parser ----------------------------------------- *)
RdHeader(fl) == LET x == fl[1].f IN
  [sig |-> x[1], version |-> x[2], fourcc |-> x[4], w |-> x[5], h |-> x[6], den |-> x[7], num |-> x[8], nframes |-> x[9]]

\* The reader sees bytes, not items: a frame header is 12 bytes, a payload item the bytes of its token. Reading
\* up to `limit` bytes from item i consumes whole items whatever their kind (a header swallowed into a payload shows
\* up as a "hdr" token); got = bytes obtained (less than limit at the end of the file); a read that would end inside
\* an item is reported as misaligned (it cannot happen when the length fields are right).
ItemBytes(it) == IF it.tag = "fh" THEN 12 ELSE it.tok.n
AsTok(it) == IF it.tag = "d" THEN it.tok ELSE [f |-> 0, o |-> 0, ty |-> "hdr", n |-> 12]
RECURSIVE ReadUpTo(_, _, _)
ReadUpTo(fl, i, limit) ==
  IF limit = 0 \/ i > Len(fl) THEN [toks |-> <<>>, next |-> i, got |-> 0, aligned |-> TRUE]
  ELSE IF ItemBytes(fl[i]) > limit THEN [toks |-> <<>>, next |-> i, got |-> 0, aligned |-> FALSE]
  ELSE LET r == ReadUpTo(fl, i + 1, limit - ItemBytes(fl[i])) IN
       [toks |-> <<AsTok(fl[i])>> \o r.toks, next |-> r.next, got |-> ItemBytes(fl[i]) + r.got, aligned |-> r.aligned]

\* readFramePayload(size): up to RdLimit bytes - io.ReadFull into a buffer of that size; beyond -
\* io.ReadAll(io.LimitReader(stream, size)), an error when fewer than size bytes arrive
ReadFramePayload(fl, i, size) ==
  LET r == ReadUpTo(fl, i, size) IN
  IF size <= RdLimit
  THEN [toks |-> r.toks, next |-> r.next, ok |-> r.aligned /\ r.got = size]      \* ErrUnexpectedEOF / EOF otherwise
  ELSE [toks |-> r.toks, next |-> r.next, ok |-> r.aligned /\ ~(r.got < size)]   \* len(payload) < size: EOF / incomplete

RECURSIVE RdFrames(_, _)
RdFrames(fl, i) ==       \* ParseNextFrame until EOF
  IF i > Len(fl) THEN [frames |-> <<>>, ok |-> TRUE]
  ELSE IF fl[i].tag # "fh" THEN [frames |-> <<>>, ok |-> FALSE]
  ELSE LET t == ReadFramePayload(fl, i + 1, fl[i].n) IN
       IF ~t.ok THEN [frames |-> <<>>, ok |-> FALSE]
       ELSE LET r == RdFrames(fl, t.next) IN
            [frames |-> <<[pts |-> fl[i].pts, toks |-> t.toks]>> \o r.frames, ok |-> r.ok]

Rd == RdFrames(file, 2)

(* ---- what TLC checks on the model ---------------------------------------- *)
TypeOK == /\ phase \in {"open", "closed"} /\ nfr \in 0..MaxFrames /\ count \in 0..MaxFrames
          /\ seen \in BOOLEAN /\ Len(inp) = nfr /\ Len(asm) = count

\* normative C32 operators on the model
ModelReadBack ==
  LET rd == Rd IN
  /\ rd.ok
  /\ ReadBackEqualsAssembled([k \in 1..Len(rd.frames) |-> rd.frames[k].toks], [k \in 1..Len(asm) |-> asm[k].toks])
ModelHeader ==
  LET hd == RdHeader(file) IN
  /\ hd.sig = "DKIF" /\ hd.version = 0
  /\ HeaderFields(hd, [codec |-> cfg.codec, w |-> cfg.dim[1], h |-> cfg.dim[2], num |-> cfg.rate[1], den |-> cfg.rate[2]])
ModelCount == phase = "closed" => CountWhenSeekable(Seekable(cfg.ctor), RdHeader(file).nframes, Len(asm))
ModelPts ==
  LET rd == Rd IN
  rd.ok => \A k \in 1..Len(asm) :
     LET d == Delta32(asm[k].ts, asm[1].ts) IN
     /\ DeltaFits(d)
     /\ PtsComputable(DeltaInt(d), Clock, cfg.rate[1], cfg.rate[2], cfg.direct)
     /\ PtsFormula(rd.frames[k].pts, DeltaInt(d), Clock, cfg.rate[1], cfg.rate[2], cfg.direct)

\* model-level results about the assembly automaton
Premise == Len(inp) > 0 /\ inp[1].key /\ \A k \in 1..Len(inp) : ~inp[k].lost
ModelPremiseAssemblesAll ==
  (phase = "closed" /\ Premise) => [k \in 1..Len(asm) |-> asm[k].toks] = [k \in 1..Len(inp) |-> inp[k].toks]
FirstData(toks) == IF toks[1].ty = "td" THEN toks[2] ELSE toks[1]
ModelKeyGate ==      \* the first assembled frame belongs to a key frame (VP9 flexible mode: every frame counts as one)
  (Len(asm) > 0 /\ Len(asm[1].toks) > (IF cfg.codec = "AV1" THEN 1 ELSE 0) /\ cfg.codec # "VP9f")
     => inp[FirstData(asm[1].toks).f].key
ModelWholeFrames ==  \* VP8 / VP9: a frame whose first packet is missing is never written, nothing partial is
  cfg.codec # "AV1" => \A k \in 1..Len(asm) : \E f \in 1..Len(inp) : asm[k].toks = inp[f].toks /\ ~inp[f].lost

\* simulation: the same invariants, evaluated once per behaviour, on its final state (the file only grows)
SimInv == phase = "closed" =>
            /\ ModelReadBack /\ ModelHeader /\ ModelCount /\ ModelPts
            /\ ModelPremiseAssemblesAll /\ ModelKeyGate /\ ModelWholeFrames

(* ---- vector emission ------------------------------------------------------ *)
Vec == [codec |-> cfg.codec, mtu |-> cfg.mtu, num |-> cfg.rate[1], den |-> cfg.rate[2], direct |-> cfg.direct,
        ctor |-> cfg.ctor, w |-> cfg.dim[1], h |-> cfg.dim[2],
        frames |-> [k \in 1..Len(inp) |-> [key |-> inp[k].key, size |-> inp[k].size, tsh |-> inp[k].ts.h,
                                           tsl |-> inp[k].ts.l, pad |-> inp[k].pad, lost |-> inp[k].lost]],
        model_frames |-> Len(asm)]
EmitVec == (Emit /\ phase = "closed") => PrintT(<<"VERIF_VEC", ToJson(Vec)>>)
=============================================================================
