--------------------------------- MODULE Ogg --------------------------------
(* Generative model for C33: the Ogg/Opus writers of                        *)
(* pkg/media/oggwriter/oggwriter.go at the grain of the code:               *)
(*   createPagesForSerial / packetPageHeaderType  (lacing, pages of at most *)
(*     255 segments, continuation flag, granule -1 on unfinished pages),    *)
(*   writePage (per-track page index, bookkeeping of the last page when     *)
(*     the output can be rewritten), writeOpusPayload (granule = cumulative *)
(*     samples from the TOC byte), startLocked (all OpusHead pages, then    *)
(*     all OpusTags pages), markTrackEndOfStream (rewrite the last page     *)
(*     with the EOS flag), writeNilEndOfStreamPage, and the Close of both   *)
(*     APIs: legacy single-track New (file) / NewWith (io.Writer) and the   *)
(*     multi-track NewWriter with or without WithSeekableOutput.            *)
(* Packet bytes are abstracted to (packet id, offset, length) ranges.       *)
(*                                                                          *)
(* Impl = "current"  what the code does (since the repair ada877e of the    *)
(*                   defect this check found): OggWriter.Close on a plain   *)
(*                   io.Writer (w.fd == nil) appends an empty EOS page with *)
(*                   writeNilEndOfStreamPage, as the multi-track writer     *)
(*                   does for outputs that cannot be rewritten;             *)
(* Impl = "pinned"   the originally pinned code: that Close wrote nothing,  *)
(*                   so no page of the stream carried end-of-stream. Kept   *)
(*                   only as the documented counterexample (Ogg_pinned.cfg).*)
(* TLC checks the normative operators of OggOps on every reachable state    *)
(* (exhaustively for the bounds of the .cfg); with Impl = "pinned" it       *)
(* exhibits the missing-EOS counterexample.                                 *)
EXTENDS OggOps, Json, Randomization

CONSTANTS
  Impl,         \* "current" | "pinned"
  Apis,         \* subset of {"New", "NewWith", "Writer", "WriterSeek"}
  MaxTracks,    \* tracks of the multi-track writer: 1..MaxTracks
  MaxPackets,   \* packets written in one behaviour: 0..MaxPackets
  Sizes,        \* packet sizes
  MaxRandSize,  \* 0, or: one more random size in 1..MaxRandSize per step
  MaxRandBig,   \* 0, or: one more random size in 1..MaxRandBig per step (several pages)
  TocBytes,     \* set of TOC bytes (configuration, stereo bit, frame-count code)
  B1s,          \* candidate second bytes of code-3 packets (VBR bit, padding bit, frame count), valid or not
  Empties,      \* BOOLEAN: empty RTP payloads are part of the packet domain
  Bufs,         \* how the application owns payload memory: "fresh" slice per packet / one "shared" receive buffer that is
                \* overwritten after every WriteRTP and before Close (no effect on the model: the writers must copy)
  ChCfgs,       \* channel configurations of multi-track tracks, subset of DOMAIN IdSize
  TagCfgs,      \* OpusTags configurations, subset of DOMAIN TagSize
  Rates,        \* header sample rates (carried through to the vector only)
  Sample,       \* BOOLEAN: one random alternative per step (simulation)
  Emit,         \* BOOLEAN: print the vector when the behaviour is closed
  InitSample    \* 0 = all configurations, else that many random ones

VARIABLES cfg,      \* [api, ntr, ch, tag, rate, np, buf]
          phase,    \* "open" | "closed"
          started,  \* Writer.started (headers written); legacy writers start in their constructor
          trk,      \* per track: [pageIndex, cum, lastHas, lastIdx]
          out,      \* the pages in the output, in file order
          wr,       \* ghost: per track the packets the writer accepted [n, toc, b1]
          ops       \* ghost: the calls made (for the vector)

vars == <<cfg, phase, started, trk, out, wr, ops>>

Pick(S) == IF Sample /\ S # {} THEN RandomSubset(1, S) ELSE S

\* OpusHead payload sizes: 19 bytes, + 2 + channels for mapping families other than 0
IdSize  == [c1 |-> 19, c2 |-> 19, f1m |-> 22, f1s |-> 23, f2 |-> 22, f255 |-> 25]
\* OpusTags payload sizes (8 + 4 + vendor + 4 + comments); "big" needs more than one page
TagSize == [def |-> 20, empty |-> 16, vendor |-> 40, c2 |-> 80, big |-> 70100]

Legacy(api)    == api \in {"New", "NewWith"}
Rewritable(api) == api \in {"New", "WriterSeek"}       \* pageRewriter != nil

\* packets of the behaviour: exhaustively, any number up to MaxPackets (Close is always enabled); in simulation the
\* number is drawn with the configuration
NPs == IF Sample THEN 0..MaxPackets ELSE {MaxPackets}
LegacySpace ==
  [api : Apis \cap {"New", "NewWith"}, ntr : {1}, ch : [{1} -> {"c1", "c2"}], tag : [{1} -> {"def"}], rate : [{1} -> Rates],
   np : NPs, buf : Bufs]
MultiSpace(n) ==
  [api : Apis \cap {"Writer", "WriterSeek"}, ntr : {n}, ch : [1..n -> ChCfgs], tag : [1..n -> TagCfgs],
   rate : [1..n -> Rates], np : NPs, buf : Bufs]
CfgSpace == LegacySpace \cup UNION { MultiSpace(n) : n \in 1..MaxTracks }
\* simulation: about InitSample configurations, the same number for the legacy API and for each number of tracks
SampleSmall(k, S) == IF Cardinality(S) <= k THEN S ELSE RandomSubset(k, S)
InitCfgs ==
  IF InitSample = 0 THEN CfgSpace
  ELSE LET q == InitSample \div (MaxTracks + 1) IN
       SampleSmall(q, LegacySpace) \cup SampleSmall(q, MultiSpace(1)) \cup UNION { RandomSubset(q, MultiSpace(n)) : n \in 2..MaxTracks }

(* ---- createPagesForSerial ------------------------------------------------- *)
\* header type as a set of flags
Flags(ht) == [bos |-> "bos" \in ht, cont |-> "cont" \in ht, eos |-> "eos" \in ht]

PacketPageHeaderType(ht, firstPage, complete) ==
  IF firstPage THEN (IF complete THEN ht ELSE ht \ {"eos"})
  ELSE {"cont"} \cup (IF complete THEN ht \cap {"eos"} ELSE {})

Rle(full, r) == (IF full > 0 THEN <<[v |-> 255, c |-> full]>> ELSE <<>>) \o (IF r >= 0 THEN <<[v |-> r, c |-> 1]>> ELSE <<>>)

\* pages for `rem` remaining bytes of packet pkt (kind: what its first bytes say) starting at offset off
RECURSIVE CreatePages(_, _, _, _, _, _, _, _, _)
CreatePages(rem, off, firstPage, ht, gran, t, idx, pkt, kind) ==
  LET full     == Min(rem \div 255, 255)          \* lacing values 255 on this page (the table holds at most 255 entries)
      complete == full < 255                      \* room for the terminating value < 255
      r        == IF complete THEN rem - 255 * full ELSE -1
      size     == 255 * full + (IF complete THEN r ELSE 0)
      f        == Flags(PacketPageHeaderType(ht, firstPage, complete))
      page     == [tr |-> t, seq |-> idx, bos |-> f.bos, cont |-> f.cont, eos |-> f.eos,
                   gran |-> IF complete THEN gran ELSE -1, segs |-> Rle(full, r),
                   kind |-> IF off = 0 THEN kind ELSE "other", pkt |-> pkt, off |-> off, len |-> size]
  IN IF complete THEN <<page>>
     ELSE <<page>> \o CreatePages(rem - size, off + size, FALSE, ht, gran, t, idx + 1, pkt, kind)

(* ---- writePage ------------------------------------------------------------- *)
\* returns the new output and track state after writing packet pkt of n bytes for track t
WritePage(o, ts, t, n, ht, gran, pkt, kind) ==
  LET ps == CreatePages(n, 0, TRUE, ht, gran, t, ts[t].pageIndex, pkt, kind)
      o2 == o \o ps
  IN [out |-> o2,
      trk |-> [ts EXCEPT ![t] = [@ EXCEPT !.pageIndex = @ + Len(ps),
                                          !.lastHas = IF Rewritable(cfg.api) THEN TRUE ELSE @,
                                          !.lastIdx = IF Rewritable(cfg.api) THEN Len(o2) ELSE @]]]

\* header pages: writeTrackIDHeader (BOS, granule 0), writeTrackCommentHeader (granule 0)
WriteId(s, t)   == WritePage(s.out, s.trk, t, IdSize[cfg.ch[t]], {"bos"}, 0, <<t, 1>>, "head")
WriteTags(s, t) == WritePage(s.out, s.trk, t, TagSize[cfg.tag[t]], {}, 0, <<t, 2>>, "tags")

RECURSIVE AllIds(_, _), AllTags(_, _)
AllIds(s, t)  == IF t > cfg.ntr THEN s ELSE AllIds(WriteId(s, t), t + 1)
AllTags(s, t) == IF t > cfg.ntr THEN s ELSE AllTags(WriteTags(s, t), t + 1)

\* startLocked: every OpusHead first, then every OpusTags, in track order
Start(s) == AllTags(AllIds(s, 1), 1)

Track0 == [pageIndex |-> 0, cum |-> 0, lastHas |-> FALSE, lastIdx |-> 0]

Init ==
  /\ cfg \in InitCfgs
  /\ phase = "open"
  /\ LET s0 == [out |-> <<>>, trk |-> [t \in 1..cfg.ntr |-> Track0]]
         \* the legacy constructors write both headers at once (writeTrackHeaders)
         s1 == IF Legacy(cfg.api) THEN WriteTags(WriteId(s0, 1), 1) ELSE s0
     IN out = s1.out /\ trk = s1.trk
  /\ started = Legacy(cfg.api)
  /\ wr = [t \in 1..cfg.ntr |-> <<>>]
  /\ ops = <<>>

SizeChoices == Sizes \cup (IF MaxRandSize > 0 THEN RandomSubset(1, 1..MaxRandSize) ELSE {})
                     \cup (IF MaxRandBig > 0 THEN RandomSubset(1, 1..MaxRandBig) ELSE {})

\* second byte of a code-3 packet: exhaustively every candidate; in simulation a refused one (frame count 0, or more
\* than 120 ms) in about one code-3 packet out of four
B1Ok(toc, b) == FrameCount(toc, b) >= 1 /\ SamplesOf(toc, b) <= 5760
B1Choices(toc) ==
  IF toc % 4 # 3 THEN {0}
  ELSE IF ~Sample THEN B1s
  ELSE LET good == {b \in B1s : B1Ok(toc, b)}
           bad  == B1s \ good
           pick == IF RandomSubset(1, 1..4) = {1} THEN bad ELSE good
       IN RandomSubset(1, IF pick = {} THEN B1s ELSE pick)

\* WriteRTP of a packet on track t. The packet domain includes what the writers refuse or ignore:
\*   n = 0                         empty RTP payload: ignored, WriteRTP returns nil, nothing happens;
\*   code 3 and n = 1              the frame-count byte is missing: errInvalidOpusPacket;
\*   code 3, frame count 0         errInvalidOpusPacket;
\*   frame count x frame size > 120 ms   errInvalidOpusPacket.
\* A refused packet leaves the track untouched (opusPacketSampleCount fails before previousGranulePosition is
\* advanced and before any page is written) - but the multi-track Track.WriteRTP has already called startLocked, so
\* the header pages of all tracks are written by the first non-empty packet even if it is refused.
Write ==
  /\ phase = "open" /\ Len(ops) < cfg.np
  /\ \E t \in Pick(1..cfg.ntr), toc \in Pick(TocBytes), n \in Pick(SizeChoices \cup (IF Empties THEN {0} ELSE {})) :
     \E b1 \in B1Choices(toc) :
       LET ok == n >= 1 /\ ValidOpus(toc, b1, n)
           s0 == [out |-> out, trk |-> trk]
           s1 == IF started \/ n = 0 THEN s0 ELSE Start(s0)
           g  == s1.trk[t].cum + SamplesOf(toc, b1)                 \* previousGranulePosition += sampleCount
           s2 == IF ok THEN WritePage(s1.out, [s1.trk EXCEPT ![t].cum = g], t, n, {}, g, <<t, 3 + Len(wr[t])>>, "other")
                       ELSE s1
       IN /\ out' = s2.out /\ trk' = s2.trk /\ started' = (started \/ n >= 1)
          /\ wr' = IF ok THEN [wr EXCEPT ![t] = Append(@, [n |-> n, toc |-> toc, b1 |-> b1])] ELSE wr
          /\ ops' = Append(ops, [t |-> t, toc |-> toc, b1 |-> b1, n |-> n, ok |-> ok])
  /\ UNCHANGED <<cfg, phase>>

\* markTrackEndOfStream: the last page of the track is written again with the EOS flag added
MarkEos(s, t) ==
  IF ~s.trk[t].lastHas THEN s
  ELSE LET i  == s.trk[t].lastIdx
           p  == s.out[i]
           ht == (IF p.bos THEN {"bos"} ELSE {}) \cup (IF p.cont THEN {"cont"} ELSE {}) \cup {"eos"}
           ps == CreatePages(p.len, p.off, TRUE, ht, p.gran, t, p.seq, p.pkt, p.kind)
       IN [s EXCEPT !.out[i] = ps[1]]         \* WriteAt(lastPageOffset): the model checks below that it is one page

\* writeNilEndOfStreamPage: an empty page (no segments) with EOS and the current granule position
NilEos(s, t) ==
  IF s.trk[t].pageIndex = 0 THEN s
  ELSE [out |-> Append(s.out, [tr |-> t, seq |-> s.trk[t].pageIndex, bos |-> FALSE, cont |-> FALSE, eos |-> TRUE,
                               gran |-> s.trk[t].cum, segs |-> <<>>, kind |-> "other", pkt |-> <<t, 0>>, off |-> 0, len |-> 0]),
        trk |-> [s.trk EXCEPT ![t].pageIndex = @ + 1]]

RECURSIVE AllMarkEos(_, _), AllNilEos(_, _)
AllMarkEos(s, t) == IF t > cfg.ntr THEN s ELSE AllMarkEos(MarkEos(s, t), t + 1)
AllNilEos(s, t)  == IF t > cfg.ntr THEN s ELSE AllNilEos(NilEos(s, t), t + 1)

Close ==
  /\ phase = "open" /\ (Sample => Len(ops) = cfg.np)
  /\ LET s0 == [out |-> out, trk |-> trk]
         s1 == CASE cfg.api = "New"        -> MarkEos(s0, 1)                         \* w.fd != nil
                 [] cfg.api = "NewWith"    -> IF Impl = "pinned" THEN s0 ELSE NilEos(s0, 1)   \* w.fd == nil: empty EOS page (pinned: nothing)
                 [] cfg.api = "WriterSeek" -> AllMarkEos(IF started THEN s0 ELSE Start(s0), 1)
                 [] OTHER                  -> AllNilEos(IF started THEN s0 ELSE Start(s0), 1)
     IN out' = s1.out /\ trk' = s1.trk
  /\ phase' = "closed" /\ started' = TRUE
  /\ UNCHANGED <<cfg, wr, ops>>

Next == Write \/ Close
Spec == Init /\ [][Next]_vars

(* ---- what TLC checks on the model ------------------------------------------ *)
PagesOf(t) == SelectSeq(out, LAMBDA p : p.tr = t)
Lens(t)    == [j \in 1..Len(wr[t]) |-> wr[t][j].n]
Samples(t) == [j \in 1..Len(wr[t]) |-> SamplesOf(wr[t][j].toc, wr[t][j].b1)]
Tracks     == 1..cfg.ntr

TypeOK == phase \in {"open", "closed"} /\ started \in BOOLEAN /\ Len(ops) <= MaxPackets

\* every page respects the format: at most 255 lacing values, payload length = their sum
ModelPageShape == \A i \in 1..Len(out) : NSegs(out[i].segs) <= 255 /\ SegBytes(out[i].segs) = out[i].len

\* normative C33 operators, per logical stream
ModelBos      == started => \A t \in Tracks : StreamBos(PagesOf(t))
ModelTags     == started => \A t \in Tracks : StreamTagsSecond(PagesOf(t))
ModelSeq      == \A t \in Tracks : StreamSeq(PagesOf(t))
ModelEos      == phase = "closed" => \A t \in Tracks : StreamEos(PagesOf(t))
ModelGranule  == started => \A t \in Tracks : GranuleExact(PagesOf(t), Samples(t)) /\ GranuleMonotone(PagesOf(t))
ModelPackets  == started => \A t \in Tracks : PacketLengthsRoundTrip(PagesOf(t), Lens(t))

\* the joined pages carry the bytes of the packets: the pages of a packet are consecutive byte ranges of it
ModelBodies ==
  \A t \in Tracks : LET ps == PagesOf(t) IN
    \A i \in 1..Len(ps) :
       /\ ps[i].cont = (ps[i].off > 0)
       /\ ps[i].off > 0 => (i > 1 /\ ps[i-1].pkt = ps[i].pkt /\ ps[i-1].off + ps[i-1].len = ps[i].off /\ LastSegContinues(ps[i-1]))
       /\ (i < Len(ps) /\ LastSegContinues(ps[i])) => ps[i+1].pkt = ps[i].pkt
\* only the last page of a stream carries EOS, and a rewritten page keeps its place, number and payload
ModelEosOnlyLast == \A t \in Tracks : LET ps == PagesOf(t) IN \A i \in 1..(Len(ps) - 1) : ~ps[i].eos
\* RFC 3533 grouping: the BOS pages of all streams precede every other page
ModelBosFirst == \A i, j \in 1..Len(out) : (out[i].bos /\ ~out[j].bos) => i < j

\* simulation: the same invariants, evaluated once per behaviour, on its final state (the output only grows,
\* except for the EOS rewrite at Close)
SimInv == phase = "closed" =>
            /\ ModelPageShape /\ ModelBos /\ ModelTags /\ ModelSeq /\ ModelEos /\ ModelGranule /\ ModelPackets
            /\ ModelBodies /\ ModelEosOnlyLast /\ ModelBosFirst

(* ---- vector emission ---------------------------------------------------------- *)
Vec == [api |-> cfg.api, buf |-> cfg.buf,
        tracks |-> [t \in 1..cfg.ntr |-> [ch |-> cfg.ch[t], tag |-> cfg.tag[t], rate |-> cfg.rate[t]]],
        ops |-> ops, model_pages |-> Len(out),
        \* pages that do not belong to the OpusHead / OpusTags packets (the sizes of those are abstract in the model)
        model_data_pages |-> Len(SelectSeq(out, LAMBDA p : p.pkt[2] \notin {1, 2}))]
EmitVec == (Emit /\ phase = "closed") => PrintT(<<"VERIF_VEC", ToJson(Vec)>>)
=============================================================================
