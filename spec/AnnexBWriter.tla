---------------------------- MODULE AnnexBWriter ----------------------------
(* C35, generative model: a NAL sequence goes through pion/rtp's payloader   *)
(* (codecs.H264Payloader / codecs.H265Payloader, transcribed at the grain of *)
(* what they do with one unit, with their size arithmetic: SPS/PPS caching   *)
(* and the STAP-A with its MTU test, the H.265 parameter-set cache and the   *)
(* aggregation buffer with canAggregate / shouldAggregateNow, fragmentation  *)
(* into S / middle / E units of mtu-2 resp. mtu-3 payload bytes) and the     *)
(* resulting packets go through WriteRTP of pkg/media/h264writer /           *)
(* h265writer (key-frame gate isKeyFrame + the depacketizer), in three       *)
(* variants of the writer:                                                   *)
(*   "asis"     the code as it is                                            *)
(*   "pktfix"   isKeyFrame repaired, gate still per packet                   *)
(*   "intended" gate per NAL unit: exactly the property                      *)
(* Unit lengths are numbers chosen from size classes defined relative to the *)
(* MTU (LenOf): small, the single/fragment boundary mtu-1 / mtu / mtu+1, the *)
(* H.265 aggregation boundary mtu-7 / mtu-6, fragmentations whose last       *)
(* fragment carries 1, 2 or a full slice of bytes, and absolute sizes around *)
(* 255 / 256 / 257 (two-byte length fields of STAP-A / AP), 300, 700.        *)
(* TLC explores every input sequence up to MaxNals units (optionally after a *)
(* parameter-set opener) and checks                                          *)
(*   out = FromKey(packetized units, first key unit)                         *)
(* for the variant named by Impl; the sequences are emitted as vectors that  *)
(* are replayed, byte length for byte length, through the real payloader,    *)
(* writer and reader.                                                        *)
EXTENDS AnnexBOps, TLC, Json

CONSTANTS Impl,        \* variant the invariant Correct talks about
          Codecs,      \* subset of {"h264", "h265"}
          MTUs,        \* MTUs offered
          Sizes,       \* size classes offered (see LenOf)
          MaxNals,     \* units per input sequence (after the opener)
          Openers,     \* subset of BOOLEAN: TRUE = the sequence starts with small in-band parameter sets
          Aggs,        \* subset of BOOLEAN: aggregation enabled (H.264: !DisableStapA, H.265: !SkipAggregation)
          Types264,    \* NAL unit types offered to H.264 (1 non-IDR, 5 IDR, 6 SEI, 7 SPS, 8 PPS)
          Types265,    \* NAL unit types offered to H.265 (1 TRAIL_R, 19 IDR_W_RADL, 32 VPS, 33 SPS, 34 PPS, 39 SEI)
          Emit

VARIABLES codec,       \* "h264" | "h265"
          agg,         \* aggregation enabled
          mtu,
          nfed,        \* units fed after the opener
          st           \* [inp, pay, wr, pk]:
                       \*   inp units fed so far: [id, ty, len, eos]; eos = last unit of its Payload() call
                       \*   pay payloader state;  wr writer state per variant: [hasKey, part, out]
                       \*   pk  units carried by the packets emitted so far: [id, ty, k]

vars  == <<codec, agg, mtu, nfed, st>>
Impls == {"asis", "pktfix", "intended"}

\* ---- sizes -----------------------------------------------------------------------------------
Hdr   == IF codec = "h264" THEN 1 ELSE 2          \* header bytes not carried in a fragment's payload
Slice == IF codec = "h264" THEN mtu - 2 ELSE mtu - 3   \* payload bytes per fragment (FU-A: 2, FU: 3 bytes of headers)

LenOf(c) ==
  CASE c = "s"    -> 17                     \* small (an H.265 SPS of 17 bytes still carries a parsable id)
    [] c = "m-"   -> mtu - 1                \* single NAL unit packet
    [] c = "m"    -> mtu                    \* largest single NAL unit packet
    [] c = "m+"   -> mtu + 1                \* smallest fragmented unit: 2 fragments, the last carries 2 bytes
    [] c = "m7"   -> mtu - 7                \* H.265: largest unit canAggregateH265 accepts
    [] c = "m6"   -> mtu - 6                \* H.265: smallest unit that is sent alone
    [] c = "e0"   -> Hdr + 2 * Slice        \* 2 fragments, the last one full
    [] c = "g1"   -> Hdr + 2 * Slice + 1    \* 3 fragments, the last carries 1 byte (3-byte FU-A / 4-byte FU)
    [] c = "g2"   -> Hdr + 2 * Slice + 2    \* 3 fragments, the last carries 2 bytes
    [] c = "b"    -> Hdr + 2 * Slice + (Slice \div 2)   \* 3 fragments, ordinary
    [] c = "g0"   -> Hdr + 3 * Slice        \* 3 fragments, the last one full
    [] c = "h1"   -> Hdr + 3 * Slice + 1    \* 4 fragments, the last carries 1 byte
    [] c = "L255" -> 255
    [] c = "L256" -> 256
    [] c = "L257" -> 257
    [] c = "L300" -> 300
    [] c = "L700" -> 700

\* ---- packets --------------------------------------------------------------------------------
\* [k |-> "single" | "agg" | "fuS" | "fuM" | "fuE", nals |-> units carried (one for fu*)]
NFrag(n) == ((n.len - Hdr) + Slice - 1) \div Slice
Frag(n) == IF n.len > mtu
           THEN << [k |-> "fuS", nals |-> <<n>>] >> \o
                [i \in 1..(NFrag(n) - 2) |-> [k |-> "fuM", nals |-> <<n>>]] \o
                << [k |-> "fuE", nals |-> <<n>>] >>
           ELSE << [k |-> "single", nals |-> <<n>>] >>

\* ---- codecs.H264Payloader.Payload, per unit (emitNalus callback) ----------------------------
\* state [sps, pps]: cached parameter sets (sequence of length 0 or 1)
Pay264(p, n) ==
  CASE n.ty \in {9, 12}   -> [p |-> p, pkts |-> <<>>]                       \* AUD, filler: dropped
    [] agg /\ n.ty = 7    -> [p |-> [p EXCEPT !.sps = <<n>>], pkts |-> <<>>]
    [] agg /\ n.ty = 8    -> [p |-> [p EXCEPT !.pps = <<n>>], pkts |-> <<>>]
    [] OTHER ->
         LET both == agg /\ p.sps # <<>> /\ p.pps # <<>>
             fits == both /\ 1 + 2 + p.sps[1].len + 2 + p.pps[1].len <= mtu    \* else silently dropped
             stap == IF fits THEN << [k |-> "agg", nals |-> <<p.sps[1], p.pps[1]>>] >> ELSE <<>>
         IN  [p |-> IF both THEN [p EXCEPT !.sps = <<>>, !.pps = <<>>] ELSE p, pkts |-> stap \o Frag(n)]

\* ---- codecs.H265Payloader.Payload, per unit; EndCall265 = the flushBuffer() at the end of the call
\* state [cache, buf]: parameter-set cache (ids all equal: one entry per type, latest last), aggregation buffer
Flush(buf) == CASE Len(buf) = 0 -> <<>>
                [] Len(buf) = 1 -> << [k |-> "single", nals |-> buf] >>
                [] OTHER        -> << [k |-> "agg", nals |-> buf] >>

RECURSIVE SumLen(_)
SumLen(b) == IF b = <<>> THEN 0 ELSE Head(b).len + SumLen(Tail(b))

RECURSIVE Place(_, _, _)
Place(buf, pkts, pending) ==     \* the loop over pendingNalus
  IF pending = <<>> THEN [buf |-> buf, pkts |-> pkts]
  ELSE LET x == Head(pending) rest == Tail(pending) IN
       CASE x.len > mtu -> Place(<<>>, pkts \o Flush(buf) \o Frag(x), rest)          \* flushBuffer(); fragmentAndAppend
         [] buf = <<>>  -> IF x.len + 7 <= mtu                                        \* canAggregateH265
                           THEN Place(<<x>>, pkts, rest)
                           ELSE Place(<<>>, pkts \o << [k |-> "single", nals |-> <<x>>] >>, rest)
         [] OTHER       -> IF 2 + (Len(buf) + 1) * 2 + SumLen(buf) + x.len > mtu      \* shouldAggregateH265Now
                           THEN Place(<<x>>, pkts \o Flush(buf), rest)
                           ELSE Place(Append(buf, x), pkts, rest)

Pay265(p, n) ==
  CASE ~agg                  -> [p |-> [p EXCEPT !.cache = <<>>], pkts |-> Frag(n)]
    [] n.ty \in {32, 33, 34} -> [p |-> [p EXCEPT !.cache = Append(SelectSeq(p.cache, LAMBDA c : c.ty # n.ty), n)],
                                 pkts |-> <<>>]
    [] n.ty \in {35, 38}     -> [p |-> p, pkts |-> <<>>]                    \* AUD, filler: dropped
    [] OTHER -> LET r == Place(p.buf, <<>>, Append(p.cache, n)) IN
                [p |-> [p EXCEPT !.cache = <<>>, !.buf = r.buf], pkts |-> r.pkts]

EndCall265(p) == [p |-> [p EXCEPT !.buf = <<>>], pkts |-> Flush(p.buf)]

\* ---- isKeyFrame --------------------------------------------------------------------------------
HasKeyUnit(q) == \E i \in 1..Len(q.nals) : q.nals[i].ty \in KeyTypes(codec)

IsKeyPkt(m, q) ==
  LET n == q.nals[1] IN
  CASE m = "asis" /\ codec = "h264" ->
         \* naluType == SPS, or STAP-A whose first aggregated unit is an SPS; IDR is not looked for;
         \* an FU-A has naluType 28
         q.k \in {"single", "agg"} /\ n.ty = 7
    [] m = "asis" /\ codec = "h265" ->
         CASE q.k = "single" -> n.ty \in KeyTypes(codec)
           [] q.k = "agg"    -> HasKeyUnit(q)
           [] OTHER          -> \* (data[2] & 0x7E) >> 1 on the FU header S|E|FuType(6): E*32 + FuType / 2
                                ((IF q.k = "fuE" THEN 32 ELSE 0) + (n.ty \div 2)) \in KeyTypes(codec)
    [] OTHER ->  \* repaired: the packet carries a key unit or starts one
         CASE q.k \in {"single", "agg"} -> HasKeyUnit(q)
           [] q.k = "fuS"               -> n.ty \in KeyTypes(codec)
           [] OTHER                     -> FALSE

\* ---- WriteRTP: gate + depacketizer ---------------------------------------------------------------
Ids(s) == [i \in 1..Len(s) |-> s[i].id]
Corrupt == 0     \* a unit that is not one of the packetized units

Depack(w, q, ids) ==    \* ids: the units of a single / aggregation packet that are written
  CASE q.k \in {"single", "agg"} ->
         [w EXCEPT !.out = w.out \o ids, !.part = IF codec = "h265" THEN "none" ELSE w.part]
    [] q.k = "fuS" -> [w EXCEPT !.part = IF codec = "h265" \/ w.part = "none" THEN "open" ELSE "trunc"]
    [] q.k = "fuM" -> IF w.part = "none"
                      THEN (IF codec = "h265" THEN w                    \* errExpectFragmentationStartUnit
                                              ELSE [w EXCEPT !.part = "trunc"])   \* H264Packet does not look at S
                      ELSE w
    [] OTHER ->       \* fuE
         CASE w.part = "open" -> [w EXCEPT !.out = Append(w.out, q.nals[1].id), !.part = "none"]
           [] codec = "h265"  -> [w EXCEPT !.part = "none"]            \* no partials: nothing written
           [] OTHER           -> [w EXCEPT !.out = Append(w.out, Corrupt), !.part = "none"]

FirstKeyIn(q) == CHOOSE i \in 1..Len(q.nals) :
                    q.nals[i].ty \in KeyTypes(codec) /\ \A j \in 1..(i-1) : q.nals[j].ty \notin KeyTypes(codec)

WriteRTP(m, w, q) ==
  IF ~w.hasKey /\ ~IsKeyPkt(m, q) THEN w                              \* "key frame not defined yet. discarding packet"
  ELSE LET ids == IF m = "intended" /\ ~w.hasKey /\ q.k = "agg"
                  THEN SubSeq(Ids(q.nals), FirstKeyIn(q), Len(q.nals)) \* per-unit gate
                  ELSE Ids(q.nals)
       IN  Depack([w EXCEPT !.hasKey = TRUE], q, ids)

RECURSIVE WriteAll(_, _, _)
WriteAll(m, w, pkts) == IF pkts = <<>> THEN w ELSE WriteAll(m, WriteRTP(m, w, Head(pkts)), Tail(pkts))

\* units carried by a packet sequence (a fragmented unit counts at its E fragment)
RECURSIVE Carried(_)
Carried(pkts) ==
  IF pkts = <<>> THEN <<>>
  ELSE LET q == Head(pkts) IN
       (CASE q.k = "single" -> << [id |-> q.nals[1].id, ty |-> q.nals[1].ty, k |-> "single"] >>
          [] q.k = "agg"    -> [i \in 1..Len(q.nals) |->
                                   [id |-> q.nals[i].id, ty |-> q.nals[i].ty, k |-> IF i = 1 THEN "agg0" ELSE "aggN"]]
          [] q.k = "fuE"    -> << [id |-> q.nals[1].id, ty |-> q.nals[1].ty, k |-> "fu"] >>
          [] OTHER          -> <<>>) \o Carried(Tail(pkts))

\* ---- the state machine ------------------------------------------------------------------------
NewWriter == [hasKey |-> FALSE, part |-> "none", out |-> <<>>]
S0 == [inp |-> <<>>, pk |-> <<>>,
       pay |-> [sps |-> <<>>, pps |-> <<>>, cache |-> <<>>, buf |-> <<>>],
       wr  |-> [m \in Impls |-> NewWriter]]

\* one unit through payloader and writers
Step(s, ty, len, eos) ==
  LET n  == [id |-> Len(s.inp) + 1, ty |-> ty, len |-> len, eos |-> eos]
      r1 == IF codec = "h264" THEN Pay264(s.pay, n) ELSE Pay265(s.pay, n)
      r2 == IF codec = "h265" /\ eos THEN EndCall265(r1.p) ELSE [p |-> r1.p, pkts |-> <<>>]
      pkts == r1.pkts \o r2.pkts
  IN  [inp |-> Append(s.inp, n), pay |-> r2.p,
       wr  |-> [m \in Impls |-> WriteAll(m, s.wr[m], pkts)],
       pk  |-> s.pk \o Carried(pkts)]

\* the opener: small parameter sets of one access unit (they are delivered with the next unit)
Opened(s) == IF codec = "h264" THEN Step(Step(s, 7, 17, TRUE), 8, 17, TRUE)
             ELSE Step(Step(Step(s, 32, 17, FALSE), 33, 17, FALSE), 34, 17, FALSE)

Init == /\ codec \in Codecs /\ agg \in Aggs /\ mtu \in MTUs /\ nfed = 0
        /\ \E o \in Openers : st = IF o THEN Opened(S0) ELSE S0

Next == /\ nfed < MaxNals
        /\ \E ty \in (IF codec = "h264" THEN Types264 ELSE Types265), c \in Sizes, eos \in BOOLEAN :
              /\ ((codec = "h264" \/ ~agg) => eos)  \* only the H.265 aggregation buffer depends on the Payload() call boundaries
              /\ LenOf(c) >= 5 /\ LenOf(c) <= 4 * mtu
              /\ st' = Step(st, ty, LenOf(c), eos)
        /\ nfed' = nfed + 1
        /\ UNCHANGED <<codec, agg, mtu>>

\* ---- what TLC checks --------------------------------------------------------------------------
Types(s) == [i \in 1..Len(s) |-> s[i].ty]
Want     == FromKey(Ids(st.pk), FirstKey(Types(st.pk), codec))

\* C35 for the variant Impl: the output is exactly the packetized units from the first key unit onward
Correct == st.wr[Impl].out = Want
\* in every variant the output is a contiguous tail of the packetized units (nothing corrupt, nothing reordered)
TailAlways == \A m \in Impls : IsSuffix(st.wr[m].out, Ids(st.pk))
\* the packet-level repair is exact whenever no aggregation packet has a non-key unit in front of the first key unit
PktfixExactUnlessAggN ==
  LET k == FirstKey(Types(st.pk), codec) IN
  (k = 0 \/ st.pk[k].k # "aggN") => st.wr["pktfix"].out = Want

EmitVec == (Emit /\ nfed > 0 /\ st.inp[Len(st.inp)].eos) =>
             PrintT(<<"VERIF_VEC", ToJson([codec |-> codec, agg |-> agg, mtu |-> mtu, inp |-> st.inp, pk |-> st.pk,
                                           asis |-> st.wr["asis"].out, want |-> Want])>>)
=============================================================================
