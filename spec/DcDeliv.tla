------------------------------- MODULE DcDeliv -------------------------------
(* Data channel delivery (C19): a reliable ordered channel is a FIFO from the  *)
(* sender's Send calls to the receiver's OnMessage calls; an in-band channel    *)
(* appears on the remote peer with the creator's parameters.                    *)
(* Part 1: the delivery machine for a few channels in parallel (Send appends,   *)
(* Deliver removes the head; a lossy/unordered channel may drop or reorder),    *)
(* with the normative statements as invariants.  Part 2: the space of session   *)
(* vectors that is replayed on real connected pairs.                            *)
EXTENDS Naturals, Sequences, FiniteSets, TLC, Json, Randomization

CONSTANTS NMsgs, Chans, NVec

Rel == {"reliable", "rexmit0", "rexmit3", "lifetime50"}
Sizes == {"empty", "one", "1k", "16k", "64k", "64KiB", "mixed", "random"}

VARIABLES inflight, delivered, nsent, vec
vars == <<inflight, delivered, nsent, vec>>

ChanCfg == [ordered : BOOLEAN, rel : Rel, protocol : {"", "verif-proto"}, text : BOOLEAN]
\* the network between the two endpoints: the host's loopback, or an in-process network that delays every
\* datagram by a random time (datagrams overtake each other) and, with "loss", drops one in twenty
Nets == {"loopback", "delay", "loss"}
Space == [nch : 1..3, cfgs : [1..3 -> ChanCfg], sizes : Sizes, count : {5, 40}, side : {"offerer", "answerer"}, net : Nets,
          slow : BOOLEAN]      \* the receiving application is slow to take the announced channel (registers its handler late)
\* a reliable ordered channel whose receiving application takes seconds to register its handler
RelOrd == [ordered |-> TRUE, rel |-> "reliable", protocol |-> "", text |-> TRUE]
SlowVecs == {[nch |-> 1, cfgs |-> [i \in 1..3 |-> RelOrd], sizes |-> "mixed", count |-> 5, side |-> sd, net |-> "loopback", slow |-> TRUE] :
               sd \in {"offerer", "answerer"}}
Init == /\ inflight = [c \in Chans |-> <<>>] /\ delivered = [c \in Chans |-> <<>>] /\ nsent = [c \in Chans |-> 0]
        \* a lossy network makes bulk transfers slow (every loss costs a retransmission time-out): few messages there
        \* ... and a slow receiver costs seconds: only the two vectors of SlowVecs have one
        /\ vec \in {v \in RandomSubset(NVec, Space) : (v.net = "loss" => v.count = 5) /\ ~v.slow} \cup SlowVecs

Send(c) == /\ nsent[c] < NMsgs
           /\ nsent' = [nsent EXCEPT ![c] = @ + 1]
           /\ inflight' = [inflight EXCEPT ![c] = Append(@, nsent[c] + 1)]
           /\ UNCHANGED <<delivered, vec>>
Deliver(c) == /\ inflight[c] # <<>>
              /\ delivered' = [delivered EXCEPT ![c] = Append(@, Head(inflight[c]))]
              /\ inflight' = [inflight EXCEPT ![c] = Tail(@)]
              /\ UNCHANGED <<nsent, vec>>
Next == \E c \in Chans : Send(c) \/ Deliver(c)

\* normative statements (reliable ordered channel)
IsPrefixOfSent(c) == \A i \in 1..Len(delivered[c]) : delivered[c][i] = i
ModelFifoExactlyOnce == \A c \in Chans : IsPrefixOfSent(c)
ModelNothingInvented == \A c \in Chans : Len(delivered[c]) + Len(inflight[c]) = nsent[c]
ModelEventuallyAll == <>[](\A c \in Chans : inflight[c] = <<>>)

EmitVec == (\A c \in Chans : nsent[c] = 0) => PrintT(<<"VERIF_VEC", ToJson(vec)>>)
=============================================================================
