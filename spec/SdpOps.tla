------------------------------- MODULE SdpOps -------------------------------
(* Normative operators for the SDP properties C06, C07, C08, C09, C10, C12,  *)
(* C16, over the abstract projection of a session description:              *)
(*   d = [parses, bundle (seq of mids), bundleLines, sessFp, sections]       *)
(*   section = [kind, mid, nmid, port, dirs, setup, ufrag, pwd, fp, pts,     *)
(*              nfmt, rtpmap, fmtp, fb, ext, msid, ssrcs, groups, rids]      *)
EXTENDS Naturals, Sequences, FiniteSets

Range(s)   == {s[i] : i \in 1..Len(s)}
NoDup(s)   == \A i, j \in 1..Len(s) : s[i] = s[j] => i = j
Media(s)   == s.kind \in {"audio", "video"}
Accepted(s) == s.port # 0
Mids(d)    == [i \in 1..Len(d.sections) |-> d.sections[i].mid]

\* ---- C06
UniqueMids(d) == /\ \A i \in 1..Len(d.sections) : d.sections[i].nmid = 1 /\ d.sections[i].mid # ""
                 /\ NoDup(Mids(d))
AcceptedMids(d) == {d.sections[i].mid : i \in {j \in 1..Len(d.sections) : Accepted(d.sections[j])}}
BundleExact(d) == /\ NoDup(d.bundle)
                  /\ Range(d.bundle) = AcceptedMids(d)
                  /\ d.bundleLines <= 1
                  /\ (AcceptedMids(d) # {} => d.bundleLines = 1)
\* data sections carry no direction attribute; the "exactly one direction" conjunct is for media
SectionComplete(d, s) ==
  Accepted(s) => /\ s.ufrag /\ s.pwd
                 /\ Len(s.setup) = 1
                 /\ (s.fp \/ d.sessFp)
                 /\ (Media(s) => Len(s.dirs) = 1)

\* ---- C07 (answer a versus the applied remote offer o)
SameLength(a, o) == Len(a.sections) = Len(o.sections)
SameKindAndMid(a, o) ==
  \A i \in 1..Len(o.sections) : i <= Len(a.sections) =>
       a.sections[i].kind = o.sections[i].kind /\ a.sections[i].mid = o.sections[i].mid
KnownKind(k) == k \in {"audio", "video", "application"}
UnusableRejectedInPlace(a, o) ==
  \A i \in 1..Len(o.sections) : (~KnownKind(o.sections[i].kind) \/ ~Accepted(o.sections[i])) =>
       i <= Len(a.sections) /\ a.sections[i].mid = o.sections[i].mid /\ ~Accepted(a.sections[i])

\* ---- C08 (RFC 3264 section 6.1; an absent attribute means sendrecv)
DirOf(s) == IF Len(s.dirs) = 0 THEN "sendrecv" ELSE s.dirs[1]
LegalAnswerDir(od, ad) ==
  CASE od = "sendrecv" -> TRUE
    [] od = "sendonly" -> ad \in {"recvonly", "inactive"}
    [] od = "recvonly" -> ad \in {"sendonly", "inactive"}
    [] OTHER           -> ad = "inactive"
Sends(dir) == dir \in {"sendrecv", "sendonly"}
Recvs(dir) == dir \in {"sendrecv", "recvonly"}

\* ---- C09 (prev: mids of the last applied description of this endpoint; used: all mids applied so far)
PositionStable(cur, prev) == \A i \in 1..Len(prev) : i <= Len(cur) /\ cur[i] = prev[i]
NoMidReuse(cur, prev, used) ==
  \A i \in (Len(prev) + 1)..Len(cur) :
      cur[i] \notin used /\ \A j \in 1..Len(cur) : (j # i /\ cur[j] = cur[i]) => FALSE

\* ---- C10 (one generated media section)
PayloadsUnique(s) == NoDup(s.pts) /\ s.nfmt = Len(s.pts)
Listed(s) == Range(s.pts)
AttrsReferToListed(s) ==
  /\ \A i \in 1..Len(s.rtpmap) : s.rtpmap[i].pt \in Listed(s)
  /\ \A i \in 1..Len(s.fmtp)   : s.fmtp[i].pt \in Listed(s)
  /\ \A i \in 1..Len(s.fb)     : s.fb[i] \in Listed(s)
IsRtx(s, pt) == \E i \in 1..Len(s.rtpmap) : s.rtpmap[i].pt = pt /\ s.rtpmap[i].name = "rtx"
AptListed(s) ==
  /\ \A i \in 1..Len(s.fmtp) : (s.fmtp[i].apt >= 0 \/ s.fmtp[i].aptBad) => (~s.fmtp[i].aptBad /\ s.fmtp[i].apt \in Listed(s))
  /\ \A pt \in Listed(s) : IsRtx(s, pt) => \E i \in 1..Len(s.fmtp) : s.fmtp[i].pt = pt /\ s.fmtp[i].apt \in Listed(s)
ExtmapOK(s) ==
  /\ \A i \in 1..Len(s.ext) : s.ext[i].id \in 1..14
  /\ NoDup([i \in 1..Len(s.ext) |-> s.ext[i].id])
  /\ NoDup([i \in 1..Len(s.ext) |-> s.ext[i].uri])

\* ---- C12 (offer d versus the transceiver list trs at that moment)
MediaIdx(d) == {i \in 1..Len(d.sections) : Media(d.sections[i])}
SectionsOf(d, mid) == {i \in MediaIdx(d) : d.sections[i].mid = mid}
\* every transceiver has exactly one media section; an accepted media section belongs to a
\* transceiver (sections rejected in place, e.g. mirrored unusable remote sections, have none)
OneSectionPerTransceiver(d, trs) ==
  /\ \A k \in 1..Len(trs) : trs[k].mid # "" /\ Cardinality(SectionsOf(d, trs[k].mid)) = 1
  /\ {d.sections[i].mid : i \in {j \in MediaIdx(d) : Accepted(d.sections[j])}} \subseteq {trs[k].mid : k \in 1..Len(trs)}
  /\ NoDup([k \in 1..Len(trs) |-> trs[k].mid])
SecOf(d, tr) == d.sections[CHOOSE i \in MediaIdx(d) : d.sections[i].mid = tr.mid]
KindMidDirection(d, tr) == SecOf(d, tr).kind = tr.kind /\ SecOf(d, tr).dirs = <<tr.dir>>
MsidOK(d, tr) == (tr.sending /\ Sends(tr.dir)) => (tr.stream \o " " \o tr.track) \in Range(SecOf(d, tr).msid)
\* every encoding of the sender (a simulcast sender has several, told apart by their rid)
EncSsrcs(tr) == {x \in UNION {{tr.encs[i].ssrc, tr.encs[i].rtx, tr.encs[i].fec} : i \in 1..Len(tr.encs)} : x # "0"}
HasGroup(s, sem, a, b) == \E i \in 1..Len(s.groups) : s.groups[i].sem = sem /\ s.groups[i].ssrcs = <<a, b>>
SsrcsOK(d, tr) ==
  LET s == SecOf(d, tr) IN
  /\ Range(s.ssrcs) \subseteq EncSsrcs(tr)
  /\ (tr.sending /\ Sends(tr.dir)) =>
        /\ EncSsrcs(tr) \subseteq Range(s.ssrcs)
        /\ \A i \in 1..Len(tr.encs) :
              /\ (tr.encs[i].rtx # "0" => HasGroup(s, "FID", tr.encs[i].ssrc, tr.encs[i].rtx))
              /\ (tr.encs[i].fec # "0" => HasGroup(s, "FEC-FR", tr.encs[i].ssrc, tr.encs[i].fec))
\* a simulcast sender announces its encodings: one a=rid:<rid> send per encoding, in order, and a=simulcast:send
JoinRids(encs) == LET RECURSIVE J(_) J(i) == IF i > Len(encs) THEN "" ELSE (IF i = 1 THEN "" ELSE ";") \o encs[i].rid \o J(i + 1) IN J(1)
RidsOK(d, tr) ==
  LET s == SecOf(d, tr)          \* ridsSend / simSend: the "send" part of the section's rid and simulcast attributes
      own == {tr.encs[i].rid : i \in 1..Len(tr.encs)} IN
  /\ Range(s.ridsSend) \subseteq own                  \* nothing but the sender's own encodings is announced for sending
  /\ (tr.sending /\ Sends(tr.dir) /\ Len(tr.encs) > 1) =>
        /\ s.ridsSend = [i \in 1..Len(tr.encs) |-> tr.encs[i].rid]
        /\ s.simSend = <<JoinRids(tr.encs)>>
HasApplication(d) == \E i \in 1..Len(d.sections) : d.sections[i].kind = "application"

\* ---- C16 (answer section a versus the offer section o at the same index)
Ch(r) == IF r.ch = 0 THEN 1 ELSE r.ch
PayloadOffered(a, o) == Range(a.pts) \subseteq Range(o.pts)
SameCodec(a, o) ==
  \A i \in 1..Len(a.rtpmap) : a.rtpmap[i].pt \in Range(a.pts) =>
     \E j \in 1..Len(o.rtpmap) : /\ o.rtpmap[j].pt = a.rtpmap[i].pt
                                 /\ o.rtpmap[j].name = a.rtpmap[i].name
                                 /\ o.rtpmap[j].clock = a.rtpmap[i].clock
                                 /\ Ch(o.rtpmap[j]) = Ch(a.rtpmap[i])
=============================================================================
