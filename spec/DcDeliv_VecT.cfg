CONSTANTS
  NMsgs = 0
  Chans = {"c1"}
  NVec = 600
INIT Init
NEXT Next
INVARIANTS EmitVec
CHECK_DEADLOCK FALSE
