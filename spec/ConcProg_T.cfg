CONSTANTS
  NHammer = 60
  NProg = 800
INIT Init
NEXT Next
INVARIANTS Emit
CHECK_DEADLOCK FALSE
