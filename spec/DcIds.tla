-------------------------------- MODULE DcIds --------------------------------
(* Data-channel stream identifiers (C18): RFC 8832 parity by DTLS role, no     *)
(* identifier assigned twice on a connection, 65535 never assigned, an         *)
(* identifier never changes.  Two endpoints "A" (offers; DTLS server by pion's *)
(* defaults) and "B" (answers; DTLS client) create channels with and without   *)
(* an explicit id, negotiated out of band or announced in band, before and     *)
(* after the SCTP association is up, and close them.  The allocator is the one *)
(* of sctptransport.go: the smallest free id of the role's parity.             *)
EXTENDS Naturals, Sequences, FiniteSets, TLC, Json

CONSTANTS MaxSteps, ExplicitIds, MaxChans, RecordPath

Peers == {"A", "B"}
Other(p) == IF p = "A" THEN "B" ELSE "A"
Parity(p) == IF p = "B" THEN 0 ELSE 1          \* client even, server odd
NoId == 100000
BurstProcs == 8                             \* goroutines asking the allocator at once in an allocBurst
IdTop == 2 * MaxChans + 12 + 2 * 2 * BurstProcs * 3

VARIABLES chans,      \* chans[p]: sequence of [id, explicit, negotiated, origin ("local"|"remote"), closed]
          used,       \* used[p]: ids the endpoint's allocator considers taken
          connected, n, last,
          connectAt,  \* the step at which the association comes up (chosen initially)
          path

vars == <<chans, used, connected, n, last, connectAt, path>>
St == [chans |-> chans, connected |-> connected, n |-> n]

Init == /\ chans = [p \in Peers |-> <<>>] /\ used = [p \in Peers |-> {}]
        /\ connected = FALSE /\ n = 0 /\ last = [op |-> "init"]
        /\ connectAt \in 0..(MaxSteps - 2) /\ path = <<>>

Tick == n < MaxSteps /\ n' = n + 1
Alloc(p, taken) == CHOOSE i \in 0..IdTop : i % 2 = Parity(p) /\ i \notin taken
                        /\ \A j \in 0..IdTop : (j % 2 = Parity(p) /\ j \notin taken) => i <= j

\* opening a channel of p: gives it an id if it has none; an in-band channel appears at the peer
OpenOne(c, p, taken) == IF c.id = NoId THEN [c EXCEPT !.id = Alloc(p, taken)] ELSE c

\* in-band channel; an explicit id chosen by the application respects the creator's parity (RFC 8832),
\* otherwise the two endpoints could pick the same id independently
Create(p, eid) ==
  /\ Tick /\ Len(chans[p]) < MaxChans
  /\ eid # NoId => (eid \notin used[p] /\ eid % 2 = Parity(p))
  /\ LET c0 == [id |-> eid, explicit |-> eid # NoId, negotiated |-> FALSE, origin |-> "local", closed |-> FALSE]
         c  == IF connected THEN OpenOne(c0, p, used[p]) ELSE c0
         q  == Other(p)
     IN /\ chans' = [chans EXCEPT ![p] = Append(@, c),
                                  ![q] = IF connected
                                         THEN Append(@, [c EXCEPT !.origin = "remote", !.explicit = FALSE]) ELSE @]
        /\ used' = [used EXCEPT ![p] = IF c.id # NoId THEN @ \cup {c.id} ELSE @,
                                ![q] = IF connected THEN @ \cup {c.id} ELSE @]
  /\ UNCHANGED connected
  /\ last' = [op |-> "create", who |-> p, eid |-> eid]

\* a channel negotiated out of band: both applications create it with the agreed id
CreateNegotiated(eid) ==
  /\ Tick /\ \A p \in Peers : Len(chans[p]) < MaxChans /\ eid \notin used[p]
  /\ LET c == [id |-> eid, explicit |-> TRUE, negotiated |-> TRUE, origin |-> "local", closed |-> FALSE] IN
     /\ chans' = [p \in Peers |-> Append(chans[p], c)]
     /\ used' = [p \in Peers |-> used[p] \cup {eid}]
  /\ UNCHANGED connected
  /\ last' = [op |-> "createNegotiated", who |-> "both", eid |-> eid]

\* the association comes up: every endpoint opens its pending channels in creation order
RECURSIVE OpenAll(_, _, _)
OpenAll(cs, p, taken) ==
  IF cs = <<>> THEN <<>>
  ELSE LET c == OpenOne(Head(cs), p, taken) IN <<c>> \o OpenAll(Tail(cs), p, taken \cup {c.id})
InBand(cs) == SelectSeq(cs, LAMBDA c : ~c.negotiated)
AsRemote(cs) == [i \in 1..Len(cs) |-> [cs[i] EXCEPT !.origin = "remote", !.explicit = FALSE]]
Ids(cs) == {cs[i].id : i \in 1..Len(cs)}
Connect ==
  /\ Tick /\ ~connected
  /\ LET boot == [id |-> NoId, explicit |-> FALSE, negotiated |-> FALSE, origin |-> "local", closed |-> FALSE]
         \* an association needs an application section: with no channel at all, A creates one first
         ca == IF chans["A"] = <<>> /\ chans["B"] = <<>> THEN <<boot>> ELSE chans["A"]
         a == OpenAll(ca, "A", used["A"])
         b == OpenAll(chans["B"], "B", used["B"])
     IN /\ chans' = [p \in Peers |-> IF p = "A" THEN a \o AsRemote(InBand(b)) ELSE b \o AsRemote(InBand(a))]
        /\ used' = [p \in Peers |-> Ids(a) \cup Ids(b) \cup used[p]]
  /\ connected' = TRUE
  /\ last' = [op |-> "connect"]

Close(p, i) ==
  /\ Tick /\ connected /\ i \in 1..Len(chans[p]) /\ ~chans[p][i].closed /\ chans[p][i].origin = "local"
  /\ chans' = [chans EXCEPT ![p][i].closed = TRUE]
  /\ UNCHANGED <<used, connected>>
  /\ last' = [op |-> "close", who |-> p, k |-> i - 1]

\* BurstProcs goroutines of p asking for k ids each, racing with each other (CreateDataChannel calls from several goroutines end up
\* in the allocator at the same time): whatever the interleaving, k different free ids are taken
RECURSIVE TakeK(_, _, _)
TakeK(p, taken, k) == IF k = 0 THEN taken ELSE TakeK(p, taken \cup {Alloc(p, taken)}, k - 1)
AllocBurst(p, k) ==
  /\ Tick /\ connected /\ Cardinality(used[p]) <= MaxChans + 6     \* at most two bursts per endpoint
  /\ used' = [used EXCEPT ![p] = TakeK(p, @, BurstProcs * k)]
  /\ UNCHANGED <<chans, connected>>
  /\ last' = [op |-> "allocBurst", who |-> p, k |-> k]

\* a channel created at the very moment the association comes up is opened by both paths at once
\* (CreateDataChannel sees the transport connected; SCTPTransport.Start finds it among the pending ones):
\* whatever the interleaving it ends up with one id, taken once
OpenRace(p) ==
  /\ Tick /\ connected /\ Len(chans[p]) < MaxChans
  /\ LET c == OpenOne([id |-> NoId, explicit |-> FALSE, negotiated |-> FALSE, origin |-> "local", closed |-> FALSE], p, used[p])
         q == Other(p)
     IN /\ chans' = [chans EXCEPT ![p] = Append(@, c), ![q] = Append(@, [c EXCEPT !.origin = "remote"])]
        /\ used' = [used EXCEPT ![p] = @ \cup {c.id}, ![q] = @ \cup {c.id}]
  /\ UNCHANGED connected
  /\ last' = [op |-> "openRace", who |-> p]

Next == /\ UNCHANGED connectAt
        /\ IF n = connectAt /\ ~connected THEN Connect
           ELSE \/ \E p \in Peers, e \in ExplicitIds \cup {NoId} : Create(p, e)
                \/ \E e \in ExplicitIds : CreateNegotiated(e)
                \/ \E p \in Peers, i \in 1..MaxChans : Close(p, i)
                \/ \E p \in Peers, k \in {2, 3} : AllocBurst(p, k)
                \/ \E p \in Peers : OpenRace(p)
        /\ path' = IF RecordPath THEN Append(path, last') ELSE path

\* ---- normative statements
Assigned(p) == {i \in 1..Len(chans[p]) : chans[p][i].origin = "local" /\ ~chans[p][i].explicit /\ chans[p][i].id # NoId}
ModelParity == \A p \in Peers : \A i \in Assigned(p) : chans[p][i].id % 2 = Parity(p)
ModelNot65535 == \A p \in Peers : \A i \in Assigned(p) : chans[p][i].id # 65535
ModelUnique == \A p \in Peers : \A i \in Assigned(p) : \A j \in 1..Len(chans[p]) :
                  (j # i /\ chans[p][j].id # NoId) => chans[p][j].id # chans[p][i].id
ModelStable == [][\A p \in Peers : \A i \in 1..Len(chans[p]) : chans[p][i].id # NoId => chans'[p][i].id = chans[p][i].id]_vars

EmitPath == (n = MaxSteps) => PrintT(<<"VERIF_PATH", ToJson(path)>>)
EmitEdge == PrintT(<<"VERIF_EDGE", ToJson([f |-> [n |-> n], a |-> last', t |-> [n |-> n']])>>)
=============================================================================
