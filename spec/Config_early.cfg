CONSTANTS
  Impl = "early"
  Twice = FALSE
  N = 0
INIT Init
NEXT Next
INVARIANTS ModelHolds
CHECK_DEADLOCK FALSE
