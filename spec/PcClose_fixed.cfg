CONSTANTS
  Impl = "fixed"
  Closers = {"k1", "k2", "k3"}
  Graceful = {"k2", "k3"}
SPECIFICATION Spec
INVARIANTS EmitInitInv FinalSignalingClosed FinalConnectionClosed NoStateAfterClosed
PROPERTIES AllReturn
ACTION_CONSTRAINT EmitEdge
CHECK_DEADLOCK FALSE
