CONSTANTS
  defaultInitValue = "connecting"
  Impl = "fixed"
  Start = "connecting"
  WithP = FALSE
SPECIFICATION Spec
INVARIANTS EmitInitInv Monotone EndsClosed
PROPERTIES NeverReopens
ACTION_CONSTRAINT EmitEdge
CHECK_DEADLOCK FALSE
