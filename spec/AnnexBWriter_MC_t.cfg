CONSTANTS
  Impl = "intended"
  Codecs = {"h264", "h265"}
  MaxNals = 4
  Types264 = {1, 5, 6, 7, 8}
  Types265 = {1, 19, 32, 39}
  Emit = TRUE
INIT Init
NEXT Next
INVARIANTS Correct TailAlways PktfixExactUnlessAggN EmitVec
CHECK_DEADLOCK FALSE
