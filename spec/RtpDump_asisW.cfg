CONSTANTS
  Impl = "asis"
  Space = "writer"
INIT Init
NEXT Next
INVARIANTS ModelRefusesIff ModelRoundTrip
CHECK_DEADLOCK FALSE
