--------------------------- MODULE NegNeeded_Trace ---------------------------
(* Trace specification for C04.  Lines of one endpoint `who`:                  *)
(*   change     an API call that may require renegotiation (needs = it does)    *)
(*   offered    who created an offer (it carries every change so far)           *)
(*   completing the call that completes an exchange for who is about to be made *)
(*   fire       OnNegotiationNeeded ran; st/closed were read inside the handler *)
(*   drained    queued work of both endpoints finished after a call; st, closed *)
EXTENDS TraceKit

VARIABLES pos, viol, cnt, pending, fires
Who == {"A", "B"}

Preds(e) == {
   P("C04", "OnlyWhenStableOpen", e.ev = "fire", e.st = "stable" /\ ~e.closed),
   P("C04", "NoSecondFire", e.ev = "fire", fires[e.who] = 0),
   P("C04", "FiresWhenNeeded", e.ev = "drained" /\ e.drained /\ e.st = "stable" /\ ~e.closed /\ pending[e.who],
        fires[e.who] >= 1)
  }

Init == /\ pos = 1 /\ viol = {} /\ cnt = EmptyCount
        /\ pending = [w \in Who |-> FALSE] /\ fires = [w \in Who |-> 0]
Step ==
  /\ pos <= Len(Trace)
  /\ LET e == Trace[pos] IN
       IF e.ev = "reset" THEN pending' = [w \in Who |-> FALSE] /\ fires' = [w \in Who |-> 0] /\ UNCHANGED <<viol, cnt>>
       ELSE LET ps == Preds(e) IN
            /\ viol' = Merge(viol, Failures(ps, e, pos)) /\ cnt' = Count(cnt, ps)
            /\ pending' = CASE e.ev = "change" /\ e.needs -> [pending EXCEPT ![e.who] = TRUE]
                            [] e.ev = "offered" -> [pending EXCEPT ![e.who] = FALSE]
                            [] e.ev = "closed"  -> [pending EXCEPT ![e.who] = FALSE]
                            \* an answerer's changes may have been taken up by the sections it answered:
                            \* whether a negotiation is still needed is not known to this specification
                            [] e.ev = "completing" /\ e.st \in {"have-remote-offer", "have-local-pranswer"} -> [pending EXCEPT ![e.who] = FALSE]
                            [] OTHER -> pending
            /\ fires' = CASE e.ev = "fire" -> [fires EXCEPT ![e.who] = @ + 1]
                          [] e.ev = "completing" -> [fires EXCEPT ![e.who] = 0]
                          [] OTHER -> fires
  /\ pos' = pos + 1
Done == pos = Len(Trace) + 1 /\ UNCHANGED <<pos, viol, cnt, pending, fires>>
Next == Step \/ Done
Rep  == Report(pos, viol, cnt)
=============================================================================
