\* exhaustive (quick tier): both APIs, seekable or not, up to 2 tracks, up to 2 packets of sizes 1, 255, 255*255, 255*255+1
\* and 0 (empty payload), valid and refused (over 120 ms, missing count byte) code-3 packets
\* (every length around the boundaries is covered by the assumption LacingHolds of Ogg_MC.tla)
CONSTANTS
  Impl = "current"
  Apis = {"New", "NewWith", "Writer", "WriterSeek"}
  MaxTracks = 2
  MaxPackets = 2
  Sizes <- SizesFew
  MaxRandSize = 0
  MaxRandBig = 0
  TocBytes = {0, 99}
  B1s = {3, 13}
  Empties = TRUE
  Bufs = {"fresh"}
  ChCfgs = {"c2"}
  TagCfgs <- TagTwo
  Rates <- RatesOne
  Sample = FALSE
  Emit = FALSE
  InitSample = 0
INIT Init
NEXT Next
INVARIANTS TypeOK ModelPageShape ModelBos ModelTags ModelSeq ModelEos ModelGranule ModelPackets ModelBodies ModelEosOnlyLast ModelBosFirst
CHECK_DEADLOCK FALSE
