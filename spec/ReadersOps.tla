----------------------------- MODULE ReadersOps -----------------------------
(* Normative operators of property C37: the contract every container        *)
(* reader (IVF, Ogg, H.264, H.265, rtpdump) and the OpusHead / OpusTags     *)
(* parsers must honour on every input byte stream.                          *)
(*                                                                          *)
(* A run of a reader on one finite input of n bytes is                      *)
(*   [open  |-> outcome of the constructor ("value" | "error" | crash),     *)
(*    pos0  |-> bytes consumed when the constructor returned,               *)
(*    calls |-> positions after each value-returning read call, in order,   *)
(*    end   |-> how the run ended: "error" | "eof" (the reader stopped),    *)
(*              "value" (single-shot parsers), "panic" | "oom" (the call    *)
(*              crashed the process), "hang" (a call did not return) or     *)
(*              "budget" (more than n + 2 calls returned values)]           *)
(* The position is the logical consumed-byte counter: bytes the reader took *)
(* from the underlying io.Reader minus what it still holds unread in its    *)
(* own buffers.                                                             *)
EXTENDS Integers, Sequences, FiniteSets, TLC, Json

Returned == {"value", "error", "eof"}
Crashes  == {"panic", "oom"}
Stuck    == {"hang", "budget"}

\* "return a value or an error for every input byte stream; they never panic"
NoPanic(r) == r.open \notin Crashes /\ r["end"] \notin Crashes

\* "they make progress on every call until they report an error or end of stream":
\* every call that returns a value has consumed input, and no call hangs
StrictlyIncreasing(p0, ps) ==
  \A i \in 1..Len(ps) : ps[i] > (IF i = 1 THEN p0 ELSE ps[i - 1])
ProgressOrStop(r) == r["end"] \notin Stuck /\ StrictlyIncreasing(r.pos0, r.calls)

\* consequence used as a model invariant: a reader that makes progress stops within n + 1 calls
Terminates(r, n) == Len(r.calls) <= n
=============================================================================
