CONSTANTS
  defaultInitValue = "connecting"
  Impl = "asis"
  Start = "connecting"
  WithP = TRUE
SPECIFICATION Spec
INVARIANTS Monotone
CHECK_DEADLOCK FALSE
