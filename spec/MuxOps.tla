------------------------------ MODULE MuxOps ------------------------------
(* Normative operators of C27: RFC 7983 classification of a datagram by its *)
(* first two bytes, and the order in which an endpoint must see datagrams.  *)
EXTENDS Naturals, Sequences, FiniteSets

\* class of a datagram whose first byte is b0, second byte b1 (0 if absent)
\* and length len (>= 1).  "none" = no media/DTLS endpoint takes it.
\* pion decides RTP versus RTCP only when at least 4 bytes are present; for
\* shorter datagrams (never valid RTP or RTCP) only the first-byte range is
\* normative, so ShortOK below accepts either SRTP or SRTCP for them.
Class(b0, b1, len) ==
  CASE b0 \in 20..63   -> "dtls"
    [] b0 \in 128..191 -> IF b1 \in 192..223 THEN "srtcp" ELSE "srtp"
    [] OTHER           -> "none"

\* what the three match functions answered, as a set of class names
Exclusive(answers) == Cardinality(answers) <= 1
ClassifiedOK(b0, b1, len, answers) ==
  IF len >= 4 \/ b0 \notin 128..191
  THEN answers = (IF Class(b0, b1, len) = "none" THEN {} ELSE {Class(b0, b1, len)})
  ELSE answers \in {{"srtp"}, {"srtcp"}}          \* ShortOK

\* delivery order at one endpoint: `early` = datagrams (ids in arrival order) that
\* arrived before the endpoint existed, `late` = after; `got` = what it read.
IsSubSeqOrdered(got) == \A i, j \in 1..Len(got) : i < j => got[i] < got[j]
PendingFirstInOrder(got, early, late) ==
  \A i, j \in 1..Len(got) : (got[i] \in late /\ got[j] \in early) => j < i
=============================================================================
