-------------------------- MODULE SampleTrack_Trace --------------------------
(* Trace specification for C28.  Lines recorded from a real                  *)
(* TrackLocalStaticSample bound to a recording writer:                       *)
(*   start  [rate, seq0]        clock rate of the codec, initial sequence    *)
(*                              number given to the track                    *)
(*   sample [d, drop, pk]       one WriteSample call: duration (ns),         *)
(*                              PrevDroppedPackets, and the packets that     *)
(*                              reached the writer during the call:          *)
(*                              [seq, tsd] with tsd = (timestamp - initial   *)
(*                              timestamp) mod 2^32 read as signed 32 bit.   *)
(* The exact elapsed time is accumulated here, in integer arithmetic.        *)
EXTENDS SampleTrackOps, TraceKit

VARIABLES l, viol, cnt,
          rate,      \* clock rate of the running behaviour
          acc,       \* exact time of all earlier samples and skips
          prevSeq,   \* sequence number of the last packet seen (initially seq0 - 1)
          pend       \* sequence numbers skipped by samples that produced no packet

Preds(e) ==
  LET pk     == e.pk
      skip   == pend + e.drop
      before == AddTime(acc, rate, e.d, e.drop)      \* earlier samples + the duration skipped by this one
  IN {
   P("C28", "SameTsInSample", Len(pk) >= 2, SameTsInSample(pk)),
   P("C28", "TsNoDrift",      Len(pk) >= 1, TsNoDrift(pk, before)),
   P("C28", "SeqPlusOne",     Len(pk) >= 2 \/ (Len(pk) = 1 /\ skip = 0),
        SeqRunPlusOne(pk) /\ (skip = 0 => SeqAfter(pk, prevSeq, 0))),
   P("C28", "DropSkips",      Len(pk) >= 1 /\ skip > 0,
        SeqAfter(pk, prevSeq, skip) /\ TsNoDrift(pk, before))
  }

Init == l = 1 /\ viol = {} /\ cnt = EmptyCount /\ rate = 90000 /\ acc = ZeroTime /\ prevSeq = 0 /\ pend = 0

Step ==
  /\ l <= Len(Trace)
  /\ LET e == Trace[l] IN
       CASE e.ev = "start" ->
              /\ rate' = e.rate /\ acc' = ZeroTime /\ pend' = 0
              /\ prevSeq' = (e.seq0 + SeqMod - 1) % SeqMod
              /\ UNCHANGED <<viol, cnt>>
         [] e.ev = "sample" ->
              LET ps == Preds(e) IN
              /\ viol' = viol \cup Failures(ps, e, l)
              /\ cnt'  = Count(cnt, ps)
              /\ acc'  = AddTime(AddTime(acc, rate, e.d, e.drop), rate, e.d, 1)
              /\ prevSeq' = IF Len(e.pk) = 0 THEN prevSeq ELSE e.pk[Len(e.pk)].seq
              /\ pend' = IF Len(e.pk) = 0 THEN pend + e.drop ELSE 0
              /\ UNCHANGED rate
         [] OTHER -> UNCHANGED <<viol, cnt, rate, acc, prevSeq, pend>>      \* reset
  /\ l' = l + 1

Done == l = Len(Trace) + 1 /\ UNCHANGED <<l, viol, cnt, rate, acc, prevSeq, pend>>
Next == Step \/ Done
Rep  == Report(l, viol, cnt)
=============================================================================
