-------------------------- MODULE SampleTrack_Trace --------------------------
(* Trace specification for C28.  Lines recorded from a real                  *)
(* TrackLocalStaticSample bound to one or two recording senders:             *)
(*   start  [rate, seqopt, seq0, tsopt]  clock rate of the codec; whether    *)
(*          WithRTPSequenceNumber / WithRTPTimestamp were given (and seq0)   *)
(*   bind / unbind [b, res]     Bind / Unbind of sender b between samples    *)
(*   sample [d, drop, recv]     one WriteSample call: duration (ns),         *)
(*          PrevDroppedPackets, and per sender that is bound (or received    *)
(*          something) the packets that reached its writer during the call:  *)
(*          [seq, tsd] with tsd = (timestamp - reference) mod 2^32 read as   *)
(*          signed 32 bit; the reference is the initial timestamp given to   *)
(*          the track or, without that option, the first timestamp seen.     *)
(* The exact elapsed time is accumulated here, in integer arithmetic.  The   *)
(* stream of the track is what its first listed sender received; all other   *)
(* senders must have received exactly the same packets (one stream per       *)
(* track, whoever is bound and whenever they were bound).                    *)
EXTENDS SampleTrackOps, TraceKit

VARIABLES l, viol, cnt,
          rate,      \* clock rate of the running behaviour
          acc,       \* exact time of all earlier samples and skips
          prevSeq,   \* sequence number of the last packet seen; -1: none yet and no initial number known
          pend,      \* sequence numbers skipped by samples that produced no packet
          base       \* ticks at the reference point of tsd; -1: not fixed yet (no WithRTPTimestamp, nothing seen)

Shift(pk, by) == [i \in DOMAIN pk |-> [seq |-> pk[i].seq, tsd |-> pk[i].tsd + by]]

Preds(e) ==
  LET pk0    == IF Len(e.recv) = 0 THEN <<>> ELSE e.recv[1].pk
      skip   == pend + e.drop
      before == AddTime(acc, rate, e.d, e.drop)      \* earlier samples + the duration skipped by this one
      \* without WithRTPTimestamp the first packet seen defines the origin: nothing to judge on it
      tsKnown == base >= 0
      pk     == IF tsKnown THEN Shift(pk0, base) ELSE pk0
      seqKnown == prevSeq >= 0
  IN {
   P("C28", "SameTsInSample", Len(pk) >= 2, SameTsInSample(pk)),
   P("C28", "TsNoDrift",      Len(pk) >= 1 /\ tsKnown, TsNoDrift(pk, before)),
   P("C28", "SeqPlusOne",     Len(pk) >= 2 \/ (Len(pk) = 1 /\ skip = 0 /\ seqKnown),
        SeqRunPlusOne(pk) /\ ((skip = 0 /\ seqKnown) => SeqAfter(pk, prevSeq, 0))),
   P("C28", "DropSkips",      Len(pk) >= 1 /\ skip > 0 /\ (seqKnown \/ tsKnown),
        (seqKnown => SeqAfter(pk, prevSeq, skip)) /\ (tsKnown => TsNoDrift(pk, before))),
   \* every listed sender is bound and got the same packets
   P("C28", "BindingsAgree",  Len(e.recv) >= 2 \/ (Len(e.recv) = 1 /\ ~e.recv[1].bound),
        \A i \in DOMAIN e.recv : e.recv[i].bound /\ e.recv[i].pk = e.recv[1].pk)
  }

Init == l = 1 /\ viol = {} /\ cnt = EmptyCount /\ rate = 90000 /\ acc = ZeroTime /\ prevSeq = 0 /\ pend = 0 /\ base = 0

Step ==
  /\ l <= Len(Trace)
  /\ LET e == Trace[l] IN
       CASE e.ev = "start" ->
              /\ rate' = e.rate /\ acc' = ZeroTime /\ pend' = 0
              /\ prevSeq' = IF e.seqopt THEN (e.seq0 + SeqMod - 1) % SeqMod ELSE -1
              /\ base' = IF e.tsopt THEN 0 ELSE -1
              /\ UNCHANGED <<viol, cnt>>
         [] e.ev = "sample" ->
              LET ps  == Preds(e)
                  pk0 == IF Len(e.recv) = 0 THEN <<>> ELSE e.recv[1].pk
                  before == AddTime(acc, rate, e.d, e.drop)
              IN
              /\ viol' = viol \cup Failures(ps, e, l)
              /\ cnt'  = Count(cnt, ps)
              /\ acc'  = AddTime(before, rate, e.d, 1)
              /\ prevSeq' = IF Len(pk0) = 0 THEN prevSeq ELSE pk0[Len(pk0)].seq
              /\ pend' = IF Len(pk0) = 0 THEN pend + e.drop ELSE 0
              \* the first packet seen has tsd = 0 by construction of the reference: it sits at floor(before)
              /\ base' = IF base < 0 /\ Len(pk0) > 0 THEN FloorTicks(before) - pk0[1].tsd ELSE base
              /\ UNCHANGED rate
         [] OTHER -> UNCHANGED <<viol, cnt, rate, acc, prevSeq, pend, base>>      \* reset, bind, unbind
  /\ l' = l + 1

Done == l = Len(Trace) + 1 /\ UNCHANGED <<l, viol, cnt, rate, acc, prevSeq, pend, base>>
Next == Step \/ Done
Rep  == Report(l, viol, cnt)
=============================================================================
