CONSTANTS
  Impl = "intended"
INIT Init
NEXT Next
INVARIANTS ModelRoundTrip AsIsFailures TableFacts EmitVec
CHECK_DEADLOCK FALSE
