CONSTANTS
  Impl = "intended"
  Codecs = {"h264", "h265"}
  MTUs = {1200}
  Sizes = {"s", "L256", "L300"}
  MaxNals = 3
  Openers = {FALSE}
  Aggs = {TRUE}
  Types264 = {1, 5, 7, 8}
  Types265 = {1, 19, 39}
  Emit = TRUE
INIT Init
NEXT Next
INVARIANTS Correct TailAlways PktfixExactUnlessAggN EmitVec
CHECK_DEADLOCK FALSE
