CONSTANTS
  Impl = "intended"
  Space = "thorough"
INIT Init
NEXT Next
INVARIANTS ModelCodecLaw ModelWriterImplementsFormat ModelRefusesIff ModelRoundTrip ModelReaderRejects ModelGoodPrefix
CHECK_DEADLOCK FALSE
