--------------------------- MODULE ConnState_Trace ---------------------------
(* Trace specification for C22.                                             *)
(*  upd  : one call of updateConnectionState(ice, dtls) on a real            *)
(*         PeerConnection whose isClosed was preset to `closed`; before /    *)
(*         after = ConnectionState() around the call; notes = the values the *)
(*         OnConnectionStateChange handler was invoked with because of it.   *)
(*  pair : what one side of a real connected (phase "up") and then closed    *)
(*         (phase "down") pion pair reported: the set of ICE connection      *)
(*         states and DTLS transport states it went through (recorded        *)
(*         synchronously, "new" included), the connection states reported to *)
(*         the handler (asynchronous, unordered), and a few stable samples   *)
(*         (ice, dtls, connection state read between equal transport reads). *)
EXTENDS ConnStateOps, TraceKit

VARIABLES l, viol, cnt

KnownIn(e) == e.ice \in ICEStates /\ e.dtls \in DTLSStates

UpdPreds(e) == {
   P("C22", "Aggregate", KnownIn(e), C22_Aggregate(e.closed, e.ice, e.dtls, e.after)),
   P("C22", "NotifyOnlyIfChanged", TRUE, C22_NotifyOnlyIfChanged(e.before, e.after, e.notes)),
   P("C22", "NotifiedWhenChanged", e.after # e.before, C22_NotifiedWhenChanged(e.before, e.after, e.notes))
  }

SeqSet(s) == {s[k] : k \in 1..Len(s)}

PairPreds(e) ==
  LET ices == SeqSet(e.ices) \cap ICEStates
      dtls == SeqSet(e.dtlss) \cap DTLSStates
      cs   == SeqSet(e.closedSeen)
  IN {
   \* every reported state is the aggregate of some combination the connection went through
   P("C22", "ReportedIsSomeAggregate", e.driven /\ Len(e.conns) > 0,
        \A k \in 1..Len(e.conns) : C22_ReportedIsSomeAggregate(e.conns[k], cs, ices, dtls)),
   \* at rest the state is the aggregate of the transports' states: at least one of the stable samples
   \* must show it (a sample can fall between a transport's store and the update that follows it)
   P("C22", "AggregateAtRest", e.driven /\ Len(e.snaps) > 0,
        \E k \in 1..Len(e.snaps) :
            LET s == e.snaps[k] IN
            s.ice \in ICEStates /\ s.dtls \in DTLSStates /\ C22_Aggregate(s.closed, s.ice, s.dtls, s.conn))
  }

Init == l = 1 /\ viol = {} /\ cnt = EmptyCount

Step ==
  /\ l <= Len(Trace)
  /\ LET e == Trace[l] IN
       IF e.ev = "reset" THEN UNCHANGED <<viol, cnt>>
       ELSE LET ps == IF e.ev = "upd" THEN UpdPreds(e) ELSE PairPreds(e) IN
            /\ viol' = viol \cup Failures(ps, e, l)
            /\ cnt'  = Count(cnt, ps)
  /\ l' = l + 1

Done == l = Len(Trace) + 1 /\ UNCHANGED <<l, viol, cnt>>
Next == Step \/ Done
Rep  == Report(l, viol, cnt)
=============================================================================
