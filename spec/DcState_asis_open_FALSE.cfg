CONSTANTS
  defaultInitValue = "connecting"
  Impl = "asis"
  Start = "open"
  WithP = FALSE
SPECIFICATION Spec
INVARIANTS EmitInitInv 

ACTION_CONSTRAINT EmitEdge
CHECK_DEADLOCK FALSE
