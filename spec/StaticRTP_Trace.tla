--------------------------- MODULE StaticRTP_Trace ---------------------------
(* Trace specification for C29.  Lines recorded from a real                  *)
(* TrackLocalStaticRTP:                                                      *)
(*   bind   [id, ssrc, pt, res]      Bind(ctx) returned res                  *)
(*   unbind [id, res]                Unbind(ctx) returned res                *)
(*   write  [api, in, after, recv]   one WriteRTP / Write call: deep         *)
(*          snapshots of the caller's packet before / after, and what the    *)
(*          senders' writers were handed during the call, in order.          *)
(* The set of currently bound senders is reconstructed here from the         *)
(* results of the Bind / Unbind calls (not taken from the driver).           *)
EXTENDS StaticRTPOps, TraceKit

VARIABLES l, viol, cnt,
          bset,   \* ids bound by the recorded history
          gone,   \* ids that were bound and have been unbound
          ctx     \* id -> [ssrc, pt] negotiated for the sender (from the bind line)

Preds(e) ==
  IF e.ev # "write" THEN {}
  ELSE {
   P("C29", "EachBoundOnce",   bset # {},      EachBoundOnce(bset, e.recv)),
   \* deliveries only to bound senders; counted as exercised when some sender has been removed
   P("C29", "NoneAfterUnbind", gone # {},      OnlyBound(bset, e.recv)),
   P("C29", "OnlyBound",       TRUE,           OnlyBound(bset, e.recv)),
   P("C29", "RewrittenHeader", Len(e.recv) > 0, RewrittenHeader(ctx, e.recv)),
   P("C29", "RestUnchanged",   Len(e.recv) > 0, RestUnchanged(e.in.rest, e.recv)),
   P("C29", "CallerUntouched", TRUE,           CallerUntouched(e.in, e.after))
  }

Init == l = 1 /\ viol = {} /\ cnt = EmptyCount /\ bset = {} /\ gone = {} /\ ctx = [x \in {} |-> 0]

Step ==
  /\ l <= Len(Trace)
  /\ LET e == Trace[l] IN
       CASE e.ev = "reset" ->
              /\ bset' = {} /\ gone' = {} /\ ctx' = [x \in {} |-> 0]
              /\ UNCHANGED <<viol, cnt>>
         [] e.ev = "bind" ->
              /\ IF e.res = "ok"
                 THEN /\ bset' = bset \cup {e.id} /\ gone' = gone \ {e.id}
                      /\ ctx' = [x \in (DOMAIN ctx) \cup {e.id} |->
                                   IF x = e.id THEN [ssrc |-> e.ssrc, pt |-> e.pt] ELSE ctx[x]]
                 ELSE UNCHANGED <<bset, gone, ctx>>
              /\ UNCHANGED <<viol, cnt>>
         [] e.ev = "unbind" ->
              /\ IF e.res = "ok"
                 THEN /\ bset' = bset \ {e.id}
                      /\ gone' = IF e.id \in bset THEN gone \cup {e.id} ELSE gone
                 ELSE UNCHANGED <<bset, gone>>
              /\ UNCHANGED <<ctx, viol, cnt>>
         [] OTHER ->
              LET ps == Preds(e) IN
              /\ viol' = viol \cup Failures(ps, e, l)
              /\ cnt'  = Count(cnt, ps)
              /\ UNCHANGED <<bset, gone, ctx>>
  /\ l' = l + 1

Done == l = Len(Trace) + 1 /\ UNCHANGED <<l, viol, cnt, bset, gone, ctx>>
Next == Step \/ Done
Rep  == Report(l, viol, cnt)
=============================================================================
