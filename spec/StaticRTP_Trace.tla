--------------------------- MODULE StaticRTP_Trace ---------------------------
(* Trace specification for C29.  Lines recorded from a real                  *)
(* TrackLocalStaticRTP:                                                      *)
(*   bind   [id, ssrc, pt, res]      Bind(ctx) returned res                  *)
(*   unbind [id, res]                Unbind(ctx) returned res                *)
(*   write  [api, in, after, recv]   one WriteRTP / Write call: deep         *)
(*          snapshots of the caller's packet before / after, and what the    *)
(*          senders' writers were handed during the call, in order; conc =   *)
(*          a Bind / Unbind call made while the write was held at its first  *)
(*          sender (op "none" when there was none).                          *)
(* The set of currently bound senders is reconstructed here from the         *)
(* results of the Bind / Unbind calls (not taken from the driver).           *)
EXTENDS StaticRTPOps, TraceKit

VARIABLES l, viol, cnt,
          bset,   \* ids bound by the recorded history
          gone,   \* ids that were bound and have been unbound
          ctx     \* id -> [ssrc, pt] negotiated for the sender (from the bind line)

\* A write line may carry a concurrent call (conc.op = "Bind" / "Unbind"): the driver held the write
\* at its first sender, started that call on another goroutine and then let the write go on.  The two
\* calls overlap, so the deliveries must be right for the senders bound before the concurrent call
\* (S0) or for those bound after it (S1).  When neither fits, the individual predicates are reported
\* against S0 (the set the write began with).
After(S, c) == IF c.res # "ok" THEN S
               ELSE IF c.op = "Bind" THEN S \cup {c.id}
               ELSE IF c.op = "Unbind" THEN S \ {c.id} ELSE S
CtxWith(c) == IF c.op = "Bind" THEN [x \in (DOMAIN ctx) \cup {c.id} |-> IF x = c.id THEN [ssrc |-> c.ssrc, pt |-> c.pt] ELSE ctx[x]]
              ELSE ctx
Preds(e) ==
  IF e.ev # "write" THEN {}
  ELSE
  LET over == e.conc.op # "none"
      s1   == After(bset, e.conc)
      lin  == over /\ (LinearizedOn(bset, e.recv) \/ LinearizedOn(s1, e.recv))   \* some order of the two calls explains it
      cx   == CtxWith(e.conc)
  IN {
   P("C29", "EachBoundOnce",   bset # {},      lin \/ EachBoundOnce(bset, e.recv)),
   \* deliveries only to bound senders; counted as exercised when some sender has been removed
   P("C29", "NoneAfterUnbind", gone # {},      lin \/ OnlyBound(bset, e.recv)),
   P("C29", "OnlyBound",       TRUE,           lin \/ OnlyBound(bset, e.recv)),
   P("C29", "OverlapLinearizable", over,       lin),
   P("C29", "RewrittenHeader", Len(e.recv) > 0, RewrittenHeader(cx, e.recv)),
   P("C29", "RestUnchanged",   Len(e.recv) > 0, RestUnchanged(e.in.rest, e.recv)),
   P("C29", "CallerUntouched", TRUE,           CallerUntouched(e.in, e.after))
  }

Init == l = 1 /\ viol = {} /\ cnt = EmptyCount /\ bset = {} /\ gone = {} /\ ctx = [x \in {} |-> 0]

Step ==
  /\ l <= Len(Trace)
  /\ LET e == Trace[l] IN
       CASE e.ev = "reset" ->
              /\ bset' = {} /\ gone' = {} /\ ctx' = [x \in {} |-> 0]
              /\ UNCHANGED <<viol, cnt>>
         [] e.ev = "bind" ->
              /\ IF e.res = "ok"
                 THEN /\ bset' = bset \cup {e.id} /\ gone' = gone \ {e.id}
                      /\ ctx' = [x \in (DOMAIN ctx) \cup {e.id} |->
                                   IF x = e.id THEN [ssrc |-> e.ssrc, pt |-> e.pt] ELSE ctx[x]]
                 ELSE UNCHANGED <<bset, gone, ctx>>
              /\ UNCHANGED <<viol, cnt>>
         [] e.ev = "unbind" ->
              /\ IF e.res = "ok"
                 THEN /\ bset' = bset \ {e.id}
                      /\ gone' = IF e.id \in bset THEN gone \cup {e.id} ELSE gone
                 ELSE UNCHANGED <<bset, gone>>
              /\ UNCHANGED <<ctx, viol, cnt>>
         [] e.ev = "write" ->
              LET ps == Preds(e) IN
              /\ viol' = viol \cup Failures(ps, e, l)
              /\ cnt'  = Count(cnt, ps)
              \* the concurrent call has taken effect by the end of the line
              /\ bset' = After(bset, e.conc)
              /\ gone' = IF e.conc.res # "ok" THEN gone
                         ELSE IF e.conc.op = "Unbind" /\ e.conc.id \in bset THEN gone \cup {e.conc.id}
                         ELSE IF e.conc.op = "Bind" THEN gone \ {e.conc.id} ELSE gone
              /\ ctx' = IF e.conc.res = "ok" THEN CtxWith(e.conc) ELSE ctx
         [] OTHER -> UNCHANGED <<viol, cnt, bset, gone, ctx>>
  /\ l' = l + 1

Done == l = Len(Trace) + 1 /\ UNCHANGED <<l, viol, cnt, bset, gone, ctx>>
Next == Step \/ Done
Rep  == Report(l, viol, cnt)
=============================================================================
