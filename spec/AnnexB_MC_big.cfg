CONSTANTS
  Impl = "intended"
  ReadImpl = "intended"
  EofWithData = TRUE
  MaxNalLen = 4
  MaxChunk = 4
  HdrSyms = {"S", "H", "Z", "O"}
  BodySyms = {"Z", "O", "F", "S"}
SPECIFICATION Spec
INVARIANTS TypeOK Exact
PROPERTIES Terminates
CHECK_DEADLOCK FALSE
