CONSTANTS
  defaultInitValue = "connecting"
  Impl = "loadstore"
  Start = "connecting"
  WithP = TRUE
SPECIFICATION Spec
INVARIANTS Monotone
CHECK_DEADLOCK FALSE
