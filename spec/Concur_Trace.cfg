INIT Init
NEXT Next
INVARIANT Rep
CHECK_DEADLOCK FALSE
