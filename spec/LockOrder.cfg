CONSTANTS
  Threads = {"t1", "t2", "t3"}
  CallNames = {"AddTrack", "RemoveTrack", "AddTransceiver", "CreateDataChannel", "GetTransceivers", "GetStats", "CreateOffer", "SetDescription", "Close", "NegNeededOp"}
INIT Init
NEXT Next
INVARIANTS HeldConsistent EndsClean
CHECK_DEADLOCK TRUE
