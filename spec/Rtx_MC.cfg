\* exhaustive check of the transcribed algorithm; the buffer is 370 bytes here (and the mid-size payload 20 instead of 100; the algorithm
\* does not depend on the size; the replayed layouts of Rtx_Vec.cfg use the real 1500)
CONSTANTS
  XProfs = {"bede", "two", "gen"}
  XLens = {0, 1, 3}
  Pads = {0, 1, 4, 255}
  PLens = {0, 1, 2, 3, 20, 9999}
  Markers = {0, 1}
  MTU = 370
INIT Init
NEXT Next
INVARIANTS ModelDelivered ModelDropped ModelNoStale ModelLayout
CHECK_DEADLOCK FALSE
