\* thorough tier: denser layout space
CONSTANTS
  XProfs = {"bede", "two", "gen"}
  XLens = {0, 1, 2, 3, 4, 16}
  Pads = {0, 1, 2, 3, 4, 5, 8, 255}
  PLens = {0, 1, 2, 3, 4, 5, 6, 7, 8, 100, 9999}
  Markers = {0, 1}
  MTU = 520
INIT Init
NEXT Next
INVARIANTS ModelDelivered ModelDropped ModelNoStale ModelLayout
CHECK_DEADLOCK FALSE
