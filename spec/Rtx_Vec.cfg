\* the layouts that are replayed (initial states only)
CONSTANTS
  XProfs = {"bede", "two", "gen"}
  XLens = {0, 1, 3}
  Pads = {0, 1, 4, 255}
  PLens = {0, 1, 2, 3, 100, 9999}
  Markers = {0, 1}
  MTU = 1500
INIT InitVec
NEXT NoNext
INVARIANTS EmitVec
CHECK_DEADLOCK FALSE
