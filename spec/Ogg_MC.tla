------------------------------- MODULE Ogg_MC -------------------------------
(* Constant sets for the configurations of Ogg.tla, and the exhaustive       *)
(* lacing check (evaluated once, as an assumption of the module).            *)
EXTENDS Ogg

\* sizes at the lacing boundaries: one value short of, exactly, and one past k*255 and 255*255
SizesEdge  == {1, 254, 255, 256, 509, 510, 511, 65024, 65025, 65026}
SizesFew   == {1, 255, 65025, 65026}
\* TOC bytes used exhaustively: 0 = SILK NB 10 ms, one frame (480 samples); 217 = CELT SWB 20 ms, two frames (1920);
\* 99 = Hybrid SWB 10 ms, code 3: with second byte 3 three frames (1440), with 13 thirteen frames (6240 > 5760: refused),
\* with 0 no frame (refused), with a single byte no count (refused)
Bytes      == 0..255
ChAll      == {"c1", "c2", "f1m", "f1s", "f2", "f255"}
ChTwo      == {"c2", "f255"}
TagAll     == {"def", "empty", "vendor", "c2", "big"}
TagTwo     == {"def", "big"}
RatesOne   == {48000}
RatesAll   == {48000, 8000, 16000, 44100}

\* ---- lacing, checked for every length in the ranges around k*255, 255*255 and 2*255*255 ----
OnePacket(n) == CreatePages(n, 0, TRUE, {}, 7, 1, 0, <<1, 1>>, "other")
RECURSIVE AllSegs(_, _)
AllSegs(ps, i) == IF i > Len(ps) THEN <<>> ELSE Expand(ps[i].segs) \o AllSegs(ps, i + 1)
LacingRoundTrip(n) ==
  LET ps == OnePacket(n) J == Join(ps) IN
  /\ AllSegs(ps, 1) = Lacing(n)                                   \* the pages carry exactly the lacing of n
  /\ \A i \in 1..Len(ps) : NSegs(ps[i].segs) <= 255 /\ ps[i].cont = (i > 1)
  /\ \A i \in 1..(Len(ps) - 1) : NSegs(ps[i].segs) = 255 /\ ps[i].gran = -1
  /\ ps[Len(ps)].gran = 7
  /\ J.pk = <<n>> /\ ~J.open /\ J.fins = [i \in 1..Len(ps) |-> IF i = Len(ps) THEN 1 ELSE 0]
LaceLengths == (0..1300) \cup (64700..65400) \cup (129900..130200)
ASSUME LacingHolds == \A n \in LaceLengths : LacingRoundTrip(n)
=============================================================================
