CONSTANTS
  Impl = "asis"
  Twice = FALSE
  N = 2200
INIT Init
NEXT Next
INVARIANTS ModelHolds ModelClasses EmitVec
CHECK_DEADLOCK FALSE
