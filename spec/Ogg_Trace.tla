----------------------------- MODULE Ogg_Trace ------------------------------
(* Trace specification for C33. One behaviour = one session of a real Ogg   *)
(* writer (legacy New / NewWith, multi-track NewWriter with or without      *)
(* WithSeekableOutput), closed, whose output bytes were parsed              *)
(*   page    one line per page, in file order, by an independent parser     *)
(*           with its own CRC; what OggReader (checksum on) said about the  *)
(*           same page;                                                     *)
(*   stream  one line per logical stream: the packets that were written     *)
(*           (length, hash, TOC byte, second byte), the packets recovered   *)
(*           by joining the stream's pages, configured and read-back header *)
(*           fields;                                                        *)
(*   file    totals.                                                        *)
(* The pages of the behaviour are kept in `hist`; stream predicates are     *)
(* evaluated on the pages of that stream, in file order.                    *)
EXTENDS OggOps, TraceKit

VARIABLES l, viol, cnt, hist

PagesOf(t) == SelectSeq(hist, LAMBDA p : p.tr = t)
NH(s) == [j \in 1..Len(s) |-> [n |-> s[j].n, h |-> s[j].h]]

Preds(e) ==
  IF e.ev = "page" THEN {
     \* every page has a valid CRC: recomputed independently, and accepted by OggReader's checksum
     P("C33", "CrcValid", TRUE, e.crc_ok),
     P("C33", "ReaderAcceptsPage", TRUE, e.rd = "ok" /\ e.rd_same),
     P("C33", "PageShape", TRUE, e.version = 0 /\ e.nseg <= 255 /\ NSegs(e.segs) = e.nseg /\ SegBytes(e.segs) = e.len)
  }
  ELSE IF e.ev = "stream" THEN
     LET ps == PagesOf(e.tr)
         lens == [j \in 1..Len(e.wr) |-> e.wr[j].n]
         smp  == [j \in 1..Len(e.wr) |-> SamplesOf(e.wr[j].toc, e.wr[j].b1)]
     IN {
     P("C33", "Bos", TRUE, StreamBos(ps)),
     P("C33", "TagsSecond", TRUE, StreamTagsSecond(ps)),
     P("C33", "SeqFromZero", TRUE, StreamSeq(ps)),
     P("C33", "LastPageEos", TRUE, StreamEos(ps)),
     P("C33", "GranuleExact", Len(ps) > 0, GranuleExact(ps, smp)),
     P("C33", "GranuleMonotone", Len(ps) > 0, GranuleMonotone(ps)),
     \* joining the pages (TLC, from the recorded segment tables and continuation flags)
     P("C33", "PacketLengths", TRUE, PacketLengthsRoundTrip(ps, lens)),
     \* the same join done on the bytes by the projector: same packets, byte for byte
     P("C33", "PacketsRoundTrip", TRUE, ~e.dangling /\ e.nrec = 2 + Len(e.wr) /\ PacketsSame(e.rec, NH(e.wr))),
     \* OpusHead / OpusTags parsed by the reader package from the first two recovered packets
     P("C33", "HeaderFields", TRUE, e.hdr_got = e.hdr_exp)
  }
  ELSE IF e.ev = "file" THEN {
     \* the output consists of pages of the declared streams only, and the reader ends cleanly after the last
     P("C33", "OnlyPages", TRUE, e.rest = 0 /\ e.unknown_serial = 0 /\ e.rdend = "eof")
  }
  ELSE {}

Init == l = 1 /\ viol = {} /\ cnt = EmptyCount /\ hist = <<>>

Step ==
  /\ l <= Len(Trace)
  /\ LET e == Trace[l] ps == Preds(e) IN
       /\ viol' = viol \cup Failures(ps, e, l)
       /\ cnt'  = Count(cnt, ps)
       /\ hist' = IF e.ev = "reset" THEN <<>> ELSE IF e.ev = "page" THEN Append(hist, [e EXCEPT !.seq = e.pseq]) ELSE hist   \* "seq" is the line number the recorder adds
  /\ l' = l + 1

Done == l = Len(Trace) + 1 /\ UNCHANGED <<l, viol, cnt, hist>>
Next == Step \/ Done
Rep  == Report(l, viol, cnt)
=============================================================================
