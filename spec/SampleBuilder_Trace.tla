-------------------------- MODULE SampleBuilder_Trace --------------------------
(* Trace specification for C31.  One line per session run on a real          *)
(* samplebuilder.SampleBuilder (fake depacketizer: every packet's payload is *)
(* its tag):                                                                 *)
(*   session [maxLate, delay, stream, pushes, samples, flushAt, lastPushAt,  *)
(*            firstPopAt]   see SampleBuilderOps for the vocabulary           *)
(*   hang    [call]         a call of the public API did not return within   *)
(*                          the watchdog (two orders of magnitude above the  *)
(*                          slowest legitimate session)                      *)
(*   skipped                session not run (after repeated hangs)           *)
(* All five normative predicates are evaluated on every session; the four    *)
(* safety predicates whatever happened in it, completeness under its         *)
(* premise.  Failures carry the abstract shape of what went wrong.           *)
EXTENDS SampleBuilderOps, TraceKit

VARIABLES l, viol, cnt

M == 65536

\* refinement of the "older" shape with the arrival order (diagnostic label only): did some packet of
\* the sample that came out late reach the builder (for the first time or as a duplicate) only after
\* every packet of its predecessor had arrived?  Then the builder had moved on when it came
\* ("late arrival"); otherwise everything was in the buffer and still came out in the wrong order.
FirstPushIdx(pu, tag) == CHOOSE i \in DOMAIN pu : pu[i].tag = tag /\ \A j \in DOMAIN pu : pu[j].tag = tag => i <= j
LastPushIdx(pu, tag)  == CHOOSE i \in DOMAIN pu : pu[i].tag = tag /\ \A j \in DOMAIN pu : pu[j].tag = tag => i >= j
Pushed(pu, tag) == \E i \in DOMAIN pu : pu[i].tag = tag
ArrivedLate(st, pu, prev, s) ==
  /\ \A k \in DOMAIN prev.tags : Pushed(pu, prev.tags[k])
  /\ \E k \in DOMAIN s.tags :
        /\ Pushed(pu, s.tags[k])
        /\ \A k2 \in DOMAIN prev.tags : LastPushIdx(pu, s.tags[k]) > FirstPushIdx(pu, prev.tags[k2])
OrderShape(st, pu, sm, i) ==
  LET sh == InOrderShape(st, sm, i, M) IN
  IF sh = "older" THEN (IF ArrivedLate(st, pu, sm[i - 1], sm[i]) THEN "older-late-arrival" ELSE "older-was-buffered")
  ELSE sh
OrderShapes == {"repeat", "older-late-arrival", "older-was-buffered", "other"}

\* A failure's label = its shape, the situation in which the builder accepted the packets of the
\* sample that came out wrongly (SampleBuilderOps.SampleContext) and the class of maxLate.
SetOf(seq) == {seq[i] : i \in DOMAIN seq}
Label(sh, e, i) == sh \o ":" \o SampleContext(e.stream, e.pushes, e.samples, SetOf(e.popCalls), SetOf(e.flushes), i, M)
                      \o ":" \o WindowClass(e.maxLate)

Preds(e) ==
  IF e.ev = "hang" THEN {P("C31", "CallsReturn", TRUE, FALSE)}
  ELSE IF e.ev # "session" THEN {}
  ELSE
  LET st == e.stream
      pu == e.pushes
      sm == e.samples
      n  == Len(sm)
      prem == CompletenessPremise(st, pu, e.maxLate, e.delay = 0 \/ e.tsSpan <= e.delay, e.flushAt, e.lastPushAt, e.firstPopAt, M)
      \* labels of the InOrder / NoPacketTwice failures of this session (empty when the predicate holds)
      ordBad   == {Label(OrderShape(st, pu, sm, i), e, i) : i \in {j \in 2..n : ~InOrder(st, sm[j - 1], sm[j], M)}}
      twiceBad == {Label(ReuseShape(sm, i), e, i) : i \in {j \in 1..n : ReusesPacket(sm, j)}}
  IN {P("C31", "CallsReturn", TRUE, TRUE),
      P("C31", "ContiguousSameTs", n >= 1, \A i \in 1..n : ContiguousSameTs(st, pu, sm[i], M)),
      P("C31", "StartsAtHead",     n >= 1, \A i \in 1..n : StartsAtHead(st, sm[i])),
      PD("C31", "CompleteAfterFlush", prem, CompleteAfterFlush(st, sm),
         IF WrapTag(st) # 0 THEN "seqwrap" ELSE "nowrap"),
      \* one instance per predicate for the count of evaluations, one per label for the failures
      P("C31", "InOrder", n >= 2, TRUE), P("C31", "NoPacketTwice", n >= 1, TRUE)}
     \cup {PD("C31", "InOrder", TRUE, FALSE, lb) : lb \in ordBad}
     \cup {PD("C31", "NoPacketTwice", TRUE, FALSE, lb) : lb \in twiceBad}

Init == l = 1 /\ viol = {} /\ cnt = EmptyCount

Step ==
  /\ l <= Len(Trace)
  /\ LET e == Trace[l] ps == Preds(e) IN
       /\ viol' = viol \cup Failures(ps, e, l)
       /\ cnt'  = Count(cnt, ps)
  /\ l' = l + 1

Done == l = Len(Trace) + 1 /\ UNCHANGED <<l, viol, cnt>>
Next == Step \/ Done
Rep  == Report(l, viol, cnt)
=============================================================================
