------------------------------ MODULE AnnexBOps ------------------------------
(* Normative operators for the Annex-B family:                               *)
(*   C34  Annex-B readers return exactly the framed NAL units                *)
(*   C35  H.264/H.265 writers emit the packetized NAL units from the first   *)
(*        keyframe onward                                                    *)
(* No variables.  Used as invariants of the generative models (AnnexB.tla,  *)
(* AnnexBVec.tla, AnnexBWriter.tla) and as predicates on lines recorded from *)
(* the real readers / writers (AnnexB_Trace.tla).                            *)
EXTENDS Naturals, Sequences, FiniteSets

\* ---------------------------------------------------------------- C34 ----
\* Which unit is an SEI unit is decided by its first header byte:
\*   H.264: nal_unit_type = low 5 bits = 6
\*   H.265: nal_unit_type = bits 6..1  = 39 (prefix SEI) or 40 (suffix SEI)
IsSei264(h0) == h0 % 32 = 6
IsSei265(h0) == (h0 \div 2) % 64 \in {39, 40}
IsSeiByte(codec, h0) == IF codec = "h264" THEN IsSei264(h0) ELSE IsSei265(h0)

\* "With SEI inclusion off, SEI units are skipped wherever they occur":
\* what the reader has to return for the framed units `nals`.
Filter(nals, Sei(_), include) ==
  IF include THEN nals ELSE SelectSeq(nals, LAMBDA n : ~Sei(n))

\* The statement "returns exactly those NAL units in order (SEI skipped)" is
\*   out = Filter(nals).
\* It is evaluated as two conjuncts so that a failure says which clause broke:
\*   ExactNals  : apart from SEI units, the returned units are the framed ones, in order
\*   SeiSkipped : with inclusion off no returned unit is an SEI unit
\* ExactNals /\ SeiSkipped  <=>  out = Filter(nals)   (checked on the model: AnnexBVec!SplitIsExact)
Returned(out, nals, Sei(_), include)  == out = Filter(nals, Sei, include)
ExactNals(out, nals, Sei(_), include) == Filter(out, Sei, include) = Filter(nals, Sei, include)
SeiSkipped(out, Sei(_), include)      == include \/ \A i \in 1..Len(out) : ~Sei(out[i])

\* Preconditions of the property on one unit, over any alphabet with a zero
\* symbol z and a one symbol o: not empty, no emulated start code (z z o), no
\* trailing zero byte.
NoStartCode(n, z, o) == \A i \in 1..Len(n) : (i + 2 <= Len(n)) => ~(n[i] = z /\ n[i+1] = z /\ n[i+2] = o)
ValidNal(n, z, o)    == Len(n) >= 1 /\ n[Len(n)] # z /\ NoStartCode(n, z, o)

StartCode(w, z, o) == IF w = 3 THEN <<z, z, o>> ELSE <<z, z, z, o>>

\* "the parsed header fields match the unit's header bytes" (H.264: 1 header byte,
\* H.265: 2 header bytes, RFC 7798 1.1.4)
Hdr264(h0)     == [fz |-> h0 \div 128, ref |-> (h0 \div 32) % 4, ty |-> h0 % 32]
Hdr265(h0, h1) == [fz |-> h0 \div 128, ty |-> (h0 \div 2) % 64,
                   lay |-> (h0 % 2) * 32 + (h1 \div 8), tid |-> h1 % 8]

\* ---------------------------------------------------------------- C35 ----
\* "A keyframe here means the first SPS or IDR for H.264, and the first
\*  VPS/SPS/PPS/IDR for H.265" -- by NAL unit type number.
KeyTypes(codec) == IF codec = "h264" THEN {5, 7} ELSE {19, 20, 32, 33, 34}

\* index of the first unit whose type is a key type, 0 if there is none
FirstKey(types, codec) ==
  IF \E i \in 1..Len(types) : types[i] \in KeyTypes(codec)
  THEN CHOOSE i \in 1..Len(types) :
         /\ types[i] \in KeyTypes(codec)
         /\ \A j \in 1..(i-1) : types[j] \notin KeyTypes(codec)
  ELSE 0

\* "exactly the NAL units from the first keyframe onward, in order"
FromKey(seq, k) == IF k = 0 THEN <<>> ELSE SubSeq(seq, k, Len(seq))

IsSuffix(out, seq) ==
  /\ Len(out) <= Len(seq)
  /\ out = SubSeq(seq, Len(seq) - Len(out) + 1, Len(seq))
=============================================================================
