CONSTANTS
  MaxNals = 2
  MaxNalLen = 4
  HdrSyms = {"S", "H", "Z", "O"}
  BodySyms = {"Z", "O", "F"}
  Sample = 120
  Emit = TRUE
INIT Init
NEXT Next
INVARIANTS CurrentExact SplitIsExact PinnedExactWhenIncluded PinnedCharacterised EmitVec
CHECK_DEADLOCK FALSE
