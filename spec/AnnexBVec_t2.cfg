CONSTANTS
  MaxNals = 2
  MaxNalLen = 4
  HdrSyms = {"S", "H", "Z", "O"}
  BodySyms = {"Z", "O", "F"}
  Sample = 120
  Emit = TRUE
INIT Init
NEXT Next
INVARIANTS IntendedExact AsisExactWhenIncluded AsisCharacterised SplitIsExact EmitVec
CHECK_DEADLOCK FALSE
