-------------------------------- MODULE Mux --------------------------------
(* internal/mux: the read loop's dispatch versus NewEndpoint and the flush   *)
(* of datagrams that arrived before the endpoint existed (C27, order part).  *)
(* One label per segment between yield points ("mux.*" hooks in mux.go).     *)
(*   Impl = "asis" : NewEndpoint registers under the lock and flushes the    *)
(*                   pending datagrams in a goroutine of its own             *)
(*   Impl = "fixed": the flush happens inside the registration's critical    *)
(*                   section                                                 *)
EXTENDS MuxOps, TLC, Json

CONSTANTS Impl, NBefore, NAfter
N == NBefore + NAfter

(* --algorithm Mux {
variables sent = 0,            \* datagrams written to the transport so far (ids 1..N in order)
          pending = <<>>,      \* m.pendingPackets
          registered = FALSE,  \* endpoint present in m.endpoints
          created = FALSE,     \* NewEndpoint returned
          buf = <<>>,          \* the endpoint's buffer, in write order
          flusher = FALSE,     \* go m.handlePendingPackets(...) started
          early = {}, late = {};

\* the test goroutine: writes datagrams and creates the endpoint
process (D = "D") variable k = 0; {
  dBefore: while (k < NBefore) { sent := sent + 1; early := early \cup {sent}; k := k + 1 };
  dCreate: registered := TRUE;                      \* lock; m.endpoints[e] = f; (flush); unlock
           if (Impl = "fixed") { buf := buf \o pending; pending := <<>> }
           else { flusher := TRUE };
           created := TRUE;
  dAfter:  while (k < N) { sent := sent + 1; late := late \cup {sent}; k := k + 1 };
}

\* the mux read loop
fair process (R = "R") variable i = 1, hit = FALSE; {
  rRead:  while (i <= N) {
            await sent >= i;                          \* nextConn.Read returned datagram i
  rMatch:   if (registered) { hit := TRUE }           \* dispatch: lock, match, unlock
            else { pending := Append(pending, i); hit := FALSE; i := i + 1; goto rRead };
  rWrite:   buf := Append(buf, i); i := i + 1;        \* endpoint.buffer.Write outside the lock
          }
}

\* handlePendingPackets in its own goroutine (as-is variant only)
fair process (F = "F") {
  fSpawn: await flusher;
  fFlush: buf := buf \o pending; pending := <<>>;
}
} *)
\* BEGIN TRANSLATION
VARIABLES pc, sent, pending, registered, created, buf, flusher, early, late, 
          k, i, hit

vars == << pc, sent, pending, registered, created, buf, flusher, early, late, 
           k, i, hit >>

ProcSet == {"D"} \cup {"R"} \cup {"F"}

Init == (* Global variables *)
        /\ sent = 0
        /\ pending = <<>>
        /\ registered = FALSE
        /\ created = FALSE
        /\ buf = <<>>
        /\ flusher = FALSE
        /\ early = {}
        /\ late = {}
        (* Process D *)
        /\ k = 0
        (* Process R *)
        /\ i = 1
        /\ hit = FALSE
        /\ pc = [self \in ProcSet |-> CASE self = "D" -> "dBefore"
                                        [] self = "R" -> "rRead"
                                        [] self = "F" -> "fSpawn"]

dBefore == /\ pc["D"] = "dBefore"
           /\ IF k < NBefore
                 THEN /\ sent' = sent + 1
                      /\ early' = (early \cup {sent'})
                      /\ k' = k + 1
                      /\ pc' = [pc EXCEPT !["D"] = "dBefore"]
                 ELSE /\ pc' = [pc EXCEPT !["D"] = "dCreate"]
                      /\ UNCHANGED << sent, early, k >>
           /\ UNCHANGED << pending, registered, created, buf, flusher, late, i, 
                           hit >>

dCreate == /\ pc["D"] = "dCreate"
           /\ registered' = TRUE
           /\ IF Impl = "fixed"
                 THEN /\ buf' = buf \o pending
                      /\ pending' = <<>>
                      /\ UNCHANGED flusher
                 ELSE /\ flusher' = TRUE
                      /\ UNCHANGED << pending, buf >>
           /\ created' = TRUE
           /\ pc' = [pc EXCEPT !["D"] = "dAfter"]
           /\ UNCHANGED << sent, early, late, k, i, hit >>

dAfter == /\ pc["D"] = "dAfter"
          /\ IF k < N
                THEN /\ sent' = sent + 1
                     /\ late' = (late \cup {sent'})
                     /\ k' = k + 1
                     /\ pc' = [pc EXCEPT !["D"] = "dAfter"]
                ELSE /\ pc' = [pc EXCEPT !["D"] = "Done"]
                     /\ UNCHANGED << sent, late, k >>
          /\ UNCHANGED << pending, registered, created, buf, flusher, early, i, 
                          hit >>

D == dBefore \/ dCreate \/ dAfter

rRead == /\ pc["R"] = "rRead"
         /\ IF i <= N
               THEN /\ sent >= i
                    /\ pc' = [pc EXCEPT !["R"] = "rMatch"]
               ELSE /\ pc' = [pc EXCEPT !["R"] = "Done"]
         /\ UNCHANGED << sent, pending, registered, created, buf, flusher, 
                         early, late, k, i, hit >>

rMatch == /\ pc["R"] = "rMatch"
          /\ IF registered
                THEN /\ hit' = TRUE
                     /\ pc' = [pc EXCEPT !["R"] = "rWrite"]
                     /\ UNCHANGED << pending, i >>
                ELSE /\ pending' = Append(pending, i)
                     /\ hit' = FALSE
                     /\ i' = i + 1
                     /\ pc' = [pc EXCEPT !["R"] = "rRead"]
          /\ UNCHANGED << sent, registered, created, buf, flusher, early, late, 
                          k >>

rWrite == /\ pc["R"] = "rWrite"
          /\ buf' = Append(buf, i)
          /\ i' = i + 1
          /\ pc' = [pc EXCEPT !["R"] = "rRead"]
          /\ UNCHANGED << sent, pending, registered, created, flusher, early, 
                          late, k, hit >>

R == rRead \/ rMatch \/ rWrite

fSpawn == /\ pc["F"] = "fSpawn"
          /\ flusher
          /\ pc' = [pc EXCEPT !["F"] = "fFlush"]
          /\ UNCHANGED << sent, pending, registered, created, buf, flusher, 
                          early, late, k, i, hit >>

fFlush == /\ pc["F"] = "fFlush"
          /\ buf' = buf \o pending
          /\ pending' = <<>>
          /\ pc' = [pc EXCEPT !["F"] = "Done"]
          /\ UNCHANGED << sent, registered, created, flusher, early, late, k, 
                          i, hit >>

F == fSpawn \/ fFlush

(* Allow infinite stuttering to prevent deadlock on termination. *)
Terminating == /\ \A self \in ProcSet: pc[self] = "Done"
               /\ UNCHANGED vars

Next == D \/ R \/ F
           \/ Terminating

Spec == /\ Init /\ [][Next]_vars
        /\ WF_vars(R)
        /\ WF_vars(F)

Termination == <>(\A self \in ProcSet: pc[self] = "Done")

\* END TRANSLATION

Got == buf
Ordered      == PendingFirstInOrder(buf, early, late)
ArrivalOrder == IsSubSeqOrdered(buf)
AllDelivered == (\A p \in ProcSet : pc[p] = "Done") => Len(buf) = N /\ pending = <<>>

Actor == CASE D -> "D" [] R -> "R" [] OTHER -> "F"    \* which process action this step is
St == [pc |-> pc, sent |-> sent, pending |-> pending, registered |-> registered, buf |-> buf,
       flusher |-> flusher, i |-> i, k |-> k]
EmitInitInv == (sent = 0 /\ pc["D"] \in {"dBefore", "dCreate"} /\ pc["R"] = "rRead" /\ ~registered) =>
                  PrintT(<<"VERIF_INIT", ToJson(St)>>)
EmitEdge == PrintT(<<"VERIF_EDGE", ToJson([f |-> St, a |-> [proc |-> Actor, label |-> pc[Actor]], t |-> St'])>>)
=============================================================================
