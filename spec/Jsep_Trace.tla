----------------------------- MODULE Jsep_Trace -----------------------------
(* Trace specification for C01, C02, C03: every line is one public API call *)
(* on a real PeerConnection with the projection of its negotiation state    *)
(* before (b) and after (a) the call, the identity of the description given *)
(* (desc) and the signaling-state events dispatched during the call.        *)
EXTENDS JsepOps, TraceKit

VARIABLES pos, viol, cnt, stableCur

Slots(p) == [pendL |-> p.pendL, pendR |-> p.pendR, curL |-> p.curL, curR |-> p.curR]
SetCall(e) == e.op \in {"SetLocal", "SetRemote"}
Ok(e)  == e.res = "ok"

Preds(e) ==
  LET set == SetCall(e)
      rb  == set /\ e.type = "rollback"
      known == e.type \in SType
  IN {
   \* ---- C01
   P("C01", "OnlyEdges", set /\ Ok(e),
        known /\ JsepEdge(e.b.sig, e.side, e.type) /\ e.a.sig = JsepTarget(e.b.sig, e.side, e.type)),
   P("C01", "PendingElseCurrent", TRUE,
        /\ e.a.L = PendingElse(e.a.pendL, e.a.curL)
        /\ e.a.R = PendingElse(e.a.pendR, e.a.curR)),
   P("C01", "StableNoPending", e.a.sig = "stable", StableNoPending(e.a.sig, Slots(e.a))),
   P("C01", "SlotsFollowApply", set /\ Ok(e) /\ known /\ JsepEdge(e.b.sig, e.side, e.type),
        Slots(e.a) = Apply(Slots(e.b), e.side, e.type, e.desc)),
   P("C01", "ExchangeCompletes", set /\ Ok(e) /\ e.type = "answer",
        IF e.side = "local" THEN e.a.curL = e.desc /\ e.a.curR = e.b.pendR /\ e.b.pendR # None
                            ELSE e.a.curR = e.desc /\ e.a.curL = e.b.pendL /\ e.b.pendL # None),
   P("C01", "NonSetCallsKeepState", ~set /\ e.op \in {"CreateOffer", "CreateAnswer"},
        e.a.sig = e.b.sig /\ Slots(e.a) = Slots(e.b)),
   \* ---- C02
   P("C02", "RollbackAccepted", rb /\ RollbackEdge(e.b.sig, e.side), Ok(e)),
   P("C02", "RollbackFromStableRejected", rb /\ e.b.sig = "stable", ~Ok(e)),
   P("C02", "BackToStable", rb /\ Ok(e), e.a.sig = "stable"),
   P("C02", "PendingDiscarded", rb /\ Ok(e), e.a.pendL = None /\ e.a.pendR = None),
   P("C02", "CurrentRestored", rb /\ Ok(e),
        e.a.curL = stableCur[1] /\ e.a.curR = stableCur[2]),
   \* ---- C03
   P("C03", "ErrorAtomic", set /\ ~Ok(e), e.a.sig = e.b.sig /\ Slots(e.a) = Slots(e.b)),
   P("C03", "NoEventOnError", set /\ ~Ok(e), Len(e.events) = 0)
  }

Init == pos = 1 /\ viol = {} /\ cnt = EmptyCount /\ stableCur = <<None, None>>

Step ==
  /\ pos <= Len(Trace)
  /\ LET e == Trace[pos] IN
       IF e.ev = "reset"
       THEN /\ stableCur' = <<None, None>> /\ UNCHANGED <<viol, cnt>>
       ELSE LET ps == Preds(e) IN
            /\ viol' = Merge(viol, Failures(ps, e, pos))
            /\ cnt'  = Count(cnt, ps)
            /\ stableCur' = IF e.a.sig = "stable" THEN <<e.a.curL, e.a.curR>> ELSE stableCur
  /\ pos' = pos + 1

Done == pos = Len(Trace) + 1 /\ UNCHANGED <<pos, viol, cnt, stableCur>>
Next == Step \/ Done
Rep  == Report(pos, viol, cnt)
=============================================================================
