CONSTANTS
  NIds = 3
  MaxSteps = 5
  Copy = "pooled"
  Unbinder = "poplast"
  PadFix = TRUE
INIT Init
NEXT Next
INVARIANTS TypeOK ModelEachBoundOnce ModelNoneAfterUnbind ModelRewritten ModelRestUnchanged ModelCallerUntouched 

CHECK_DEADLOCK FALSE
