CONSTANTS
  NIds = 3
  MaxSteps = 5
  Copy = "pooled"
  Unbinder = "poplast"
  PadFix = TRUE
  Lock = "held"
INIT Init
NEXT Next
INVARIANTS TypeOK ModelEachBoundOnce ModelNoneAfterUnbind ModelRewritten ModelRestUnchanged ModelCallerUntouched ModelLinearizable ModelOverlapRewritten 

CHECK_DEADLOCK FALSE
