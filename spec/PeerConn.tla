------------------------------ MODULE PeerConn ------------------------------
(* Generative model of a pair of endpoints (A, B) over the public API         *)
(* alphabet that shapes session descriptions: adding transceivers and tracks, *)
(* removing tracks, stopping transceivers, creating data channels, complete   *)
(* offer/answer exchanges started by either side, and offers generated        *)
(* without being applied.  The model carries the *intended* m-section         *)
(* bookkeeping (JSEP 5.2 / 5.3): a transceiver gets a fresh mid and a new     *)
(* section the first time it is offered; the answerer associates each new     *)
(* section with a compatible unassociated transceiver or creates one;         *)
(* sections are never removed or reordered.  TLC checks the normative         *)
(* statements of C06 (unique mids), C09 (mid and position stability, no       *)
(* reuse) and C12 (one section per transceiver, application iff requested)    *)
(* on this bookkeeping, and the histories it enumerates are replayed on real  *)
(* PeerConnections (harness/sdp).                                             *)
EXTENDS Naturals, Sequences, FiniteSets, TLC, Json

CONSTANTS MaxSteps, MaxTrs, Kinds, Dirs, Ops, RecordPath

Peers == {"A", "B"}
Other(p) == IF p = "A" THEN "B" ELSE "A"
NoMid == 0

VARIABLES trs,       \* trs[p]: sequence of [kind, dir, track, mid]
          dc,        \* dc[p]: a data channel was created on p
          secs,      \* negotiated sections, in order: [mid, kind]  (kind "application" for data)
          nextMid,   \* next fresh mid number (mids are never reused)
          n,         \* steps taken
          hist,      \* history variable: every value `secs` had after an exchange
          last,
          path       \* the actions taken so far (recorded only when RecordPath: simulation runs)

vars == <<trs, dc, secs, nextMid, n, hist, last, path>>
view == <<trs, dc, secs, nextMid, n>>
St == [trs |-> trs, dc |-> dc, secs |-> secs, n |-> n]

Init == /\ trs = [p \in Peers |-> <<>>] /\ dc = [p \in Peers |-> FALSE]
        /\ secs = <<>> /\ nextMid = 1 /\ n = 0 /\ hist = <<>>
        /\ last = [op |-> "init"] /\ path = <<>>

Tick == n < MaxSteps /\ n' = n + 1

AddTransceiver(p, k, d, withTrack) ==
  /\ "addTransceiver" \in Ops /\ Tick /\ Len(trs[p]) < MaxTrs
  /\ trs' = [trs EXCEPT ![p] = Append(@, [kind |-> k, dir |-> d, track |-> withTrack, mid |-> NoMid, neg |-> FALSE])]
  /\ UNCHANGED <<dc, secs, nextMid, hist>>
  /\ last' = [op |-> IF withTrack THEN "addTransceiverTrack" ELSE "addTransceiver", who |-> p, kind |-> k, dir |-> d]

\* a simulcast sender: one sendrecv video transceiver whose sender has n encodings of one track
AddSimulcast(p, encs) ==
  /\ "addSimulcast" \in Ops /\ Tick /\ Len(trs[p]) < MaxTrs
  /\ \A i \in 1..Len(trs[p]) : ~(trs[p][i].kind = "video" /\ ~trs[p][i].track /\ trs[p][i].dir \in {"recvonly", "inactive"})
  /\ trs' = [trs EXCEPT ![p] = Append(@, [kind |-> "video", dir |-> "sendrecv", track |-> TRUE, mid |-> NoMid, neg |-> FALSE])]
  /\ UNCHANGED <<dc, secs, nextMid, hist>>
  /\ last' = [op |-> "addSimulcast", who |-> p, n |-> encs]

\* AddTrack reuses a transceiver of that kind that never sent and has no track, else adds a sendrecv one
AddTrack(p, k) ==
  /\ "addTrack" \in Ops /\ Tick
  /\ LET free == {i \in 1..Len(trs[p]) : trs[p][i].kind = k /\ ~trs[p][i].track /\ trs[p][i].dir \in {"recvonly", "inactive"}} IN
     IF free # {}
     THEN LET i == CHOOSE x \in free : \A y \in free : x <= y IN
          trs' = [trs EXCEPT ![p][i].track = TRUE,
                             ![p][i].dir = IF @ = "recvonly" THEN "sendrecv" ELSE "sendonly"]
     ELSE /\ Len(trs[p]) < MaxTrs
          /\ trs' = [trs EXCEPT ![p] = Append(@, [kind |-> k, dir |-> "sendrecv", track |-> TRUE, mid |-> NoMid, neg |-> FALSE])]
  /\ UNCHANGED <<dc, secs, nextMid, hist>>
  /\ last' = [op |-> "addTrack", who |-> p, kind |-> k]

RemoveTrack(p, i) ==
  /\ "removeTrack" \in Ops /\ Tick /\ i \in 1..Len(trs[p]) /\ trs[p][i].track
  /\ trs' = [trs EXCEPT ![p][i].track = FALSE,
                        ![p][i].dir = IF @ = "sendrecv" THEN "recvonly" ELSE IF @ = "sendonly" THEN "inactive" ELSE @]
  /\ UNCHANGED <<dc, secs, nextMid, hist>>
  /\ last' = [op |-> "removeTrack", who |-> p,
              n |-> Cardinality({j \in 1..(i - 1) : trs[p][j].track})]   \* index among senders with a track

Stop(p, i) ==
  /\ "stop" \in Ops /\ Tick /\ i \in 1..Len(trs[p]) /\ trs[p][i].dir # "inactive"
  /\ trs' = [trs EXCEPT ![p][i].dir = "inactive", ![p][i].track = FALSE]
  /\ UNCHANGED <<dc, secs, nextMid, hist>>
  /\ last' = [op |-> "stop", who |-> p, n |-> i - 1]

\* the application calls SetMid on a transceiver that already has one: refused, nothing changes
SetMid(p, i) ==
  /\ "setMid" \in Ops /\ Tick /\ i \in 1..Len(trs[p]) /\ trs[p][i].mid # NoMid
  /\ UNCHANGED <<trs, dc, secs, nextMid, hist>>
  /\ last' = [op |-> "setMid", who |-> p, n |-> i - 1]

\* the application gives a transceiver that was never negotiated a numeric mid of its own choice that
\* nothing else carries (the driver picks the smallest such number on the real endpoint); it counts as
\* taken from then on.  While it is pending, the other side does not start an exchange (its own
\* numbering could pick the same mid independently, which would be the application's doing).
PresetMid(p, i) ==
  /\ "presetMid" \in Ops /\ Tick /\ i \in 1..Len(trs[p]) /\ trs[p][i].mid = NoMid /\ ~trs[p][i].neg
  /\ trs' = [trs EXCEPT ![p][i].mid = nextMid]
  /\ nextMid' = nextMid + 1
  /\ UNCHANGED <<dc, secs, hist>>
  /\ last' = [op |-> "presetMid", who |-> p, n |-> i - 1]

CreateDC(p) ==
  /\ "createDC" \in Ops /\ Tick /\ ~dc[p]
  /\ dc' = [dc EXCEPT ![p] = TRUE]
  /\ UNCHANGED <<trs, secs, nextMid, hist>>
  /\ last' = [op |-> "createDC", who |-> p]

OfferOnly(p) ==
  /\ "offerOnly" \in Ops /\ Tick /\ last.op \notin {"offerOnly", "init"}
  /\ UNCHANGED <<trs, dc, secs, nextMid, hist>>
  /\ last' = [op |-> "offerOnly", who |-> p]

\* ---- one complete exchange, offerer p ------------------------------------------------------
\* mids handed to p's unassociated transceivers, in transceiver order
RankIn(S, i) == Cardinality({j \in S : j < i})
Unassoc(t) == {i \in 1..Len(t) : ~t[i].neg}                      \* never offered / answered so far
Midless(t) == {i \in Unassoc(t) : t[i].mid = NoMid}               \* ... and without a mid chosen by the application
FreshMid(t, i) == IF t[i].mid # NoMid THEN t[i].mid ELSE nextMid + RankIn(Midless(t), i)
OfferedTrs(p) == [i \in 1..Len(trs[p]) |->
                    IF ~trs[p][i].neg
                    THEN [trs[p][i] EXCEPT !.mid = FreshMid(trs[p], i), !.neg = TRUE]
                    ELSE trs[p][i]]
NewMediaSecs(p) == LET u == Unassoc(trs[p]) IN
                   [r \in 1..Cardinality(u) |->
                      LET i == CHOOSE x \in u : RankIn(u, x) = r - 1 IN
                      [mid |-> FreshMid(trs[p], i), kind |-> trs[p][i].kind, odir |-> trs[p][i].dir]]
HasApp(s) == \E i \in 1..Len(s) : s[i].kind = "application"
NeedApp(p) == (dc[p] \/ dc[Other(p)]) /\ ~HasApp(secs)

\* the answerer associates new media sections, in order, with compatible free transceivers
RECURSIVE Associate(_, _)
Associate(t, news) ==
  IF news = <<>> THEN t
  ELSE LET s == Head(news)
           cand == {i \in 1..Len(t) : ~t[i].neg /\ t[i].mid = NoMid /\ t[i].kind = s.kind}
       IN IF cand # {}
          THEN LET i == CHOOSE x \in cand : \A y \in cand : x <= y IN
               Associate([t EXCEPT ![i].mid = s.mid, ![i].neg = TRUE], Tail(news))
          ELSE Associate(Append(t, [kind |-> s.kind,
                                    dir |-> IF s.odir = "recvonly" THEN "sendonly"
                                            ELSE IF s.odir = "inactive" THEN "inactive" ELSE "recvonly",
                                    track |-> FALSE, mid |-> s.mid, neg |-> TRUE]), Tail(news))

Negotiate(p) ==
  /\ "negotiate" \in Ops /\ Tick
  /\ LET q    == Other(p)
         news == NewMediaSecs(p)
         k    == Len(news)
         f    == Cardinality(Midless(trs[p]))          \* fresh mids handed out by this offer
         app  == IF NeedApp(p) THEN <<[mid |-> nextMid + f, kind |-> "application"]>> ELSE <<>>
         ns   == secs \o [r \in 1..k |-> [mid |-> news[r].mid, kind |-> news[r].kind]] \o app
     IN /\ Len(Associate(trs[q], news)) <= MaxTrs + 2
        /\ trs' = [trs EXCEPT ![p] = OfferedTrs(p), ![q] = Associate(trs[q], news)]
        /\ secs' = ns
        /\ nextMid' = nextMid + f + Len(app)
        /\ \A i \in 1..Len(trs[q]) : trs[q][i].neg \/ trs[q][i].mid = NoMid
        /\ hist' = Append(hist, ns)
  /\ UNCHANGED dc
  /\ last' = [op |-> "negotiate", who |-> p]

StepOf(c) ==
  CASE c = "addTransceiver" -> \E p \in Peers, k \in Kinds, d \in Dirs, w \in BOOLEAN : AddTransceiver(p, k, d, w)
    [] c = "addTrack"       -> \E p \in Peers, k \in Kinds : AddTrack(p, k)
    [] c = "addSimulcast"   -> \E p \in Peers, e \in {2, 3} : AddSimulcast(p, e)
    [] c = "removeTrack"    -> \E p \in Peers, i \in 1..MaxTrs + 2 : RemoveTrack(p, i)
    [] c = "stop"           -> \E p \in Peers, i \in 1..MaxTrs + 2 : Stop(p, i)
    [] c = "setMid"         -> \E p \in Peers, i \in 1..MaxTrs + 2 : SetMid(p, i)
    [] c = "presetMid"      -> \E p \in Peers, i \in 1..MaxTrs + 2 : PresetMid(p, i)
    [] c = "createDC"       -> \E p \in Peers : CreateDC(p)
    [] c = "offerOnly"      -> \E p \in Peers : OfferOnly(p)
    [] c = "negotiate"      -> \E p \in Peers : Negotiate(p)
Step == \E c \in Ops : StepOf(c)
Next == Step /\ path' = IF RecordPath THEN Append(path, last') ELSE path
\* for -simulate: TLC picks uniformly among successor *states*, and most successors are additions of
\* transceivers; choosing the kind of call first (among those enabled) gives every call the same weight
SimNext == LET en == {c \in Ops : ENABLED StepOf(c)} IN
           /\ en # {}
           /\ StepOf(RandomElement(en))
           /\ path' = IF RecordPath THEN Append(path, last') ELSE path

Spec == Init /\ [][Next]_vars

\* ---- normative statements on the intended bookkeeping ---------------------------------------
MidsOf(s) == [i \in 1..Len(s) |-> s[i].mid]
NoDupSeq(s) == \A i, j \in 1..Len(s) : s[i] = s[j] => i = j
ModelUniqueMids == NoDupSeq(MidsOf(secs))                                              \* C06
ModelHistoryStable ==                                                                  \* C09
  \A a, b \in 1..Len(hist) : a < b =>
      /\ Len(hist[a]) <= Len(hist[b])
      /\ \A i \in 1..Len(hist[a]) : hist[b][i] = hist[a][i]
ModelNoMidReuse == \A i \in 1..Len(secs) : secs[i].mid < nextMid
ModelOneSectionPerAssociatedTransceiver ==                                             \* C12 / C09
  \A p \in Peers : \A i \in 1..Len(trs[p]) : trs[p][i].neg =>
      Cardinality({j \in 1..Len(secs) : secs[j].mid = trs[p][i].mid /\ secs[j].kind = trs[p][i].kind}) = 1
ModelDistinctTransceiverMids ==
  \A p \in Peers : \A i, j \in 1..Len(trs[p]) : (i # j /\ trs[p][i].mid # NoMid) => trs[p][i].mid # trs[p][j].mid
ModelApplicationIff == HasApp(secs) => (dc["A"] \/ dc["B"])
ModelMidNeverChanges == [][\A p \in Peers : \A i \in 1..Len(trs[p]) :
                             trs[p][i].mid # NoMid => (i <= Len(trs'[p]) /\ trs'[p][i].mid = trs[p][i].mid)]_vars

EmitInitInv == (last.op = "init") => PrintT(<<"VERIF_INIT", ToJson(St)>>)
EmitPath == (n = MaxSteps) => PrintT(<<"VERIF_PATH", ToJson(path)>>)
EmitEdge == PrintT(<<"VERIF_EDGE", ToJson([f |-> St, a |-> last', t |-> St'])>>)
=============================================================================
