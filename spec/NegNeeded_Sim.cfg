CONSTANTS
  RecordPath = TRUE
  MaxSteps = 10
  MaxChanges = 4
INIT Init
NEXT Next
INVARIANT EmitPath
CHECK_DEADLOCK FALSE
