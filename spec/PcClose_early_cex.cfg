CONSTANTS
  Impl = "early"
  Closers = {"k1", "k2", "k3"}
  Graceful = {"k2", "k3"}
  Workers = 1
SPECIFICATION Spec
INVARIANTS GracefulWaits
CHECK_DEADLOCK FALSE
