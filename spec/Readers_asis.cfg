CONSTANTS
  Impl = "asis"
  Space = "ivf"
INIT Init
NEXT Next
INVARIANTS ModelNoPanic
CHECK_DEADLOCK FALSE
