----------------------------- MODULE CodecMatch -----------------------------
(* C17: generative model over the codec descriptor domain.                   *)
(*                                                                          *)
(* The domain is a sequence Dom of descriptors (mime type in several         *)
(* spellings x clock rate x channels x fmtp line from a per-codec set, plus  *)
(* the codecs RegisterDefaultCodecs registers, plus two descriptors whose    *)
(* mime type contains U+017F, which EqualFold identifies with "s" and        *)
(* ToLower does not).  One state per descriptor a; the invariants quantify   *)
(* over every partner b with index >= a (Match is evaluated in both orders   *)
(* and for the case-changed mime types of both, so unordered pairs suffice). *)
(* TLC thus checks, on the transcription of internal/fmtp in CodecOps, that  *)
(* Match is symmetric and case-insensitive over ALL pairs of the domain when *)
(* Partners = 0, or over a seeded sample of K partners per descriptor, and   *)
(* that the default codecs match themselves.  The pairs it visited are       *)
(* emitted (VERIF_VEC) with the predicted result code and replayed into      *)
(* fmtp.Parse(...).Match(...).  Checks and emission use Impl = "intended",   *)
(* the code as it is now; Impl = "asis" (CodecMatch_asis.cfg) is the pinned  *)
(* code before the fmtp.go repair, kept as the documented counterexample.    *)
EXTENDS CodecOps, Json, Randomization

CONSTANTS Clocks,     \* sequence of clock rates, e.g. <<0, 8000, 48000, 90000>>
          Chans,      \* sequence of channel counts, e.g. <<0, 1, 2>>
          Partners,   \* 0: every partner b >= a (exhaustive); K > 0: K seeded random partners per a
          Groups,     \* number of initial states the descriptors are spread over (parallelism)
          Emit        \* TRUE: print the visited pairs (run with one worker)

VARIABLE a            \* index into Dom; <= 0: a group marker

\* values for Clocks / Chans (configuration files cannot write tuples)
ClocksFull == <<0, 8000, 48000, 90000>>
ChansFull  == <<0, 1, 2>>
ClocksSmall == <<0, 48000, 90000>>
ChansSmall  == <<0, 2>>
ClocksTiny  == <<0, 48000>>

\* ---- the descriptor domain ----------------------------------------------------------------
\* Besides well-formed lines, every family has (a) parameters WITHOUT a value or with an EMPTY value
\* ("useinbandfec", "useinbandfec=", "apt", "packetization-mode=") next to the same key with a value,
\* and (b) for H264, profile-level-id values that are not well-formed hex as a whole but share their
\* first four hex digits with a well-formed one (odd length, non-hex tail, mixed case, empty, short).
LinesH264 == << "",
  "packetization-mode=1;profile-level-id=42e01f",
  "profile-level-id=42e01f;packetization-mode=1",
  "PACKETIZATION-MODE=1;PROFILE-LEVEL-ID=42E01F",
  "packetization-mode=1; profile-level-id=42e034",
  "packetization-mode=0;profile-level-id=42e01f",
  "level-asymmetry-allowed=1;packetization-mode=1;profile-level-id=42001f",
  "packetization-mode=1;profile-level-id=640032",
  "packetization-mode=1",
  "profile-level-id=42e01f",
  "packetization-mode=1;profile-level-id=zz",
  "packetization-mode=1;profile-level-id=42e",
  "packetization-mode=1;profile-level-id=42",
  "packetization-mode=1;profile-level-id=42e01f;profile-level-id=640032",
  \* (b) malformed as a whole, first four digits 42e0 / 4200 / 6400
  "packetization-mode=1;profile-level-id=42e01",
  "packetization-mode=1;profile-level-id=42e01f0",
  "packetization-mode=1;profile-level-id=42E0zz",
  "packetization-mode=1;profile-level-id=42e0",
  "packetization-mode=1;profile-level-id=42E01f",
  "level-asymmetry-allowed=1;packetization-mode=1;profile-level-id=4200 1f",
  "packetization-mode=1;profile-level-id=6400zz32",
  "packetization-mode=1;profile-level-id=",
  "packetization-mode=1;profile-level-id",
  \* (a) packetization-mode without a value / empty
  "packetization-mode=;profile-level-id=42e01f",
  "packetization-mode;profile-level-id=42e01f" >>
LinesVP9  == << "", "profile-id=0", "profile-id=1", "PROFILE-ID=1", "profile-id=2;x=1", "profile-id", "profile-id=", "x=1" >>
LinesAV1  == << "", "profile=0", "profile=1", "PROFILE=1", "profile=0;level-idx=5", "level-idx=5", "profile", "profile=" >>
LinesVP8  == << "", "x=AbC", "x=abc", "x=1;y=2", "y=3; X=abc", "x", "x=", "x;y=2" >>
LinesOpus == << "", "minptime=10;useinbandfec=1", "minptime=10;useinbandfec=0",
                "MINPTIME=10; UseInbandFec=1", "useinbandfec=1",
                "useinbandfec", "useinbandfec=", "minptime=10;useinbandfec", "minptime=;useinbandfec=1" >>
LinesPCMU == << "", "x=1", "x" >>
LinesRTX  == << "", "apt=96", "apt=97", "APT=96", "apt", "apt=" >>
LinesFoo  == << "", "x=abc", "profile-id=1;packetization-mode=1", "x=", "profile-id;packetization-mode=" >>

Families == <<
  [mimes |-> <<"video/H264", "video/h264", "VIDEO/H264">>, lines |-> LinesH264],
  [mimes |-> <<"video/VP9", "video/vp9", "VIDEO/VP9">>,    lines |-> LinesVP9],
  [mimes |-> <<"video/AV1", "video/av1", "VIDEO/AV1">>,    lines |-> LinesAV1],
  [mimes |-> <<"video/VP8", "video/vp8", "VIDEO/VP8">>,    lines |-> LinesVP8],
  [mimes |-> <<"audio/opus", "audio/Opus", "AUDIO/OPUS">>, lines |-> LinesOpus],
  [mimes |-> <<"audio/PCMU", "audio/pcmu", "AUDIO/PCMU">>, lines |-> LinesPCMU],
  [mimes |-> <<"video/rtx", "video/RTX", "VIDEO/RTX">>,    lines |-> LinesRTX],
  [mimes |-> <<"video/foo", "VIDEO/FOO">>,                 lines |-> LinesFoo] >>

D(m, c, n, l) == [mime |-> m, clock |-> c, ch |-> n, line |-> l]

FamilySeq(f) ==
  LET nm == Len(f.mimes) nl == Len(f.lines)
      nk == Len(Clocks) nc == Len(Chans)
      n  == nm * nk * nc * nl
  IN [k \in 1..n |->
        LET k0 == k - 1
            il == k0 % nl            k1 == k0 \div nl
            ic == k1 % nc            k2 == k1 \div nc
            ik == k2 % nk            im == k2 \div nk
        IN D(f.mimes[im + 1], Clocks[ik + 1], Chans[ic + 1], f.lines[il + 1])]

\* mime types that are equal to "audio/opus" under EqualFold only ("$" = U+017F); with ToLower-keyed
\* defaults (Impl = "asis") they made Match asymmetric
Exotic == << D("audio/opu$", 0, 0, ""), D("audio/opu$", 48000, 2, "minptime=10;useinbandfec=1") >>

\* RegisterDefaultCodecs (mediaengine.go), transcribed; the drivers read the real list at run time
DefH264(l) == D("video/H264", 90000, 0, "level-asymmetry-allowed=1;" \o l)
DefaultCodecs == <<
  D("audio/opus", 48000, 2, "minptime=10;useinbandfec=1"), D("audio/G722", 8000, 0, ""),
  D("audio/PCMU", 8000, 0, ""), D("audio/PCMA", 8000, 0, ""),
  D("video/VP8", 90000, 0, ""), D("video/rtx", 90000, 0, "apt=96"),
  DefH264("packetization-mode=1;profile-level-id=42001f"), D("video/rtx", 90000, 0, "apt=102"),
  DefH264("packetization-mode=0;profile-level-id=42001f"), D("video/rtx", 90000, 0, "apt=104"),
  DefH264("packetization-mode=1;profile-level-id=42e01f"), D("video/rtx", 90000, 0, "apt=106"),
  DefH264("packetization-mode=0;profile-level-id=42e01f"), D("video/rtx", 90000, 0, "apt=108"),
  DefH264("packetization-mode=1;profile-level-id=4d001f"), D("video/rtx", 90000, 0, "apt=127"),
  DefH264("packetization-mode=0;profile-level-id=4d001f"), D("video/rtx", 90000, 0, "apt=39"),
  D("video/H265", 90000, 0, ""), D("video/rtx", 90000, 0, "apt=116"),
  D("video/AV1", 90000, 0, ""), D("video/rtx", 90000, 0, "apt=45"),
  D("video/VP9", 90000, 0, "profile-id=0"), D("video/rtx", 90000, 0, "apt=98"),
  D("video/VP9", 90000, 0, "profile-id=2"), D("video/rtx", 90000, 0, "apt=100"),
  DefH264("packetization-mode=1;profile-level-id=64001f"), D("video/rtx", 90000, 0, "apt=112") >>

Dom == FlattenSeq([i \in 1..Len(Families) |-> FamilySeq(Families[i])]) \o Exotic \o DefaultCodecs
N   == Len(Dom)
FirstDefault == N - Len(DefaultCodecs) + 1

\* parsed forms of every descriptor and of its case-changed variant, computed once (every distinct
\* mime type and fmtp line is parsed once)
MimeTab  == [m \in {Dom[i].mime : i \in 1..N} |-> ParseMime(m)] @@ NoFcn
MimeTabS == [m \in {Dom[i].mime : i \in 1..N} |-> ParseMime(SwapCase(m))] @@ NoFcn
LineTab  == [ln \in {Dom[i].line : i \in 1..N} |-> ParseLine(ln)] @@ NoFcn
Par  == Force([i \in 1..N |-> Assemble(MimeTab[Dom[i].mime], Dom[i].clock, Dom[i].ch, LineTab[Dom[i].line])])
ParS == Force([i \in 1..N |-> Assemble(MimeTabS[Dom[i].mime], Dom[i].clock, Dom[i].ch, LineTab[Dom[i].line])])

Code(i, j) == CodeOf(Par[i], ParS[i], Par[j], ParS[j])

\* ---- state machine: group markers, then one state per descriptor ---------------------------
Init == a \in {0 - g : g \in 0..(Groups - 1)}
Next == a <= 0 /\ a' \in {i \in 1..N : i % Groups = 0 - a}
Spec == Init /\ [][Next]_a

\* sampled partners: two thirds among the descriptors whose mime type is the same up to case
\* (where a match is possible at all), the rest anywhere
Sub(k, S) == IF k >= Cardinality(S) THEN S ELSE RandomSubset(k, S)
PartnersOf(i) == IF Partners = 0 THEN i..N
                 ELSE Sub((2 * Partners) \div 3, {j \in i..N : Par[j].mf = Par[i].mf})
                      \cup Sub(Partners - (2 * Partners) \div 3, i..N)

\* Invariants: the transcribed Match satisfies the normative operators on every visited pair.
\* (ModelSymmetric fails for Impl = "asis", the pinned code before the repair: see Exotic.)
ModelSymmetric       == a > 0 => \A j \in a..N : Code(a, j) \in SymmetricCodes
ModelCaseInsensitive == a > 0 => \A j \in a..N : Code(a, j) \in CaseInsensitiveCodes
ModelDefaultsSelfMatch == a >= FirstDefault => MatchP(Par[a], Par[a])
\* both at once (one evaluation of Code per pair)
SymAndCase(c) == c \in SymmetricCodes /\ c \in CaseInsensitiveCodes
ModelSymmetricAndCaseInsensitive == a > 0 => \A j \in a..N : SymAndCase(Code(a, j))

\* Emission of the visited pairs with the result codes the transcription predicts (the drivers
\* replay them; a different real result is model drift).  Never fails.
SetToSeqSorted(S) == SetToSortSeq(S, LAMBDA x, y : x < y)
EmitRow(bs) ==
  PrintT(<<"VERIF_VEC", ToJson([a |-> a, d |-> Dom[a], isdefault |-> a >= FirstDefault, bs |-> bs,
                                exp |-> [k \in 1..Len(bs) |-> Code(a, bs[k])]])>>)
EmitVec == (Emit /\ a > 0) => EmitRow(SetToSeqSorted(PartnersOf(a)))
=============================================================================
