CONSTANTS
  MaxSteps = 6
  MaxTrs = 3
  Kinds = {"audio", "video"}
  Dirs = {"sendrecv", "sendonly", "recvonly", "inactive"}
  Ops = {"addTransceiver", "addTrack", "removeTrack", "stop", "createDC", "offerOnly", "negotiate"}
INIT Init
NEXT Next
ACTION_CONSTRAINT EmitEdge
CHECK_DEADLOCK FALSE
