CONSTANTS
  RecordPath = TRUE
  MaxSteps = 6
  MaxTrs = 3
  Kinds = {"audio", "video"}
  Dirs = {"sendrecv", "sendonly", "recvonly", "inactive"}
  Ops = {"addTransceiver", "addTrack", "removeTrack", "stop", "createDC", "offerOnly", "negotiate", "setMid", "presetMid", "addSimulcast"}
INIT Init
NEXT SimNext
INVARIANT EmitPath
CHECK_DEADLOCK FALSE
