CONSTANTS
  Impl = "asis"
  Clocks <- ClocksTiny
  Chans <- ChansSmall
  Partners = 0
  Groups = 16
  Emit = FALSE
INIT Init
NEXT Next
INVARIANTS ModelSymmetric ModelCaseInsensitive ModelDefaultsSelfMatch
CHECK_DEADLOCK FALSE
