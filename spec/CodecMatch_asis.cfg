CONSTANTS
  Impl = "asis"
  Clocks <- ClocksSmall
  Chans <- ChansSmall
  Partners = 0
  Groups = 16
  Emit = FALSE
INIT Init
NEXT Next
INVARIANTS ModelSymmetric ModelCaseInsensitive ModelDefaultsSelfMatch
CHECK_DEADLOCK FALSE
