\* Impl = "asis" is the pinned code before the repair of fmtp.go (defaults keyed by ToLower): TLC is
\* expected to report ModelSymmetric violated.  Documentation of the defect that was found; the
\* current code is Impl = "intended" (all other configurations).
CONSTANTS
  Impl = "asis"
  Clocks <- ClocksTiny
  Chans <- ChansSmall
  Partners = 0
  Groups = 16
  Emit = FALSE
INIT Init
NEXT Next
INVARIANTS ModelSymmetric ModelCaseInsensitive ModelDefaultsSelfMatch
CHECK_DEADLOCK FALSE
