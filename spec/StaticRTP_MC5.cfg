CONSTANTS
  NIds = 3
  MaxSteps = 5
  Copy = "pooled"
  Unbinder = "swapdelete"
  PadFix = TRUE
INIT Init
NEXT Next
INVARIANTS TypeOK ModelBindingsAreSet ModelEachBoundOnce ModelNoneAfterUnbind ModelRewritten ModelRestUnchanged ModelCallerUntouched 

CHECK_DEADLOCK FALSE
