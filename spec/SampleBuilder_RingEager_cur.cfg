CONSTANTS
  M = 16
  MaxPackets = 4
  MinPackets = 1
  FrameSizes = {1, 2, 3}
  SameTs = FALSE
  MaxLates = {2, 3}
  Delays = {0}
  StartBacks = {2, 9}
  MarkerModes = {TRUE, FALSE}
  HeadModes = {FALSE}
  Windows = {3}
  Modes = {"all"}
  MaxLoss = 1
  MaxDup = 1
  MaxPopCalls = 2
  MaxMidFlush = 1
  Eagers = {TRUE}
  Holds = {0}
  HoldFors = {0}
  Situations = FALSE
  Algo = "ring"
  Impl = "current"
  Sampling = FALSE
INIT Init
NEXT Next
VIEW mcview
INVARIANTS ModelContiguousSameTs ModelStartsAtHead ModelInOrder ModelNoPacketTwice ModelComplete ModelFilledSane EmitDone
CHECK_DEADLOCK FALSE
