CONSTANTS
  Impl = "pinned"
  ReadImpl = "asis"
  EofWithData = FALSE
  MaxNalLen = 2
  MaxChunk = 2
  HdrSyms = {"S", "H", "Z", "O"}
  BodySyms = {"Z", "O", "F", "S"}
SPECIFICATION Spec
INVARIANTS TypeOK Exact
CHECK_DEADLOCK FALSE
