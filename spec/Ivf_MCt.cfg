\* exhaustive (thorough tier), assembly automaton: as Ivf_MC with two MTUs, and direct mode
CONSTANTS
  Codecs <- AllCodecs
  Mtus <- MtusSmall
  MaxFrames = 2
  Sizes = {1}
  RelSizes = TRUE
  MaxRandPk = 0
  Rates <- RatesOne
  Starts <- StartsOne
  Deltas = {3000}
  MaxRandDelta = 0
  Directs = {FALSE, TRUE}
  Ctors = {"memseek"}
  Dims <- DimsOne
  Lossy = TRUE
  NonKeyStart = TRUE
  Pads = TRUE
  Sample = FALSE
  Emit = FALSE
  RdLimit = 16
  BigDeltas <- NoDeltas
  MaxBig = 0
  InitSample = 0
INIT Init
NEXT Next
INVARIANTS TypeOK ModelReadBack ModelHeader ModelCount ModelPts ModelPremiseAssemblesAll ModelKeyGate ModelWholeFrames
CHECK_DEADLOCK FALSE
