-------------------------- MODULE GathererRestart --------------------------
(* icegatherer.go across an ICE restart (C24): a first gathering (K          *)
(* candidates, then the nil callback) with the first SetLocalDescription's   *)
(* flush, then CreateOffer(ICERestart) -> ICETransport.restart -> Gather()   *)
(* re-arms the end-of-gathering bookkeeping and the agent gathers again,     *)
(* while the SetLocalDescription of the restarting offer flushes.  What      *)
(* OnICECandidate sees is judged per gathering.                              *)
(*   Impl = "current": Gather() clears gatheringDone and gatheringDoneSignal *)
(*   Impl = "stale":   Gather() clears only gatheringDoneSignal (a wrong     *)
(*                     alternative: the flush reports the end of a gathering  *)
(*                     that has just begun)                                   *)
EXTENDS Naturals, Sequences, FiniteSets, TLC

CONSTANTS Impl, K, Pool

(* --algorithm GathererRestart {
variables pooling = (Pool > 0), pool = <<>>, started = (Pool > 0),
          out = <<>>,              \* what OnICECandidate saw: [g |-> gathering, c |-> candidate number, 0 = nil]
          flushing = 0, gatherDone = FALSE, nilSent = FALSE,
          gen = 1, restarted = FALSE, sdone = 0;

\* the agent's notifier goroutine, two gatherings
fair process (A = "A") variable j = 1, g = 1, emitNil = FALSE; {
  aWait: await started;
  aCand: while (j <= K) {
           if (pooling) { pool := Append(pool, [g |-> g, c |-> j]); j := j + 1 }
           else {
  aEmit:     out := Append(out, [g |-> g, c |-> j]); j := j + 1;
           }
         };
  aChk:  gatherDone := TRUE;
         emitNil := ~pooling /\ flushing = 0 /\ ~nilSent;
         if (~pooling /\ flushing = 0 /\ ~nilSent) { nilSent := TRUE };
  aOut:  if (emitNil) { out := Append(out, [g |-> g, c |-> 0]) };
  aNext: if (g = 1) { await restarted; g := 2; j := 1; goto aCand };
}

\* flushCandidates inside the two SetLocalDescription calls
fair process (S \in {"S1", "S2"}) variable mine = <<>>, send = FALSE, sg = 1; {
  sWait: await (self = "S1" /\ sdone = 0) \/ (self = "S2" /\ restarted);
  sTake: mine := pool; pool := <<>>; pooling := FALSE; flushing := flushing + 1; sg := gen;
  sEmit: while (mine # <<>>) { out := Append(out, Head(mine)); mine := Tail(mine) };
  sTail: flushing := flushing - 1;
         send := gatherDone /\ flushing = 0 /\ ~nilSent;
         if (gatherDone /\ flushing = 0 /\ ~nilSent) { nilSent := TRUE };
  sNil:  if (send) { out := Append(out, [g |-> gen, c |-> 0]) };
         if (~started) { started := TRUE };
         sdone := sdone + 1;
}

\* CreateOffer(ICERestart): the first gathering is over and was reported; Gather() re-arms
fair process (X = "X") {
  xGo: await pc["A"] = "aNext" /\ sdone >= 1 /\ nilSent;
       if (Impl = "current") { gatherDone := FALSE };
       nilSent := FALSE; gen := 2; restarted := TRUE;
}
} *)
\* BEGIN TRANSLATION
VARIABLES pc, pooling, pool, started, out, flushing, gatherDone, nilSent, gen, 
          restarted, sdone, j, g, emitNil, mine, send, sg

vars == << pc, pooling, pool, started, out, flushing, gatherDone, nilSent, 
           gen, restarted, sdone, j, g, emitNil, mine, send, sg >>

ProcSet == {"A"} \cup ({"S1", "S2"}) \cup {"X"}

Init == (* Global variables *)
        /\ pooling = (Pool > 0)
        /\ pool = <<>>
        /\ started = (Pool > 0)
        /\ out = <<>>
        /\ flushing = 0
        /\ gatherDone = FALSE
        /\ nilSent = FALSE
        /\ gen = 1
        /\ restarted = FALSE
        /\ sdone = 0
        (* Process A *)
        /\ j = 1
        /\ g = 1
        /\ emitNil = FALSE
        (* Process S *)
        /\ mine = [self \in {"S1", "S2"} |-> <<>>]
        /\ send = [self \in {"S1", "S2"} |-> FALSE]
        /\ sg = [self \in {"S1", "S2"} |-> 1]
        /\ pc = [self \in ProcSet |-> CASE self = "A" -> "aWait"
                                        [] self \in {"S1", "S2"} -> "sWait"
                                        [] self = "X" -> "xGo"]

aWait == /\ pc["A"] = "aWait"
         /\ started
         /\ pc' = [pc EXCEPT !["A"] = "aCand"]
         /\ UNCHANGED << pooling, pool, started, out, flushing, gatherDone, 
                         nilSent, gen, restarted, sdone, j, g, emitNil, mine, 
                         send, sg >>

aCand == /\ pc["A"] = "aCand"
         /\ IF j <= K
               THEN /\ IF pooling
                          THEN /\ pool' = Append(pool, [g |-> g, c |-> j])
                               /\ j' = j + 1
                               /\ pc' = [pc EXCEPT !["A"] = "aCand"]
                          ELSE /\ pc' = [pc EXCEPT !["A"] = "aEmit"]
                               /\ UNCHANGED << pool, j >>
               ELSE /\ pc' = [pc EXCEPT !["A"] = "aChk"]
                    /\ UNCHANGED << pool, j >>
         /\ UNCHANGED << pooling, started, out, flushing, gatherDone, nilSent, 
                         gen, restarted, sdone, g, emitNil, mine, send, sg >>

aEmit == /\ pc["A"] = "aEmit"
         /\ out' = Append(out, [g |-> g, c |-> j])
         /\ j' = j + 1
         /\ pc' = [pc EXCEPT !["A"] = "aCand"]
         /\ UNCHANGED << pooling, pool, started, flushing, gatherDone, nilSent, 
                         gen, restarted, sdone, g, emitNil, mine, send, sg >>

aChk == /\ pc["A"] = "aChk"
        /\ gatherDone' = TRUE
        /\ emitNil' = (~pooling /\ flushing = 0 /\ ~nilSent)
        /\ IF ~pooling /\ flushing = 0 /\ ~nilSent
              THEN /\ nilSent' = TRUE
              ELSE /\ TRUE
                   /\ UNCHANGED nilSent
        /\ pc' = [pc EXCEPT !["A"] = "aOut"]
        /\ UNCHANGED << pooling, pool, started, out, flushing, gen, restarted, 
                        sdone, j, g, mine, send, sg >>

aOut == /\ pc["A"] = "aOut"
        /\ IF emitNil
              THEN /\ out' = Append(out, [g |-> g, c |-> 0])
              ELSE /\ TRUE
                   /\ out' = out
        /\ pc' = [pc EXCEPT !["A"] = "aNext"]
        /\ UNCHANGED << pooling, pool, started, flushing, gatherDone, nilSent, 
                        gen, restarted, sdone, j, g, emitNil, mine, send, sg >>

aNext == /\ pc["A"] = "aNext"
         /\ IF g = 1
               THEN /\ restarted
                    /\ g' = 2
                    /\ j' = 1
                    /\ pc' = [pc EXCEPT !["A"] = "aCand"]
               ELSE /\ pc' = [pc EXCEPT !["A"] = "Done"]
                    /\ UNCHANGED << j, g >>
         /\ UNCHANGED << pooling, pool, started, out, flushing, gatherDone, 
                         nilSent, gen, restarted, sdone, emitNil, mine, send, 
                         sg >>

A == aWait \/ aCand \/ aEmit \/ aChk \/ aOut \/ aNext

sWait(self) == /\ pc[self] = "sWait"
               /\ (self = "S1" /\ sdone = 0) \/ (self = "S2" /\ restarted)
               /\ pc' = [pc EXCEPT ![self] = "sTake"]
               /\ UNCHANGED << pooling, pool, started, out, flushing, 
                               gatherDone, nilSent, gen, restarted, sdone, j, 
                               g, emitNil, mine, send, sg >>

sTake(self) == /\ pc[self] = "sTake"
               /\ mine' = [mine EXCEPT ![self] = pool]
               /\ pool' = <<>>
               /\ pooling' = FALSE
               /\ flushing' = flushing + 1
               /\ sg' = [sg EXCEPT ![self] = gen]
               /\ pc' = [pc EXCEPT ![self] = "sEmit"]
               /\ UNCHANGED << started, out, gatherDone, nilSent, gen, 
                               restarted, sdone, j, g, emitNil, send >>

sEmit(self) == /\ pc[self] = "sEmit"
               /\ IF mine[self] # <<>>
                     THEN /\ out' = Append(out, Head(mine[self]))
                          /\ mine' = [mine EXCEPT ![self] = Tail(mine[self])]
                          /\ pc' = [pc EXCEPT ![self] = "sEmit"]
                     ELSE /\ pc' = [pc EXCEPT ![self] = "sTail"]
                          /\ UNCHANGED << out, mine >>
               /\ UNCHANGED << pooling, pool, started, flushing, gatherDone, 
                               nilSent, gen, restarted, sdone, j, g, emitNil, 
                               send, sg >>

sTail(self) == /\ pc[self] = "sTail"
               /\ flushing' = flushing - 1
               /\ send' = [send EXCEPT ![self] = gatherDone /\ flushing' = 0 /\ ~nilSent]
               /\ IF gatherDone /\ flushing' = 0 /\ ~nilSent
                     THEN /\ nilSent' = TRUE
                     ELSE /\ TRUE
                          /\ UNCHANGED nilSent
               /\ pc' = [pc EXCEPT ![self] = "sNil"]
               /\ UNCHANGED << pooling, pool, started, out, gatherDone, gen, 
                               restarted, sdone, j, g, emitNil, mine, sg >>

sNil(self) == /\ pc[self] = "sNil"
              /\ IF send[self]
                    THEN /\ out' = Append(out, [g |-> gen, c |-> 0])
                    ELSE /\ TRUE
                         /\ out' = out
              /\ IF ~started
                    THEN /\ started' = TRUE
                    ELSE /\ TRUE
                         /\ UNCHANGED started
              /\ sdone' = sdone + 1
              /\ pc' = [pc EXCEPT ![self] = "Done"]
              /\ UNCHANGED << pooling, pool, flushing, gatherDone, nilSent, 
                              gen, restarted, j, g, emitNil, mine, send, sg >>

S(self) == sWait(self) \/ sTake(self) \/ sEmit(self) \/ sTail(self)
              \/ sNil(self)

xGo == /\ pc["X"] = "xGo"
       /\ pc["A"] = "aNext" /\ sdone >= 1 /\ nilSent
       /\ IF Impl = "current"
             THEN /\ gatherDone' = FALSE
             ELSE /\ TRUE
                  /\ UNCHANGED gatherDone
       /\ nilSent' = FALSE
       /\ gen' = 2
       /\ restarted' = TRUE
       /\ pc' = [pc EXCEPT !["X"] = "Done"]
       /\ UNCHANGED << pooling, pool, started, out, flushing, sdone, j, g, 
                       emitNil, mine, send, sg >>

X == xGo

(* Allow infinite stuttering to prevent deadlock on termination. *)
Terminating == /\ \A self \in ProcSet: pc[self] = "Done"
               /\ UNCHANGED vars

Next == A \/ X
           \/ (\E self \in {"S1", "S2"}: S(self))
           \/ Terminating

Spec == /\ Init /\ [][Next]_vars
        /\ WF_vars(A)
        /\ \A self \in {"S1", "S2"} : WF_vars(S(self))
        /\ WF_vars(X)

Termination == <>(\A self \in ProcSet: pc[self] = "Done")

\* END TRANSLATION

Of(n) == SelectSeq(out, LAMBDA e : e.g = n)
Cnt(s, c) == Cardinality({i \in 1..Len(s) : s[i].c = c})
PerGathering(P(_)) == \A n \in {1, 2} : P(Of(n))
NothingAfterNil == PerGathering(LAMBDA s : \A i, k \in 1..Len(s) : (s[i].c = 0 /\ i < k) => FALSE)
NilAtMostOnce   == PerGathering(LAMBDA s : Cnt(s, 0) <= 1)
CandAtMostOnce  == PerGathering(LAMBDA s : \A c \in 1..K : Cnt(s, c) <= 1)
AllDone == \A p \in ProcSet : pc[p] = "Done"
Complete == AllDone => PerGathering(LAMBDA s : Cnt(s, 0) = 1 /\ \A c \in 1..K : Cnt(s, c) = 1)
=============================================================================
