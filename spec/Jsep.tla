------------------------------- MODULE Jsep -------------------------------
(* Generative model of one endpoint over the public API alphabet, explored  *)
(* exhaustively by TLC; its edges are replayed into pion (C01, C02, C03).   *)
EXTENDS JsepOps

(* Generative model.          Slots hold the *type* of the description in    *)
(* them (identities are irrelevant for enumeration); lo / la say whether a   *)
(* created offer / answer exists that SetLocalDescription would accept, and  *)
(* whether an older one exists too ("stale" source).  neg counts completed   *)
(* exchanges up to 2 (pion takes a different path on renegotiation).         *)

CONSTANTS Impl,        \* "intended": JSEP incl. rollback; "asis": what pion does (no rollback edge)
          BadClasses   \* set of defect classes for damaged descriptions (C03); {} switches them off

VARIABLES sig, pl, pr, cl, cr, lo, la, neg, rx, last

vars  == <<sig, pl, pr, cl, cr, lo, la, neg, rx, last>>
view  == <<sig, pl, pr, cl, cr, lo, la, neg, rx>>
St    == [sig |-> sig, pl |-> pl, pr |-> pr, cl |-> cl, cr |-> cr, lo |-> lo, la |-> la, neg |-> neg, rx |-> rx]
Slots == [pendL |-> pl, pendR |-> pr, curL |-> cl, curR |-> cr]

Created == {"none", "one", "two"}   \* how many descriptions of that kind were created so far (capped)
Bump(c) == IF c = "none" THEN "one" ELSE "two"

TypeOK == /\ sig \in Sig /\ {pl, pr, cl, cr} \subseteq {None, "offer", "pranswer", "answer"}
          /\ lo \in Created /\ la \in Created /\ neg \in 0..2 /\ rx \in {"plain", "odd"}

Init == /\ sig = "stable" /\ pl = None /\ pr = None /\ cl = None /\ cr = None
        /\ lo = "none" /\ la = "none" /\ neg = 0 /\ rx = "plain"
        /\ last = [op |-> "init"]

\* Which (state, side, type) the modelled implementation accepts.
Accepts(s, side, ty) ==
  IF Impl = "intended" THEN JsepEdge(s, side, ty)
  ELSE \E e \in JsepEdges : e[1] = s /\ e[2] = side /\ e[3] = ty /\ ty # "rollback" /\ e[1] # e[4]

\* sources of the SDP text handed to SetLocalDescription
LocalSrc == {"latest", "stale", "empty", "foreign"}

LocalSdpOk(ty, src) ==
  CASE ty = "offer"    -> src \in {"latest", "empty"} /\ lo # "none"
    [] ty = "rollback" -> IF Impl = "intended" THEN TRUE ELSE src # "empty"
    [] OTHER           -> src \in {"latest", "empty"} /\ la # "none"     \* answer, pranswer

SetSlots(side, ty) ==
  LET b == Apply(Slots, side, ty, ty) IN
  /\ pl' = b.pendL /\ pr' = b.pendR /\ cl' = b.curL /\ cr' = b.curR

CreateOffer ==
  /\ lo' = Bump(lo)
  /\ UNCHANGED <<sig, pl, pr, cl, cr, la, neg, rx>>
  /\ last' = [op |-> "CreateOffer", exp |-> "ok"]

CreateAnswer ==
  LET ok == sig \in {"have-remote-offer", "have-local-pranswer"} IN
  /\ la' = IF ok THEN Bump(la) ELSE la
  /\ UNCHANGED <<sig, pl, pr, cl, cr, lo, neg, rx>>
  /\ last' = [op |-> "CreateAnswer", exp |-> IF ok THEN "ok" ELSE "err"]

SetLocal(ty, src) ==
  LET ok == Accepts(sig, "local", ty) /\ LocalSdpOk(ty, src) IN
  /\ src = "stale" => (IF ty = "offer" THEN lo = "two" ELSE la = "two")
  /\ IF ok THEN /\ sig' = JsepTarget(sig, "local", ty)
                /\ SetSlots("local", ty)
                /\ neg' = IF ty = "answer" /\ neg < 2 THEN neg + 1 ELSE neg
           ELSE UNCHANGED <<sig, pl, pr, cl, cr, neg>>
  /\ UNCHANGED <<lo, la, rx>>
  /\ last' = [op |-> "SetLocal", type |-> ty, src |-> src, bad |-> "none",
              exp |-> IF ok THEN "ok" ELSE "err"]

SetRemote(ty, src, bad) ==
  LET ok == Accepts(sig, "remote", ty) /\ bad = "none" /\ (src = "empty" => Impl = "intended") IN
  /\ src = "empty" => ty = "rollback"
  /\ bad # "none" => ty # "rollback" /\ src = "peer"
  /\ src = "peerx" => ty = "offer"
  \* "current": the text of the remote description that is in effect, sent again (as an offer, or on a rollback)
  /\ src = "current" => (ty \in {"offer", "rollback"} /\ (pr # None \/ cr # None))
  /\ IF ok THEN /\ sig' = JsepTarget(sig, "remote", ty)
                /\ SetSlots("remote", ty)
                /\ neg' = IF ty = "answer" /\ neg < 2 THEN neg + 1 ELSE neg
           ELSE UNCHANGED <<sig, pl, pr, cl, cr, neg>>
  /\ UNCHANGED <<lo, la>>
  \* "peerx": a well-formed offer that also has sections the endpoint does not use (an m=text section
  \* and an audio section without direction attribute); accepted exactly like "peer", but what the
  \* endpoint must answer differs, so the flavour of the last applied remote offer is state
  /\ rx' = IF ok /\ ty = "offer" THEN (IF src = "peerx" THEN "odd" ELSE "plain") ELSE rx
  /\ last' = [op |-> "SetRemote", type |-> ty, src |-> src, bad |-> bad,
              exp |-> IF ok THEN "ok" ELSE "err"]

Next == \/ CreateOffer
        \/ CreateAnswer
        \/ \E ty \in SType, src \in LocalSrc : SetLocal(ty, src)
        \/ \E ty \in SType, src \in {"peer", "peerx", "current", "empty"}, bad \in BadClasses \cup {"none"} : SetRemote(ty, src, bad)

Spec == Init /\ [][Next]_vars

\* Invariants of the model (design-level check of the normative operators).
ModelStableNoPending == StableNoPending(sig, Slots)
ModelPendingShape ==
  /\ sig = "have-local-offer"     => pl = "offer" /\ pr = None
  /\ sig = "have-remote-offer"    => pr = "offer" /\ pl = None
  /\ sig = "have-local-pranswer"  => pr = "offer" /\ pl = "pranswer"
  /\ sig = "have-remote-pranswer" => pl = "offer" /\ pr = "pranswer"
ModelCurrentPair == (cl = None) = (cr = None)        \* current descriptions only ever change together
\* an accepted step is an edge and lands on the edge's target (action property)
ModelOnlyEdges == [][last'.op \in {"SetLocal", "SetRemote"} /\ last'.exp = "ok" =>
                       LET side == IF last'.op = "SetLocal" THEN "local" ELSE "remote" IN
                       JsepEdge(sig, side, last'.type) /\ sig' = JsepTarget(sig, side, last'.type)]_vars
\* C03 on the model: a rejected call changes nothing
ModelErrorAtomic == [][last'.op \in {"SetLocal", "SetRemote"} /\ last'.exp = "err" =>
                        UNCHANGED <<sig, pl, pr, cl, cr>>]_vars
\* C02 on the model (holds only for Impl = "intended")
ModelRollback == [][last'.op \in {"SetLocal", "SetRemote"} /\ last'.type = "rollback" =>
                      LET side == IF last'.op = "SetLocal" THEN "local" ELSE "remote" IN
                      /\ RollbackEdge(sig, side) => last'.exp = "ok" /\ sig' = "stable" /\ pl' = None /\ pr' = None
                                                    /\ cl' = cl /\ cr' = cr
                      /\ sig = "stable" => last'.exp = "err"]_vars

\* graph emission for the replay stage
EmitInitInv == (last.op = "init") => PrintT(<<"VERIF_INIT", ToJson(St)>>)
EmitEdge == PrintT(<<"VERIF_EDGE", ToJson([f |-> St, a |-> last', t |-> St'])>>)
=============================================================================
