--------------------------- MODULE CodecNegDomain ---------------------------
(* C15: the codec domain the negotiation vectors are drawn from, and the     *)
(* cache of parsed fmtp lines and mime types (CodecOps ParseC) for it.       *)
EXTENDS CodecOps

D(m, c, n, l) == [mime |-> m, clock |-> c, ch |-> n, line |-> l]

H264A == "packetization-mode=1;profile-level-id=42e01f"
\* descriptors either side may use (the remote's mime type is <media>/<encoding name>, so its
\* media part is always lower case)
DescsBoth == <<
  D("video/VP8", 90000, 0, ""), D("video/vp8", 90000, 0, ""), D("video/VP8", 0, 0, ""),
  D("video/VP8", 90000, 0, "x=1"), D("video/VP8", 90000, 0, "x=2"), D("video/VP8", 8000, 0, ""),
  D("video/VP9", 90000, 0, "profile-id=0"), D("video/VP9", 90000, 0, "profile-id=2"),
  D("video/VP9", 90000, 0, ""), D("video/vp9", 90000, 0, "PROFILE-ID=2"),
  D("video/H264", 90000, 0, H264A),
  D("video/H264", 90000, 0, "level-asymmetry-allowed=1;packetization-mode=1;profile-level-id=42e034"),
  D("video/H264", 90000, 0, "packetization-mode=0;profile-level-id=42e01f"),
  D("video/H264", 90000, 0, "packetization-mode=1;profile-level-id=640032"),
  D("video/H264", 90000, 0, ""),
  D("video/h264", 90000, 0, "PACKETIZATION-MODE=1;PROFILE-LEVEL-ID=42E01F"),
  D("video/H264", 0, 0, H264A),
  D("video/AV1", 90000, 0, ""), D("video/AV1", 90000, 0, "profile=1"),
  D("video/rtx", 90000, 0, "apt=96"), D("video/rtx", 90000, 0, "apt=97"), D("video/rtx", 90000, 0, "apt=98"),
  D("video/rtx", 90000, 0, "apt=102"), D("video/rtx", 90000, 0, ""), D("video/RTX", 90000, 0, "APT=96"),
  D("video/rtx", 90000, 0, "apt=96;rtx-time=3000"), D("video/rtx", 90000, 0, "apt=300"),
  D("video/flexfec-03", 90000, 0, "repair-window=10000000"),
  D("video/foo", 90000, 0, ""),
  D("audio/opus", 48000, 2, "minptime=10;useinbandfec=1"), D("audio/opus", 48000, 2, ""),
  D("audio/OPUS", 48000, 0, "useinbandfec=0"), D("audio/opus", 0, 0, ""), D("audio/opus", 48000, 1, ""),
  D("audio/PCMU", 8000, 0, ""), D("audio/pcmu", 8000, 1, ""), D("audio/PCMU", 0, 0, ""),
  \* H264 profiles with the same profile_idc as another one of the domain but a different profile-iop
  \* (42e0 / 4200, 6400 / 640c), and one whose profile-level-id is not well-formed hex
  D("video/H264", 90000, 0, "level-asymmetry-allowed=1;packetization-mode=1;profile-level-id=42001f"),
  D("video/H264", 90000, 0, "packetization-mode=1;profile-level-id=42001f"),
  D("video/H264", 90000, 0, "packetization-mode=1;profile-level-id=640c1f"),
  D("video/H264", 90000, 0, "level-asymmetry-allowed=1;packetization-mode=1;profile-level-id=64001f"),
  D("video/H264", 90000, 0, "packetization-mode=1;profile-level-id=4200 1f") >>
\* indices of the H264 descriptors with packetization-mode=1 and a well-formed profile-level-id
H264Pm1 == {i \in 1..Len(DescsBoth) : DescsBoth[i].mime = "video/H264" /\ DescsBoth[i].clock = 90000
                                        /\ ParseLine(DescsBoth[i].line).plid \notin {"none", "bad"}
                                        /\ ParamOr(ParseLine(DescsBoth[i].line), "packetization-mode", "") = "1"}
\* descriptors only the local side can have (media part in another case)
DescsLocalOnly == << D("VIDEO/VP8", 90000, 0, ""), D("Video/H264", 90000, 0, H264A), D("AUDIO/opus", 48000, 2, "") >>
Descs  == DescsBoth \o DescsLocalOnly
NBoth  == Len(DescsBoth)
NDesc  == Len(Descs)

PTs == <<0, 96, 97, 98, 102, 111>>
FBs == << <<>>, <<"nack">>, <<"nack", "nack pli">>, <<"goog-remb", "nack pli", "nack">>, <<"transport-cc", "nack pli">> >>

\* every fmtp line of the domain, and every line apt rewriting can produce from one of them
AptLines == {"apt=" \o ToString(PTs[i]) : i \in 1..Len(PTs)} \cup {"apt=" \o ToString(PTs[i]) \o ";rtx-time=3000" : i \in 1..Len(PTs)}
\* (@@ forces TLC to tabulate a function instead of re-evaluating its body at every application)
NegLineCache ==
  [lines |-> [l \in {Descs[i].line : i \in 1..NDesc} \cup AptLines |-> ParseLine(l)] @@ NoFcn,
   mimes |-> [m \in {Descs[i].mime : i \in 1..NDesc} |-> ParseMime(m)] @@ NoFcn]

\* "video" / "audio" / "other": the kind a codec is registered under / the media section it is offered in
KindOf(c) == LET m == c.P.mf IN
             IF Len(m) >= 6 /\ SubSeq(m, 1, 6) = "video/" THEN "video"
             ELSE IF Len(m) >= 6 /\ SubSeq(m, 1, 6) = "audio/" THEN "audio" ELSE "other"
OfKind(cs, k) == SelectSeq(cs, LAMBDA c : KindOf(c) = k)
Plain(c) == [mime |-> c.mime, clock |-> c.clock, ch |-> c.ch, line |-> c.line, pt |-> c.pt, fb |-> c.fb]
PlainSeq(cs) == [i \in 1..Len(cs) |-> Plain(cs[i])]
=============================================================================
