------------------------------ MODULE TraceKit ------------------------------
(* Shared idiom of the total, accumulating trace specifications.            *)
(* A trace spec reads an ndjson file recorded from the real code, consumes  *)
(* one line per step, evaluates normative predicates on it and accumulates  *)
(* the failing ones in `viol` instead of rejecting the trace, so that every *)
(* failure names property, predicate, behaviour number and line and the     *)
(* rest of the file is still checked.                                       *)
EXTENDS Naturals, Sequences, FiniteSets, TLC, Json, IOUtils

Trace == ndJsonDeserialize(IOEnv.VERIF_TRACE)

\* A predicate instance: applies = antecedent true (non-trivial evaluation),
\* ok = the predicate holds.  `holds` is only evaluated when it applies.
P(prop, name, applies, holds) ==
  [prop |-> prop, name |-> name, app |-> applies, ok |-> (~applies) \/ holds]

\* same with a detail string that is carried into the violation signature
PD(prop, name, applies, holds, detail) ==
  [prop |-> prop, name |-> name \o ":" \o detail, app |-> applies, ok |-> (~applies) \/ holds]

Failures(ps, e, ln) ==
  { [prop |-> p.prop, pred |-> p.name, trace |-> e.t, line |-> ln,
     sig |-> p.name \o ":" \o e.sig] : p \in {q \in ps : ~q.ok} }

\* Keep at most TkKeepPerSig records per signature (a known finding may fire thousands of times;
\* an unbounded set makes validation quadratic).  Every failure is still counted by Count under
\* the name "failed <sig>".
TkKeepPerSig == 5
Merge(viol, fs) ==
  viol \cup {f \in fs : Cardinality({v \in viol : v.sig = f.sig}) < TkKeepPerSig}

BaseName(n) == n   \* names are used as they are for counting

Count(cnt, ps) ==
  LET names == {p.name : p \in ps} IN
  [n \in (DOMAIN cnt) \cup names |->
      (IF n \in DOMAIN cnt THEN cnt[n] ELSE 0) + Cardinality({p \in ps : p.name = n /\ p.app})]

EmptyCount == [n \in {} |-> 0]

\* printed once, at the end of the trace
Report(ln, viol, cnt) ==
  (ln = Len(Trace) + 1) =>
     /\ PrintT(<<"VERIF_COUNT", ToJson(cnt)>>)
     /\ PrintT(<<"VERIF_VIOL", ToJson(viol), "LINES", ln - 1>>)
=============================================================================
