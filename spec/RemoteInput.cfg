CONSTANTS
  NSec = 14
  NVec = 500
  NCand = 300
  NRtp = 300
INIT Init
NEXT Next
INVARIANTS Emit
CHECK_DEADLOCK FALSE
