--------------------------- MODULE Candidate_Trace ---------------------------
(* Trace specification for C25.  One line per candidate: `before` is the     *)
(* candidate as pion/ice represents it, `json` what ice.UnmarshalCandidate   *)
(* makes of ICECandidate.ToJSON().Candidate (jsonok: it parsed), `err` what  *)
(* PeerConnection.AddICECandidate returned for that JSON form, `reached` /   *)
(* `agent` whether and as what the candidate arrived in the ICE agent of the *)
(* PeerConnection, `ufrags` the ufrags of its applied remote description.    *)
(* Lines with ev = "unrep" are vectors pion cannot represent (skipped).      *)
EXTENDS CandidateOps, TraceKit

VARIABLES l, viol, cnt

\* what is carried into the signature of a field mismatch: the field and, for the fields whose
\* known defects depend on it, the class of the input
Class(e, f) ==
  CASE f \in {"raddr", "rport"} -> f \o "/" \o e.vec.rel
    [] f = "exts" -> f \o "/" \o (IF HasDupKey(e.before) THEN "dupkey" ELSE IF HasEmptyValue(e.before) THEN "emptyvalue" ELSE "plain")
    [] OTHER -> f

Preds(e) ==
  LET b       == e.before
      foreign == HasForeignUfrag(b, "ufrag", {e.ufrags[i] : i \in DOMAIN e.ufrags})
      \* pion/ice's agent deliberately does not list remote active-TCP candidates ("will probe server
      \* passive ones") nor unresolved mDNS names: for those only the JSON form is judged
      listed  == ~foreign /\ e.vec.addr # "mdns" /\ b.tcptype # "active"
  IN
  { \* "its JSON form (ToJSON) is accepted by AddICECandidate"
    P("C25", "Accepted", TRUE, e.converr = "" /\ e.err = ""),
    P("C25", "ReachesTransport", listed /\ e.err = "", e.reached),
    \* "drops, without error, any candidate whose ufrag extension names no ufrag in the applied remote description"
    P("C25", "ForeignUfragDroppedSilently", foreign, e.err = "" /\ ~e.reached) }
  \cup
  \* "parses back to a candidate with the same ..." : the JSON form re-parsed, and the candidate
  \* AddICECandidate hands to the ICE transport
  { PD("C25", "FieldsEqual", TRUE, e.jsonok /\ FieldSame(f, b, e.json), "json/" \o Class(e, f)) : f \in Fields }
  \cup
  { PD("C25", "FieldsEqual", listed /\ e.reached, FieldSame(f, b, e.agent), "agent/" \o Class(e, f)) : f \in Fields }

Init == l = 1 /\ viol = {} /\ cnt = EmptyCount

Step ==
  /\ l <= Len(Trace)
  /\ LET e == Trace[l] IN
       IF e.ev # "cand"
       THEN UNCHANGED <<viol, cnt>>
       ELSE LET ps == Preds(e) IN
            /\ viol' = viol \cup Failures(ps, e, l)
            /\ cnt'  = Count(cnt, ps)
  /\ l' = l + 1

Done == l = Len(Trace) + 1 /\ UNCHANGED <<l, viol, cnt>>
Next == Step \/ Done
Rep  == Report(l, viol, cnt)
=============================================================================
