CONSTANTS
  Impl = "asis"
  Enqs = {"a", "b"}
  SelfEnq = {"a"}
  Waiters = {"w"}
  Closers = {"c"}
  MaxGen = 4
SPECIFICATION Spec
INVARIANTS TypeOK EmitInitInv
ACTION_CONSTRAINT EmitEdge
CHECK_DEADLOCK FALSE
