\* simulation: one random alternative per step; every terminated behaviour is printed as a vector
CONSTANTS
  Codecs <- AllCodecs
  Mtus <- MtusSim
  MaxFrames = 8
  Sizes <- SizesSim
  RelSizes = TRUE
  MaxRandPk = 12
  Rates <- RatesAll
  Starts <- StartsWrap
  Deltas <- DeltasSim
  MaxRandDelta = 9000
  Directs = {FALSE, TRUE}
  Ctors <- CtorsAll
  Dims <- DimsAll
  Lossy = FALSE
  NonKeyStart = TRUE
  Pads = TRUE
  Sample = TRUE
  Emit = TRUE
  RdLimit = 1048576
  BigDeltas <- NoDeltas
  MaxBig = 0
  InitSample = 400
INIT Init
NEXT Next
INVARIANTS TypeOK SimInv EmitVec
CHECK_DEADLOCK FALSE
