\* simulation: one random alternative per step; every terminated behaviour is printed as a vector
CONSTANTS
  Codecs <- AllCodecs
  Mtus <- MtusSim
  MaxFrames = 8
  Sizes <- SizesSim
  RelSizes = TRUE
  MaxRandSize = 4000
  Rates <- RatesAll
  Starts <- StartsWrap
  Deltas <- DeltasSim
  MaxRandDelta = 9000
  Directs = {FALSE, TRUE}
  Ctors <- CtorsAll
  Dims <- DimsAll
  Lossy = FALSE
  NonKeyStart = TRUE
  Pads = TRUE
  Sample = TRUE
  Emit = TRUE
  InitSample = 0
INIT Init
NEXT Next
INVARIANTS TypeOK ModelReadBack ModelHeader ModelCount ModelPts ModelPremiseAssemblesAll ModelKeyGate ModelWholeFrames EmitVec
CHECK_DEADLOCK FALSE
