------------------------------ MODULE ConfigOps ------------------------------
(* Property C39: SetConfiguration never changes immutable settings.         *)
(*                                                                          *)
(* Normative operators only.  A configuration is a record                   *)
(*   [bundle, mux, ident : STRING, certs : Seq(STRING), pool : Nat,          *)
(*    policy : STRING, servers : Seq(STRING), sem : STRING, dc : BOOLEAN]    *)
(* (certificates are named by their fingerprint, ICE servers by a canonical  *)
(* rendering).  The zero value of a field means "not specified" in pion's    *)
(* API (BundlePolicyUnknown, RTCPMuxPolicyUnknown, "", no certificates, 0):  *)
(* passing it is not an attempt to change the setting.                       *)
EXTENDS Naturals, Sequences, FiniteSets, TLC, Json

Immutable == {"bundle", "mux", "ident", "certs"}

IsZero(f, v) == CASE f = "certs" -> v = <<>>
                  [] f = "pool"  -> v = 0
                  [] OTHER       -> v = ""

\* the argument asks for a value of field f that differs from the current one
Attempt(f, arg, cur) == ~IsZero(f, arg[f]) /\ arg[f] # cur[f]

ImmutableAttempts(arg, cur, hasLocal) ==
  {f \in Immutable : Attempt(f, arg, cur)} \cup (IF hasLocal /\ Attempt("pool", arg, cur) THEN {"pool"} ELSE {})

ChangeAttempted(arg, cur, hasLocal) == ImmutableAttempts(arg, cur, hasLocal) # {}

IME == "InvalidModificationError"
ISE == "InvalidStateError"

\* ---- the predicates of C39.  res \in {"ok", "err"}; kind = the rtcerr type of the error ("" if ok)
\* "rejects any attempt to change the bundle policy, RTCP mux policy, peer identity or certificates, or
\*  to change the candidate pool size once a local description exists"
C39_RejectsImmutableChange(arg, before, hasLocal, res) ==
  ChangeAttempted(arg, before, hasLocal) => res = "err"

\* "a rejected call returns an InvalidModificationError"; on a closed connection W3C step 2 (and pion)
\* answer InvalidStateError before looking at the argument, which is accepted too
C39_ErrorKind(arg, before, hasLocal, closed, res, kind) ==
  ChangeAttempted(arg, before, hasLocal) /\ res = "err" => kind = IME \/ (closed /\ kind = ISE)

\* the title: whatever the call returns, the immutable settings are what they were
C39_ImmutableNeverChanges(before, after, hasLocal) ==
  /\ \A f \in Immutable : after[f] = before[f]
  /\ hasLocal => after.pool = before.pool

\* "... and leaves GetConfiguration exactly as it was"
C39_ErrorAtomic(before, after, res) == res = "err" => after = before

\* "invalid ICE servers are rejected without partial changes"
C39_BadServersRejected(badServers, res) == badServers => res = "err"
C39_BadServersNoPartialChange(badServers, before, after) == badServers => after = before
=============================================================================
