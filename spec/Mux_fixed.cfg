CONSTANTS
  Impl = "fixed"
  NBefore = 2
  NAfter = 2
SPECIFICATION Spec
INVARIANTS EmitInitInv Ordered ArrivalOrder AllDelivered
ACTION_CONSTRAINT EmitEdge
CHECK_DEADLOCK FALSE
