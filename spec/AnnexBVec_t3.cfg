CONSTANTS
  MaxNals = 4
  MaxNalLen = 3
  HdrSyms = {"S", "H", "Z", "O"}
  BodySyms = {"Z", "O", "F", "S"}
  Sample = 12
  Emit = TRUE
INIT Init
NEXT Next
INVARIANTS CurrentExact SplitIsExact PinnedExactWhenIncluded PinnedCharacterised EmitVec
CHECK_DEADLOCK FALSE
