CONSTANTS
  MaxNals = 2
  MaxNalLen = 2
  HdrSyms = {"S", "H", "Z", "O"}
  BodySyms = {"Z", "O", "F"}
  Sample = 0
  Emit = FALSE
INIT Init
NEXT Next
INVARIANTS PinnedExact
CHECK_DEADLOCK FALSE
