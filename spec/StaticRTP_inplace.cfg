CONSTANTS
  NIds = 3
  MaxSteps = 4
  Copy = "inplace"
  Unbinder = "swapdelete"
  PadFix = TRUE
INIT Init
NEXT Next
INVARIANTS TypeOK ModelBindingsAreSet ModelEachBoundOnce ModelNoneAfterUnbind ModelRewritten ModelRestUnchanged ModelCallerUntouched 

CHECK_DEADLOCK FALSE
