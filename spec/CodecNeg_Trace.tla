--------------------------- MODULE CodecNeg_Trace ---------------------------
(* Trace specification for C15.  Lines recorded by harness/codecneg:         *)
(*   neg   one vector through MediaEngine.updateFromRemoteDescription: per   *)
(*         kind the codecs registered locally (as RegisterCodec kept them),  *)
(*         the codecs written into the remote SDP, whether the SDP had a     *)
(*         section of that kind, getCodecsByKind afterwards; the payload     *)
(*         types 0..127 that getCodecByPayload resolves, with the codec      *)
(*   api   the same vector through SetRemoteDescription on a PeerConnection: *)
(*         RTPReceiver/RTPSender.GetParameters().Codecs of every transceiver *)
(* The predicates are the conjuncts of the normative NegotiatedOK (CodecOps   *)
(* part 4), evaluated per kind the remote description covered, only when the *)
(* description was applied without error.                                    *)
EXTENDS CodecNegDomain, TraceKit

\* (the position variable must not be called l: a variable l makes TLC treat every definition of an
\* extended module that has a bound identifier l as state-dependent, i.e. re-evaluate it at each use)
VARIABLES pos, viol, cnt

PrepSeq(cs) == [i \in 1..Len(cs) |-> PrepC(NegLineCache, cs[i])] \o <<>>

\* predicates for the codecs N in use for one kind (MediaEngine state)
KindPreds(tag, kind, L, R, N) ==
  LET any == Len(N) > 0 IN {
    PD("C15", "OfferedByRemote" \o tag, any, \A i \in 1..Len(N) : OfferedByRemote(N[i], R), kind),
    PD("C15", "RemotePayloadType" \o tag, any, \A i \in 1..Len(N) : RemotePayloadType(N[i], R), kind),
    PD("C15", "MatchesLocal" \o tag, any, \A i \in 1..Len(N) : MatchesLocal(N[i], L), kind) }

\* On the API path the codec list of a transceiver created from the offer is a preference list:
\* setCodecPreferencesFromRemoteDescription matches the offered codecs against the *negotiated* ones,
\* so GetParameters may list an offered codec a second time under the payload type of another
\* offered codec that it matches (Match is not transitive), with the feedback intersected once more.
\* (RemotePayloadType accepts that as long as the two codecs are compatible; when they are merely a
\* partial match of each other it fails: the known finding of checks/findings/C15.txt.)
\* ExactPreferred and FeedbackIsIntersection are therefore judged on the MediaEngine state only (the
\* set incoming payload types are resolved against); on the API path only "within both sides".
FeedbackWithinBothSides(c, L, R) ==
  \E i \in 1..Len(R), j \in 1..Len(L) :
     SameCodec(c, R[i]) /\ MatchedBy(c, L[j]) /\ SeqSet(c.fb) \subseteq (SeqSet(R[i].fb) \cap SeqSet(L[j].fb))

\* On the API path RemotePayloadType is judged per codec and a failure is reported under the CLASS of
\* the failing codec instead of the whole vector (the vectors are random, a known finding must be
\* recognisable in any of them): mime type up to case; whether the codec matches itself (an H264
\* codec without packetization-mode or with a malformed profile-level-id does not); what the payload
\* type it is listed under belongs to in the offer.
ApiKindPreds(where, L, R, N) ==
  LET any == Len(N) > 0 IN {
    PD("C15", "OfferedByRemote@api", any, \A i \in 1..Len(N) : OfferedByRemote(N[i], R), where),
    PD("C15", "RemotePayloadType@api", any, TRUE, where),      \* counted here, judged by ApiPtFailures
    PD("C15", "MatchesLocal@api", any, \A i \in 1..Len(N) : MatchesLocal(N[i], L), where) }
PtClass(c, R) ==
  c.P.mf \o ":" \o (IF Match(c, c) THEN "self-matching" ELSE "not-self-matching") \o ":" \o
  (IF \E i \in 1..Len(R) : R[i].pt = c.pt /\ PartialMatch(R[i], c) THEN "listed-under-pt-of-another-offered-codec-of-same-mime-clock-channels"
   ELSE IF \E i \in 1..Len(R) : R[i].pt = c.pt THEN "listed-under-pt-of-an-unrelated-offered-codec"
   ELSE "listed-under-pt-not-offered")
ApiPtFailuresOf(e, ln, where, R, N) ==
  { [prop |-> "C15", pred |-> "RemotePayloadType@api:" \o where, trace |-> e.t, line |-> ln,
     sig |-> "RemotePayloadType@api:" \o where \o ":" \o PtClass(N[n], R)]
    : n \in {n \in 1..Len(N) : ~RemotePayloadType(N[n], R)} }

KindRec(e, kind) == CHOOSE k \in SeqSet(e.kinds) : k.kind = kind
Covered(e) == SelectSeq(e.kinds, LAMBDA k : k.present)

NegPreds(e) ==
  LET ks == Covered(e)
      negAll == FlattenSeq([i \in 1..Len(ks) |-> ks[i].neg])
      res(pt) == LET hit == {x \in SeqSet(e.lookup) : x.pt = pt} IN
                 IF hit = {} THEN [found |-> FALSE, c |-> NoCodec]
                 ELSE [found |-> TRUE, c |-> (CHOOSE x \in hit : TRUE).c]
  IN UNION { LET L == PrepSeq(ks[i].local) R == PrepSeq(ks[i].remote) N == PrepSeq(ks[i].neg) IN
             KindPreds("", ks[i].kind, L, R, N) \cup
             { PD("C15", "ExactPreferred", Len(N) > 0 /\ ExactOffered(L, R) # {}, ExactPreferred(L, R, N), ks[i].kind),
               PD("C15", "FeedbackIsIntersection", Len(N) > 0,
                  \A n \in 1..Len(N) : FeedbackIsIntersection(N[n], L, R), ks[i].kind) }
             : i \in 1..Len(ks) }
     \cup { P("C15", "NegotiatedBeforeLocalLookup", Len(negAll) > 0,
              \A i \in 1..Len(negAll) : NegotiatedBeforeLocalLookup(negAll, negAll[i].pt, res(negAll[i].pt))) }

ApiPreds(e) ==
  \* (a transceiver of unknown kind -- a local track whose mime type does not start with a lower-case
  \* "audio/" or "video/" -- is outside this property)
  LET us == SelectSeq(e.uses, LAMBDA u : u.kind \in {"audio", "video"} /\ KindRec(e, u.kind).present) IN
  UNION { LET k == KindRec(e, us[i].kind)
              L == PrepSeq(k.local) R == PrepSeq(k.remote) N == PrepSeq(us[i].codecs) IN
          ApiKindPreds(us[i].kind \o "/" \o us[i].src, L, R, N) \cup
          { PD("C15", "FeedbackWithinBothSides@api", Len(N) > 0,
               \A n \in 1..Len(N) : FeedbackWithinBothSides(N[n], L, R), us[i].kind \o "/" \o us[i].src) }
          : i \in 1..Len(us) }

ApiPtFailures(e, ln) ==
  LET us == SelectSeq(e.uses, LAMBDA u : u.kind \in {"audio", "video"} /\ KindRec(e, u.kind).present) IN
  UNION { ApiPtFailuresOf(e, ln, us[i].kind \o "/" \o us[i].src, PrepSeq(KindRec(e, us[i].kind).remote), PrepSeq(us[i].codecs))
          : i \in 1..Len(us) }

Init == pos = 1 /\ viol = {} /\ cnt = EmptyCount

Step ==
  /\ pos <= Len(Trace)
  /\ LET e == Trace[pos] IN
       IF e.ev \in {"neg", "api"} /\ e.err = ""
       THEN LET ps == IF e.ev = "neg" THEN NegPreds(e) ELSE ApiPreds(e) IN
            /\ viol' = Merge(viol, Failures(ps, e, pos) \cup (IF e.ev = "api" THEN ApiPtFailures(e, pos) ELSE {}))
            /\ cnt'  = Count(cnt, ps)
       ELSE UNCHANGED <<viol, cnt>>
  /\ pos' = pos + 1

Done == pos = Len(Trace) + 1 /\ UNCHANGED <<pos, viol, cnt>>
Next == Step \/ Done
Rep  == Report(pos, viol, cnt)
=============================================================================
