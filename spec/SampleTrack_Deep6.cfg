CONSTANTS
  Rates = {8000, 48000, 90000}
  StartSet = {"zero"}
  DurKinds = {"third", "ntsc"}
  Drops = {0, 1}
  Sizes = {1}
  MaxLen = 6
  SeqOpts = {TRUE}
  TsOpts = {TRUE}
  Rebinds = FALSE
  Impl = "carry"
INIT Init
NEXT Next
VIEW mcview
INVARIANTS TypeOK ModelClockExact ModelSameTs ModelNoDrift ModelSeqPlusOne ModelDropSkips
CHECK_DEADLOCK FALSE
