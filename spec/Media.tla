-------------------------------- MODULE Media --------------------------------
(* Media path between two connected peers (C23): RTP written to a local track  *)
(* arrives on the remote track with the announced SSRC, the negotiated payload  *)
(* type and the payload unchanged; RTP is unreliable, so a packet may be lost,  *)
(* but nothing that was not written may arrive.                                 *)
(* The machine: Write(seq) adds a packet to the network, Lose drops one,        *)
(* Arrive delivers one (in any order); with RTX negotiated the receiver may ask *)
(* for a packet again (NACK) and Retransmit puts a second copy on the repair    *)
(* stream, which must come out of the same TrackRemote as the same packet.      *)
(* A packet's RTP header has one of four forms (Hdr): plain, with contributing  *)
(* sources, with a header extension, with both; the form must not matter.       *)
(* The vector space is what is replayed.                                        *)
EXTENDS Naturals, Sequences, FiniteSets, TLC, Json

CONSTANT NPkts
VARIABLES vec, written, net, arrived, resent
vars == <<vec, written, net, arrived, resent>>

Codecs == {"opus", "vp8", "vp9", "vp9p2", "h264", "h264pm0", "h264high", "av1"}
Hdr(s) == <<"plain", "csrc", "ext", "csrc+ext">>[(s % 4) + 1]
Space == [codec : Codecs, rtx : BOOLEAN, bundle : {"single", "audio+video+data"}, offerer : {"sender", "receiver"}]
Init == /\ vec \in {v \in Space : (v.codec = "opus" => ~v.rtx)}
        /\ written = {} /\ net = {} /\ arrived = {} /\ resent = {}
Write(s)  == s \notin written /\ written' = written \cup {s} /\ net' = net \cup {s} /\ UNCHANGED <<vec, arrived, resent>>
Lose(s)   == s \in net /\ net' = net \ {s} /\ UNCHANGED <<vec, written, arrived, resent>>
Arrive(s) == s \in net /\ net' = net \ {s} /\ arrived' = arrived \cup {s} /\ UNCHANGED <<vec, written, resent>>
Retransmit(s) == vec.rtx /\ s \in written /\ s \notin resent /\ resent' = resent \cup {s} /\ net' = net \cup {s}
                 /\ UNCHANGED <<vec, written, arrived>>
Next == \E s \in 1..NPkts : Write(s) \/ Lose(s) \/ Arrive(s) \/ Retransmit(s)

OnlyWhatWasWritten == arrived \subseteq written
EmitVec == (written = {}) => PrintT(<<"VERIF_VEC", ToJson(vec)>>)
=============================================================================
