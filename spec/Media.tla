-------------------------------- MODULE Media --------------------------------
(* Media path between two connected peers (C23): RTP written to a local track  *)
(* arrives on the remote track with the announced SSRC, the negotiated payload  *)
(* type and the payload unchanged; RTP is unreliable, so a packet may be lost,  *)
(* but nothing that was not written may arrive.                                 *)
(* The machine: Write(seq) adds a packet to the network, Lose drops one,        *)
(* Arrive delivers one (in any order).  The vector space is what is replayed.   *)
EXTENDS Naturals, Sequences, FiniteSets, TLC, Json

CONSTANT NPkts
VARIABLES vec, written, net, arrived
vars == <<vec, written, net, arrived>>

Codecs == {"opus", "vp8", "vp9", "h264"}
Space == [codec : Codecs, rtx : BOOLEAN, bundle : {"single", "audio+video+data"}, offerer : {"sender", "receiver"}]
Init == /\ vec \in {v \in Space : (v.codec = "opus" => ~v.rtx)}
        /\ written = {} /\ net = {} /\ arrived = {}
Write(s)  == s \notin written /\ written' = written \cup {s} /\ net' = net \cup {s} /\ UNCHANGED <<vec, arrived>>
Lose(s)   == s \in net /\ net' = net \ {s} /\ UNCHANGED <<vec, written, arrived>>
Arrive(s) == s \in net /\ net' = net \ {s} /\ arrived' = arrived \cup {s} /\ UNCHANGED <<vec, written>>
Next == \E s \in 1..NPkts : Write(s) \/ Lose(s) \/ Arrive(s)

OnlyWhatWasWritten == arrived \subseteq written
EmitVec == (written = {}) => PrintT(<<"VERIF_VEC", ToJson(vec)>>)
=============================================================================
