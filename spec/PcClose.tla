------------------------------- MODULE PcClose -------------------------------
(* PeerConnection.close (C21): any number of Close / GracefulClose callers,    *)
(* racing with a transport callback that updates the connection state          *)
(* (updateConnectionState: compute from the closed flag and the transport       *)
(* states | compare, store and dispatch).  One label per segment between        *)
(* yield points ("pc.close.*", "pc.ucs.computed").                              *)
(*   Impl = "asis":  compute and store of updateConnectionState are separate    *)
(*                   steps of every caller                                      *)
(*   Impl = "fixed": updateConnectionState runs under a mutex                   *)
(*   Impl = "early": as "fixed", but a GracefulClose that finds another one in   *)
(*                   progress waits for the normal closure only (a wrong         *)
(*                   alternative: TLC shows it returns while work is going on)   *)
EXTENDS Naturals, Sequences, FiniteSets, TLC, Json

CONSTANTS Impl, Closers, Graceful,    \* Graceful \subseteq Closers call GracefulClose
          Workers                      \* 0 or 1: a goroutine of the connection is kept busy by the application

(* --algorithm PcClose {
variables isClosed = FALSE, gracefulFlag = FALSE, closeDone = FALSE, gracefulDone = FALSE,
          sigState = "stable", conn = "connected", events = <<>>, ucsMu = "free",
          returned = {},
          busy = Workers,      \* goroutines of the connection that are in the middle of something
                               \* (an operation of the queue, a data-channel read loop in a handler)
          retBusy = [k \in Closers |-> 0];   \* how many of them were still busy when k returned

macro StoreConn(c) { if (conn # c) { conn := c; events := Append(events, c) } }

fair process (K \in Closers) variables already = FALSE, alreadyG = FALSE, c = "x"; {
  kEnter: skip;                                                     \* gate pc.close.enter
  kFlag:  already := isClosed; alreadyG := gracefulFlag; isClosed := TRUE;
          if (self \in Graceful) { gracefulFlag := TRUE };
          if (already) {
            if (self \notin Graceful) { goto kRet }
            else if (alreadyG) { goto kWaitG } else { goto kWaitC }
          };
  kTear:  sigState := "closed";                                     \* steps 3..10 -> gate pc.close.step11
  kUcs1:  if (Impl \in {"fixed", "early"}) { await ucsMu = "free"; ucsMu := self };
          c := IF isClosed THEN "closed" ELSE "other";              \* -> gate pc.ucs.computed
  kUcs2:  StoreConn(c); if (Impl \in {"fixed", "early"}) { ucsMu := "free" };
          if (self \notin Graceful) { closeDone := TRUE; goto kRet };  \* (defer) normal closure finished
  kGrace1: await busy = 0;                                          \* graceful steps: queue drained, read loops ended
          closeDone := TRUE; gracefulDone := TRUE;                  \* (both defers, at return)
          goto kRet;
  kWaitG: if (Impl = "early") { await closeDone } else { await gracefulDone };
          goto kRet;
  kWaitC: await closeDone;                                          \* graceful steps after somebody else's close
  kGrace2: await busy = 0;
          gracefulDone := TRUE;
  kRet:   returned := returned \cup {self}; retBusy[self] := busy;
}

\* a transport state callback that started before (or while) the connection was being closed
fair process (U = "U") variable cu = "x"; {
  uCall:  if (Impl \in {"fixed", "early"}) { await ucsMu = "free"; ucsMu := "U" };
          cu := IF isClosed THEN "closed" ELSE "disconnected";      \* -> gate pc.ucs.computed
  uStore: StoreConn(cu); if (Impl \in {"fixed", "early"}) { ucsMu := "free" };
}

\* the environment: lets the handler the busy goroutine is in return (any time)
fair process (W = "W") {
  wRelease: busy := 0;
}
} *)
\* BEGIN TRANSLATION
VARIABLES pc, isClosed, gracefulFlag, closeDone, gracefulDone, sigState, conn, 
          events, ucsMu, returned, busy, retBusy, already, alreadyG, c, cu

vars == << pc, isClosed, gracefulFlag, closeDone, gracefulDone, sigState, 
           conn, events, ucsMu, returned, busy, retBusy, already, alreadyG, c, 
           cu >>

ProcSet == (Closers) \cup {"U"} \cup {"W"}

Init == (* Global variables *)
        /\ isClosed = FALSE
        /\ gracefulFlag = FALSE
        /\ closeDone = FALSE
        /\ gracefulDone = FALSE
        /\ sigState = "stable"
        /\ conn = "connected"
        /\ events = <<>>
        /\ ucsMu = "free"
        /\ returned = {}
        /\ busy = Workers
        /\ retBusy = [k \in Closers |-> 0]
        (* Process K *)
        /\ already = [self \in Closers |-> FALSE]
        /\ alreadyG = [self \in Closers |-> FALSE]
        /\ c = [self \in Closers |-> "x"]
        (* Process U *)
        /\ cu = "x"
        /\ pc = [self \in ProcSet |-> CASE self \in Closers -> "kEnter"
                                        [] self = "U" -> "uCall"
                                        [] self = "W" -> "wRelease"]

kEnter(self) == /\ pc[self] = "kEnter"
                /\ TRUE
                /\ pc' = [pc EXCEPT ![self] = "kFlag"]
                /\ UNCHANGED << isClosed, gracefulFlag, closeDone, 
                                gracefulDone, sigState, conn, events, ucsMu, 
                                returned, busy, retBusy, already, alreadyG, c, 
                                cu >>

kFlag(self) == /\ pc[self] = "kFlag"
               /\ already' = [already EXCEPT ![self] = isClosed]
               /\ alreadyG' = [alreadyG EXCEPT ![self] = gracefulFlag]
               /\ isClosed' = TRUE
               /\ IF self \in Graceful
                     THEN /\ gracefulFlag' = TRUE
                     ELSE /\ TRUE
                          /\ UNCHANGED gracefulFlag
               /\ IF already'[self]
                     THEN /\ IF self \notin Graceful
                                THEN /\ pc' = [pc EXCEPT ![self] = "kRet"]
                                ELSE /\ IF alreadyG'[self]
                                           THEN /\ pc' = [pc EXCEPT ![self] = "kWaitG"]
                                           ELSE /\ pc' = [pc EXCEPT ![self] = "kWaitC"]
                     ELSE /\ pc' = [pc EXCEPT ![self] = "kTear"]
               /\ UNCHANGED << closeDone, gracefulDone, sigState, conn, events, 
                               ucsMu, returned, busy, retBusy, c, cu >>

kTear(self) == /\ pc[self] = "kTear"
               /\ sigState' = "closed"
               /\ pc' = [pc EXCEPT ![self] = "kUcs1"]
               /\ UNCHANGED << isClosed, gracefulFlag, closeDone, gracefulDone, 
                               conn, events, ucsMu, returned, busy, retBusy, 
                               already, alreadyG, c, cu >>

kUcs1(self) == /\ pc[self] = "kUcs1"
               /\ IF Impl \in {"fixed", "early"}
                     THEN /\ ucsMu = "free"
                          /\ ucsMu' = self
                     ELSE /\ TRUE
                          /\ ucsMu' = ucsMu
               /\ c' = [c EXCEPT ![self] = IF isClosed THEN "closed" ELSE "other"]
               /\ pc' = [pc EXCEPT ![self] = "kUcs2"]
               /\ UNCHANGED << isClosed, gracefulFlag, closeDone, gracefulDone, 
                               sigState, conn, events, returned, busy, retBusy, 
                               already, alreadyG, cu >>

kUcs2(self) == /\ pc[self] = "kUcs2"
               /\ IF conn # c[self]
                     THEN /\ conn' = c[self]
                          /\ events' = Append(events, c[self])
                     ELSE /\ TRUE
                          /\ UNCHANGED << conn, events >>
               /\ IF Impl \in {"fixed", "early"}
                     THEN /\ ucsMu' = "free"
                     ELSE /\ TRUE
                          /\ ucsMu' = ucsMu
               /\ IF self \notin Graceful
                     THEN /\ closeDone' = TRUE
                          /\ pc' = [pc EXCEPT ![self] = "kRet"]
                     ELSE /\ pc' = [pc EXCEPT ![self] = "kGrace1"]
                          /\ UNCHANGED closeDone
               /\ UNCHANGED << isClosed, gracefulFlag, gracefulDone, sigState, 
                               returned, busy, retBusy, already, alreadyG, c, 
                               cu >>

kGrace1(self) == /\ pc[self] = "kGrace1"
                 /\ busy = 0
                 /\ closeDone' = TRUE
                 /\ gracefulDone' = TRUE
                 /\ pc' = [pc EXCEPT ![self] = "kRet"]
                 /\ UNCHANGED << isClosed, gracefulFlag, sigState, conn, 
                                 events, ucsMu, returned, busy, retBusy, 
                                 already, alreadyG, c, cu >>

kWaitG(self) == /\ pc[self] = "kWaitG"
                /\ IF Impl = "early"
                      THEN /\ closeDone
                      ELSE /\ gracefulDone
                /\ pc' = [pc EXCEPT ![self] = "kRet"]
                /\ UNCHANGED << isClosed, gracefulFlag, closeDone, 
                                gracefulDone, sigState, conn, events, ucsMu, 
                                returned, busy, retBusy, already, alreadyG, c, 
                                cu >>

kWaitC(self) == /\ pc[self] = "kWaitC"
                /\ closeDone
                /\ pc' = [pc EXCEPT ![self] = "kGrace2"]
                /\ UNCHANGED << isClosed, gracefulFlag, closeDone, 
                                gracefulDone, sigState, conn, events, ucsMu, 
                                returned, busy, retBusy, already, alreadyG, c, 
                                cu >>

kGrace2(self) == /\ pc[self] = "kGrace2"
                 /\ busy = 0
                 /\ gracefulDone' = TRUE
                 /\ pc' = [pc EXCEPT ![self] = "kRet"]
                 /\ UNCHANGED << isClosed, gracefulFlag, closeDone, sigState, 
                                 conn, events, ucsMu, returned, busy, retBusy, 
                                 already, alreadyG, c, cu >>

kRet(self) == /\ pc[self] = "kRet"
              /\ returned' = (returned \cup {self})
              /\ retBusy' = [retBusy EXCEPT ![self] = busy]
              /\ pc' = [pc EXCEPT ![self] = "Done"]
              /\ UNCHANGED << isClosed, gracefulFlag, closeDone, gracefulDone, 
                              sigState, conn, events, ucsMu, busy, already, 
                              alreadyG, c, cu >>

K(self) == kEnter(self) \/ kFlag(self) \/ kTear(self) \/ kUcs1(self)
              \/ kUcs2(self) \/ kGrace1(self) \/ kWaitG(self)
              \/ kWaitC(self) \/ kGrace2(self) \/ kRet(self)

uCall == /\ pc["U"] = "uCall"
         /\ IF Impl \in {"fixed", "early"}
               THEN /\ ucsMu = "free"
                    /\ ucsMu' = "U"
               ELSE /\ TRUE
                    /\ ucsMu' = ucsMu
         /\ cu' = IF isClosed THEN "closed" ELSE "disconnected"
         /\ pc' = [pc EXCEPT !["U"] = "uStore"]
         /\ UNCHANGED << isClosed, gracefulFlag, closeDone, gracefulDone, 
                         sigState, conn, events, returned, busy, retBusy, 
                         already, alreadyG, c >>

uStore == /\ pc["U"] = "uStore"
          /\ IF conn # cu
                THEN /\ conn' = cu
                     /\ events' = Append(events, cu)
                ELSE /\ TRUE
                     /\ UNCHANGED << conn, events >>
          /\ IF Impl \in {"fixed", "early"}
                THEN /\ ucsMu' = "free"
                ELSE /\ TRUE
                     /\ ucsMu' = ucsMu
          /\ pc' = [pc EXCEPT !["U"] = "Done"]
          /\ UNCHANGED << isClosed, gracefulFlag, closeDone, gracefulDone, 
                          sigState, returned, busy, retBusy, already, alreadyG, 
                          c, cu >>

U == uCall \/ uStore

wRelease == /\ pc["W"] = "wRelease"
            /\ busy' = 0
            /\ pc' = [pc EXCEPT !["W"] = "Done"]
            /\ UNCHANGED << isClosed, gracefulFlag, closeDone, gracefulDone, 
                            sigState, conn, events, ucsMu, returned, retBusy, 
                            already, alreadyG, c, cu >>

W == wRelease

(* Allow infinite stuttering to prevent deadlock on termination. *)
Terminating == /\ \A self \in ProcSet: pc[self] = "Done"
               /\ UNCHANGED vars

Next == U \/ W
           \/ (\E self \in Closers: K(self))
           \/ Terminating

Spec == /\ Init /\ [][Next]_vars
        /\ \A self \in Closers : WF_vars(K(self))
        /\ WF_vars(U)
        /\ WF_vars(W)

Termination == <>(\A self \in ProcSet: pc[self] = "Done")

\* END TRANSLATION

AllDone == \A p \in ProcSet : pc[p] = "Done"
FinalSignalingClosed  == AllDone => sigState = "closed"
FinalConnectionClosed == AllDone => conn = "closed"
NoStateAfterClosed == \A i, j \in 1..Len(events) : (i < j /\ events[i] = "closed") => events[j] = "closed"
AllReturn == <>(returned = Closers)
\* once GracefulClose returned, no goroutine of the connection is still at work
GracefulWaits == \A k \in Graceful : k \in returned => retBusy[k] = 0

Actor == IF \E k \in Closers : K(k) THEN CHOOSE k \in Closers : K(k) ELSE IF U THEN "U" ELSE IF W THEN "W" ELSE "none"
St == [pc |-> pc, isClosed |-> isClosed, conn |-> conn, events |-> events, cd |-> closeDone, gd |-> gracefulDone, mu |-> ucsMu, busy |-> busy]
EmitInitInv == (~isClosed /\ events = <<>> /\ \A k \in Closers : pc[k] = "kEnter") => PrintT(<<"VERIF_INIT", ToJson(St)>>)
EmitEdge == Actor = "none" \/ PrintT(<<"VERIF_EDGE", ToJson([f |-> St, a |-> [proc |-> Actor, label |-> pc[Actor]], t |-> St'])>>)
=============================================================================
