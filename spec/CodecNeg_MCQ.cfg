CONSTANTS
  Impl = "intended"
  Mode = "exhaust"
  MaxLocal = 2
  MaxRemote = 2
  NSample = 0
  Emit = FALSE
INIT Init
NEXT Next
INVARIANTS ModelNegotiatedOK
CHECK_DEADLOCK FALSE
