------------------------------- MODULE ConcProg -------------------------------
(* Generator of concurrent programs for C40: which calls run on which worker    *)
(* goroutine, in which order, and at which phase of the serialized signaling    *)
(* exchange the workers are released.                                           *)
EXTENDS Naturals, Sequences, FiniteSets, TLC, Json, Randomization

CONSTANTS NProg
VARIABLE prog
Calls == {"AddTrack", "RemoveTrack", "AddTransceiverFromKind", "AddTransceiverFromTrack", "CreateDataChannel",
          "GetTransceivers", "GetSenders", "GetReceivers", "SignalingState", "ConnectionState", "ICEConnectionState",
          "ICEGatheringState", "GetStats", "WriteSample"}
Worker == [1..3 -> Calls]
Space == [w1 : Worker, w2 : Worker, w3 : Worker, w4 : Worker, nworkers : 2..4,
          phase : {"before-offer", "after-local-offer", "after-remote-answer", "connected"},
          closeAtEnd : BOOLEAN, reps : {1, 3}]
Init == prog \in RandomSubset(NProg, Space)
Next == UNCHANGED prog
Emit == PrintT(<<"VERIF_VEC", ToJson(prog)>>)
=============================================================================
