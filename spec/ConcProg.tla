------------------------------- MODULE ConcProg -------------------------------
(* Generator of concurrent programs for C40: which calls run on which worker    *)
(* goroutine, in which order, and at which phase of the serialized signaling    *)
(* exchange the workers are released.                                           *)
EXTENDS Naturals, Sequences, FiniteSets, TLC, Json, Randomization

CONSTANTS NProg, NHammer
VARIABLE prog
Calls == {"AddTrack", "RemoveTrack", "AddTransceiverFromKind", "AddTransceiverFromTrack", "CreateDataChannel",
          "GetTransceivers", "GetSenders", "GetReceivers", "SignalingState", "ConnectionState", "ICEConnectionState",
          "ICEGatheringState", "GetStats", "WriteSample"}
Worker == [1..3 -> Calls]
Space == [w1 : Worker, w2 : Worker, w3 : Worker, w4 : Worker, nworkers : 2..4,
          phase : {"before-offer", "after-local-offer", "after-remote-answer", "connected"},
          closeAtEnd : BOOLEAN, reps : {1, 3}]
\* "hammer" programs: four workers repeat three light calls sixty times on a connection whose transports are up (or
\* coming up), among them a call that takes the SCTP transport's lock for writing (CreateDataChannel) and one that
\* takes it for reading under pc.mu (GetStats): windows of a few instructions between two acquisitions are only
\* ever hit by repetition
LightCalls == {"CreateDataChannel", "GetStats", "GetTransceivers", "GetSenders", "SignalingState", "ConnectionState", "WriteSample"}
LightWorker == [1..3 -> LightCalls]
Uses(p, c) == \E w \in {p.w1, p.w2, p.w3, p.w4} : \E i \in 1..3 : w[i] = c
HammerWorkers == RandomSubset(12, LightWorker)
Hammer == {p \in [w1 : HammerWorkers, w2 : HammerWorkers, w3 : HammerWorkers, w4 : HammerWorkers, nworkers : {4},
                   phase : {"after-local-offer", "connected"}, closeAtEnd : BOOLEAN, reps : {60}] :
              Uses(p, "CreateDataChannel") /\ Uses(p, "GetStats")}
Init == prog \in RandomSubset(NProg, Space) \cup RandomSubset(NHammer, Hammer)
Next == UNCHANGED prog
Emit == PrintT(<<"VERIF_VEC", ToJson(prog)>>)
=============================================================================
