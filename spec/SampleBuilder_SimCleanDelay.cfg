CONSTANTS
  M = 65536
  MaxPackets = 24
  MinPackets = 6
  FrameSizes = {2, 3}
  SameTs = TRUE
  MaxLates = {2, 5, 50}
  Delays = {10, 50}
  StartBacks <- SimStartBacks
  MarkerModes = {TRUE, FALSE}
  HeadModes = {FALSE, TRUE}
  Windows = {1, 2, 3}
  Modes = {"clean"}
  MaxLoss = 4
  MaxDup = 4
  MaxPopCalls = 30
  MaxMidFlush = 2
  Eagers = {TRUE, FALSE}
  Holds = {0}
  HoldFors = {3, 7, 12}
  Situations = FALSE
  Algo = "none"
  Impl = "pinned"
  Sampling = TRUE
INIT Init
NEXT Next
INVARIANTS EmitVec
CHECK_DEADLOCK FALSE
