----------------------------- MODULE Serde_Trace -----------------------------
(* Trace specification for C38: every line is one value of a covered type,  *)
(* built by the driver for an abstract vector of Serde.tla, encoded and      *)
(* decoded by pion's own code; orig / dec are the projections of the value   *)
(* and of the decoded value (one token per field), otype / dtype their Go    *)
(* types, encOk / decOk whether the encoder / decoder returned no error.     *)
(* sentinel: the value is the zero "Unknown" constant of an enum; codec:     *)
(* json, text, pem, or string for String()/newX() pairs without a codec.     *)
EXTENDS SerdeOps, TraceKit

VARIABLES l, viol, cnt

Preds(e) ==
  LET weak == e.codec = "string" /\ e.sentinel
      cert == e.fam = "cert"
  IN {
   PD("C38", "RoundTrip", ~cert /\ ~weak,
        C38_RoundTrip(e.encOk, e.decOk, e.otype, e.dtype, e.orig, e.dec), e.fam),
   PD("C38", "RoundTripSentinel", weak, C38_RoundTripSentinel(e.encOk, e.orig, e.dec), e.fam),
   PD("C38", "PemRoundTrip", cert, C38_PemRoundTrip(e.encOk, e.decOk, e.equals, e.orig, e.dec), e.fam)
  }

Init == l = 1 /\ viol = {} /\ cnt = EmptyCount

Step ==
  /\ l <= Len(Trace)
  /\ LET e == Trace[l] IN
       IF e.ev = "reset" THEN UNCHANGED <<viol, cnt>>
       ELSE LET ps == Preds(e) IN
            /\ viol' = viol \cup Failures(ps, e, l)
            /\ cnt'  = Count(cnt, ps)
  /\ l' = l + 1

Done == l = Len(Trace) + 1 /\ UNCHANGED <<l, viol, cnt>>
Next == Step \/ Done
Rep  == Report(l, viol, cnt)
=============================================================================
