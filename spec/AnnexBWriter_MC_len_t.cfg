CONSTANTS
  Impl = "intended"
  Codecs = {"h264", "h265"}
  MTUs = {1200}
  Sizes = {"s", "L255", "L256", "L257", "L300", "L700"}
  MaxNals = 3
  Openers = {FALSE, TRUE}
  Aggs = {TRUE}
  Types264 = {1, 5, 7, 8}
  Types265 = {1, 19, 39}
  Emit = TRUE
INIT Init
NEXT Next
INVARIANTS Correct TailAlways PktfixExactUnlessAggN EmitVec
CHECK_DEADLOCK FALSE
