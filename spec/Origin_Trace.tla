----------------------------- MODULE Origin_Trace -----------------------------
(* Trace specification for C11.  start: a CreateOffer / CreateAnswer call       *)
(* begins (its line number is its start time); call: the call returned; sid is  *)
(* the o= session id, vrel the session version relative to the first one seen.  *)
EXTENDS TraceKit, Integers

VARIABLES pos, viol, cnt, calls, first     \* calls: <<start, end, vrel>> of finished successful calls

Preds(e) ==
  LET c == e.ev = "call" /\ e.ok IN {
   P("C11", "SameSessionId", c /\ first # "", e.sid = first),
   P("C11", "VersionsDistinct", c, \A x \in calls : x[3] # e.vrel),
   P("C11", "RealTimeOrder", c, \A x \in calls : x[2] < e.start => x[3] < e.vrel),
   \* burst: many goroutines stamping descriptions against one origin at once; the driver reports how many
   \* versions were handed out, how many different ones, how many session ids, and whether each caller saw
   \* its own versions increase
   P("C11", "BurstVersionsDistinct", e.ev = "burst", e.distinct = e.n),
   P("C11", "BurstSameSessionId", e.ev = "burst", e.sessionIds = 1),
   P("C11", "BurstIncreasingPerCaller", e.ev = "burst", e.perCallerIncreasing)
  }

Init == pos = 1 /\ viol = {} /\ cnt = EmptyCount /\ calls = {} /\ first = ""
Step ==
  /\ pos <= Len(Trace)
  /\ LET e == Trace[pos] IN
       IF e.ev = "reset" THEN calls' = {} /\ first' = "" /\ UNCHANGED <<viol, cnt>>
       ELSE LET ps == Preds(e) IN
            /\ viol' = Merge(viol, Failures(ps, e, pos)) /\ cnt' = Count(cnt, ps)
            /\ calls' = IF e.ev = "call" /\ e.ok THEN calls \cup {<<e.start, e.seq, e.vrel>>} ELSE calls
            /\ first' = IF e.ev = "call" /\ e.ok /\ first = "" THEN e.sid ELSE first
  /\ pos' = pos + 1
Done == pos = Len(Trace) + 1 /\ UNCHANGED <<pos, viol, cnt, calls, first>>
Next == Step \/ Done
Rep  == Report(pos, viol, cnt)
=============================================================================
