CONSTANTS
  Impl = "current"
  Space = "replayT"
INIT Init
NEXT Next
INVARIANTS EmitVec
CHECK_DEADLOCK FALSE
