CONSTANTS
  Impl = "current"
  Space = "quick"
INIT Init
NEXT Next
INVARIANTS EmitVec
CHECK_DEADLOCK FALSE
