\* exhaustive check of the intended pipeline (quick tier bounds)
CONSTANTS
  Impl = "intended"
  Vias = {"new", "raw"}
  Types = {"host", "srflx"}
  Protos = {"udp", "tcp"}
  AddrForms = {"v4", "mdns"}
  Ports = {"1"}
  Prios = {"1"}
  Comps = {"1"}
  Founds = {"1"}
  Rels = {"none", "full1", "port0"}
  TcpTypes = {"", "active", "passive", "so"}
  ExtKeys = {"generation", "ufrag"}
  ExtVals = {"", "OWN", "FOREIGN"}
  MaxExts = 2
INIT Init
NEXT Next
INVARIANTS ModelSplitInverse ModelJsonRoundTrip ModelAgentRoundTrip ModelAccepted ModelUfrag ModelTokens EmitVec
CHECK_DEADLOCK FALSE
