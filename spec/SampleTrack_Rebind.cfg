CONSTANTS
  Rates = {90000}
  StartSet = {"zero"}
  DurKinds = {"ms20"}
  Drops = {0, 1}
  Sizes = {1}
  MaxLen = 7
  SeqOpts = {TRUE, FALSE}
  TsOpts = {TRUE}
  Rebinds = TRUE
  Impl = "carry"
INIT Init
NEXT Next
VIEW mcview
INVARIANTS TypeOK ModelClockExact ModelSameTs ModelNoDrift ModelSeqPlusOne ModelDropSkips
CHECK_DEADLOCK FALSE
