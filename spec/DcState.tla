------------------------------- MODULE DcState -------------------------------
(* datachannel.go / peerconnection.go: every path that stores a DataChannel's *)
(* readyState (C20).  One label per segment between yield points ("dc.*",     *)
(* "pc.close.step5" hooks).                                                    *)
(*   O  handleOpen       check the closed flag | store open | start read loop *)
(*   C  DataChannel.Close mark closed | check state | store closing, close    *)
(*   P  PeerConnection.Close  ... | store closed on every channel, transport  *)
(*   R  readLoop end     (once the underlying channel or the transport ended) *)
(* Impl = "asis": every store is unconditional.                                *)
(* Impl = "fixed": a store only ever moves the state forward.                  *)
EXTENDS Naturals, Sequences, FiniteSets, TLC, Json

CONSTANTS Impl, Start, WithP       \* Start \in {"connecting", "open"}; WithP: PeerConnection.Close takes part

Rank(s) == CASE s = "connecting" -> 1 [] s = "open" -> 2 [] s = "closing" -> 3 [] OTHER -> 4

(* --algorithm DcState {
variables state = Start,
          closedFlag = FALSE,            \* d.isGracefulClosed
          haveDc = (Start = "open"),     \* d.dataChannel # nil
          under = FALSE,                 \* the underlying channel was closed
          gone = FALSE,                  \* the SCTP transport is gone
          loop = IF Start = "open" THEN "running" ELSE "none",
          stores = <<>>,                 \* every value stored, in order
          oEntered = (Start = "open"),
          closeCalled = FALSE;

macro Store(x) {
  if (Impl = "asis" \/ Rank(x) > Rank(state)) { state := x; stores := Append(stores, x) }
}

fair process (O = "O") {
  oEnter: await Start = "connecting"; oEntered := TRUE;           \* gate dc.handleOpen.enter
  oCheck: if (closedFlag) { under := TRUE; goto oEnd } else { haveDc := TRUE };  \* -> dc.handleOpen.unlocked
  oStore: Store("open");                                           \* -> dc.handleOpen.stored
          if (Impl = "fixed" /\ state # "open") { under := TRUE; goto oEnd };
  oTail:  if (~closedFlag) { loop := "running" };
  oEnd:   skip;
}

fair process (C = "C") variable hs = FALSE; {
  cMark:  await oEntered; closedFlag := TRUE; hs := haveDc; closeCalled := TRUE;   \* -> dc.close.marked
  cCheck: if (state = "closed") { goto cEnd };                     \* -> dc.close.checked
  cStore: Store("closing"); if (hs) { under := TRUE };
  cEnd:   skip;
}

fair process (P = "P") {
  pEnter: await WithP /\ oEntered;                                 \* -> pc.close.step5
  pStore: Store("closed"); gone := TRUE;
}

fair process (R = "R") {
  rWait:  await loop = "running" /\ (under \/ gone);               \* -> dc.readLoop.ending
  rStore: Store("closed"); loop := "ended";
}
} *)
\* BEGIN TRANSLATION
VARIABLES pc, state, closedFlag, haveDc, under, gone, loop, stores, oEntered, 
          closeCalled, hs

vars == << pc, state, closedFlag, haveDc, under, gone, loop, stores, oEntered, 
           closeCalled, hs >>

ProcSet == {"O"} \cup {"C"} \cup {"P"} \cup {"R"}

Init == (* Global variables *)
        /\ state = Start
        /\ closedFlag = FALSE
        /\ haveDc = (Start = "open")
        /\ under = FALSE
        /\ gone = FALSE
        /\ loop = (IF Start = "open" THEN "running" ELSE "none")
        /\ stores = <<>>
        /\ oEntered = (Start = "open")
        /\ closeCalled = FALSE
        (* Process C *)
        /\ hs = FALSE
        /\ pc = [self \in ProcSet |-> CASE self = "O" -> "oEnter"
                                        [] self = "C" -> "cMark"
                                        [] self = "P" -> "pEnter"
                                        [] self = "R" -> "rWait"]

oEnter == /\ pc["O"] = "oEnter"
          /\ Start = "connecting"
          /\ oEntered' = TRUE
          /\ pc' = [pc EXCEPT !["O"] = "oCheck"]
          /\ UNCHANGED << state, closedFlag, haveDc, under, gone, loop, stores, 
                          closeCalled, hs >>

oCheck == /\ pc["O"] = "oCheck"
          /\ IF closedFlag
                THEN /\ under' = TRUE
                     /\ pc' = [pc EXCEPT !["O"] = "oEnd"]
                     /\ UNCHANGED haveDc
                ELSE /\ haveDc' = TRUE
                     /\ pc' = [pc EXCEPT !["O"] = "oStore"]
                     /\ under' = under
          /\ UNCHANGED << state, closedFlag, gone, loop, stores, oEntered, 
                          closeCalled, hs >>

oStore == /\ pc["O"] = "oStore"
          /\ IF Impl = "asis" \/ Rank("open") > Rank(state)
                THEN /\ state' = "open"
                     /\ stores' = Append(stores, "open")
                ELSE /\ TRUE
                     /\ UNCHANGED << state, stores >>
          /\ IF Impl = "fixed" /\ state' # "open"
                THEN /\ under' = TRUE
                     /\ pc' = [pc EXCEPT !["O"] = "oEnd"]
                ELSE /\ pc' = [pc EXCEPT !["O"] = "oTail"]
                     /\ under' = under
          /\ UNCHANGED << closedFlag, haveDc, gone, loop, oEntered, 
                          closeCalled, hs >>

oTail == /\ pc["O"] = "oTail"
         /\ IF ~closedFlag
               THEN /\ loop' = "running"
               ELSE /\ TRUE
                    /\ loop' = loop
         /\ pc' = [pc EXCEPT !["O"] = "oEnd"]
         /\ UNCHANGED << state, closedFlag, haveDc, under, gone, stores, 
                         oEntered, closeCalled, hs >>

oEnd == /\ pc["O"] = "oEnd"
        /\ TRUE
        /\ pc' = [pc EXCEPT !["O"] = "Done"]
        /\ UNCHANGED << state, closedFlag, haveDc, under, gone, loop, stores, 
                        oEntered, closeCalled, hs >>

O == oEnter \/ oCheck \/ oStore \/ oTail \/ oEnd

cMark == /\ pc["C"] = "cMark"
         /\ oEntered
         /\ closedFlag' = TRUE
         /\ hs' = haveDc
         /\ closeCalled' = TRUE
         /\ pc' = [pc EXCEPT !["C"] = "cCheck"]
         /\ UNCHANGED << state, haveDc, under, gone, loop, stores, oEntered >>

cCheck == /\ pc["C"] = "cCheck"
          /\ IF state = "closed"
                THEN /\ pc' = [pc EXCEPT !["C"] = "cEnd"]
                ELSE /\ pc' = [pc EXCEPT !["C"] = "cStore"]
          /\ UNCHANGED << state, closedFlag, haveDc, under, gone, loop, stores, 
                          oEntered, closeCalled, hs >>

cStore == /\ pc["C"] = "cStore"
          /\ IF Impl = "asis" \/ Rank("closing") > Rank(state)
                THEN /\ state' = "closing"
                     /\ stores' = Append(stores, "closing")
                ELSE /\ TRUE
                     /\ UNCHANGED << state, stores >>
          /\ IF hs
                THEN /\ under' = TRUE
                ELSE /\ TRUE
                     /\ under' = under
          /\ pc' = [pc EXCEPT !["C"] = "cEnd"]
          /\ UNCHANGED << closedFlag, haveDc, gone, loop, oEntered, 
                          closeCalled, hs >>

cEnd == /\ pc["C"] = "cEnd"
        /\ TRUE
        /\ pc' = [pc EXCEPT !["C"] = "Done"]
        /\ UNCHANGED << state, closedFlag, haveDc, under, gone, loop, stores, 
                        oEntered, closeCalled, hs >>

C == cMark \/ cCheck \/ cStore \/ cEnd

pEnter == /\ pc["P"] = "pEnter"
          /\ WithP /\ oEntered
          /\ pc' = [pc EXCEPT !["P"] = "pStore"]
          /\ UNCHANGED << state, closedFlag, haveDc, under, gone, loop, stores, 
                          oEntered, closeCalled, hs >>

pStore == /\ pc["P"] = "pStore"
          /\ IF Impl = "asis" \/ Rank("closed") > Rank(state)
                THEN /\ state' = "closed"
                     /\ stores' = Append(stores, "closed")
                ELSE /\ TRUE
                     /\ UNCHANGED << state, stores >>
          /\ gone' = TRUE
          /\ pc' = [pc EXCEPT !["P"] = "Done"]
          /\ UNCHANGED << closedFlag, haveDc, under, loop, oEntered, 
                          closeCalled, hs >>

P == pEnter \/ pStore

rWait == /\ pc["R"] = "rWait"
         /\ loop = "running" /\ (under \/ gone)
         /\ pc' = [pc EXCEPT !["R"] = "rStore"]
         /\ UNCHANGED << state, closedFlag, haveDc, under, gone, loop, stores, 
                         oEntered, closeCalled, hs >>

rStore == /\ pc["R"] = "rStore"
          /\ IF Impl = "asis" \/ Rank("closed") > Rank(state)
                THEN /\ state' = "closed"
                     /\ stores' = Append(stores, "closed")
                ELSE /\ TRUE
                     /\ UNCHANGED << state, stores >>
          /\ loop' = "ended"
          /\ pc' = [pc EXCEPT !["R"] = "Done"]
          /\ UNCHANGED << closedFlag, haveDc, under, gone, oEntered, 
                          closeCalled, hs >>

R == rWait \/ rStore

(* Allow infinite stuttering to prevent deadlock on termination. *)
Terminating == /\ \A self \in ProcSet: pc[self] = "Done"
               /\ UNCHANGED vars

Next == O \/ C \/ P \/ R
           \/ Terminating

Spec == /\ Init /\ [][Next]_vars
        /\ WF_vars(O)
        /\ WF_vars(C)
        /\ WF_vars(P)
        /\ WF_vars(R)

Termination == <>(\A self \in ProcSet: pc[self] = "Done")

\* END TRANSLATION

Monotone == \A i, j \in 1..Len(stores) : i < j => Rank(stores[i]) <= Rank(stores[j])
AllDone == /\ pc["O"] = "Done" \/ Start = "open"
           /\ pc["C"] = "Done"
           /\ pc["P"] = "Done" \/ ~WithP
           /\ pc["R"] = "Done" \/ loop # "running"
EndsClosed == (AllDone /\ closeCalled /\ gone) => state = "closed"
NeverReopens == [][state = "closed" => state' = "closed"]_state

Actor == CASE O -> "O" [] C -> "C" [] P -> "P" [] OTHER -> "R"
St == [pc |-> pc, state |-> state, cf |-> closedFlag, hd |-> haveDc, under |-> under, gone |-> gone,
       loop |-> loop, stores |-> stores]
EmitInitInv == (stores = <<>> /\ ~closedFlag /\ ~gone /\ pc["C"] = "cMark" /\ pc["P"] = "pEnter" /\ pc["O"] = "oEnter"
                /\ pc["R"] = "rWait") => PrintT(<<"VERIF_INIT", ToJson(St)>>)
EmitEdge == PrintT(<<"VERIF_EDGE", ToJson([f |-> St, a |-> [proc |-> Actor, label |-> pc[Actor]], t |-> St'])>>)
=============================================================================
