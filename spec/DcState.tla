------------------------------- MODULE DcState -------------------------------
(* datachannel.go / peerconnection.go: every path that stores a DataChannel's *)
(* readyState (C20).  One label per segment between yield points ("dc.*",     *)
(* "pc.close.step5" hooks).                                                    *)
(*   O  handleOpen       check the closed flag | store open | start read loop *)
(*   C  DataChannel.Close mark closed | check state | store closing, close    *)
(*   P  PeerConnection.Close  ... | store closed on every channel, transport  *)
(*   R  readLoop end     (once the underlying channel or the transport ended) *)
(* Impl = "asis": every store is unconditional (the pinned code).              *)
(* Impl = "fixed": a store only ever moves the state forward, by a             *)
(*   compare-and-swap on the value that was loaded (current code).             *)
(* Impl = "loadstore": decides on the loaded value, then stores without        *)
(*   comparing (a wrong alternative: TLC shows the state moving backwards).    *)
EXTENDS Naturals, Sequences, FiniteSets, TLC, Json

CONSTANTS Impl, Start, WithP       \* Start \in {"connecting", "open"}; WithP: PeerConnection.Close takes part

Rank(s) == CASE s = "connecting" -> 1 [] s = "open" -> 2 [] s = "closing" -> 3 [] OTHER -> 4

(* --algorithm DcState {
variables state = Start,
          closedFlag = FALSE,            \* d.isGracefulClosed
          haveDc = (Start = "open"),     \* d.dataChannel # nil
          under = FALSE,                 \* the underlying channel was closed
          gone = FALSE,                  \* the SCTP transport is gone
          loop = IF Start = "open" THEN "running" ELSE "none",
          stores = <<>>,                 \* every value stored, in order
          oEntered = (Start = "open"),
          closeCalled = FALSE,
          okv = [p \in {"O", "C", "P", "R"} |-> TRUE];   \* what setReadyState returned to p

\* setReadyState(x): load | compare-and-swap, again if somebody else stored in between.
\*   "asis"      (pinned code) stores unconditionally
\*   "fixed"     (current code) moves forward only, by compare-and-swap
\*   "loadstore" (a wrong alternative) decides on the loaded value and then stores without comparing
procedure SetState(x) variable cur = "connecting"; {
  sLoad: cur := state;                                             \* -> gate dc.setstate.loaded
  sCas:  if (Impl = "asis") { state := x; stores := Append(stores, x); okv[self] := TRUE }
         else if (cur = x) { okv[self] := TRUE }
         else if (Rank(cur) > Rank(x)) { okv[self] := FALSE }
         else if (Impl = "loadstore" \/ state = cur) { state := x; stores := Append(stores, x); okv[self] := TRUE }
         else { goto sLoad };
  sRet:  return;
}

fair process (O = "O") {
  oEnter: await Start = "connecting"; oEntered := TRUE;           \* gate dc.handleOpen.enter
  oCheck: if (closedFlag) { under := TRUE; goto oEnd } else { haveDc := TRUE };  \* -> dc.handleOpen.unlocked
  oStore: call SetState("open");                                   \* -> dc.handleOpen.stored
  oTail:  if (Impl # "asis" /\ ~okv["O"]) { under := TRUE }        \* closed meanwhile: close the underlying channel
          else if (~closedFlag) { loop := "running" };
  oEnd:   skip;
}

fair process (C = "C") variable hs = FALSE; {
  cMark:  await oEntered; closedFlag := TRUE; hs := haveDc; closeCalled := TRUE;   \* -> dc.close.marked
  cCheck: if (state = "closed") { goto cEnd };                     \* -> dc.close.checked
  cStore: call SetState("closing");
  cAfter: if (hs) { under := TRUE };
  cEnd:   skip;
}

fair process (P = "P") {
  pEnter: await WithP /\ oEntered;                                 \* -> pc.close.step5
  pStore: call SetState("closed");
  pAfter: gone := TRUE;
}

fair process (R = "R") {
  rWait:  await loop = "running" /\ (under \/ gone);               \* -> dc.readLoop.ending
  rStore: call SetState("closed");
  rAfter: loop := "ended";
}
} *)
\* BEGIN TRANSLATION
CONSTANT defaultInitValue
VARIABLES pc, state, closedFlag, haveDc, under, gone, loop, stores, oEntered, 
          closeCalled, okv, stack, x, cur, hs

vars == << pc, state, closedFlag, haveDc, under, gone, loop, stores, oEntered, 
           closeCalled, okv, stack, x, cur, hs >>

ProcSet == {"O"} \cup {"C"} \cup {"P"} \cup {"R"}

Init == (* Global variables *)
        /\ state = Start
        /\ closedFlag = FALSE
        /\ haveDc = (Start = "open")
        /\ under = FALSE
        /\ gone = FALSE
        /\ loop = (IF Start = "open" THEN "running" ELSE "none")
        /\ stores = <<>>
        /\ oEntered = (Start = "open")
        /\ closeCalled = FALSE
        /\ okv = [p \in {"O", "C", "P", "R"} |-> TRUE]
        (* Procedure SetState *)
        /\ x = [ self \in ProcSet |-> defaultInitValue]
        /\ cur = [ self \in ProcSet |-> "connecting"]
        (* Process C *)
        /\ hs = FALSE
        /\ stack = [self \in ProcSet |-> << >>]
        /\ pc = [self \in ProcSet |-> CASE self = "O" -> "oEnter"
                                        [] self = "C" -> "cMark"
                                        [] self = "P" -> "pEnter"
                                        [] self = "R" -> "rWait"]

sLoad(self) == /\ pc[self] = "sLoad"
               /\ cur' = [cur EXCEPT ![self] = state]
               /\ pc' = [pc EXCEPT ![self] = "sCas"]
               /\ UNCHANGED << state, closedFlag, haveDc, under, gone, loop, 
                               stores, oEntered, closeCalled, okv, stack, x, 
                               hs >>

sCas(self) == /\ pc[self] = "sCas"
              /\ IF Impl = "asis"
                    THEN /\ state' = x[self]
                         /\ stores' = Append(stores, x[self])
                         /\ okv' = [okv EXCEPT ![self] = TRUE]
                         /\ pc' = [pc EXCEPT ![self] = "sRet"]
                    ELSE /\ IF cur[self] = x[self]
                               THEN /\ okv' = [okv EXCEPT ![self] = TRUE]
                                    /\ pc' = [pc EXCEPT ![self] = "sRet"]
                                    /\ UNCHANGED << state, stores >>
                               ELSE /\ IF Rank(cur[self]) > Rank(x[self])
                                          THEN /\ okv' = [okv EXCEPT ![self] = FALSE]
                                               /\ pc' = [pc EXCEPT ![self] = "sRet"]
                                               /\ UNCHANGED << state, stores >>
                                          ELSE /\ IF Impl = "loadstore" \/ state = cur[self]
                                                     THEN /\ state' = x[self]
                                                          /\ stores' = Append(stores, x[self])
                                                          /\ okv' = [okv EXCEPT ![self] = TRUE]
                                                          /\ pc' = [pc EXCEPT ![self] = "sRet"]
                                                     ELSE /\ pc' = [pc EXCEPT ![self] = "sLoad"]
                                                          /\ UNCHANGED << state, 
                                                                          stores, 
                                                                          okv >>
              /\ UNCHANGED << closedFlag, haveDc, under, gone, loop, oEntered, 
                              closeCalled, stack, x, cur, hs >>

sRet(self) == /\ pc[self] = "sRet"
              /\ pc' = [pc EXCEPT ![self] = Head(stack[self]).pc]
              /\ cur' = [cur EXCEPT ![self] = Head(stack[self]).cur]
              /\ x' = [x EXCEPT ![self] = Head(stack[self]).x]
              /\ stack' = [stack EXCEPT ![self] = Tail(stack[self])]
              /\ UNCHANGED << state, closedFlag, haveDc, under, gone, loop, 
                              stores, oEntered, closeCalled, okv, hs >>

SetState(self) == sLoad(self) \/ sCas(self) \/ sRet(self)

oEnter == /\ pc["O"] = "oEnter"
          /\ Start = "connecting"
          /\ oEntered' = TRUE
          /\ pc' = [pc EXCEPT !["O"] = "oCheck"]
          /\ UNCHANGED << state, closedFlag, haveDc, under, gone, loop, stores, 
                          closeCalled, okv, stack, x, cur, hs >>

oCheck == /\ pc["O"] = "oCheck"
          /\ IF closedFlag
                THEN /\ under' = TRUE
                     /\ pc' = [pc EXCEPT !["O"] = "oEnd"]
                     /\ UNCHANGED haveDc
                ELSE /\ haveDc' = TRUE
                     /\ pc' = [pc EXCEPT !["O"] = "oStore"]
                     /\ under' = under
          /\ UNCHANGED << state, closedFlag, gone, loop, stores, oEntered, 
                          closeCalled, okv, stack, x, cur, hs >>

oStore == /\ pc["O"] = "oStore"
          /\ /\ stack' = [stack EXCEPT !["O"] = << [ procedure |->  "SetState",
                                                     pc        |->  "oTail",
                                                     cur       |->  cur["O"],
                                                     x         |->  x["O"] ] >>
                                                 \o stack["O"]]
             /\ x' = [x EXCEPT !["O"] = "open"]
          /\ cur' = [cur EXCEPT !["O"] = "connecting"]
          /\ pc' = [pc EXCEPT !["O"] = "sLoad"]
          /\ UNCHANGED << state, closedFlag, haveDc, under, gone, loop, stores, 
                          oEntered, closeCalled, okv, hs >>

oTail == /\ pc["O"] = "oTail"
         /\ IF Impl # "asis" /\ ~okv["O"]
               THEN /\ under' = TRUE
                    /\ loop' = loop
               ELSE /\ IF ~closedFlag
                          THEN /\ loop' = "running"
                          ELSE /\ TRUE
                               /\ loop' = loop
                    /\ under' = under
         /\ pc' = [pc EXCEPT !["O"] = "oEnd"]
         /\ UNCHANGED << state, closedFlag, haveDc, gone, stores, oEntered, 
                         closeCalled, okv, stack, x, cur, hs >>

oEnd == /\ pc["O"] = "oEnd"
        /\ TRUE
        /\ pc' = [pc EXCEPT !["O"] = "Done"]
        /\ UNCHANGED << state, closedFlag, haveDc, under, gone, loop, stores, 
                        oEntered, closeCalled, okv, stack, x, cur, hs >>

O == oEnter \/ oCheck \/ oStore \/ oTail \/ oEnd

cMark == /\ pc["C"] = "cMark"
         /\ oEntered
         /\ closedFlag' = TRUE
         /\ hs' = haveDc
         /\ closeCalled' = TRUE
         /\ pc' = [pc EXCEPT !["C"] = "cCheck"]
         /\ UNCHANGED << state, haveDc, under, gone, loop, stores, oEntered, 
                         okv, stack, x, cur >>

cCheck == /\ pc["C"] = "cCheck"
          /\ IF state = "closed"
                THEN /\ pc' = [pc EXCEPT !["C"] = "cEnd"]
                ELSE /\ pc' = [pc EXCEPT !["C"] = "cStore"]
          /\ UNCHANGED << state, closedFlag, haveDc, under, gone, loop, stores, 
                          oEntered, closeCalled, okv, stack, x, cur, hs >>

cStore == /\ pc["C"] = "cStore"
          /\ /\ stack' = [stack EXCEPT !["C"] = << [ procedure |->  "SetState",
                                                     pc        |->  "cAfter",
                                                     cur       |->  cur["C"],
                                                     x         |->  x["C"] ] >>
                                                 \o stack["C"]]
             /\ x' = [x EXCEPT !["C"] = "closing"]
          /\ cur' = [cur EXCEPT !["C"] = "connecting"]
          /\ pc' = [pc EXCEPT !["C"] = "sLoad"]
          /\ UNCHANGED << state, closedFlag, haveDc, under, gone, loop, stores, 
                          oEntered, closeCalled, okv, hs >>

cAfter == /\ pc["C"] = "cAfter"
          /\ IF hs
                THEN /\ under' = TRUE
                ELSE /\ TRUE
                     /\ under' = under
          /\ pc' = [pc EXCEPT !["C"] = "cEnd"]
          /\ UNCHANGED << state, closedFlag, haveDc, gone, loop, stores, 
                          oEntered, closeCalled, okv, stack, x, cur, hs >>

cEnd == /\ pc["C"] = "cEnd"
        /\ TRUE
        /\ pc' = [pc EXCEPT !["C"] = "Done"]
        /\ UNCHANGED << state, closedFlag, haveDc, under, gone, loop, stores, 
                        oEntered, closeCalled, okv, stack, x, cur, hs >>

C == cMark \/ cCheck \/ cStore \/ cAfter \/ cEnd

pEnter == /\ pc["P"] = "pEnter"
          /\ WithP /\ oEntered
          /\ pc' = [pc EXCEPT !["P"] = "pStore"]
          /\ UNCHANGED << state, closedFlag, haveDc, under, gone, loop, stores, 
                          oEntered, closeCalled, okv, stack, x, cur, hs >>

pStore == /\ pc["P"] = "pStore"
          /\ /\ stack' = [stack EXCEPT !["P"] = << [ procedure |->  "SetState",
                                                     pc        |->  "pAfter",
                                                     cur       |->  cur["P"],
                                                     x         |->  x["P"] ] >>
                                                 \o stack["P"]]
             /\ x' = [x EXCEPT !["P"] = "closed"]
          /\ cur' = [cur EXCEPT !["P"] = "connecting"]
          /\ pc' = [pc EXCEPT !["P"] = "sLoad"]
          /\ UNCHANGED << state, closedFlag, haveDc, under, gone, loop, stores, 
                          oEntered, closeCalled, okv, hs >>

pAfter == /\ pc["P"] = "pAfter"
          /\ gone' = TRUE
          /\ pc' = [pc EXCEPT !["P"] = "Done"]
          /\ UNCHANGED << state, closedFlag, haveDc, under, loop, stores, 
                          oEntered, closeCalled, okv, stack, x, cur, hs >>

P == pEnter \/ pStore \/ pAfter

rWait == /\ pc["R"] = "rWait"
         /\ loop = "running" /\ (under \/ gone)
         /\ pc' = [pc EXCEPT !["R"] = "rStore"]
         /\ UNCHANGED << state, closedFlag, haveDc, under, gone, loop, stores, 
                         oEntered, closeCalled, okv, stack, x, cur, hs >>

rStore == /\ pc["R"] = "rStore"
          /\ /\ stack' = [stack EXCEPT !["R"] = << [ procedure |->  "SetState",
                                                     pc        |->  "rAfter",
                                                     cur       |->  cur["R"],
                                                     x         |->  x["R"] ] >>
                                                 \o stack["R"]]
             /\ x' = [x EXCEPT !["R"] = "closed"]
          /\ cur' = [cur EXCEPT !["R"] = "connecting"]
          /\ pc' = [pc EXCEPT !["R"] = "sLoad"]
          /\ UNCHANGED << state, closedFlag, haveDc, under, gone, loop, stores, 
                          oEntered, closeCalled, okv, hs >>

rAfter == /\ pc["R"] = "rAfter"
          /\ loop' = "ended"
          /\ pc' = [pc EXCEPT !["R"] = "Done"]
          /\ UNCHANGED << state, closedFlag, haveDc, under, gone, stores, 
                          oEntered, closeCalled, okv, stack, x, cur, hs >>

R == rWait \/ rStore \/ rAfter

(* Allow infinite stuttering to prevent deadlock on termination. *)
Terminating == /\ \A self \in ProcSet: pc[self] = "Done"
               /\ UNCHANGED vars

Next == O \/ C \/ P \/ R
           \/ (\E self \in ProcSet: SetState(self))
           \/ Terminating

Spec == /\ Init /\ [][Next]_vars
        /\ WF_vars(O) /\ WF_vars(SetState("O"))
        /\ WF_vars(C) /\ WF_vars(SetState("C"))
        /\ WF_vars(P) /\ WF_vars(SetState("P"))
        /\ WF_vars(R) /\ WF_vars(SetState("R"))

Termination == <>(\A self \in ProcSet: pc[self] = "Done")

\* END TRANSLATION

Monotone == \A i, j \in 1..Len(stores) : i < j => Rank(stores[i]) <= Rank(stores[j])
AllDone == /\ pc["O"] = "Done" \/ Start = "open"
           /\ pc["C"] = "Done"
           /\ pc["P"] = "Done" \/ ~WithP
           /\ pc["R"] = "Done" \/ loop # "running"
EndsClosed == (AllDone /\ closeCalled /\ gone) => state = "closed"
NeverReopens == [][state = "closed" => state' = "closed"]_state

Actor == CASE O \/ SetState("O") -> "O" [] C \/ SetState("C") -> "C" [] P \/ SetState("P") -> "P" [] OTHER -> "R"
St == [pc |-> pc, state |-> state, cf |-> closedFlag, hd |-> haveDc, under |-> under, gone |-> gone,
       loop |-> loop, stores |-> stores, cur |-> cur, okv |-> okv]
EmitInitInv == (stores = <<>> /\ ~closedFlag /\ ~gone /\ pc["C"] = "cMark" /\ pc["P"] = "pEnter" /\ pc["O"] = "oEnter"
                /\ pc["R"] = "rWait") => PrintT(<<"VERIF_INIT", ToJson(St)>>)
EmitEdge == PrintT(<<"VERIF_EDGE", ToJson([f |-> St, a |-> [proc |-> Actor, label |-> pc[Actor]], t |-> St'])>>)
=============================================================================
