CONSTANTS
  NIds = 3
  MaxSteps = 5
  Copy = "pooled"
  Unbinder = "swapdelete"
  PadFix = TRUE
  Lock = "snapshot"
INIT Init
NEXT Next
INVARIANTS ModelLinearizable

CHECK_DEADLOCK FALSE
