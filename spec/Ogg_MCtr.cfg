\* exhaustive (thorough tier): up to 3 tracks, up to 2 packets
CONSTANTS
  Impl = "current"
  Apis = {"New", "NewWith", "Writer", "WriterSeek"}
  MaxTracks = 3
  MaxPackets = 2
  Sizes <- SizesFew
  MaxRandSize = 0
  MaxRandBig = 0
  TocBytes = {0, 99}
  B1s = {3, 13}
  Empties = TRUE
  Bufs = {"fresh"}
  ChCfgs = {"c2"}
  TagCfgs <- TagTwo
  Rates <- RatesOne
  Sample = FALSE
  Emit = FALSE
  InitSample = 0
INIT Init
NEXT Next
INVARIANTS TypeOK ModelPageShape ModelBos ModelTags ModelSeq ModelEos ModelGranule ModelPackets ModelBodies ModelEosOnlyLast ModelBosFirst
CHECK_DEADLOCK FALSE
