CONSTANTS
  MaxNals = 2
  MaxNalLen = 3
  HdrSyms = {"S", "H", "Z", "O"}
  BodySyms = {"Z", "O", "F"}
  Sample = 0
  Emit = TRUE
INIT Init
NEXT Next
INVARIANTS CurrentExact SplitIsExact PinnedExactWhenIncluded PinnedCharacterised EmitVec
CHECK_DEADLOCK FALSE
