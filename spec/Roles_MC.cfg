CONSTANT Impl = "intended"
INIT Init
NEXT Next
INVARIANTS ModelAnswerNotActpass ModelLegalAnswer ModelDtlsOpposite ModelDtlsMatchesSetup Emit
CHECK_DEADLOCK FALSE
