----------------------------- MODULE DcIds_Trace -----------------------------
(* Trace specification for C18: after every step, for each endpoint, the       *)
(* stream id of every channel it knows (-1 = none yet), whether the            *)
(* application chose the id (explicit) and whether the channel was created     *)
(* locally or announced by the peer, plus the endpoint's DTLS role.            *)
EXTENDS TraceKit

VARIABLES pos, viol, cnt, seen      \* seen: <<who, k, id>> for every channel that had an id

Assigned(e) == {i \in 1..Len(e.chans) : e.chans[i].origin = "local" /\ ~e.chans[i].explicit /\ e.chans[i].id >= 0}

Preds(e) ==
  LET ids == e.ev = "ids" IN {
   P("C18", "Parity", ids /\ e.role \in {"client", "server"} /\ Assigned(e) # {},
        \A i \in Assigned(e) : e.chans[i].id % 2 = (IF e.role = "client" THEN 0 ELSE 1)),
   P("C18", "Not65535", ids /\ Assigned(e) # {}, \A i \in Assigned(e) : e.chans[i].id # 65535),
   P("C18", "UniqueAssigned", ids /\ Assigned(e) # {},
        \A i \in Assigned(e) : \A j \in 1..Len(e.chans) : (j # i /\ e.chans[j].id >= 0) => e.chans[j].id # e.chans[i].id),
   \* ids handed out by the allocator to concurrent callers (no channel attached): pairwise different,
   \* different from every channel's id, of the role's parity
   P("C18", "UniqueAlloc", ids /\ Len(e.alloc) > 0,
        /\ Cardinality({e.alloc[i] : i \in 1..Len(e.alloc)}) = Len(e.alloc)
        /\ \A i \in 1..Len(e.alloc) : \A j \in 1..Len(e.chans) : e.chans[j].id # e.alloc[i]),
   P("C18", "ParityAlloc", ids /\ Len(e.alloc) > 0 /\ e.role \in {"client", "server"},
        \A i \in 1..Len(e.alloc) : e.alloc[i] % 2 = (IF e.role = "client" THEN 0 ELSE 1) /\ e.alloc[i] # 65535),
   \* openRace: both opening paths ran on one channel at once; raceIds = the different ids the channel was seen
   \* with meanwhile, taken = how many ids the allocator handed out for it
   P("C18", "OneIdPerChannel", ids /\ e.race, Len(e.raceIds) <= 1 /\ e.taken = 1),
   P("C18", "IdStable", ids,
        \A i \in 1..Len(e.chans) : \A x \in seen : (x[1] = e.who /\ x[2] = e.chans[i].k) => x[3] = e.chans[i].id)
  }

Init == pos = 1 /\ viol = {} /\ cnt = EmptyCount /\ seen = {}
Step ==
  /\ pos <= Len(Trace)
  /\ LET e == Trace[pos] IN
       IF e.ev = "reset" THEN seen' = {} /\ UNCHANGED <<viol, cnt>>
       ELSE LET ps == Preds(e) IN
            /\ viol' = Merge(viol, Failures(ps, e, pos)) /\ cnt' = Count(cnt, ps)
            /\ seen' = seen \cup {<<e.who, e.chans[i].k, e.chans[i].id>> : i \in {j \in 1..Len(e.chans) : e.chans[j].id >= 0}}
  /\ pos' = pos + 1
Done == pos = Len(Trace) + 1 /\ UNCHANGED <<pos, viol, cnt, seen>>
Next == Step \/ Done
Rep  == Report(pos, viol, cnt)
=============================================================================
