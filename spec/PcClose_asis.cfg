CONSTANTS
  Impl = "asis"
  Closers = {"k1", "k2", "k3"}
  Graceful = {"k2", "k3"}
SPECIFICATION Spec
INVARIANTS EmitInitInv 

ACTION_CONSTRAINT EmitEdge
CHECK_DEADLOCK FALSE
