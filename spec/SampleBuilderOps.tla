-------------------------- MODULE SampleBuilderOps --------------------------
(* Property C31, normative operators (result-oriented: nothing here knows   *)
(* about the ring buffer of pkg/media/samplebuilder).                       *)
(*                                                                          *)
(*   "Whatever order packets are pushed in, including loss, duplicates and  *)
(*    wrap-around, each sample a SampleBuilder emits is the concatenated    *)
(*    depacketized payload of a contiguous run of pushed packets that share *)
(*    one RTP timestamp and start at a partition head.  Samples come out in *)
(*    sequence-number order and no packet contributes to two samples.  For  *)
(*    a loss-free stream reordered within maxLate, every complete frame is  *)
(*    emitted after Flush."                                                 *)
(*                                                                          *)
(* Vocabulary.  A session is described by                                   *)
(*   stream  : the packets the sender produced, in stream order; the tag of *)
(*             a packet is its position in the stream (1..Len(stream));     *)
(*             [seq, ts, head, tail, frame]  (seq mod M; head/tail are what *)
(*             the depacketizer reports as partition head / partition tail) *)
(*   pushes  : what reached the builder, in arrival order: [tag, at]        *)
(*             (a tag may be absent = lost, or repeated = duplicate)        *)
(*   samples : what Pop returned, in order: [tags, ats, wf, at]; tags and   *)
(*             ats are read off the sample's payload (each packet's         *)
(*             depacketized payload is its tag and the script position of   *)
(*             the Push that brought this copy), wf says the payload was a  *)
(*             whole number of such entries                                 *)
(*   at      : position of the call in the session's script (1, 2, ...)     *)
(* M is the sequence-number modulus (2^16 for RTP; small in model runs).    *)
EXTENDS Integers, Sequences, FiniteSets, TLC, Json

Known(stream, tag) == tag \in 1..Len(stream)
AllKnown(stream, s) == \A k \in DOMAIN s.tags : Known(stream, s.tags[k])
PushedBefore(pushes, tag, at) == \E i \in DOMAIN pushes : pushes[i].tag = tag /\ pushes[i].at < at

\* b is the sequence number after a
SeqNext(a, b, M) == b = (a + 1) % M
\* a precedes b in the (half-window) circular order
SeqBefore(a, b, M) == LET d == (b - a + M) % M IN d >= 1 /\ d < M \div 2

\* ---- the four safety predicates, per sample ------------------------------------------------------
\* the sample is made of packets that had been pushed when it was popped, consecutive in sequence
\* number, all with one timestamp
ContiguousSameTs(stream, pushes, s, M) ==
  /\ s.wf /\ Len(s.tags) >= 1
  /\ AllKnown(stream, s)
  /\ \A k \in DOMAIN s.tags : PushedBefore(pushes, s.tags[k], s.at)
  /\ \A k \in 1..(Len(s.tags) - 1) : SeqNext(stream[s.tags[k]].seq, stream[s.tags[k + 1]].seq, M)
  /\ \A k \in DOMAIN s.tags : stream[s.tags[k]].ts = stream[s.tags[1]].ts

StartsAtHead(stream, s) == Len(s.tags) >= 1 /\ Known(stream, s.tags[1]) /\ stream[s.tags[1]].head

\* s comes out after prev: its first packet follows prev's last packet in sequence-number order
InOrder(stream, prev, s, M) ==
  /\ Len(prev.tags) >= 1 /\ Len(s.tags) >= 1
  /\ Known(stream, prev.tags[Len(prev.tags)]) /\ Known(stream, s.tags[1])
  /\ SeqBefore(stream[prev.tags[Len(prev.tags)]].seq, stream[s.tags[1]].seq, M)

\* no packet contributes to two samples (nor twice to one)
TagUses(samples, tag) ==
  Cardinality(UNION {{<<i, k>> : k \in {j \in DOMAIN samples[i].tags : samples[i].tags[j] = tag}} : i \in DOMAIN samples})
AllTags(samples) == UNION {{samples[i].tags[k] : k \in DOMAIN samples[i].tags} : i \in DOMAIN samples}
NoPacketTwice(samples) == \A tag \in AllTags(samples) : TagUses(samples, tag) = 1

\* ---- shapes of a failure (carried into violation signatures, so that a known defect is matched by
\* the abstract form of what went wrong and anything else is still reported) ---------------------
\* samples[i] (i > 1) is not in order after samples[i-1]:
\*   "repeat"  the very same sample (same packets) came out before
\*   "older"   it starts at or before the end of its predecessor (the builder went backwards)
\*   "other"   anything else (e.g. a jump of more than half the sequence space)
LastSeq(stream, s)  == stream[s.tags[Len(s.tags)]].seq
FirstSeq(stream, s) == stream[s.tags[1]].seq
InOrderShape(stream, samples, i, M) ==
  IF \E j \in 1..(i - 1) : samples[j].tags = samples[i].tags THEN "repeat"
  ELSE IF /\ Len(samples[i].tags) >= 1 /\ Len(samples[i - 1].tags) >= 1
          /\ AllKnown(stream, samples[i]) /\ AllKnown(stream, samples[i - 1])
          /\ \/ FirstSeq(stream, samples[i]) = LastSeq(stream, samples[i - 1])
             \/ SeqBefore(FirstSeq(stream, samples[i]), LastSeq(stream, samples[i - 1]), M)
       THEN "older"
  ELSE "other"
\* some packet is used twice: "repeat" when that is because a whole sample came out twice
TwiceShape(samples) ==
  IF \A tag \in AllTags(samples) : TagUses(samples, tag) > 1 =>
        \E i \in DOMAIN samples, j \in DOMAIN samples : i < j /\ samples[i].tags = samples[j].tags
                                                      /\ \E k \in DOMAIN samples[i].tags : samples[i].tags[k] = tag
  THEN "repeat" ELSE "overlap"

\* In which situation did the builder accept the (first) packet P of a sample that then came out
\* wrongly?  Looked at from outside, at the moment P was pushed:
\*   held    the packets pushed since the last Flush (or the start) that had not come out in a sample
\*   popped  Pop had been called since that Flush while such packets were there (the builder had
\*           begun to hand out the stream it was holding)
\* "drained"               nothing was held: the builder was empty and had no memory of the past
\* "among-held"            some held packet precedes P: P fell inside / after what was buffered
\* "before-held-unpopped"  every held packet follows P and Pop had not been called on them
\* "before-held-popped"    every held packet follows P and the builder was already handing them out
PushSituation(stream, held, p, popped, M) ==
  IF held \ {p} = {} THEN "drained"
  ELSE IF \E q \in held \ {p} : SeqBefore(stream[q].seq, stream[p].seq, M) THEN "among-held"
  ELSE IF popped THEN "before-held-popped" ELSE "before-held-unpopped"

\* the same from a recorded session: pushes [tag, at], samples [tags, at], script positions of the Pop
\* and Flush calls; `at` is the position of the push of p that is looked at
LastFlushBefore(flushes, at) ==
  LET before == {f \in flushes : f < at} IN IF before = {} THEN 0 ELSE CHOOSE f \in before : \A g \in before : g <= f
HeldAt(pushes, samples, flushes, at) ==
  LET lf == LastFlushBefore(flushes, at) IN
  {pushes[j].tag : j \in {j2 \in DOMAIN pushes : lf < pushes[j2].at /\ pushes[j2].at < at}}
    \ UNION {{samples[i].tags[k] : k \in DOMAIN samples[i].tags} : i \in {i2 \in DOMAIN samples : samples[i2].at < at}}
PoppedAt(pushes, popCalls, flushes, at) ==
  LET lf == LastFlushBefore(flushes, at) IN
  \E c \in popCalls : lf < c /\ c < at /\ \E j \in DOMAIN pushes : lf < pushes[j].at /\ pushes[j].at < c
\* The sample names the arrivals it was built from (ats: script positions of the pushes); the one that
\* is looked at is the arrival of its first packet.
SampleContext(stream, pushes, samples, popCalls, flushes, i, M) ==
  IF Len(samples[i].tags) = 0 \/ ~Known(stream, samples[i].tags[1]) \/ Len(samples[i].ats) = 0 THEN "unknown-arrival"
  ELSE LET at == samples[i].ats[1] IN
       PushSituation(stream, HeldAt(pushes, samples, flushes, at), samples[i].tags[1],
                     PoppedAt(pushes, popCalls, flushes, at), M)
       \o (IF LastFlushBefore(flushes, at) > 0 THEN "/after-a-flush" ELSE "/no-flush-yet")
Contexts == {"drained", "among-held", "before-held-unpopped", "before-held-popped"}
\* maxLate so small that one frame of three packets overflows the window
WindowClass(maxLate) == IF maxLate <= 3 THEN "tiny-window" ELSE "window"
WindowClasses == {"tiny-window", "window"}
\* a later sample that re-uses a packet: "repeat" if it is an earlier sample all over again
ReusesPacket(samples, i) ==
  \E k \in DOMAIN samples[i].tags :
     \/ \E j \in 1..(i - 1) : \E k2 \in DOMAIN samples[j].tags : samples[j].tags[k2] = samples[i].tags[k]
     \/ \E k2 \in DOMAIN samples[i].tags : k2 < k /\ samples[i].tags[k2] = samples[i].tags[k]
ReuseShape(samples, i) == IF \E j \in 1..(i - 1) : samples[j].tags = samples[i].tags THEN "repeat" ELSE "overlap"

\* ---- completeness after Flush --------------------------------------------------------------------
\* A frame is a maximal run of consecutive stream positions with one frame id (the sender numbers
\* its frames; frames are contiguous in the stream).  A frame is named by its first position.
RECURSIVE FirstOf(_, _)
FirstOf(stream, p) == IF p = 1 \/ stream[p - 1].frame # stream[p].frame THEN p ELSE FirstOf(stream, p - 1)
RECURSIVE LastOf(_, _)
LastOf(stream, p) == IF p = Len(stream) \/ stream[p + 1].frame # stream[p].frame THEN p ELSE LastOf(stream, p + 1)
FrameStarts(stream) == {p \in DOMAIN stream : FirstOf(stream, p) = p}
FrameTags(stream, f) == [k \in 1..(LastOf(stream, f) - f + 1) |-> f + k - 1]
\* the frame ends with a packet the depacketizer calls a partition tail
Delimited(stream, f) == stream[LastOf(stream, f)].tail

PushCount(pushes, tag) == Cardinality({i \in DOMAIN pushes : pushes[i].tag = tag})

\* What a builder must have seen to be able to emit the frame of packet p: all packets of the frame
\* and, when the frame is not delimited by a partition tail, the first packet of the next frame (only
\* the change of timestamp tells the frame is over).  AnchorOf(p) is the first packet of the frame
\* that p is needed for: p's own frame, or the preceding one if p is the packet that terminates it.
AnchorOf(stream, p) ==
  IF FirstOf(stream, p) = p /\ p > 1 /\ ~stream[p - 1].tail
  THEN FirstOf(stream, p - 1)
  ELSE FirstOf(stream, p)
Anchors(stream) == [p \in DOMAIN stream |-> AnchorOf(stream, p)]

\* "loss-free stream reordered within maxLate", made precise so that no legitimate drop falls under
\* it (a weaker premise, e.g. each *packet* less than maxLate late, lets the builder rightly give up a
\* multi-packet frame whose head has left the window before its last packet arrived):
\*   - every packet of the stream is pushed exactly once (no loss, no duplicate);
\*   - every packet needed for a frame is pushed before any packet whose sequence number is maxLate
\*     or more ahead of the frame's first packet (tags are stream positions, so differences of tags
\*     are differences of sequence numbers);
\*   - consecutive frames have different timestamps (so "frame" is what the builder can see);
\*   - the stream is shorter than half the sequence-number space;
\*   - no time-based purging (WithMaxTimeDelay off, or the whole stream spans no more than the configured delay,
\*     so that nothing is ever too old);
\*   - Flush is called after the last push and Pop only after that Flush (a builder popped while the
\*     first packets are still in flight cannot know they exist and may rightly skip them).
\* static part: what the stream must look like
StreamPremise(stream, M) ==
  /\ Len(stream) >= 1 /\ 2 * Len(stream) < M
  /\ \A i \in 1..(Len(stream) - 1) :
        stream[i].frame # stream[i + 1].frame => stream[i].ts # stream[i + 1].ts
\* arrival part, per push: when q arrives, every packet p it could push out of the window (q is
\* maxLate or more ahead of the first packet of the frame p is needed for) has arrived before
\* (anchors = Anchors(stream), computed once per session)
ArrivalOK(anchors, before, q, maxLate) ==
  \A p \in DOMAIN anchors : q - anchors[p] >= maxLate => p \in before
CompletenessPremise(stream, pushes, maxLate, delayOff, flushAt, lastPushAt, firstPopAt, M) ==
  /\ StreamPremise(stream, M)
  /\ delayOff
  /\ \A i \in DOMAIN pushes : Known(stream, pushes[i].tag)
  /\ \A tag \in DOMAIN stream : PushCount(pushes, tag) = 1
  /\ flushAt > lastPushAt /\ (firstPopAt = 0 \/ firstPopAt > flushAt)
  /\ LET anchors == Anchors(stream) IN
     \A i \in DOMAIN pushes :
        ArrivalOK(anchors, {pushes[j].tag : j \in 1..(i - 1)}, pushes[i].tag, maxLate)

\* frames the builder can know to be complete: all but a last frame that no partition tail closes
CompleteFrames(stream) ==
  {f \in FrameStarts(stream) : Delimited(stream, f) \/ LastOf(stream, f) < Len(stream)}
Emitted(stream, samples, f) == \E i \in DOMAIN samples : samples[i].tags = FrameTags(stream, f)
MissingFrames(stream, samples) == {f \in CompleteFrames(stream) : ~Emitted(stream, samples, f)}
CompleteAfterFlush(stream, samples) == MissingFrames(stream, samples) = {}

\* does the stream cross the sequence-number wrap, and is everything that is missing at or after it?
WrapTag(stream) ==
  IF \E i \in 2..Len(stream) : stream[i].seq < stream[i - 1].seq
  THEN CHOOSE i \in 2..Len(stream) : stream[i].seq < stream[i - 1].seq ELSE 0
=============================================================================
