\* exhaustive (quick tier), frames around and beyond the reader's 1 MiB chunk limit (1 MiB - 1, 1 MiB, 1 MiB + 1,
\* 1 MiB + 4096): every stream of <= 3 frames with at most one such frame - first, in the middle, last, alone - among
\* small frames; every behaviour is also emitted as a replay vector
CONSTANTS
  Codecs = {"VP8"}
  Mtus = {65000}
  MaxFrames = 3
  Sizes = {100}
  RelSizes = FALSE
  MaxRandPk = 0
  Rates <- RatesOne
  Starts <- StartsOne
  Deltas = {3000}
  MaxRandDelta = 0
  Directs = {FALSE}
  Ctors = {"buf"}
  Dims <- DimsOne
  Lossy = FALSE
  NonKeyStart = FALSE
  Pads = FALSE
  Sample = FALSE
  Emit = TRUE
  RdLimit = 1048576
  BigDeltas <- BigDeltasAll
  MaxBig = 1
  InitSample = 0
INIT Init
NEXT Next
INVARIANTS TypeOK ModelReadBack ModelHeader ModelCount ModelPts ModelPremiseAssemblesAll ModelKeyGate ModelWholeFrames EmitVec
CHECK_DEADLOCK FALSE
