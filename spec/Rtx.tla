-------------------------------- MODULE Rtx --------------------------------
(* Generative model for C26: the in-place header surgery of                  *)
(* rtpreceiver.go:maybeStartRepairStreamReader, transcribed statement by     *)
(* statement over a byte buffer, for every packet *layout* (CSRC count,      *)
(* header extension, padding, payload length, marker).  TLC checks that what *)
(* the transcribed algorithm delivers, re-parsed by the RFC 3550 layout      *)
(* operator ParseRtp, satisfies the normative operators of RtxOps, that it   *)
(* drops exactly the packets that are too short to carry an OSN, and that it *)
(* never reads a byte beyond the received length.  Every initial state is a  *)
(* layout; they are emitted (VERIF_VEC) and replayed, with concrete byte     *)
(* fillings, into the real receiver.                                         *)
(*                                                                           *)
(* Bytes the algorithm only moves are opaque tags (1000 + position in the    *)
(* received packet), so any byte that ends up in the wrong place makes the   *)
(* re-parsed packet differ from Unwrap(...).                                 *)
EXTENDS RtxOps, Json

CONSTANTS XProfs,    \* names of header-extension profiles (opaque to the algorithm)
          XLens,     \* header-extension lengths in 32-bit words
          Pads,      \* padding octet counts (0 = P bit clear)
          PLens,     \* RTX payload lengths incl. the OSN; 9999 stands for "fills the MTU"
          Markers,
          MTU        \* size of the pooled receive buffer (SettingEngine.getReceiveMTU)

CCs    == 0..15
RtxPT  == 97
PrimPT == 96                               \* remoteTrack.PayloadType()
PrimSsrc == <<2001, 2002, 2003, 2004>>     \* remoteTrack.SSRC(), four opaque bytes
Prim   == [pt |-> PrimPT, ssrc |-> PrimSsrc]

VARIABLES lay,      \* the layout of the received packet
          sent,     \* the packet as it was received (never changed; what the verdicts refer to)
          pc,       \* program counter of the repair goroutine's loop body
          buf,      \* b[:i]   (1-based here)
          hl,       \* headerLength (uint16 in the code)
          padl,     \* paddingLength
          att,      \* attributes
          out,      \* what is queued for TrackRemote.Read (b[:i-2])
          stale     \* TRUE once a byte at or beyond i was read

vars == <<lay, sent, pc, buf, hl, padl, att, out, stale>>

ExtChoices == {[x |-> 0, prof |-> "none", xl |-> 0]}
              \cup {[x |-> 1, prof |-> p, xl |-> l] : p \in XProfs, l \in XLens}

HdrLen(e, cc) == 12 + 4 * cc + (IF e.x = 1 THEN 4 + 4 * e.xl ELSE 0)
PayLen(e, cc, pad, pl) == IF pl = 9999 THEN MTU - HdrLen(e, cc) - pad ELSE pl

Layouts ==
  { [cc |-> cc, x |-> e.x, prof |-> e.prof, xl |-> e.xl, pad |-> pad,
     pl |-> PayLen(e, cc, pad, pl), plmax |-> IF pl = 9999 THEN 1 ELSE 0, m |-> m,
     len |-> HdrLen(e, cc) + PayLen(e, cc, pad, pl) + pad] :
       cc \in CCs, e \in ExtChoices, pad \in Pads, pl \in PLens, m \in Markers }

\* the packet as the sender built it
Build(l) ==
  LET base == 12 + 4 * l.cc
      h    == base + (IF l.x = 1 THEN 4 + 4 * l.xl ELSE 0) IN
  [k \in 1..l.len |->
     CASE k = 1 -> 128 + 32 * (IF l.pad > 0 THEN 1 ELSE 0) + 16 * l.x + l.cc
       [] k = 2 -> 128 * l.m + RtxPT
       [] l.x = 1 /\ k = base + 3 -> l.xl \div 256
       [] l.x = 1 /\ k = base + 4 -> l.xl % 256
       [] l.pad > 0 /\ k = l.len -> l.pad
       [] l.pad > 0 /\ k > h + l.pl -> 0
       [] OTHER -> 1000 + k]

NoAtt == [has |-> FALSE, pt |-> 0, seq |-> <<>>, ssrc |-> <<>>]

Init == /\ lay \in Layouts
        /\ sent = Build(lay) /\ buf = sent
        /\ pc = "hdr" /\ hl = 0 /\ padl = 0 /\ att = NoAtt /\ out = <<>> /\ stale = FALSE

\* Rtx_Vec.cfg: layouts only (the buffer is not built)
InitVec == /\ lay \in Layouts /\ sent = <<>> /\ buf = <<>>
           /\ pc = "hdr" /\ hl = 0 /\ padl = 0 /\ att = NoAtt /\ out = <<>> /\ stale = FALSE

n == Len(buf)                                \* i in the code
Rd(k) == IF k <= n THEN buf[k] ELSE 0        \* a byte beyond i is whatever the pool left there
HasExt == (buf[1] \div 16) % 2 = 1           \* b[0]&0b10000 > 0
HasPad == (buf[1] \div 32) % 2 = 1           \* b[0]&0b100000 > 0
U16(v) == v % 65536

\* csrcCount := b[0] & 0b1111 ; headerLength := uint16(12 + 4*csrcCount)
Hdr == /\ pc = "hdr"
       /\ hl' = U16(12 + 4 * (buf[1] % 16))
       /\ pc' = "ext"
       /\ UNCHANGED <<lay, sent, buf, padl, att, out, stale>>

\* if hasExtension { headerLength += 4 * (1 + BigEndian.Uint16(b[headerLength+2 : headerLength+4])) }
Ext == /\ pc = "ext"
       /\ IF HasExt
          THEN /\ hl' = U16(hl + U16(4 * U16(1 + Rd(hl + 3) * 256 + Rd(hl + 4))))
               /\ stale' = (stale \/ hl + 4 > n)
          ELSE UNCHANGED <<hl, stale>>
       /\ pc' = "pad"
       /\ UNCHANGED <<lay, sent, buf, padl, att, out>>

\* if hasPadding { paddingLength = int(b[i-1]) }
Pad == /\ pc = "pad"
       /\ padl' = IF HasPad THEN buf[n] ELSE 0
       /\ pc' = "check"
       /\ UNCHANGED <<lay, sent, buf, hl, att, out, stale>>

\* if i-int(headerLength)-paddingLength < 2 { continue }   (dropped: "BWE probe packet")
Check == /\ pc = "check"
         /\ pc' = IF n - hl - padl < 2 THEN "dropped" ELSE "attrs"
         /\ UNCHANGED <<lay, sent, buf, hl, padl, att, out, stale>>

\* attributes.Set(AttributeRtxPayloadType, b[1]&0x7F) ... Rtx sequence number, Rtx ssrc
Attrs == /\ pc = "attrs"
         /\ att' = [has |-> TRUE, pt |-> buf[2] % 128, seq |-> Slice(buf, 3, 2), ssrc |-> Slice(buf, 9, 4)]
         /\ pc' = "rewrite"
         /\ UNCHANGED <<lay, sent, buf, hl, padl, out, stale>>

\* b[1] = (b[1]&0x80) | PT ; b[2] = b[headerLength] ; b[3] = b[headerLength+1] ; PutUint32(b[8:12], SSRC)
Rewrite == /\ pc = "rewrite"
           /\ buf' = [k \in 1..n |->
                        CASE k = 2 -> (buf[2] \div 128) * 128 + PrimPT
                          [] k = 3 -> buf[hl + 1]
                          [] k = 4 -> buf[hl + 2]
                          [] k \in 9..12 -> PrimSsrc[k - 8]
                          [] OTHER -> buf[k]]
           /\ pc' = "shift"
           /\ UNCHANGED <<lay, sent, hl, padl, att, out, stale>>

\* copy(b[headerLength:i-2], b[headerLength+2:i]) ; queue b[:i-2]
Shift == /\ pc = "shift"
         /\ out' = SubSeq(buf, 1, hl) \o SubSeq(buf, hl + 3, n)
         /\ pc' = "delivered"
         /\ UNCHANGED <<lay, sent, buf, hl, padl, att, stale>>

Next == Hdr \/ Ext \/ Pad \/ Check \/ Attrs \/ Rewrite \/ Shift
NoNext == FALSE /\ UNCHANGED vars         \* Rtx_Vec.cfg: only the initial states (layouts) are enumerated
Spec == Init /\ [][Next]_vars

\* ---- what TLC checks on the model ------------------------------------------
In == RtxView(ParseRtp(sent))

ModelDelivered ==
  pc = "delivered" =>
    LET o == ParseRtp(out)
        i == In IN
    /\ ~TooShort(i)
    /\ SeqIsOsn(i, o) /\ SsrcPtPrimary(o, Prim) /\ PayloadMinusOsn(i, o) /\ OtherHeaderFieldsSame(i, o)
    /\ o = Unwrap(i, Prim)
    /\ AttributesCarryRtx(i, att)
    /\ Len(out) = lay.len - 2
ModelDropped   == pc = "dropped" => TooShort(In)
ModelNoStale   == ~stale
\* Build and ParseRtp agree on the layout (checked once per layout)
ModelLayout    == pc = "hdr" =>
                  LET i == In IN
                  /\ i.cc = lay.cc /\ i.x = lay.x /\ i.xlen = lay.xl /\ i.plen = lay.pl
                  /\ i.p = (IF lay.pad > 0 THEN 1 ELSE 0) /\ i.m = lay.m /\ lay.len <= MTU /\ lay.pl >= 0

\* every layout is replayed
EmitVec == (pc = "hdr") => PrintT(<<"VERIF_VEC", ToJson(lay)>>)
=============================================================================
