-------------------------- MODULE CodecMatch_Trace --------------------------
(* Trace specification for C17.  Lines recorded by harness/fmtp:             *)
(*   domain   the descriptor domain: signature and class string of every     *)
(*            descriptor (index = position)                                  *)
(*   row      descriptor a, partners bs and, per partner, the result code of *)
(*            the eight real fmtp.Parse(..).Match(..) evaluations (CodecOps)  *)
(*   default  one codec registered by RegisterDefaultCodecs (read at run     *)
(*            time) and whether it matched itself                            *)
(* One Symmetric / CaseInsensitive evaluation per recorded pair; a failing   *)
(* pair is reported with the classes of both descriptors as signature and    *)
(* both full descriptors as detail.                                          *)
EXTENDS CodecOps, TraceKit

\* (the position variable must not be called l: a variable l makes TLC treat every definition of an
\* extended module that has a bound identifier l as state-dependent, i.e. re-evaluate it at each use)
VARIABLES pos, viol, cnt, dom

V(pred, e, sig, detail) ==
  [prop |-> "C17", pred |-> pred, trace |-> e.t, line |-> pos, sig |-> pred \o ":" \o sig, detail |-> detail]

PairViol(e, pred, good) ==
  { V(pred, e, dom.cls[e.a] \o "~" \o dom.cls[e.bs[k]],
      dom.sigs[e.a] \o " ~ " \o dom.sigs[e.bs[k]] \o " code=" \o ToString(e.codes[k]))
    : k \in {k \in 1..Len(e.codes) : e.codes[k] \notin good} }

Add(c, name, n) == [x \in (DOMAIN c) \cup {name} |-> (IF x \in DOMAIN c THEN c[x] ELSE 0) + (IF x = name THEN n ELSE 0)]

Init == pos = 1 /\ viol = {} /\ cnt = EmptyCount /\ dom = [sigs |-> <<>>, cls |-> <<>>]

Step ==
  /\ pos <= Len(Trace)
  /\ LET e == Trace[pos] IN
       CASE e.ev = "domain" ->
              /\ dom' = [sigs |-> e.sigs, cls |-> e.cls]
              /\ UNCHANGED <<viol, cnt>>
         [] e.ev = "row" ->
              \* C17_Symmetric, C17_CaseInsensitive: every recorded pair
              /\ viol' = viol \cup PairViol(e, "Symmetric", SymmetricCodes)
                              \cup PairViol(e, "CaseInsensitive", CaseInsensitiveCodes)
              /\ cnt' = Add(Add(cnt, "Symmetric", Len(e.codes)), "CaseInsensitive", Len(e.codes))
              /\ UNCHANGED dom
         [] e.ev = "default" ->
              \* C17_DefaultsSelfMatch
              /\ viol' = viol \cup (IF e.self THEN {} ELSE {V("DefaultsSelfMatch", e, e.sig, e.sig)})
              /\ cnt' = Add(cnt, "DefaultsSelfMatch", 1)
              /\ UNCHANGED dom
         [] OTHER -> UNCHANGED <<viol, cnt, dom>>
  /\ pos' = pos + 1

Done == pos = Len(Trace) + 1 /\ UNCHANGED <<pos, viol, cnt, dom>>
Next == Step \/ Done
Rep  == Report(pos, viol, cnt)
=============================================================================
