------------------------------- MODULE Config -------------------------------
(* Generative model for C39: peerconnection.go SetConfiguration transcribed  *)
(* check by check and assignment by assignment in the order of the code, so  *)
(* that "a rejected call leaves the configuration as it was" is a theorem    *)
(* TLC has to establish (an assignment made before a later check fails       *)
(* persists in the model exactly as it does in the code).                     *)
(*                                                                          *)
(* The model is an input-vector space explored at depth 1: a vector names    *)
(* how the connection was constructed, where in its history the call is      *)
(* made, and for each field of the argument whether it repeats the current   *)
(* value (U), asks for another non-zero value (C) or is the zero value (Z);  *)
(* certificates and ICE servers have their own classes.  Each vector is the  *)
(* call made once and (Twice) a second time against the resulting state.     *)
EXTENDS ConfigOps, Randomization

CONSTANTS Impl,    \* "asis": the order of peerconnection.go; "early": a variant that assigns the transport
                   \*  policy and the servers before validating the servers (TLC exhibits the violation)
          Twice,   \* BOOLEAN: model the call made a second time on the same connection
          N        \* 0: explore the whole space; > 0: a seeded sample of N vectors plus the Focus vectors

VARIABLES vec
vars == <<vec>>

UCZ         == {"U", "C", "Z"}
\* "swapped": the configured certificates in the other order; "dup": as many, all the first one (both only
\* differ from the configured list when there are two certificates)
CertClasses == {"U", "Z", "other", "extra", "fewer", "swapped", "dup"}
GoodServers == {"none", "stun", "turn"}
BadServers  == {"badscheme", "turn-nocred", "turn-badcred", "good+bad"}

Space == { v \in [init : {"default", "explicit"}, pos : {"fresh", "afterSLD", "afterClose"},
                  bundle : UCZ, mux : UCZ, ident : UCZ, certs : CertClasses, pool : UCZ, policy : UCZ,
                  srv : GoodServers \cup BadServers] :
           ~(v.init = "default" /\ v.certs \in {"fewer", "swapped", "dup"}) }   \* one generated certificate: "fewer" would be Z

\* what NewPeerConnection leaves in pc.configuration
InitCfg(init) ==
  IF init = "default"
  THEN [bundle |-> "balanced", mux |-> "require", ident |-> "", certs |-> <<"G">>, pool |-> 0,
        policy |-> "all", servers |-> "none", sem |-> "unified-plan", dc |-> FALSE]
  ELSE [bundle |-> "max-bundle", mux |-> "negotiate", ident |-> "alice", certs |-> <<"A", "B">>, pool |-> 1,
        policy |-> "relay", servers |-> "stun0", sem |-> "unified-plan", dc |-> FALSE]

Other(cur, a, b) == IF cur # a THEN a ELSE b
Front(s) == SubSeq(s, 1, Len(s) - 1)

\* the argument a vector stands for, given the current configuration (the Go driver derives the
\* concrete Configuration from GetConfiguration() by the same rules)
ArgOf(v, cur) ==
  [bundle |-> CASE v.bundle = "U" -> cur.bundle [] v.bundle = "Z" -> "" [] OTHER -> Other(cur.bundle, "max-compat", "balanced"),
   mux    |-> CASE v.mux = "U" -> cur.mux [] v.mux = "Z" -> "" [] OTHER -> Other(cur.mux, "negotiate", "require"),
   ident  |-> CASE v.ident = "U" -> cur.ident [] v.ident = "Z" -> "" [] OTHER -> "mallory",
   certs  |-> CASE v.certs = "U" -> cur.certs [] v.certs = "Z" -> <<>>
                [] v.certs = "other" -> <<"X">> \o Tail(cur.certs)
                [] v.certs = "extra" -> cur.certs \o <<"X">>
                [] v.certs = "swapped" -> [k \in 1..Len(cur.certs) |-> cur.certs[Len(cur.certs) + 1 - k]]
                [] v.certs = "dup"   -> [k \in 1..Len(cur.certs) |-> cur.certs[1]]
                [] OTHER             -> Front(cur.certs),
   pool   |-> CASE v.pool = "U" -> cur.pool [] v.pool = "Z" -> 0 [] OTHER -> cur.pool + 1,
   policy |-> CASE v.policy = "U" -> cur.policy [] v.policy = "Z" -> "all" [] OTHER -> Other(cur.policy, "nohost", "relay"),
   servers |-> v.srv, sem |-> "unified-plan", dc |-> FALSE]

Ret(res, kind, cfg) == [res |-> res, kind |-> kind, cfg |-> cfg]

CertsDiffer(a, b) == Len(a) # Len(b) \/ \E k \in 1..Len(a) : a[k] # b[k]

\* SetConfiguration, in the order of the code. c0..c4 are pc.configuration after each block.
SetCfg(c0, arg, hasLocal, closed) ==
  IF closed THEN Ret("err", ISE, c0) ELSE
  IF arg.ident # "" /\ arg.ident # c0.ident THEN Ret("err", IME, c0) ELSE
  LET c1 == IF arg.ident # "" THEN [c0 EXCEPT !.ident = arg.ident] ELSE c0 IN
  IF Len(arg.certs) > 0 /\ CertsDiffer(arg.certs, c1.certs) THEN Ret("err", IME, c1) ELSE
  LET c2 == IF Len(arg.certs) > 0 THEN [c1 EXCEPT !.certs = arg.certs] ELSE c1 IN
  IF arg.bundle # "" /\ arg.bundle # c2.bundle THEN Ret("err", IME, c2) ELSE
  LET c3 == IF arg.bundle # "" THEN [c2 EXCEPT !.bundle = arg.bundle] ELSE c2 IN
  IF arg.mux # "" /\ arg.mux # c3.mux THEN Ret("err", IME, c3) ELSE
  LET c4 == IF arg.mux # "" THEN [c3 EXCEPT !.mux = arg.mux] ELSE c3 IN
  \* pool size: checked against the local description, never assigned (the assignment is commented out)
  IF arg.pool # 0 /\ arg.pool # c4.pool /\ hasLocal THEN Ret("err", IME, c4) ELSE
  LET early == [c4 EXCEPT !.policy = arg.policy, !.servers = arg.servers] IN
  IF arg.servers \in BadServers
  THEN Ret("err", "InvalidAccessError", IF Impl = "early" THEN early ELSE c4)
  ELSE Ret("ok", "", early)       \* ICETransportPolicy and ICEServers are assigned unconditionally

HasLocal(v) == v.pos = "afterSLD"
Closed(v)   == v.pos = "afterClose"

Call1(v) == SetCfg(InitCfg(v.init), ArgOf(v, InitCfg(v.init)), HasLocal(v), Closed(v))

Judged(v, before, r) ==
  LET arg == ArgOf(v, before) IN
  /\ C39_RejectsImmutableChange(arg, before, HasLocal(v), r.res)
  /\ C39_ErrorKind(arg, before, HasLocal(v), Closed(v), r.res, r.kind)
  /\ C39_ImmutableNeverChanges(before, r.cfg, HasLocal(v))
  /\ C39_ErrorAtomic(before, r.cfg, r.res)
  /\ C39_BadServersRejected(v.srv \in BadServers, r.res)
  /\ C39_BadServersNoPartialChange(v.srv \in BadServers, before, r.cfg)

\* N = 0: the whole space; N > 0: a seeded sample of N vectors plus every vector that deviates from
\* "repeat the current value, no servers" in at most one field (Focus)
Neutral(v) == [f \in {"bundle", "mux", "ident", "certs", "pool", "policy", "srv"} |->
                 IF f = "srv" THEN v[f] = "none" ELSE v[f] = "U"]
Focus == {v \in Space : Cardinality({f \in DOMAIN Neutral(v) : ~Neutral(v)[f]}) <= 1}

Init == vec \in IF N = 0 THEN Space ELSE RandomSubset(N, Space) \cup Focus
Next == FALSE /\ UNCHANGED vec
Spec == Init /\ [][Next]_vars

\* C39 on the model, for every vector of the space
ModelHolds == LET r1 == Call1(vec) IN
              /\ Judged(vec, InitCfg(vec.init), r1)
              /\ Twice => Judged(vec, r1.cfg, SetCfg(r1.cfg, ArgOf(vec, r1.cfg), HasLocal(vec), Closed(vec)))
\* the classes mean what they say (sanity of ArgOf): U never is an attempt, C always is one where it can be
ModelClasses ==
  LET cur == InitCfg(vec.init)  arg == ArgOf(vec, cur) IN
  /\ \A f \in {"bundle", "mux", "ident", "pool"} : vec[f] = "U" => ~Attempt(f, arg, cur)
  /\ \A f \in {"bundle", "mux", "ident", "pool"} : vec[f] = "C" => Attempt(f, arg, cur)
  /\ vec.certs \in {"other", "extra", "fewer", "swapped", "dup"} <=> Attempt("certs", arg, cur)

EmitVec == LET r1 == Call1(vec)
               r2 == SetCfg(r1.cfg, ArgOf(vec, r1.cfg), HasLocal(vec), Closed(vec)) IN
           PrintT(<<"VERIF_VEC", ToJson([v |-> vec,
                      exp  |-> IF Twice THEN <<r1.res, r2.res>> ELSE <<r1.res>>,
                      kind |-> IF Twice THEN <<r1.kind, r2.kind>> ELSE <<r1.kind>>])>>)
=============================================================================
