CONSTANTS
  Rates = {8000, 48000, 90000}
  StartSet = {"zero", "wrap", "rand"}
  DurKinds = {"third", "ms1", "ms20", "ms33", "s30", "ntsc"}
  Drops = {0, 1, 3}
  Sizes = {0, 1, 3}
  MaxLen = 5000
  SeqOpts = {TRUE, FALSE}
  TsOpts = {TRUE, FALSE}
  Rebinds = TRUE
  Impl = "carry"
INIT Init
NEXT SimNext
INVARIANTS TypeOK ModelClockExact ModelSameTs ModelNoDrift ModelSeqPlusOne ModelDropSkips EmitVec
CHECK_DEADLOCK FALSE
