CONSTANTS
  Impl = "intended"
  Mode = "exhaust"
  MaxLocal = 2
  MaxRemote = 3
  NSample = 0
  Emit = FALSE
INIT Init
NEXT Next
INVARIANTS ModelNegotiatedOK
CHECK_DEADLOCK FALSE
