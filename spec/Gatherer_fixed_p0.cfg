CONSTANTS
  Impl = "fixed"
  K = 1
  Pool = 0
  NFlush = 2
SPECIFICATION Spec
INVARIANTS EmitInitInv NothingAfterNil NilAtMostOnce CandAtMostOnce Complete
ACTION_CONSTRAINT EmitEdge
CHECK_DEADLOCK FALSE
