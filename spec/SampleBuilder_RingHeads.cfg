CONSTANTS
  M = 16
  MaxPackets = 4
  MinPackets = 1
  FrameSizes = {1, 2, 3}
  SameTs = FALSE
  MaxLates = {2}
  Delays = {0}
  StartBacks = {2, 9}
  MarkerModes = {TRUE, FALSE}
  HeadModes = {TRUE}
  Windows = {3}
  Modes = {"all"}
  MaxLoss = 1
  MaxDup = 1
  MaxPopCalls = 1
  MaxMidFlush = 1
  Eagers = {FALSE, TRUE}
  Holds = {0}
  HoldFors = {0}
  Situations = TRUE
  Algo = "ring"
  Impl = "pinned"
  Sampling = FALSE
INIT Init
NEXT Next
VIEW mcview
INVARIANTS ModelContiguousSameTs ModelStartsAtHead ModelComplete EmitDone
CHECK_DEADLOCK FALSE
