---------------------------- MODULE AnnexB_Trace ----------------------------
(* Trace specification for C34 and C35.                                      *)
(*  rd    : one framed stream (units `nals` as bytes digests + header bytes) *)
(*          read by the real H264Reader / H265Reader with SEI inclusion      *)
(*          `sei`, once per chunk-size pattern; `runs` are the distinct      *)
(*          observations (units returned, parsed header fields, final error) *)
(*  rdeof : the same, but the io.Reader hands out its final chunk together   *)
(*          with io.EOF (allowed by the io.Reader contract; judged under the *)
(*          separate id C34io, never as a C34 verdict)                       *)
(*  wr    : one NAL sequence packetized by pion/rtp's payloader (`pk`: the   *)
(*          units the packets carry, in order, with type and packet kind),   *)
(*          written by the real H264Writer / H265Writer and read back by the *)
(*          matching reader (`out`)                                          *)
EXTENDS AnnexBOps, TraceKit

VARIABLES l, viol, cnt

\* ---- C34 ---------------------------------------------------------------------------------
Id(seq) == [i \in 1..Len(seq) |-> [d |-> seq[i].d, n |-> seq[i].n, h0 |-> seq[i].h0]]

\* preconditions of the property on the framed units
RdPre(e) == /\ ~e.emul /\ ~e.tz /\ Len(e.nals) >= 1
            /\ \A i \in 1..Len(e.nals) : e.nals[i].n >= 1

HeaderOk(codec, o) ==
  IF codec = "h264"
  THEN [fz |-> o.fz, ref |-> o.ref, ty |-> o.ty] = Hdr264(o.h0)
  ELSE (o.n >= 2) => [fz |-> o.fz, ty |-> o.ty, lay |-> o.lay, tid |-> o.tid] = Hdr265(o.h0, o.h1)

RdPreds(e) ==
  LET Sei(n)  == IsSeiByte(e.codec, n.h0)
      Runs    == 1..Len(e.runs)
      Out(r)  == Id(e.runs[r].out)
  IN {
   P("C34", "ExactNals", RdPre(e),
        \A r \in Runs : ExactNals(Out(r), Id(e.nals), Sei, e.sei)),
   P("C34", "SeiSkippedEverywhere", RdPre(e) /\ ~e.sei,
        \A r \in Runs : SeiSkipped(Out(r), Sei, e.sei)),
   P("C34", "HeaderFields", RdPre(e) /\ \E r \in Runs : Len(e.runs[r].out) > 0,
        \A r \in Runs : \A i \in 1..Len(e.runs[r].out) : HeaderOk(e.codec, e.runs[r].out[i]))
  }

RdEofPreds(e) ==
  LET Sei(n) == IsSeiByte(e.codec, n.h0) IN {
   P("C34io", "FinalChunkWithEof", RdPre(e),
        \A r \in 1..Len(e.runs) : ExactNals(Id(e.runs[r].out), Id(e.nals), Sei, e.sei))
  }

\* ---- C35 ---------------------------------------------------------------------------------
Digests(seq) == [i \in 1..Len(seq) |-> seq[i].d]
Types(seq)   == [i \in 1..Len(seq) |-> seq[i].ty]

\* "exactly the NAL units from the first keyframe onward, in order" = out = FromKey(pk, k), evaluated as
\* three conjuncts so that a failure says what went wrong (and a known late start cannot hide an early
\* one, or the reverse).  With n = number of packetized units from the first key unit onward:
\*   KeyKept       : at least n units are output and the n-th from the end is the first key unit
\*                   (nothing from the first key unit onward is missing)
\*   NothingBefore : at most n units are output (none when no key unit was packetized)
\*   OrderAndBytes : whatever is output is a contiguous tail of the packetized units, byte for byte
\* KeyKept /\ NothingBefore /\ OrderAndBytes  <=>  out = FromKey(pk, k)  (unit digests are unique per case)
WrPreds(e) ==
  LET k == FirstKey(Types(e.pk), e.codec)
      n == IF k = 0 THEN 0 ELSE Len(e.pk) - k + 1
  IN {
   P("C35", "FromFirstKey-KeyKept", k > 0,
        /\ Len(e.out) >= n
        /\ e.out[Len(e.out) - n + 1].d = e.pk[k].d),
   P("C35", "FromFirstKey-NothingBefore", Len(e.pk) >= 1, Len(e.out) <= n),
   P("C35", "OrderAndBytes", Len(e.out) >= 1, IsSuffix(Digests(e.out), Digests(e.pk)))
  }

\* -------------------------------------------------------------------------------------------
Preds(e) == CASE e.ev = "rd"    -> RdPreds(e)
              [] e.ev = "rdeof" -> RdEofPreds(e)
              [] e.ev = "wr"    -> WrPreds(e)
              [] OTHER          -> {}

Init == l = 1 /\ viol = {} /\ cnt = EmptyCount

\* Failure records are kept for the first KeepPerSig lines of every signature only (the verdict needs
\* one record per signature; a stream class that fails thousands of times would otherwise make every
\* state carry thousands of records).  Every failure is still counted, under "failed <signature>".
KeepPerSig == 3
Failed(ps, e) == { P(p.prop, "failed " \o p.name \o ":" \o e.sig, TRUE, TRUE) : p \in {q \in ps : ~q.ok} }

Step ==
  /\ l <= Len(Trace)
  /\ LET e  == Trace[l]
         ps == Preds(e)
         fs == Failures(ps, e, l)
     IN
       /\ viol' = viol \cup { f \in fs : Cardinality({v \in viol : v.sig = f.sig}) < KeepPerSig }
       /\ cnt'  = Count(cnt, ps \cup Failed(ps, e))
  /\ l' = l + 1

Done == l = Len(Trace) + 1 /\ UNCHANGED <<l, viol, cnt>>
Next == Step \/ Done
Rep  == Report(l, viol, cnt)
=============================================================================
