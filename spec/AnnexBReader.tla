----------------------------- MODULE AnnexBReader -----------------------------
(* The Annex-B reader of pkg/media/h264reader/h264reader.go and               *)
(* pkg/media/h265reader/h265reader.go (the two files are the same automaton; *)
(* they differ only in which first header byte counts as SEI), transcribed   *)
(* as pure operators over an abstract byte alphabet:                         *)
(*    "Z" = 0x00   "O" = 0x01                                                *)
(*    "S" = a byte that, taken as first header byte, is an SEI header        *)
(*    "H" = a first header byte that is neither 0x00, 0x01 nor SEI           *)
(*    "F" = any other byte (not 0x00, not 0x01, not SEI when read as header) *)
(* The reader state is the record r:                                         *)
(*    nb = nalBuffer, zc = countOfConsecutiveZeroBytes, pp = nalPrefixParsed *)
(* zc is capped at 3: the code only ever tests zc >= 2 and zc > 2.           *)
(* Used by AnnexB.tla (online model, unbounded streams, chunked delivery)    *)
(* and AnnexBVec.tla (bounded enumeration of streams, folded).               *)
EXTENDS Naturals, Sequences

Syms == {"Z", "O", "S", "H", "F"}

NewReader == [nb |-> <<>>, zc |-> 0, pp |-> FALSE]

\* the reader's SEI test looks at nalBuffer[0] only
IsSeiBuf(nb) == Len(nb) >= 1 /\ nb[1] = "S"

\* processByte(readByte): returns the new state and nalFound
ProcessByte(r, b) ==
  CASE b = "Z" -> [r |-> [r EXCEPT !.zc = IF r.zc < 3 THEN r.zc + 1 ELSE 3], found |-> FALSE]
    [] b = "O" ->
         LET inPrefix == IF r.zc > 2 THEN 3 ELSE 2                 \* countOfConsecutiveZeroBytesInPrefix
             hit      == r.zc >= 2 /\ Len(r.nb) > inPrefix         \* nalUnitLength > 0
         IN  [r |-> [r EXCEPT !.zc = 0,
                              !.nb = IF hit THEN SubSeq(r.nb, 1, Len(r.nb) - inPrefix) ELSE r.nb],
              found |-> hit]
    [] OTHER   -> [r |-> [r EXCEPT !.zc = 0], found |-> FALSE]

\* bitStreamStartsWithH26xPrefix on the first four bytes of the stream
Prefix(r, four) ==
  CASE SubSeq(four, 1, 3) = <<"Z", "Z", "O">> ->
         [ok |-> TRUE, r |-> [r EXCEPT !.pp = TRUE, !.nb = Append(r.nb, four[4])]]
    [] four = <<"Z", "Z", "Z", "O">> -> [ok |-> TRUE, r |-> [r EXCEPT !.pp = TRUE]]
    [] OTHER -> [ok |-> FALSE, r |-> r]                            \* errDataIsNotH26xStream

\* one iteration of the for-loop of NextNAL on the byte b:
\*   kind = "ret"  : NextNAL returns the unit `ret`
\*          "skip" : an SEI unit was dropped, the loop continues
\*          "more" : b was appended to nalBuffer, the loop continues
LoopByte(r, b, include) ==
  LET p == ProcessByte(r, b) IN
  IF p.found
  THEN IF ~include /\ IsSeiBuf(p.r.nb)
       THEN [r |-> [p.r EXCEPT !.nb = <<>>], ret |-> <<>>,    kind |-> "skip"]
       ELSE [r |-> [p.r EXCEPT !.nb = <<>>], ret |-> p.r.nb, kind |-> "ret"]
  ELSE      [r |-> [p.r EXCEPT !.nb = Append(p.r.nb, b)], ret |-> <<>>, kind |-> "more"]

\* the path taken when read(1) fails (end of the stream):
\*   "current" : the code as it is (since /repo commit 7b855c6): the unit left in nalBuffer is subject
\*               to the SEI filter like any other; a filtered trailing SEI makes NextNAL report io.EOF
\*   "pinned"  : the code before that repair: whatever is in nalBuffer is returned, the SEI test is
\*               NOT applied.  Kept only as the documented counterexample (AnnexB_pinned.cfg,
\*               AnnexBVec_pinned.cfg); nothing that is replayed or compared with pion uses it.
AtEnd(r, include, impl) ==
  IF Len(r.nb) = 0 \/ (impl = "current" /\ ~include /\ IsSeiBuf(r.nb))
  THEN [r |-> [r EXCEPT !.nb = <<>>], ret |-> <<>>, kind |-> "eof"]
  ELSE [r |-> [r EXCEPT !.nb = <<>>], ret |-> r.nb, kind |-> "ret"]

\* ---- the whole reader folded over a complete stream (sequence of symbols) ----
RECURSIVE RunLoop(_, _, _, _, _, _)
RunLoop(r, s, i, out, include, impl) ==
  IF i > Len(s)
  THEN LET e == AtEnd(r, include, impl) IN
       IF e.kind = "ret" THEN Append(out, e.ret) ELSE out
  ELSE LET x == LoopByte(r, s[i], include) IN
       RunLoop(x.r, s, i + 1, IF x.kind = "ret" THEN Append(out, x.ret) ELSE out, include, impl)

\* sequence of the units NextNAL returns until it reports an error / io.EOF
Run(s, include, impl) ==
  IF Len(s) < 4 THEN <<>>                                 \* read(4) fails: error, nothing returned
  ELSE LET p == Prefix(NewReader, SubSeq(s, 1, 4)) IN
       IF ~p.ok THEN <<>> ELSE RunLoop(p.r, s, 5, <<>>, include, impl)
=============================================================================
