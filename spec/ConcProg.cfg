CONSTANTS
  NHammer = 6
  NProg = 40
INIT Init
NEXT Next
INVARIANTS Emit
CHECK_DEADLOCK FALSE
