-------------------------------- MODULE Roles --------------------------------
(* Configuration space of C13 and the role selection as pion implements it    *)
(* (CreateAnswer's connectionRole, DTLSTransport.role(), the ICE role chosen  *)
(* in SetRemoteDescription), checked against RolesOps on all 36 vectors.      *)
(* Impl = "asis": the answerer's configured DTLS role overrides the offer's   *)
(* a=setup; Impl = "intended": a configured role is used only where the offer *)
(* leaves the choice (actpass).                                               *)
EXTENDS RolesOps, TLC, Json

CONSTANT Impl
VARIABLE vec

Cfg == {"unset", "client", "server"}
Space == [offLite : BOOLEAN, ansLite : BOOLEAN, ansRole : Cfg, offSetup : Setups]
Init == vec \in Space
Next == UNCHANGED vec

Inverse(r) == IF r = "client" THEN "server" ELSE "client"
\* CreateAnswer
AnswerSetup(v) ==
  LET fromOffer == CASE v.offSetup = "active" -> "passive" [] v.offSetup = "passive" -> "active"
                     [] OTHER -> IF v.offLite /\ ~v.ansLite THEN "passive" ELSE "active"
      configured == IF v.ansRole = "client" THEN "active" ELSE "passive"
  IN IF v.ansRole = "unset" THEN fromOffer
     ELSE IF Impl = "asis" \/ v.offSetup = "actpass" THEN configured ELSE fromOffer
\* DTLSTransport.role() on the answering side: the remote's explicit role wins, then the setting
AnswererRole(v) ==
  CASE v.offSetup = "active"  -> "server"
    [] v.offSetup = "passive" -> "client"
    [] OTHER -> IF v.ansRole # "unset" THEN v.ansRole
                ELSE IF ~OffererControlling(v.offLite, v.ansLite) THEN "server" ELSE "client"
\* on the offering side the answer's a=setup is explicit
OffererRole(v) == Inverse(RoleOfAnswerer(AnswerSetup(v)))

ModelAnswerNotActpass == AnswerSetupOK(AnswerSetup(vec))
ModelLegalAnswer      == LegalAnswerSetup(vec.offSetup, AnswerSetup(vec))
ModelDtlsOpposite     == AnswererRole(vec) # OffererRole(vec)
ModelDtlsMatchesSetup == AnswererRole(vec) = RoleOfAnswerer(AnswerSetup(vec))
Emit == PrintT(<<"VERIF_VEC", ToJson([v |-> vec, setup |-> AnswerSetup(vec), ans |-> AnswererRole(vec), off |-> OffererRole(vec),
                                      offCtl |-> OffererControlling(vec.offLite, vec.ansLite)])>>)
=============================================================================
