----------------------------- MODULE RtpDumpOps -----------------------------
(* The rtpdump file format at field level and the normative operators of    *)
(* property C36:                                                             *)
(*   - every representable (header, packets) value reads back exactly,       *)
(*   - the writer refuses what the format cannot represent,                  *)
(*   - the reader rejects records whose length field is below 8.             *)
(*                                                                           *)
(* File layout (rtptools): a text line "#!rtpplay1.0 a.b.c.d/port\n", a      *)
(* 16-byte binary header (start sec u32, start usec u32, source IPv4, port   *)
(* u16, 2 bytes padding, all big endian), then records: length u16 (record   *)
(* header + payload), plen u16 (0 for RTCP), offset u32 (ms), payload.       *)
(*                                                                           *)
(* TLC integers are 32-bit signed, so every 32-bit quantity is a pair        *)
(* [hi, lo] of 16-bit halves; the Go driver projects its values the same     *)
(* way.  A header h is                                                       *)
(*   [src |-> [kind |-> "v4"|"v6"|"nil", form, b |-> <<4 bytes>>],           *)
(*    port |-> 0..65535,                                                     *)
(*    start |-> [neg, hi, lo, usec |-> 0..999999, ns |-> 0..999]]            *)
(* (seconds = hi*65536+lo since the epoch, neg = before the epoch) and a     *)
(* packet p is                                                               *)
(*   [rtcp, len, h |-> content id, off |-> [neg, hi, lo, ns |-> 0..999999]]  *)
(* (offset = hi*65536+lo milliseconds plus ns nanoseconds).                  *)
EXTENDS Integers, Sequences, FiniteSets, TLC, Json

B16 == 65536
RecHdrLen == 8
MaxPayload == 65527            \* 65535 - 8

\* ---------------------------------------------------------------- domain
\* "a header with an IPv4 source, a port and a start time representable in
\* the format (to the microsecond)": the sub-microsecond part is not claimed.
HdrUnrepresentable(h) == h.src.kind # "v4" \/ h.start.neg \/ h.start.hi >= B16
HdrRepresentable(h)   == ~HdrUnrepresentable(h)

\* "packets with 1-65527-byte payloads and millisecond offsets"
PktUnrepresentable(p) == p.len > MaxPayload \/ p.off.neg \/ p.off.hi >= B16
PktRepresentable(p)   == p.len \in 1..MaxPayload /\ ~p.off.neg /\ p.off.hi < B16 /\ p.off.ns = 0
\* in between: a payload of 1..65527 bytes whose offset has a sub-millisecond part.  The property
\* neither promises an exact round trip (the offset is not a "millisecond offset") nor demands a
\* refusal (the file is not corrupt); the weaker reading is used: if the writer accepts it, it
\* reads back to the millisecond.  An empty payload is outside every clause and is not generated.
PktWritable(p) == p.len \in 1..MaxPayload /\ ~p.off.neg /\ p.off.hi < B16

Representable(x) == HdrRepresentable(x.hdr) /\ \A i \in 1..Len(x.pkts) : PktRepresentable(x.pkts[i])

\* why a value cannot be represented (used in signatures and model output)
HdrReason(h) == IF h.src.kind # "v4" THEN "src-not-ipv4"
                ELSE IF h.start.neg THEN "start-before-epoch"
                ELSE IF h.start.hi >= B16 THEN "start-beyond-32bit-seconds" ELSE "ok"
PktReason(p) == IF p.len > MaxPayload THEN "payload-over-65527"
                ELSE IF p.off.neg THEN "offset-negative"
                ELSE IF p.off.hi >= B16 THEN "offset-beyond-32bit-ms" ELSE "ok"

\* ---------------------------------------------------------------- the format
BE16(n)     == <<n \div 256, n % 256>>
U16At(s, i) == s[i] * 256 + s[i + 1]

EncHeader(h) ==
  BE16(h.start.hi) \o BE16(h.start.lo) \o BE16(h.start.usec \div B16) \o BE16(h.start.usec % B16)
  \o h.src.b \o BE16(h.port) \o <<0, 0>>

EncRecHdr(p) ==
  BE16(p.len + RecHdrLen) \o BE16(IF p.rtcp THEN 0 ELSE p.len) \o BE16(p.off.hi) \o BE16(p.off.lo)

\* A file: the address of the text line, the 16 header bytes, and per record its 8 header bytes,
\* the number n of payload bytes that follow it and their content id h.
Encode(x) ==
  [pre  |-> [ip |-> x.hdr.src.b, port |-> x.hdr.port],
   hdr  |-> EncHeader(x.hdr),
   recs |-> [i \in 1..Len(x.pkts) |->
               [hd |-> EncRecHdr(x.pkts[i]), n |-> x.pkts[i].len, h |-> x.pkts[i].h]]]

Malformed == [bad |-> TRUE]

DecHeader(b) ==
  [src   |-> [kind |-> "v4", form |-> 4, b |-> SubSeq(b, 9, 12)],
   port  |-> U16At(b, 13),
   start |-> [neg |-> FALSE, hi |-> U16At(b, 1), lo |-> U16At(b, 3),
              usec |-> U16At(b, 5) * B16 + U16At(b, 7), ns |-> 0]]

RecLen(r)  == U16At(r.hd, 1)
DecRec(r)  ==
  [rtcp |-> U16At(r.hd, 3) = 0, len |-> RecLen(r) - RecHdrLen, h |-> r.h,
   off  |-> [neg |-> FALSE, hi |-> U16At(r.hd, 5), lo |-> U16At(r.hd, 7), ns |-> 0]]

WellFramed(f) == /\ Len(f.pre.ip) = 4 /\ Len(f.hdr) = 16
                 /\ \A i \in 1..Len(f.recs) : RecLen(f.recs[i]) >= RecHdrLen
                                              /\ f.recs[i].n = RecLen(f.recs[i]) - RecHdrLen

Decode(f) == IF ~WellFramed(f) THEN Malformed
             ELSE [bad |-> FALSE, hdr |-> DecHeader(f.hdr),
                   pkts |-> [i \in 1..Len(f.recs) |-> DecRec(f.recs[i])]]

\* what "exactly what the writer wrote" compares: everything but the address form (4- or 16-byte
\* slice of the same address) and the sub-microsecond part of the start time
CanonHdr(h) == [h EXCEPT !.src.form = 4, !.start.ns = 0]
Canon(x)    == [bad |-> FALSE, hdr |-> CanonHdr(x.hdr), pkts |-> x.pkts]

\* the law TLC checks on the bounded domain
CodecLaw(x) == Representable(x) => Decode(Encode(x)) = Canon(x)

\* ---------------------------------------------------------------- judging observations
Inc32(hi, lo) == IF lo = B16 - 1 THEN <<hi + 1, 0>> ELSE <<hi, lo + 1>>

\* d = decoded header reported by the real reader [b, port, hi, lo, usec]
StartMatches(s, d) ==
  \/ d.hi = s.hi /\ d.lo = s.lo /\ d.usec = s.usec
  \/ s.ns > 0 /\ s.usec < 999999 /\ d.hi = s.hi /\ d.lo = s.lo /\ d.usec = s.usec + 1   \* rounding up is also "to the microsecond"
  \/ s.ns > 0 /\ s.usec = 999999 /\ <<d.hi, d.lo>> = Inc32(s.hi, s.lo) /\ d.usec = 0
HdrMatches(h, d) == d.b = h.src.b /\ d.port = h.port /\ StartMatches(h.start, d)

OffMatches(o, d) == \/ d.hi = o.hi /\ d.lo = o.lo
                    \/ o.ns > 0 /\ <<d.hi, d.lo>> = Inc32(o.hi, o.lo)
PktMatches(p, d) == d.rtcp = p.rtcp /\ d.len = p.len /\ d.h = p.h /\ OffMatches(p.off, d.off)

SelectIdx(n, Keep(_)) ==    \* increasing sequence of the indices in 1..n for which Keep holds
  LET F[i \in 0..n] == IF i = 0 THEN <<>> ELSE IF Keep(i) THEN Append(F[i - 1], i) ELSE F[i - 1]
  IN F[n]

\* the reader must reject a record whose length field is below the record header size
ReaderMustReject(L) == L < RecHdrLen
=============================================================================
