--------------------------- MODULE OpsQueue_Trace ---------------------------
(* Trace specification for C05. Lines, in the order of the trace writer's    *)
(* lock (enq lines are emitted by a hook inside o.mu, i.e. in lock order):    *)
(*   enq   op acc          a tryEnqueue (accepted or dropped)                 *)
(*   start op / end op     an item begins / ends running                     *)
(*   ret   fn who          Done or GracefulClose returned (logged after)      *)
(*   quiesce idle          end of the behaviour; idle = no worker exists      *)
EXTENDS TraceKit

VARIABLES pos, viol, cnt, attempts, started, ended, running, closeRet, marked

\* attempts: <<op, accepted, attempted after GracefulClose returned, kind>>; the waiter items of
\* Done are pion's own closures: they are not seen starting or ending, their run is witnessed by
\* the return of that Done call.
Accepted    == SelectSeq(attempts, LAMBDA a : a[2])
AccItems    == SelectSeq(Accepted, LAMBDA a : a[4] # "waiter")
AcceptedSeq == [i \in 1..Len(AccItems) |-> AccItems[i][1]]
AcceptedOps == {Accepted[i][1] : i \in 1..Len(Accepted)}
StartedOps  == {started[i] : i \in 1..Len(started)}
Late        == {attempts[i][1] : i \in {j \in 1..Len(attempts) : attempts[j][3]}}
LateMarked  == {attempts[i][1] : i \in {j \in 1..Len(attempts) : attempts[j][5]}}
IdxOf(op)   == CHOOSE i \in 1..Len(attempts) : attempts[i][1] = op
WaitOp(w)   == "w_" \o w

Preds(e) ==
  LET st == e.ev = "start" IN {
   P("C05", "Serial", st, running = {}),
   P("C05", "Fifo", st, Len(started) < Len(AcceptedSeq) /\ AcceptedSeq[Len(started) + 1] = e.op),
   P("C05", "ExactlyOnceNoRerun", st, e.op \notin StartedOps),
   P("C05", "NothingAfterClose", st, e.op \notin Late),
   \* "a graceful close" taken at its linearization point: from the moment the queue is marked closed
   \* (under its lock) nothing that is queued later runs
   P("C05", "NothingQueuedAfterCloseRuns", st, e.op \notin LateMarked),
   P("C05", "DoneCovers", e.ev = "ret" /\ e.fn = "Done",
        LET w == WaitOp(e.who) IN
        /\ \E i \in 1..Len(attempts) : attempts[i][1] = w
        /\ \A i \in 1..IdxOf(w) : (attempts[i][2] /\ attempts[i][4] # "waiter") => attempts[i][1] \in ended),
   P("C05", "RunsEverythingAccepted", e.ev = "quiesce" /\ e.idle, AcceptedOps \subseteq ended),
   \* churn: producers enqueueing as fast as they can on a queue that is never closed; every operation ran
   \* and nothing is left in the queue
   P("C05", "ChurnRunsEverything", e.ev = "churn", e.ran = e.total /\ e.qlen = 0),
   \* ... and "operations waiting, no worker" was never observed under the queue's lock
   P("C05", "NeverStranded", e.ev = "churn", e.stranded = 0)
  }

Init == /\ pos = 1 /\ viol = {} /\ cnt = EmptyCount
        /\ attempts = <<>> /\ started = <<>> /\ ended = {} /\ running = {} /\ closeRet = FALSE /\ marked = FALSE

Step ==
  /\ pos <= Len(Trace)
  /\ LET e == Trace[pos] IN
       IF e.ev = "reset"
       THEN /\ attempts' = <<>> /\ started' = <<>> /\ ended' = {} /\ running' = {} /\ closeRet' = FALSE /\ marked' = FALSE
            /\ UNCHANGED <<viol, cnt>>
       ELSE LET ps == Preds(e) IN
            /\ viol' = Merge(viol, Failures(ps, e, pos))
            /\ cnt'  = Count(cnt, ps)
            /\ attempts' = IF e.ev = "enq" THEN Append(attempts, <<e.op, e.acc, closeRet, e.kind, marked>>) ELSE attempts
            /\ started'  = IF e.ev = "start" THEN Append(started, e.op) ELSE started
            /\ running'  = CASE e.ev = "start" -> running \cup {e.op}
                             [] e.ev = "end"   -> running \ {e.op}
                             [] OTHER          -> running
            /\ ended'    = CASE e.ev = "end" -> ended \cup {e.op}
                             [] e.ev = "ret" /\ e.fn = "Done" /\ e.enqueued -> ended \cup {WaitOp(e.who)}
                             [] OTHER -> ended
            /\ closeRet' = (closeRet \/ (e.ev = "ret" /\ e.fn = "GracefulClose"))
            /\ marked' = (marked \/ e.ev = "closed")
  /\ pos' = pos + 1

Done == pos = Len(Trace) + 1 /\ UNCHANGED <<pos, viol, cnt, attempts, started, ended, running, closeRet, marked>>
Next == Step \/ Done
Rep  == Report(pos, viol, cnt)
=============================================================================
