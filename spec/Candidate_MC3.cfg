\* exhaustive check of the intended pipeline (thorough tier bounds: lists of up to 3 extensions)
CONSTANTS
  Impl = "intended"
  Vias = {"new", "raw"}
  Types = {"host", "srflx", "relay"}
  Protos = {"udp", "tcp"}
  AddrForms = {"v4", "mdns"}
  Ports = {"1"}
  Prios = {"1"}
  Comps = {"1"}
  Founds = {"1", "empty"}
  Rels = {"none", "full1", "port0"}
  TcpTypes = {"", "active", "passive", "so"}
  ExtKeys = {"network-cost", "ufrag"}
  ExtVals = {"", "0", "FOREIGN"}
  MaxExts = 3
INIT Init
NEXT Next
INVARIANTS ModelSplitInverse ModelJsonRoundTrip ModelAgentRoundTrip ModelAccepted ModelUfrag ModelTokens EmitVec
CHECK_DEADLOCK FALSE
