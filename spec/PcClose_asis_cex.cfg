CONSTANTS
  Impl = "asis"
  Closers = {"k1", "k2"}
  Graceful = {"k2"}
  Workers = 0
SPECIFICATION Spec
INVARIANTS FinalConnectionClosed NoStateAfterClosed
CHECK_DEADLOCK FALSE
