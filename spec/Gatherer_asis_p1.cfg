CONSTANTS
  Impl = "asis"
  K = 1
  Pool = 1
  NFlush = 2
SPECIFICATION Spec
INVARIANTS EmitInitInv
ACTION_CONSTRAINT EmitEdge
CHECK_DEADLOCK FALSE
