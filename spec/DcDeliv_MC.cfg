CONSTANTS
  NMsgs = 3
  Chans = {"c1", "c2"}
  NVec = 1
INIT Init
NEXT Next
INVARIANTS ModelFifoExactlyOnce ModelNothingInvented
CHECK_DEADLOCK FALSE
