\* exhaustive (quick tier), assembly automaton: all codecs, inputs inside and outside the premise
\* (non-key first frame, lost first packet; padding packets in the thorough tier), streams of <= 2 frames, one MTU
CONSTANTS
  Codecs <- AllCodecs
  Mtus = {12}
  MaxFrames = 2
  Sizes = {1}
  RelSizes = TRUE
  MaxRandPk = 0
  Rates <- RatesOne
  Starts <- StartsOne
  Deltas = {3000}
  MaxRandDelta = 0
  Directs = {FALSE}
  Ctors = {"memseek"}
  Dims <- DimsOne
  Lossy = TRUE
  NonKeyStart = TRUE
  Pads = FALSE
  Sample = FALSE
  Emit = FALSE
  RdLimit = 16
  BigDeltas <- NoDeltas
  MaxBig = 0
  InitSample = 0
INIT Init
NEXT Next
INVARIANTS TypeOK ModelReadBack ModelHeader ModelCount ModelPts ModelPremiseAssemblesAll ModelKeyGate ModelWholeFrames
CHECK_DEADLOCK FALSE
