CONSTANTS
  RecordPath = FALSE
  MaxSteps = 4
  MaxTrs = 2
  Kinds = {"audio", "video"}
  Dirs = {"sendrecv", "sendonly", "recvonly", "inactive"}
  Ops = {"addTransceiver", "addTrack", "removeTrack", "stop", "createDC", "offerOnly", "negotiate", "setMid", "presetMid", "addSimulcast"}
INIT Init
NEXT Next
VIEW view
INVARIANTS ModelUniqueMids ModelHistoryStable ModelNoMidReuse ModelOneSectionPerAssociatedTransceiver ModelDistinctTransceiverMids ModelApplicationIff
PROPERTIES ModelMidNeverChanges
CHECK_DEADLOCK FALSE
