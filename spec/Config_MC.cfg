CONSTANTS
  Impl = "asis"
  Twice = TRUE
  N = 0
INIT Init
NEXT Next
INVARIANTS ModelHolds ModelClasses EmitVec
CHECK_DEADLOCK FALSE
