CONSTANTS
  Impl = "comment"
INIT Init
NEXT Next
VIEW view
INVARIANTS TypeOK TableFacts
PROPERTIES ModelNotify ModelAggregate
CHECK_DEADLOCK FALSE
