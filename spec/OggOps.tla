------------------------------- MODULE OggOps ------------------------------
(* Property C33 - Ogg/Opus writer output is valid Ogg that reads back as    *)
(* the written packets. Normative operators only: the oracle, used as       *)
(* invariants of the generative model (Ogg.tla) and as predicates on pages  *)
(* recorded from the real writers (Ogg_Trace.tla).                          *)
(*                                                                          *)
(* A page of one logical stream is a record with at least                   *)
(*   bos, cont, eos  header-type flags                                      *)
(*   seq             page sequence number                                   *)
(*   gran            granule position, -1 for "no packet finishes here"     *)
(*   kind            "head" (payload starts with OpusHead), "tags"          *)
(*                   (OpusTags) or anything else                            *)
(*   segs            the segment table, run-length encoded:                 *)
(*                   <<[v |-> lacing value, c |-> repetitions], ...>>       *)
EXTENDS Integers, Sequences, FiniteSets, TLC

Max(a, b) == IF a > b THEN a ELSE b
Min(a, b) == IF a < b THEN a ELSE b

(* ---- lacing (RFC 3533 section 5) ---------------------------------------- *)
\* a packet of n bytes is laced as n div 255 values 255 followed by n mod 255 (possibly 0)
Lacing(n) == [i \in 1..((n \div 255) + 1) |-> IF i <= n \div 255 THEN 255 ELSE n % 255]

RECURSIVE Expand(_)
Expand(rle) == IF rle = <<>> THEN <<>>
               ELSE [i \in 1..Head(rle).c |-> Head(rle).v] \o Expand(Tail(rle))

RECURSIVE NSegs(_)
NSegs(rle) == IF rle = <<>> THEN 0 ELSE Head(rle).c + NSegs(Tail(rle))
RECURSIVE SegBytes(_)
SegBytes(rle) == IF rle = <<>> THEN 0 ELSE Head(rle).v * Head(rle).c + SegBytes(Tail(rle))

(* ---- joining the pages of one logical stream into packets ---------------- *)
\* The reader every Ogg demuxer implements: lacing values are accumulated, a value < 255 ends a packet,
\* a packet may continue on the next page, which must then carry the continuation flag. A page without
\* the flag while a packet is pending drops the pending part; a page with the flag while nothing is
\* pending skips up to the next packet start.
\* State: open (a packet is pending), carry (its bytes so far), skip, pk (lengths of the completed
\* packets), fin (packets completed on the current page).
JoinInit == [open |-> FALSE, carry |-> 0, skip |-> FALSE, pk |-> <<>>, fin |-> 0]

RunStep(st, v, c) ==
  IF c = 0 THEN st
  ELSE IF v = 255 THEN (IF st.skip THEN st ELSE [st EXCEPT !.carry = @ + 255 * c, !.open = TRUE])
  ELSE LET st1 == IF st.skip THEN [st EXCEPT !.skip = FALSE]
                  ELSE [st EXCEPT !.pk = Append(@, st.carry + v), !.carry = 0, !.open = FALSE, !.fin = @ + 1]
       IN [st1 EXCEPT !.pk = @ \o [i \in 1..(c - 1) |-> v], !.fin = @ + (c - 1)]

RECURSIVE RunsStep(_, _)
RunsStep(st, rle) == IF rle = <<>> THEN st ELSE RunsStep(RunStep(st, Head(rle).v, Head(rle).c), Tail(rle))

PageStep(st, p) ==
  RunsStep([st EXCEPT !.fin = 0,
                      !.skip = p.cont /\ ~st.open,
                      !.carry = IF p.cont THEN @ ELSE 0,
                      !.open = IF p.cont THEN @ ELSE FALSE], p.segs)

\* result: pk = packet lengths in order, fins[i] = packets completed on page i, open = a packet is left unfinished
RECURSIVE JoinFrom(_, _, _, _)
JoinFrom(ps, i, st, fins) ==
  IF i > Len(ps) THEN [pk |-> st.pk, fins |-> fins, open |-> st.open]
  ELSE LET s2 == PageStep(st, ps[i]) IN JoinFrom(ps, i + 1, s2, Append(fins, s2.fin))
Join(ps) == JoinFrom(ps, 1, JoinInit, <<>>)

(* ---- Opus TOC byte (RFC 6716 section 3.1, table 2) ----------------------- *)
\* samples per frame at 48 kHz for configuration 0..31
FrameSamples ==
  << 480, 960, 1920, 2880,    \*  0.. 3  SILK NB   10, 20, 40, 60 ms
     480, 960, 1920, 2880,    \*  4.. 7  SILK MB
     480, 960, 1920, 2880,    \*  8..11  SILK WB
     480, 960,                \* 12..13  Hybrid SWB 10, 20 ms
     480, 960,                \* 14..15  Hybrid FB
     120, 240, 480, 960,      \* 16..19  CELT NB   2.5, 5, 10, 20 ms
     120, 240, 480, 960,      \* 20..23  CELT WB
     120, 240, 480, 960,      \* 24..27  CELT SWB
     120, 240, 480, 960 >>    \* 28..31  CELT FB
\* frames per packet: code 0 - one, codes 1 and 2 - two, code 3 - the low six bits of the second byte
FrameCount(toc, b1) == CASE toc % 4 = 0 -> 1 [] toc % 4 \in {1, 2} -> 2 [] OTHER -> b1 % 64
SamplesOf(toc, b1) == FrameSamples[(toc \div 8) + 1] * FrameCount(toc, b1)
\* at most 120 ms of audio per packet
ValidOpus(toc, b1, n) == n >= 1 /\ (toc % 4 = 3 => n >= 2) /\ FrameCount(toc, b1) >= 1 /\ SamplesOf(toc, b1) <= 5760

RECURSIVE SumTo(_, _)
SumTo(s, k) == IF k <= 0 THEN 0 ELSE s[k] + SumTo(s, k - 1)     \* s[1] + ... + s[k]

(* ---- structure of one logical stream ------------------------------------- *)
LastSegContinues(p) == p.segs # <<>> /\ p.segs[Len(p.segs)].v = 255 /\ p.segs[Len(p.segs)].c > 0

\* starts with a beginning-of-stream OpusHead page (and only that page carries the flag)
StreamBos(ps) == Len(ps) >= 1 /\ ps[1].bos /\ ps[1].kind = "head" /\ \A i \in 2..Len(ps) : ~ps[i].bos
\* then OpusTags: the second page starts the OpusTags packet
StreamTagsSecond(ps) == Len(ps) >= 2 /\ ~LastSegContinues(ps[1]) /\ ps[2].kind = "tags" /\ ~ps[2].cont
\* sequence numbers increase by one from 0
StreamSeq(ps) == \A i \in 1..Len(ps) : ps[i].seq = i - 1
\* the last page carries end-of-stream
StreamEos(ps) == Len(ps) >= 1 /\ ps[Len(ps)].eos

(* ---- granule positions ---------------------------------------------------- *)
\* samples: sample counts of the written data packets, in order. The first two packets of the stream are
\* the headers (0 samples). A page on which a packet finishes carries the cumulative sample count of all
\* packets finished so far; a page on which none finishes carries -1 (or, as libogg does for an empty
\* final page, that same count - both are accepted).
GranuleExact(ps, samples) ==
  LET J == Join(ps) IN
  \A i \in 1..Len(ps) :
     LET done == SumTo(J.fins, i)
         cum  == SumTo(samples, Max(0, Min(done - 2, Len(samples))))
     IN IF J.fins[i] > 0 THEN ps[i].gran = cum ELSE ps[i].gran \in {-1, cum}
GranuleMonotone(ps) ==
  \A i, j \in 1..Len(ps) : (i < j /\ ps[i].gran # -1 /\ ps[j].gran # -1) => ps[i].gran <= ps[j].gran

(* ---- packets -------------------------------------------------------------- *)
\* joining the pages yields the two header packets and then exactly the written packets (lengths: lens),
\* nothing is left unfinished
PacketLengthsRoundTrip(ps, lens) ==
  LET J == Join(ps) IN
  /\ ~J.open
  /\ Len(J.pk) = 2 + Len(lens)
  /\ \A j \in 1..Len(lens) : J.pk[2 + j] = lens[j]
\* same packets byte for byte: rec / wr are sequences of [n |-> length, h |-> hash]
PacketsSame(rec, wr) == rec = wr
=============================================================================
