CONSTANTS
  Impl = "intended"
  Codecs = {"h264", "h265"}
  MTUs = {40, 128}
  Sizes = {"s", "m-", "m", "m+", "e0", "g1", "g2", "g0", "h1"}
  MaxNals = 2
  Openers = {FALSE, TRUE}
  Aggs = {TRUE}
  Types264 = {1, 5, 7}
  Types265 = {1, 19, 39}
  Emit = TRUE
INIT Init
NEXT Next
INVARIANTS Correct TailAlways PktfixExactUnlessAggN EmitVec
CHECK_DEADLOCK FALSE
