CONSTANT Impl = "asis"
INIT Init
NEXT Next
INVARIANTS ModelLegalAnswer ModelDtlsOpposite
CHECK_DEADLOCK FALSE
