CONSTANTS
  Impl = "intended"
  Space = "thorough"
INIT Init
NEXT Next
INVARIANTS ModelNoPanic ModelProgress ModelTerminates ModelInsideInput ModelBasesValid
CHECK_DEADLOCK FALSE
