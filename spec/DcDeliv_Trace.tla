----------------------------- MODULE DcDeliv_Trace -----------------------------
(* Trace specification for C19.  created: channel parameters at the creator;    *)
(* remote: the same channel as announced to the peer; sent: a message accepted   *)
(* by Send (k-th on that channel; the line is written after Send returned, the   *)
(* receive side may therefore log first); recv: the k-th message OnMessage got   *)
(* on that channel; end: how many were received (k) of how many sent (len).      *)
(* Delivery is judged at `end`, when both logs are complete, position by         *)
(* position, for channels that are reliable and ordered.                         *)
EXTENDS TraceKit

VARIABLES pos, viol, cnt, made, sent, got     \* per channel label: parameters, messages sent, messages received

Get(f, c) == IF c \in DOMAIN f THEN f[c] ELSE <<>>
Put(f, c, v) == [x \in (DOMAIN f) \cup {c} |-> IF x = c THEN v ELSE f[x]]
Msg(e) == <<e.len, e.hash, e.str>>

Preds(e) ==
  \* settled: everything arrived, or nothing arrived any more for 20 s (a run that was still making progress
  \* when the driver gave up says nothing about completeness)
  LET en == e.ev = "end" /\ e.reliable /\ e.ordered /\ e.settled
      s == Get(sent, e.ch)
      g == Get(got, e.ch)
  IN {
   P("C19", "ParamsMirrored", e.ev = "remote" /\ e.ch \in DOMAIN made,
        made[e.ch] = <<e.ordered, e.mr, e.ml, e.protocol>>),
   P("C19", "AppearsOnRemote", e.ev = "end" /\ e.settled, e.str),
   P("C19", "ExactlyOnce", en, Len(g) = Len(s)),
   P("C19", "FifoIntact", e.ev = "end" /\ e.reliable /\ e.ordered, \A i \in 1..Len(g) : i <= Len(s) /\ g[i] = s[i])
  }

Init == pos = 1 /\ viol = {} /\ cnt = EmptyCount /\ made = [x \in {} |-> <<>>] /\ sent = [x \in {} |-> <<>>] /\ got = [x \in {} |-> <<>>]
Step ==
  /\ pos <= Len(Trace)
  /\ LET e == Trace[pos] IN
       IF e.ev = "reset"
       THEN made' = [x \in {} |-> <<>>] /\ sent' = [x \in {} |-> <<>>] /\ got' = [x \in {} |-> <<>>] /\ UNCHANGED <<viol, cnt>>
       ELSE LET ps == Preds(e) IN
            /\ viol' = Merge(viol, Failures(ps, e, pos)) /\ cnt' = Count(cnt, ps)
            /\ made' = IF e.ev = "created" THEN Put(made, e.ch, <<e.ordered, e.mr, e.ml, e.protocol>>) ELSE made
            /\ sent' = IF e.ev = "sent" THEN Put(sent, e.ch, Append(Get(sent, e.ch), Msg(e))) ELSE sent
            /\ got'  = IF e.ev = "recv" THEN Put(got, e.ch, Append(Get(got, e.ch), Msg(e))) ELSE got
  /\ pos' = pos + 1
Done == pos = Len(Trace) + 1 /\ UNCHANGED <<pos, viol, cnt, made, sent, got>>
Next == Step \/ Done
Rep  == Report(pos, viol, cnt)
=============================================================================
