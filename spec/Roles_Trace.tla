----------------------------- MODULE Roles_Trace -----------------------------
(* Trace specification for C13: one line per configuration vector run on a    *)
(* real pair: the a=setup values of the answer, the DTLS role each transport  *)
(* computed once it was started, the ICE role of each agent.                  *)
EXTENDS RolesOps, TraceKit

VARIABLES pos, viol, cnt

Ctl(r) == r = "controlling"
Preds(e) ==
  LET r == e.ev = "roles" IN {
   P("C13", "AnswerNotActpass", r /\ Len(e.setups) > 0, \A i \in 1..Len(e.setups) : AnswerSetupOK(e.setups[i])),
   P("C13", "DtlsOpposite", r /\ e.dtlsKnown, e.offDtls # e.ansDtls),
   P("C13", "DtlsMatchesSetup", r /\ e.dtlsKnown /\ Len(e.setups) > 0 /\ AnswerSetupOK(e.setups[1]),
        e.ansDtls = RoleOfAnswerer(e.setups[1]) /\ e.offDtls = RoleOfOfferer(e.setups[1])),
   P("C13", "ExactlyOneControlling", r /\ e.iceKnown, Ctl(e.offIce) # Ctl(e.ansIce)),
   P("C13", "IceRolePerRfc8445", r /\ e.iceKnown, IceRoleOK(e.offLite, e.ansLite, Ctl(e.offIce), Ctl(e.ansIce)))
  }

Init == pos = 1 /\ viol = {} /\ cnt = EmptyCount
Step ==
  /\ pos <= Len(Trace)
  /\ LET e == Trace[pos] IN
       IF e.ev = "reset" THEN UNCHANGED <<viol, cnt>>
       ELSE LET ps == Preds(e) IN viol' = Merge(viol, Failures(ps, e, pos)) /\ cnt' = Count(cnt, ps)
  /\ pos' = pos + 1
Done == pos = Len(Trace) + 1 /\ UNCHANGED <<pos, viol, cnt>>
Next == Step \/ Done
Rep  == Report(pos, viol, cnt)
=============================================================================
