------------------------------- MODULE JsepOps ----------------------------
(* JSEP / W3C signaling state machine with pending/current description     *)
(* bookkeeping (properties C01, C02, C03).                                  *)
(*                                                                          *)
(* Normative operators: the only oracle. Used as invariants of the         *)
(* generative model (Jsep.tla) and as predicates on recorded traces         *)
(* (Jsep_Trace.tla).                                                        *)
EXTENDS Naturals, Sequences, FiniteSets, TLC, Json

Sig   == {"stable", "have-local-offer", "have-remote-offer",
          "have-local-pranswer", "have-remote-pranswer", "closed"}
Side  == {"local", "remote"}
SType == {"offer", "pranswer", "answer", "rollback"}
None  == "none"

\* <<from, side, type, to>>. The first eight are JSEP 3.2 / W3C 4.3.1; the next
\* four are the re-offer / repeated-pranswer self-loops W3C also allows (pion
\* rejects them, which C01's "only if" direction permits); the last four are the
\* rollback edges exactly as property C02 words them.
JsepEdges ==
  { <<"stable", "local", "offer", "have-local-offer">>,
    <<"stable", "remote", "offer", "have-remote-offer">>,
    <<"have-local-offer", "remote", "answer", "stable">>,
    <<"have-local-offer", "remote", "pranswer", "have-remote-pranswer">>,
    <<"have-remote-pranswer", "remote", "answer", "stable">>,
    <<"have-remote-offer", "local", "answer", "stable">>,
    <<"have-remote-offer", "local", "pranswer", "have-local-pranswer">>,
    <<"have-local-pranswer", "local", "answer", "stable">>,
    <<"have-local-offer", "local", "offer", "have-local-offer">>,
    <<"have-remote-offer", "remote", "offer", "have-remote-offer">>,
    <<"have-local-pranswer", "local", "pranswer", "have-local-pranswer">>,
    <<"have-remote-pranswer", "remote", "pranswer", "have-remote-pranswer">>,
    <<"have-local-offer", "local", "rollback", "stable">>,
    <<"have-local-pranswer", "local", "rollback", "stable">>,
    <<"have-remote-offer", "remote", "rollback", "stable">>,
    <<"have-remote-pranswer", "remote", "rollback", "stable">> }

JsepEdge(s, side, ty)   == \E e \in JsepEdges : e[1] = s /\ e[2] = side /\ e[3] = ty
JsepTarget(s, side, ty) == (CHOOSE e \in JsepEdges : e[1] = s /\ e[2] = side /\ e[3] = ty)[4]

\* the edges C02 requires to be accepted
RollbackEdge(s, side) ==
  \/ side = "local"  /\ s \in {"have-local-offer", "have-local-pranswer"}
  \/ side = "remote" /\ s \in {"have-remote-offer", "have-remote-pranswer"}

\* Bookkeeping of the four slots; b is a record [pendL, pendR, curL, curR] of
\* description identities (or None); d is the identity of the applied description.
Apply(b, side, ty, d) ==
  CASE ty = "rollback" -> [b EXCEPT !.pendL = None, !.pendR = None]
    [] ty = "answer" /\ side = "local"  ->
         [pendL |-> None, pendR |-> None, curL |-> d,       curR |-> b.pendR]
    [] ty = "answer" /\ side = "remote" ->
         [pendL |-> None, pendR |-> None, curL |-> b.pendL, curR |-> d]
    [] side = "local"  -> [b EXCEPT !.pendL = d]     \* offer, pranswer
    [] OTHER           -> [b EXCEPT !.pendR = d]

StableNoPending(s, b) == s = "stable" => b.pendL = None /\ b.pendR = None
PendingElse(p, c)     == IF p # None THEN p ELSE c

=============================================================================
