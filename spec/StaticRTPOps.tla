---------------------------- MODULE StaticRTPOps ----------------------------
(* Property C29: a packet written to a TrackLocalStaticRTP reaches every    *)
(* currently bound sender exactly once, rewritten with that sender's SSRC   *)
(* and negotiated payload type, everything else unchanged; the caller's     *)
(* packet is never modified; nothing reaches a binding after its removal.   *)
(*                                                                          *)
(* Normative operators only.  A *delivery* is a record                      *)
(*     [id, ssrc, pt, rest]                                                 *)
(* where id names the sender (TrackLocalContext.ID), ssrc / pt are the two  *)
(* header fields the track must rewrite and `rest` is the projection of     *)
(* every other header field and of the payload.  `recv` is the sequence of  *)
(* deliveries one write call produced, in the order they were made.         *)
EXTENDS Naturals, Sequences, FiniteSets, TLC, Json

TimesTo(recv, id) == Cardinality({i \in DOMAIN recv : recv[i].id = id})

\* every currently bound sender gets the packet exactly once
EachBoundOnce(bset, recv) == \A id \in bset : TimesTo(recv, id) = 1

\* nothing is delivered to a sender that is not (or no longer) bound
OnlyBound(bset, recv) == \A i \in DOMAIN recv : recv[i].id \in bset

\* Two calls that overlap in time may take effect in either order.  A write that overlaps a Bind or
\* Unbind is right if its deliveries are right for the set S of senders bound before that call or for
\* the set bound after it:
LinearizedOn(S, recv) == EachBoundOnce(S, recv) /\ OnlyBound(S, recv)

\* ctx maps a sender id to what was negotiated for it: [ssrc, pt]
RewrittenHeader(ctx, recv) ==
  \A i \in DOMAIN recv :
     /\ recv[i].id \in DOMAIN ctx
     /\ recv[i].ssrc = ctx[recv[i].id].ssrc
     /\ recv[i].pt   = ctx[recv[i].id].pt

\* payload and all other header fields are those of the caller's packet
RestUnchanged(rest, recv) == \A i \in DOMAIN recv : recv[i].rest = rest

\* deep snapshots of the caller's packet taken before and after the call
CallerUntouched(before, after) == before = after

\* The padding length has two homes in pion/rtp (Header.PaddingSize and the
\* deprecated Packet.PaddingSize).  What goes on the wire is one number: the
\* header's if it is set, else the packet's.  `rest` carries that number, so
\* moving it from one home to the other is not a change of the packet.
EffectivePad(hpad, ppad) == IF hpad # 0 THEN hpad ELSE ppad
=============================================================================
