CONSTANTS
  Impl = "intended"
  Clocks <- ClocksSmall
  Chans <- ChansSmall
  Partners = 0
  Groups = 16
  Emit = FALSE
INIT Init
NEXT Next
INVARIANTS ModelSymmetricAndCaseInsensitive ModelDefaultsSelfMatch
CHECK_DEADLOCK FALSE
