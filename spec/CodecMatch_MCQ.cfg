CONSTANTS
  Impl = "intended"
  Clocks <- ClocksTiny
  Chans <- ChansSmall
  Partners = 0
  Groups = 16
  Emit = FALSE
INIT Init
NEXT Next
INVARIANTS ModelSymmetricAndCaseInsensitive ModelDefaultsSelfMatch
CHECK_DEADLOCK FALSE
