\* exhaustive (thorough tier: two codecs, all constructors, two dimensions, three frames), header / frame count / PTS: timebases, direct mode, start timestamps around the 32-bit
\* wrap, increments, seekable or not; single-packet frames, streams that satisfy the premise
CONSTANTS
  Codecs = {"VP8", "AV1"}
  Mtus = {40}
  MaxFrames = 3
  Sizes = {5}
  RelSizes = FALSE
  MaxRandPk = 0
  Rates <- RatesAll
  Starts <- StartsWrap
  Deltas <- DeltasPtsT
  MaxRandDelta = 0
  Directs = {FALSE, TRUE}
  Ctors <- CtorsAll
  Dims <- DimsTwo
  Lossy = FALSE
  NonKeyStart = FALSE
  Pads = FALSE
  Sample = FALSE
  Emit = FALSE
  RdLimit = 1048576
  BigDeltas <- NoDeltas
  MaxBig = 0
  InitSample = 0
INIT Init
NEXT Next
INVARIANTS TypeOK ModelReadBack ModelHeader ModelCount ModelPts ModelPremiseAssemblesAll ModelKeyGate ModelWholeFrames
CHECK_DEADLOCK FALSE
