------------------------------ MODULE NegNeeded ------------------------------
(* The W3C "update the negotiation-needed flag" algorithm as pion implements   *)
(* it (peerconnection.go onNegotiationNeeded / negotiationNeededOp /           *)
(* checkNegotiationNeeded, run through the operations queue), for a pair of    *)
(* endpoints whose calls are sequential and whose queued work drains between   *)
(* calls (C04).                                                                *)
(*   unsent[p]   changes of p that no offer of p carries yet                   *)
(*   inflight[p] changes carried by p's pending offer                          *)
(*   flag[p]     [[NegotiationNeeded]]                                         *)
(*   fires[p]    events fired since p's last completed exchange                *)
EXTENDS Naturals, Sequences, FiniteSets, TLC, Json

CONSTANTS MaxSteps, MaxChanges, RecordPath

Peers == {"A", "B"}
Other(p) == IF p = "A" THEN "B" ELSE "A"
VARIABLES sig, closed, unsent, inflight, flag, fires, everFired, dcs, n, last, log, path
vars == <<sig, closed, unsent, inflight, flag, fires, everFired, dcs, n, last, log, path>>

Init == /\ sig = [p \in Peers |-> "stable"] /\ closed = [p \in Peers |-> FALSE]
        /\ unsent = [p \in Peers |-> 0] /\ inflight = [p \in Peers |-> 0]
        /\ flag = [p \in Peers |-> FALSE] /\ fires = [p \in Peers |-> 0] /\ everFired = [p \in Peers |-> 0]
        /\ dcs = [p \in Peers |-> 0] /\ n = 0 /\ last = [op |-> "init"] /\ log = <<>> /\ path = <<>>

Tick == n < MaxSteps /\ n' = n + 1

\* negotiationNeededOp with an empty chain: returns the new flag and whether the event fires
Needed(p, u) == u > 0
Op(p, s, c, u, f) ==       \* signaling state, closed, unsent changes, flag  ->  <<flag', fired>>
  IF c \/ s # "stable" THEN <<f, FALSE>>
  ELSE IF ~Needed(p, u) THEN <<FALSE, FALSE>>
  ELSE IF f THEN <<TRUE, FALSE>> ELSE <<TRUE, TRUE>>

Change(p, kind) ==
  /\ Tick /\ ~closed[p] /\ unsent[p] + inflight[p] < MaxChanges
  /\ kind = "createDC" => dcs[p] < 2
  /\ LET needs == kind # "createDC" \/ dcs[p] = 0        \* only the first data channel needs an m-section
         u  == IF needs THEN unsent[p] + 1 ELSE unsent[p]
         r  == Op(p, sig[p], closed[p], u, flag[p])
     IN /\ unsent' = [unsent EXCEPT ![p] = u]
        /\ flag' = [flag EXCEPT ![p] = r[1]]
        /\ fires' = [fires EXCEPT ![p] = IF r[2] THEN @ + 1 ELSE @]
        /\ everFired' = [everFired EXCEPT ![p] = IF r[2] THEN @ + 1 ELSE @]
        /\ log' = IF r[2] THEN Append(log, [who |-> p, sig |-> sig[p], closed |-> closed[p]]) ELSE log
  /\ dcs' = [dcs EXCEPT ![p] = IF kind = "createDC" THEN @ + 1 ELSE @]
  /\ UNCHANGED <<sig, closed, inflight>>
  /\ last' = [op |-> "change", who |-> p, kind |-> kind]

\* p creates an offer and applies it; the peer applies it too
Offer(p) ==
  /\ Tick /\ \A q \in Peers : sig[q] = "stable" /\ ~closed[q]
  /\ sig' = [sig EXCEPT ![p] = "have-local-offer", ![Other(p)] = "have-remote-offer"]
  /\ inflight' = [inflight EXCEPT ![p] = unsent[p]]
  /\ unsent' = [unsent EXCEPT ![p] = 0]
  /\ UNCHANGED <<closed, flag, fires, everFired, dcs, log>>
  /\ last' = [op |-> "offer", who |-> p]

\* the peer answers and both apply the answer: both become stable, flags are cleared and re-evaluated
Answer(p) ==      \* p is the offerer whose exchange completes
  /\ Tick /\ sig[p] \in {"have-local-offer", "have-remote-pranswer"} /\ \A q \in Peers : ~closed[q]
  /\ LET q  == Other(p)
         rp == Op(p, "stable", FALSE, unsent[p], FALSE)
         rq == Op(q, "stable", FALSE, unsent[q], FALSE)
     IN /\ sig' = [x \in Peers |-> "stable"]
        /\ inflight' = [inflight EXCEPT ![p] = 0]
        /\ flag' = [x \in Peers |-> IF x = p THEN rp[1] ELSE rq[1]]
        /\ fires' = [x \in Peers |-> IF (IF x = p THEN rp[2] ELSE rq[2]) THEN 1 ELSE 0]
        /\ everFired' = [x \in Peers |-> everFired[x] + (IF (IF x = p THEN rp[2] ELSE rq[2]) THEN 1 ELSE 0)]
        /\ log' = log \o (IF rq[2] THEN <<[who |-> q, sig |-> "stable", closed |-> FALSE]>> ELSE <<>>)
                      \o (IF rp[2] THEN <<[who |-> p, sig |-> "stable", closed |-> FALSE]>> ELSE <<>>)
  /\ UNCHANGED <<closed, unsent, dcs>>
  /\ last' = [op |-> "answer", who |-> p]

\* the peer answers provisionally first (pranswer): it is in have-local-pranswer, p in have-remote-pranswer;
\* nothing is evaluated (neither endpoint is stable), changes made now wait like those made during an offer
PrAnswer(p) ==
  /\ Tick /\ sig[p] = "have-local-offer" /\ \A q \in Peers : ~closed[q]
  /\ sig' = [sig EXCEPT ![p] = "have-remote-pranswer", ![Other(p)] = "have-local-pranswer"]
  /\ UNCHANGED <<closed, unsent, inflight, flag, fires, everFired, dcs, log>>
  /\ last' = [op |-> "pranswer", who |-> p]

Close(p) ==
  /\ Tick /\ ~closed[p]
  /\ closed' = [closed EXCEPT ![p] = TRUE]
  /\ UNCHANGED <<sig, unsent, inflight, flag, fires, everFired, dcs, log>>
  /\ last' = [op |-> "close", who |-> p]

Step == \/ \E p \in Peers, k \in {"addTrack", "addTransceiver", "createDC"} : Change(p, k)
        \/ \E p \in Peers : Offer(p) \/ PrAnswer(p) \/ Answer(p) \/ Close(p)
Next == Step /\ path' = IF RecordPath THEN Append(path, last') ELSE path

\* ---- normative statements on the model
OnlyWhenStableOpen == \A i \in 1..Len(log) : log[i].sig = "stable" /\ ~log[i].closed
NoSecondFire == \A p \in Peers : fires[p] <= 1
FiresWhenNeeded == \A p \in Peers : (sig[p] = "stable" /\ ~closed[p] /\ unsent[p] > 0) => fires[p] >= 1

EmitPath == (n = MaxSteps \/ ~ENABLED Step) => PrintT(<<"VERIF_PATH", ToJson(path)>>)
EmitEdge == PrintT(<<"VERIF_EDGE", ToJson([f |-> [n |-> n], a |-> last', t |-> [n |-> n']])>>)
=============================================================================
