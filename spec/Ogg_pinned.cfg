\* the originally pinned code (before the repair ada877e): the legacy writer on a plain io.Writer closes without an
\* EOS page; TLC is expected to report ModelEos violated (documented counterexample, not the current code)
CONSTANTS
  Impl = "pinned"
  Apis = {"NewWith"}
  MaxTracks = 2
  MaxPackets = 1
  Sizes <- SizesFew
  MaxRandSize = 0
  MaxRandBig = 0
  TocBytes = {0, 99}
  B1s = {3, 13}
  Empties = TRUE
  Bufs = {"fresh"}
  ChCfgs <- ChTwo
  TagCfgs <- TagTwo
  Rates <- RatesOne
  Sample = FALSE
  Emit = FALSE
  InitSample = 0
INIT Init
NEXT Next
INVARIANTS TypeOK ModelPageShape ModelBos ModelTags ModelSeq ModelEos ModelGranule ModelPackets ModelBodies ModelEosOnlyLast ModelBosFirst
CHECK_DEADLOCK FALSE
