CONSTANTS
  Rates = {90000}
  StartSet = {"zero"}
  DurKinds = {"third", "s30"}
  Drops = {0}
  Sizes = {1}
  MaxLen = 8
  SeqOpts = {TRUE}
  TsOpts = {TRUE}
  Rebinds = FALSE
  Impl = "trunc"
INIT Init
NEXT Next
INVARIANTS ModelSameTs ModelNoDrift ModelSeqPlusOne ModelDropSkips
CHECK_DEADLOCK FALSE
