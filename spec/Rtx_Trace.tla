----------------------------- MODULE Rtx_Trace ------------------------------
(* Trace specification for C26.  One line per RTX packet pushed into the     *)
(* repair stream of a real RTPReceiver: `in` is the RFC 3550 / RFC 4588 view *)
(* of the packet that was sent, `res` says whether TrackRemote.Read then     *)
(* returned a repaired packet ("delivered") or fell through to the primary   *)
(* stream ("dropped"), `out` is the view of what Read returned, `att` the    *)
(* RTX attributes Read returned, `prim` the primary stream's payload type    *)
(* and SSRC.  A line with ev = "crash" is written by the plan when the       *)
(* driver process died while that packet was being processed.                *)
EXTENDS RtxOps, TraceKit

VARIABLES l, viol, cnt

Preds(e) ==
  LET short == TooShort(e.in) IN
  IF e.ev = "crash"
  THEN { P("C26", "ShortDroppedNoCrash", short, FALSE),
         P("C26", "NoCrash", ~short, FALSE) }
  ELSE LET del == e.res = "delivered" /\ ~short
           ok  == e.out.ok IN
       { P("C26", "ShortDroppedNoCrash", short, e.res = "dropped"),
         \* The property speaks of "the packet TrackRemote.Read delivers" for *any* retransmission
         \* packet: with the repair queue empty and its reader running (the driver hands packets
         \* over one at a time), the next Read must hand out the repaired packet, not fall
         \* through to the primary stream.
         P("C26", "UnwrappedDelivered", ~short, e.res = "delivered"),
         P("C26", "SeqIsOsn", del, ok /\ SeqIsOsn(e.in, e.out)),
         P("C26", "SsrcPtPrimary", del, ok /\ SsrcPtPrimary(e.out, e.prim)),
         P("C26", "PayloadMinusOsn", del, ok /\ PayloadMinusOsn(e.in, e.out)),
         P("C26", "OtherHeaderFieldsSame", del, ok /\ OtherHeaderFieldsSame(e.in, e.out)),
         P("C26", "AttributesCarryRtx", del, AttributesCarryRtx(e.in, e.att)) }

Init == l = 1 /\ viol = {} /\ cnt = EmptyCount

Step ==
  /\ l <= Len(Trace)
  /\ LET e == Trace[l] IN
       IF e.ev = "reset"
       THEN UNCHANGED <<viol, cnt>>
       ELSE LET ps == Preds(e) IN
            /\ viol' = viol \cup Failures(ps, e, l)
            /\ cnt'  = Count(cnt, ps)
  /\ l' = l + 1

Done == l = Len(Trace) + 1 /\ UNCHANGED <<l, viol, cnt>>
Next == Step \/ Done
Rep  == Report(l, viol, cnt)
=============================================================================
